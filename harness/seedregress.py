"""re-runs every confirmed seeded change (seeded/<id>/patch.diff + demo.py) against the current checks: python3 -m harness.seedregress [ids...]"""
import os, sys, json, glob, subprocess
VERIF = os.path.dirname(os.path.dirname(os.path.abspath(__file__)))


def main(argv):
    for d in sorted(glob.glob(os.path.join(VERIF, 'seeded', '*'))):
        sid = os.path.basename(d)
        mp = os.path.join(d, 'meta.json')
        if not os.path.exists(mp) or (argv and sid not in argv):
            continue
        m = json.load(open(mp))
        checks = list(m['checks'])
        prop = m['property']
        extra = [c for c in checks if c != prop]
        tmp = os.path.join('/tmp', 'sr_' + sid)
        os.makedirs(tmp, exist_ok=True)
        for f in ('patch.diff', 'demo.py', 'NOTE.md'):
            if os.path.exists(os.path.join(d, f)):
                subprocess.run(['cp', os.path.join(d, f), tmp])
        note = m.get('note')
        r = subprocess.run([sys.executable, '-m', 'harness.seedtest', sid, prop, tmp, 'patch.diff', 'demo.py', 'NOTE.md'] + extra,
                           cwd=VERIF, env=dict(os.environ, PYTHONPATH=VERIF), stdout=subprocess.PIPE, stderr=subprocess.STDOUT, timeout=7200)
        print(r.stdout.decode().strip().splitlines()[-1] if r.stdout.strip() else sid + ' no output', flush=True)
        if note:
            m2 = json.load(open(mp)); m2['note'] = note; json.dump(m2, open(mp, 'w'), indent=1)
        subprocess.run(['rm', '-rf', tmp])


if __name__ == '__main__':
    main(sys.argv[1:])

"""End-to-end infrastructure: synthetic CMAP data sets, real COMA runs (Program(args, extensions=[capture]) in a subprocess),
independent CMAP/XMAP text parsers, a run cache keyed by the source hash."""
import os, sys, json, re, hashlib, subprocess, collections, shutil, time
from . import common

CACHE = os.path.join(common.WORK, 'e2e_cache')


# ------------------------------------------------------------------------------------------------ files
def scrambled(maps):
    """the molecules in a fixed pseudo-random order that depends only on their ids: CMAP files are not required to list molecules by
    ascending id, so the generated files do not (the reader's own ordering must provide whatever order the program relies on)"""
    return sorted(maps, key=lambda m: hashlib.md5(str(m[0]).encode()).hexdigest())


def write_cmap(path, maps, shuffle_rng=None, extra_cols=False, scramble=True):
    """maps: list of (id, length, [positions]); positions/length with at most one decimal"""
    rows = []
    for (mid, length, pos) in (scrambled(maps) if scramble else maps):
        n = len(pos)
        for i, p in enumerate(pos):
            rows.append((mid, length, n, i + 1, 1, p))
        rows.append((mid, length, n, n + 1, 0, length))
    if shuffle_rng is not None:
        shuffle_rng.shuffle(rows)
        if scramble:
            # the molecules make their FIRST appearance in the opposite order to the unshuffled file (one row of each is moved to the
            # front), so that a reader which keeps first-appearance order sees every pair of molecules in both orders
            lead = []
            for m in reversed(scrambled(maps)):
                k = next(i for i, r in enumerate(rows) if r[0] == m[0])
                lead.append(rows.pop(k))
            rows = lead + rows
    with open(path, 'w') as f:
        f.write("# CMAP File Version:\t0.1\n# Label Channels:\t1\n# Nickase Recognition Site 1:\tunknown\n# Number of Consensus Maps:\t%d\n" % len(maps))
        f.write("#h CMapId\tContigLength\tNumSites\tSiteID\tLabelChannel\tPosition\tStdDev\tCoverage\tOccurrence\n")
        f.write("#f int\tfloat\tint\tint\tint\tfloat\tfloat\tfloat\tfloat\n")
        for (mid, length, n, sid, ch, p) in rows:
            f.write("%d\t%.1f\t%d\t%d\t%d\t%.1f\t0.0\t1.0\t1.0\n" % (mid, length, n, sid, ch, p))


def read_cmap_indep(path):
    """independent minimal CMAP parser: {id: dict(labels=[sorted floats], end=float)} for every molecule"""
    maps = collections.OrderedDict()
    for line in open(path):
        if line.startswith('#') or not line.strip():
            continue
        c = line.rstrip('\n').split('\t')
        mid = int(c[0]); ch = int(c[4]); pos = float(c[5])
        m = maps.setdefault(mid, dict(labels=[], end=None))
        if ch == 0:
            if m['end'] is None:
                m['end'] = pos
        else:
            m['labels'].append(pos)
    for m in maps.values():
        m['labels'].sort()
    return maps


def parse_xmap(path):
    """independent XMAP parser: (header lines, records)"""
    hdr, rows = [], []
    for line in open(path):
        if line.startswith('#'):
            hdr.append(line.rstrip('\n')); continue
        if not line.strip():
            continue
        c = line.rstrip('\n').split('\t')
        rows.append(dict(id=int(c[0]), q=int(c[1]), r=int(c[2]), qs=c[3], qe=c[4], rs=c[5], re=c[6], ori=c[7], conf=c[8], hit=c[9],
                         qlen=c[10], rlen=c[11], rest=c[12], ch=c[13],
                         pairs=[(int(a), int(b)) for a, b in re.findall(r'\((\d+),(\d+)\)', c[14])], alignment=c[14], ncols=len(c), raw=line.rstrip('\n')))
    return hdr, rows


# ------------------------------------------------------------------------------------------------ data sets
def gen_ref(rng, n, spacings=(2000, 3000, 5000, 8000, 12000, 20000, 9000, 15000)):
    pos = [rng.choice([1000.0, 5000.0, 20.0])]
    for _ in range(n - 1):
        pos.append(round(pos[-1] + rng.choice(spacings) + rng.choice([0, 0.5, 13, 250, 777]), 1))
    return pos


def gen_mixed(rng, nref=2, nlab=220, nq=30):
    """references + queries of several kinds: exact, noisy, indel (-> multi-pass joins), chimera, stretch, both strands, offsets"""
    refs = []
    for rid in rng.sample(range(1, 30), nref):
        pos = gen_ref(rng, nlab)
        refs.append((rid, pos[-1] + 5000.0, pos))
    refs.sort()
    qs = []; truth = {}
    qid = rng.randint(1, 500)
    for k in range(nq):
        rid, rl, rp = rng.choice(refs)
        a = rng.randint(0, len(rp) - 50); n = rng.randint(8, 40)
        w = rp[a:a + n]
        kind = rng.choice(['exact', 'noisy', 'indel', 'indel', 'chimera', 'stretch', 'partial'])
        q = [p - w[0] for p in w]
        if kind == 'noisy':
            q = [p + rng.choice([0, 100, -100, 300, -200, 500]) for p in q if rng.random() > 0.1]
            q += [rng.uniform(0, q[-1]) for _ in range(rng.randint(0, 3))]
        elif kind == 'indel':
            c = rng.randint(3, max(3, len(q) - 3)); d = rng.choice([3000, 8000, -1500, 20000, 40000, 60000])
            q = q[:c] + [p + d for p in q[c:]]
        elif kind == 'chimera':
            rid2, rl2, rp2 = rng.choice(refs); b = rng.randint(0, len(rp2) - 50); w2 = rp2[b:b + rng.randint(8, 30)]
            q = q + [q[-1] + 5000 + (p - w2[0]) for p in w2]
        elif kind == 'stretch':
            s = rng.choice([0.97, 1.02, 1.04]); q = [p * s for p in q]
        elif kind == 'partial':      # half of the molecule is random: first pass aligns a part, the rest is unalignable
            g = [0.0]
            for _ in range(rng.randint(6, 14)): g.append(g[-1] + rng.choice([2500, 4200, 7100, 11000, 16000]))
            if rng.random() < 0.5:
                q = q + [q[-1] + 4000 + x for x in g]
            else:
                q = g + [g[-1] + 4000 + x for x in q]
        q = sorted(set(round(max(0, p), 1) for p in q))
        if len(q) < 2:
            continue
        rev = rng.random() < 0.5
        if rev:
            q = [round(q[-1] - p, 1) for p in q[::-1]]
        off = rng.choice([0, 20.0, 1234.5])
        q = [round(p + off, 1) for p in q]
        qs.append((qid, q[-1] + rng.choice([0.0, 500.0, 3000.0]), q))
        truth[qid] = dict(kind=kind, ref=rid, start=a, n=n, rev=rev)
        qid += rng.choice([1, 1, 7])
    return dict(refs=refs, queries=qs, truth=truth, kind='mixed')


def dataset_dir(tag):
    d = os.path.join(common.WORK, 'e2e_data', tag)
    os.makedirs(d, exist_ok=True)
    return d


def materialise(ds, tag, shuffle_rng=None):
    d = dataset_dir(tag)
    write_cmap(os.path.join(d, 'r.cmap'), ds['refs'], shuffle_rng)
    write_cmap(os.path.join(d, 'q.cmap'), ds['queries'], shuffle_rng)
    ds['dir'] = d
    ds['tag'] = tag
    return ds


# ------------------------------------------------------------------------------------------------ runs
class RunResult:
    def __init__(self, d):
        self.dir = d
        meta = json.load(open(os.path.join(d, 'meta.json')))
        self.rc = meta['rc']; self.stderr = meta['stderr']; self.wall = meta['wall']; self.args = meta['args']
        self.files = {}
        for k, fn in (('main', 'o.xmap'), ('_1', 'o_1.xmap'), ('_2', 'o_2.xmap')):
            p = os.path.join(d, fn)
            if os.path.exists(p):
                self.files[k] = p
        self._cap = None

    @property
    def capture(self):
        if self._cap is None:
            p = os.path.join(self.dir, 'capture.jsonl')
            self._cap = [json.loads(l) for l in open(p)] if os.path.exists(p) else []
        return self._cap

    def records(self, which='main'):
        return parse_xmap(self.files[which])[1] if which in self.files else None


def run_coma(refpath, qpath, args=(), cpus=1, capture=True, jitter=None, timeout=900, use_cache=True, cli=False):
    """runs COMA on the given files in a subprocess. args: extra CLI arguments (e.g. ['-oM','all','-d','1200'])."""
    args = [str(a) for a in args]
    key = hashlib.sha256(json.dumps([common.source_hash(), open(refpath).read(), open(qpath).read(), args, cpus, bool(capture), jitter, cli]).encode()).hexdigest()[:24]
    d = os.path.join(CACHE, key)
    if use_cache and os.path.exists(os.path.join(d, 'meta.json')):
        return RunResult(d)
    if os.path.exists(d):
        shutil.rmtree(d)
    os.makedirs(d)
    out = os.path.join(d, 'o.xmap')
    env = dict(os.environ, PYTHONPATH=common.REPO + ':' + common.VERIF, PYTHONHASHSEED='0', COMA_VERIF='1')
    t0 = time.time()
    if cli:
        cmd = ['/venv/bin/python', '-m', 'src.program', '-r', refpath, '-q', qpath, '-o', out, '-pb', '-c', str(cpus)] + args
        cwd = common.REPO
    else:
        cmd = ['/venv/bin/python', '-m', 'harness.e2e_runner', json.dumps(dict(
            argv=['-r', refpath, '-q', qpath, '-o', out, '-pb', '-c', str(cpus)] + args,
            capture=os.path.join(d, 'capture.jsonl') if capture else None, jitter=jitter))]
        cwd = common.VERIF
    try:
        p = subprocess.run(cmd, cwd=cwd, env=env, stdout=subprocess.PIPE, stderr=subprocess.PIPE, timeout=timeout)
        rc, err = p.returncode, p.stderr.decode('utf-8', 'replace')[-3000:]
    except subprocess.TimeoutExpired:
        rc, err = 124, 'timeout after %ss' % timeout
    json.dump(dict(rc=rc, stderr=err, wall=time.time() - t0, args=args), open(os.path.join(d, 'meta.json'), 'w'))
    return RunResult(d)


def run_many(jobs, workers=None):
    """jobs: list of kwargs for run_coma; run in parallel (each job is a subprocess)"""
    from concurrent.futures import ThreadPoolExecutor
    with ThreadPoolExecutor(max_workers=workers or common.NCPU) as ex:
        return list(ex.map(lambda kw: run_coma(**kw), jobs))


def clean_cache(max_entries=400):
    if not os.path.isdir(CACHE):
        return
    ents = sorted((os.path.getmtime(os.path.join(CACHE, e)), e) for e in os.listdir(CACHE))
    for _, e in ents[:-max_entries]:
        shutil.rmtree(os.path.join(CACHE, e), ignore_errors=True)


# ------------------------------------------------------------------------------------------------ record-level oracles (text only)
def f1(x):
    return float(x)


def check_record_fields(r, refs, qrys, errs, tag=''):
    """C02 on one record, from the file text against the CMAP text (independent parsers). refs/qrys from read_cmap_indep."""
    R = refs.get(r['r']); Q = qrys.get(r['q'])
    if R is None: errs.append('%sRefContigID %d names no input reference map' % (tag, r['r'])); return
    if Q is None: errs.append('%sQryContigID %d names no input query map' % (tag, r['q'])); return
    if r['ori'] not in ('+', '-'): errs.append('%sOrientation %r' % (tag, r['ori'])); return
    P = r['pairs']
    if not P: return
    rl, ql = R['labels'], Q['labels']
    if any(not (1 <= a <= len(rl) and 1 <= b <= len(ql)) for a, b in P): return     # C01's business
    rev = r['ori'] == '-'
    if abs(f1(r['rlen']) - int(R['end'])) > 0.05: errs.append('%squery %d: RefLen %s, reference end marker %s' % (tag, r['q'], r['rlen'], R['end']))
    if abs(f1(r['qlen']) - (ql[-1] - ql[0] + 1)) > 0.051: errs.append('%squery %d: QryLen %s, expected last-first+1 = %.1f' % (tag, r['q'], r['qlen'], ql[-1] - ql[0] + 1))
    if abs(f1(r['rs']) - rl[P[0][0] - 1]) > 0.051: errs.append('%squery %d: RefStartPos %s, first listed reference label at %.1f' % (tag, r['q'], r['rs'], rl[P[0][0] - 1]))
    if abs(f1(r['re']) - rl[P[-1][0] - 1]) > 0.051: errs.append('%squery %d: RefEndPos %s, last listed reference label at %.1f' % (tag, r['q'], r['re'], rl[P[-1][0] - 1]))
    qa, qb = P[0][1], P[-1][1]
    if not rev:
        es, ee = ql[qa - 1] - ql[0], ql[qb - 1] - ql[0]
    else:
        es, ee = ql[-1] - ql[qb - 1], ql[-1] - ql[qa - 1]
        es, ee = ql[-1] - ql[min(qa, qb) - 1], ql[-1] - ql[max(qa, qb) - 1]
    if abs(f1(r['qs']) - es) > 0.051 or abs(f1(r['qe']) - ee) > 0.051:
        errs.append("%squery %d (%s, AlignedRest %s): QryStartPos/QryEndPos %s/%s, expected %.1f/%.1f" % (tag, r['q'], r['ori'], r['rest'], r['qs'], r['qe'], es, ee))
    if (not rev and f1(r['qs']) > f1(r['qe'])) or (rev and f1(r['qs']) < f1(r['qe'])):
        errs.append('%squery %d: start/end order contradicts orientation %s' % (tag, r['q'], r['ori']))


def check_record_matching(r, refs, qrys, errs, tag=''):
    """C01 on one record from the file text"""
    P = r['pairs']; rev = r['ori'] == '-'
    if not P: errs.append('%srecord for query %d has no pair' % (tag, r['q'])); return
    R = refs.get(r['r']); Q = qrys.get(r['q'])
    if R is None or Q is None: errs.append('%srecord names an unknown map (%d, %d)' % (tag, r['q'], r['r'])); return
    nr, nq = len(R['labels']), len(Q['labels'])
    for (a, b) in P:
        if not (1 <= a <= nr and 1 <= b <= nq):
            errs.append('%squery %d: pair (%d,%d) names a label that does not exist (reference has %d, query has %d labels)' % (tag, r['q'], a, b, nr, nq)); return
    for (a1, b1), (a2, b2) in zip(P, P[1:]):
        if not a1 < a2: errs.append('%squery %d: reference labels not strictly ascending: (%d,%d) then (%d,%d)' % (tag, r['q'], a1, b1, a2, b2)); return
        if (not rev and not b1 < b2) or (rev and not b1 > b2):
            errs.append("%squery %d on '%s': query labels not strictly monotone: (%d,%d) then (%d,%d)" % (tag, r['q'], r['ori'], a1, b1, a2, b2)); return


def check_record_hitenum(r, errs, tag=''):
    from .props.C03 import replay_hitenum
    P = r['pairs']
    if not P: return
    got = replay_hitenum(r['hit'], P[0], -1 if r['ori'] == '-' else 1)
    if got is None: errs.append('%squery %d: HitEnum %r is not a well-formed run-length string' % (tag, r['q'], r['hit']))
    elif got != [list(p) for p in P]: errs.append('%squery %d: replaying HitEnum %r does not reproduce the listed pairs' % (tag, r['q'], r['hit']))

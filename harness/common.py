"""Common machinery of the /verif checks (see DESIGN.md section 2).

Every check = (A) proof obligations in coq/props/<id>.v, (B) correspondence between the Gallina model
(evaluated by vm_compute inside Coq on generated cases_*.v files) and /repo's current code,
(C) an executable oracle of the property itself on the implementation's outputs.
"""
import os, sys, json, time, random, subprocess, hashlib, re, shutil, traceback, collections
from concurrent.futures import ThreadPoolExecutor

VERIF = os.path.dirname(os.path.dirname(os.path.abspath(__file__)))
REPO = os.environ.get('COMA_REPO', '/repo')
COQ = os.path.join(VERIF, 'coq')
WORK = os.environ.get('COMA_WORK', os.path.join(VERIF, 'work'))
EVID = os.environ.get('COMA_EVIDENCE', os.path.join(VERIF, 'evidence'))
REPLAYS = os.environ.get('COMA_REPLAYS', os.path.join(VERIF, 'replays'))
COQFLAGS = ['-Q', 'model', '', '-Q', 'proofs', '', '-Q', 'props', '']
NCPU = min(16, os.cpu_count() or 4)
ALLOWED_AXIOMS = ()   # every property theorem is expected to be closed; extend only with stdlib axioms named in DESIGN.md §8

FORBIDDEN = re.compile(r'\b(Admitted|admit|Axiom|Parameter|Conjecture|Unset Guard|bypass_check|Admit Obligations|type-in-type|impredicative-set)\b')


def sh(cmd, cwd=None, timeout=600, env=None):
    try:
        p = subprocess.run(cmd, cwd=cwd, stdout=subprocess.PIPE, stderr=subprocess.STDOUT, timeout=timeout, env=env)
        return p.returncode, p.stdout.decode('utf-8', 'replace')
    except subprocess.TimeoutExpired as e:
        return 124, (e.stdout or b'').decode('utf-8', 'replace') + '\n[timeout after %ss]' % timeout


# ---------------------------------------------------------------------------------------------- A. proofs
def coq_build():
    """full .vo build of the development (no-op when up to date)"""
    files = ['%s/%s' % (sub, fn) for sub in ('model', 'proofs', 'props') for fn in sorted(os.listdir(os.path.join(COQ, sub)))
             if fn.endswith('.v')]
    proj = '-Q model ""\n-Q proofs ""\n-Q props ""\n' + '\n'.join(files) + '\n'
    pp = os.path.join(COQ, '_CoqProject')
    if not os.path.exists(pp) or open(pp).read() != proj or not os.path.exists(os.path.join(COQ, 'Makefile')):
        open(pp, 'w').write(proj)
        rc, out = sh(['coq_makefile', '-f', '_CoqProject', '-o', 'Makefile'], cwd=COQ, timeout=60)
        if rc != 0:
            return False, out
    rc, out = sh(['make', '-j%d' % NCPU], cwd=COQ, timeout=1500)
    return rc == 0, out[-4000:]


def strip_comments(text):
    """removes (possibly nested) Coq comments, keeping line structure"""
    out, depth, i = [], 0, 0
    while i < len(text):
        if text.startswith('(*', i):
            depth += 1; i += 2; continue
        if text.startswith('*)', i) and depth > 0:
            depth -= 1; i += 2; continue
        if depth == 0 or text[i] == '\n':
            out.append(text[i])
        i += 1
    return ''.join(out)


def scan_forbidden():
    """Admitted/admit/Axiom/Parameter/Conjecture/guard switches anywhere; Variable/Hypothesis/Context outside a Section"""
    hits = []
    for sub in ('model', 'proofs', 'props'):
        d = os.path.join(COQ, sub)
        for fn in sorted(os.listdir(d)):
            if fn.endswith('.v'):
                code = strip_comments(open(os.path.join(d, fn), encoding='utf-8').read())
                depth = 0
                for i, line in enumerate(code.split('\n'), 1):
                    if FORBIDDEN.search(line):
                        hits.append('%s/%s:%d: %s' % (sub, fn, i, line.strip()))
                    if re.match(r'\s*Section\s+\w+\s*\.', line):
                        depth += 1
                    elif re.match(r'\s*End\s+\w+\s*\.', line) and depth > 0:
                        depth -= 1
                    elif depth == 0 and re.match(r'\s*(Variables?|Hypothes[ie]s|Context)\b', line):
                        hits.append('%s/%s:%d: outside a Section: %s' % (sub, fn, i, line.strip()))
    return hits


def props_check(pid):
    """compile props/<pid>.v, collect the theorems and what Print Assumptions says about each"""
    src = open(os.path.join(COQ, 'props', pid + '.v'), encoding='utf-8').read()
    theorems = re.findall(r'^(?:Theorem|Corollary)\s+(\w+)', src, re.M)
    examples = re.findall(r'^Example\s+(\w+)', src, re.M)
    printed = re.findall(r'^Print Assumptions\s+(\w+)\.', src, re.M)
    rc, out = sh(['coqc'] + COQFLAGS + ['props/%s.v' % pid], cwd=COQ, timeout=900)
    res = dict(theorems=theorems, examples=examples, compiled=(rc == 0), assumptions={}, log=out[-3000:] if rc != 0 else '')
    if rc == 0:
        # one block per Print Assumptions, in order
        blocks = re.split(r'(?m)^(?=Closed under the global context|Axioms:)', out)
        blocks = [b.strip() for b in blocks if b.strip().startswith(('Closed under', 'Axioms:'))]
        for name, b in zip(printed, blocks):
            res['assumptions'][name] = 'Closed under the global context' if b.startswith('Closed') else re.sub(r'\s+', ' ', b)
    bad = []
    for t in theorems:
        a = res['assumptions'].get(t)
        if a is None:
            bad.append('%s: no Print Assumptions output' % t)
        elif not a.startswith('Closed'):
            names = re.findall(r'^\s*([\w.]+)\s*:', a.replace('Axioms:', '\n'), re.M)
            if not names or any(n.split('.')[-1] not in ALLOWED_AXIOMS for n in names):
                bad.append('%s: %s' % (t, a))
    forb = scan_forbidden()
    res['forbidden'] = forb
    res['undischarged'] = bad
    res['obligations'] = len(theorems)
    res['discharged'] = (len(theorems) - len(bad)) if (rc == 0 and not forb) else 0
    res['ok'] = rc == 0 and not bad and not forb and len(theorems) > 0
    return res


def coqchk(pid):
    rc, out = sh(['coqchk', '-silent', '-o'] + COQFLAGS + [pid], cwd=COQ, timeout=1800)
    return rc == 0, out[-3000:]


# ---------------------------------------------------------------------------------------------- B. model runner
def z(x):
    return '(%d)' % int(x)


def zl(l):
    return '[' + ';'.join(z(x) for x in l) + ']'


def cb(b):
    return 'true' if b else 'false'


def cstr(s):
    return '"' + s.replace('"', '""') + '"%string'


def clist(items):
    return '[' + ';'.join(items) + ']'


def run_cases_v(pid, name, prelude, terms, shard=400, timeout=600, case_type=None):
    """terms: list of Coq terms of the case type; prelude defines `check : <case type> -> Z` (0 = agreement).
    Returns dict(evaluated, bad=[(index, code)], errors=[...])."""
    d = os.path.join(WORK, pid)
    os.makedirs(d, exist_ok=True)
    for fn in os.listdir(d):
        if fn.startswith(name + '_'):
            os.remove(os.path.join(d, fn))
    shards = [terms[i:i + shard] for i in range(0, len(terms), shard)]
    files = []
    for k, sh_terms in enumerate(shards):
        fn = os.path.join(d, '%s_%03d.v' % (name, k))
        with open(fn, 'w') as f:
            f.write(prelude + '\n')
            # the list is elaborated against the argument type of `check`, so empty sub-lists in the cases need no annotation
            if case_type:
                f.write('Definition cases : list %s := [\n' % case_type + ';\n'.join(sh_terms) + '].\n')
                f.write('Definition codes := List.map check cases.\n')
            else:
                f.write('Definition codes := List.map check [\n' + ';\n'.join(sh_terms) + '].\n')
            f.write('Eval vm_compute in (List.length codes, codes).\n')
        files.append(fn)

    def one(fn):
        return sh(['coqc'] + COQFLAGS + ['-Q', d, 'Work', fn], cwd=COQ, timeout=timeout)

    res = dict(evaluated=0, bad=[], errors=[], files=len(files))
    with ThreadPoolExecutor(max_workers=NCPU) as ex:
        outs = list(ex.map(one, files))
    for k, (rc, out) in enumerate(outs):
        if rc != 0:
            res['errors'].append('%s: rc=%d %s' % (os.path.basename(files[k]), rc, out[-1500:]))
            continue
        m = re.search(r'=\s*\((.*)\)\s*:\s*nat \* list Z', out, re.S)
        if not m:
            res['errors'].append('%s: unparsable output %s' % (os.path.basename(files[k]), out[-500:]))
            continue
        nums = [int(x) for x in re.findall(r'-?\d+', m.group(1))]
        n, codes = nums[0], nums[1:]
        if n != len(shards[k]) or len(codes) != n:
            res['errors'].append('%s: count mismatch %d vs %d/%d' % (os.path.basename(files[k]), n, len(shards[k]), len(codes)))
            continue
        res['evaluated'] += n
        for i, c in enumerate(codes):
            if c != 0:
                res['bad'].append((k * shard + i, c))
    for fn in files:      # keep sources of failing shards only
        base = fn[:-2]
        for ext in ('.vo', '.vok', '.vos', '.glob', '.aux'):
            for cand in (base + ext, os.path.join(os.path.dirname(fn), '.' + os.path.basename(base) + ext)):
                if os.path.exists(cand):
                    os.remove(cand)
    return res


# ---------------------------------------------------------------------------------------------- evidence / verdict
def known_findings():
    p = os.path.join(VERIF, 'known_findings.json')
    return json.load(open(p)) if os.path.exists(p) else dict(open=[], fixed=[])


def source_hash():
    h = hashlib.sha256()
    for root in ('src', 'sv'):
        for dp, dn, fns in sorted(os.walk(os.path.join(REPO, root))):
            dn.sort()
            for fn in sorted(fns):
                if fn.endswith('.py'):
                    p = os.path.join(dp, fn)
                    h.update(p.encode())
                    h.update(open(p, 'rb').read())
    return h.hexdigest()


def file_hashes():
    out = {}
    for root in ('src', 'sv'):
        for dp, dn, fns in sorted(os.walk(os.path.join(REPO, root))):
            dn.sort()
            for fn in sorted(fns):
                if fn.endswith('.py'):
                    p = os.path.join(dp, fn)
                    out[os.path.relpath(p, REPO)] = hashlib.sha256(open(p, 'rb').read()).hexdigest()
    return out


def changed_since_baseline():
    """source files of /repo that differ from the tree the model was last validated against (harness/baseline.json).  A change is no
    alarm: it only makes the check search harder (more generated cases, with the model) for the properties anchored in those files."""
    p = os.path.join(VERIF, 'harness', 'baseline.json')
    if not os.path.exists(p):
        return []
    base = json.load(open(p))
    cur = file_hashes()
    return sorted(f for f in set(base) | set(cur) if base.get(f) != cur.get(f))


def anchors_of(pid):
    for line in open(os.path.join(VERIF, 'properties.jsonl')):
        j = json.loads(line)
        if j['id'] == pid:
            return list(j.get('anchors', {}).get('files', []))
    return []


PIPELINE_FILES = ['src/alignment/aligner.py', 'src/alignment/alignment_position.py', 'src/alignment/alignment_position_scorer.py',
                  'src/alignment/segments.py', 'src/alignment/segments_factory.py', 'src/alignment/segment_chainer.py',
                  'src/alignment/segment_with_resolved_conflicts.py', 'src/alignment/alignment_results.py', 'src/correlation/optical_map.py',
                  'src/correlation/peak.py']
PIPELINE_PROPS = {'C01', 'C04', 'C09', 'C11', 'C15', 'C06', 'C07'}
E2E_PROPS = {'C01', 'C02', 'C04', 'C05', 'C06', 'C07', 'C08', 'C09', 'C10', 'C11', 'C03'}


def relevant_files(pid):
    """the source files whose change makes check <pid> search harder: the property's anchors, the candidate pipeline for the
    properties that evaluate the pipeline model, and every file under src/ for the properties that run COMA end to end"""
    rel = set(anchors_of(pid))
    if pid in PIPELINE_PROPS:
        rel |= set(PIPELINE_FILES)
    if pid in E2E_PROPS:
        rel |= set(f for f in file_hashes() if f.startswith('src/') and '/diagnostic/plot' not in f and not f.endswith('plot_alignments.py'))
    return rel


class Report:
    """collects what one check run did and turns it into evidence + verdict"""

    def __init__(self, pid, tier, seed):
        self.pid, self.tier, self.seed = pid, tier, seed
        self.t0 = time.time()
        self.proof = None
        self.corr = []          # dicts: name, evaluated, disagreements
        self.oracle_evals = 0
        self.violations = []    # (kind, description, replay dict)
        self.known = []
        self.dist = collections.Counter()
        self.samples = []
        self.nontrivial = set()
        self.evaluations = 0
        self.notes = []
        self.assumptions = []
        self.extra = {}

    def add_violation(self, kind, what, replay, no_input=False):
        self.violations.append(dict(kind=kind, what=what, replay=replay, no_input=no_input))

    def write_replay(self, v, idx):
        d = os.path.join(REPLAYS, self.pid)
        os.makedirs(d, exist_ok=True)
        p = os.path.join(d, '%s_%s_%d.json' % (self.pid, v['kind'], idx))
        with open(p, 'w') as f:
            json.dump(dict(property=self.pid, kind=v['kind'], what=v['what'], seed=self.seed, tier=self.tier,
                           replay=v['replay']), f, indent=1, default=str)
        return p

    def finish(self, rule, checker_cmd, trusted):
        wall = time.time() - self.t0
        pr = self.proof or dict(obligations=0, discharged=0, assumptions={}, theorems=[])
        cov = dict(
            obligations=pr.get('obligations', 0), discharged=pr.get('discharged', 0),
            checker_cmd=checker_cmd,
            trusted_base=trusted + ['Print Assumptions %s: %s' % (k, v) for k, v in pr.get('assumptions', {}).items()],
            theorems=pr.get('theorems', []), examples=pr.get('examples', []),
            evaluations=int(self.evaluations), distinct_nontrivial=len(self.nontrivial), rule=rule,
            samples=self.samples[:6] or ['(no case generated)'],
            correspondence=self.corr, oracle_evaluations=int(self.oracle_evals),
            disagreements_checked=sum(c.get('disagreements', 0) for c in self.corr),
            input_distribution=dict(self.dist), known_findings_matched=self.known, notes=self.notes,
            exhaustive=bool(self.extra.get('exhaustive', False)))
        cov.update({k: v for k, v in self.extra.items() if k != 'exhaustive'})
        ev = dict(property_id=self.pid, tier=self.tier, seed=int(self.seed), level='proof', coverage=cov,
                  assumptions=self.assumptions, wall_s=round(wall, 2), violations=len(self.violations))
        os.makedirs(EVID, exist_ok=True)
        with open(os.path.join(EVID, self.pid + '.json'), 'w') as f:
            json.dump(ev, f, indent=1, default=str)
        for k in self.known:
            print('KNOWN-FINDING: property=%s %s' % (self.pid, k))
        if not self.violations:
            print('OK property=%s tier=%s obligations=%d/%d correspondence_cases=%d oracle_evals=%d wall=%.1fs' % (
                self.pid, self.tier, cov['discharged'], cov['obligations'],
                sum(c.get('evaluated', 0) for c in self.corr), self.oracle_evals, wall))
            return 0
        # real failing inputs first
        vs, seen = [], set()
        for v in sorted(self.violations, key=lambda v: v['no_input']):
            key = (v['kind'], re.sub(r'\d+', '#', v['what'])[:160])
            if key not in seen:
                seen.add(key)
                vs.append(v)
        for i, v in enumerate(vs[:5]):
            p = self.write_replay(v, i)
            print('%s: %s' % (v['kind'], v['what'][:300]))
            print('VIOLATION property=%s replay=%s%s' % (self.pid, p, ' no-failing-input-found' if v['no_input'] else ''))
        return 1


def seeded_rng(seed, *salt):
    h = hashlib.sha256(('%d|' % seed + '|'.join(str(s) for s in salt)).encode()).digest()
    return random.Random(int.from_bytes(h[:8], 'big'))


TRUSTED_COMMON = [
    'Coq 8.16.1 kernel (coqc), vm_compute for evaluation of the model on generated cases; no native_compute',
    'no Axiom/Parameter/Admitted in /verif/coq (scanned on every run)',
    'hand-written Gallina transliteration of the Python (tie = this correspondence run, bounded by generator quality)',
    'Python harness: generators, adapters building Python objects from a case, canonicalisation of outputs',
]

"""Planted copies among diverged duplicates (property C06, open finding F13).

gen_reference    a single reference inside C06's quantifier (every label spacing >= 2 kb, mean >= 9 kb, spacings 2-25 kb) that contains
                 the TRUE window (15-45 labels, >= 4 labels from either end) and k DECOYS: diverged duplicates of the window elsewhere in
                 the reference (one or two labels missing, one extra label, one interval longer/shorter by 0.5-1.5 kb, one label displaced
                 by 1-3 kb; direct or inverted), separated by 3-8 unrelated labels.
recompute        the primary seeding stage re-implemented from its description, independent of /repo, of scipy and of the Coq model:
                 1400-bp bins, blur 1, normalised correlation 2*overlap / (reference ones in the window + query ones) as exact rationals,
                 plateaus -> height >= 3/4 max -> at most one peak per ceil(20000/1400) = 15 bins (higher first), the peaksCount = 3 highest
                 per strand, score = height - rms of the non-zero samples, the 3 best scores over both strands.
"""
import math
from fractions import Fraction

RES, BLUR, MPD, PCOUNT, MARGIN = 1400, 1, 20000, 3, 16000
KINDS = ['del1', 'del2', 'ins1', 'indel', 'move1']
CENTRE = math.ceil(RES / 2) - 1          # toRelativeGenomicPositions: bin k -> k * 1400 + 699
NEAR = 2100                              # a primary peak "at the true lag": position within 1.5 bins of the first label of the true window
EPS = 1e-9


def g05(x):
    return round(round(x * 2) / 2.0, 1)


def draw_gap(rng):
    return g05(min(25000.0, 2000 + rng.expovariate(1 / 7400.0)))


def diverge(w, kind, rng):
    """a diverged copy of the window w (relative positions, w[0] = 0); every spacing stays >= 2000"""
    n = len(w)
    w = list(w)
    for _ in range(60):
        if kind in ('del1', 'del2'):
            ks = sorted(rng.sample(range(1, n - 1), 1 if kind == 'del1' else 2))
            out = [p for i, p in enumerate(w) if i not in ks]
        elif kind == 'ins1':
            i = rng.randrange(0, n - 1)
            if w[i + 1] - w[i] < 4001: continue
            out = w[:i + 1] + [g05(rng.uniform(w[i] + 2000, w[i + 1] - 2000))] + w[i + 1:]
        elif kind == 'indel':            # one interval longer or shorter by 500-1500 bp: everything after it moves
            i = rng.randrange(1, n - 2)
            dl = g05(rng.choice([-1, 1]) * rng.uniform(500, 1500))
            if w[i + 1] - w[i] + dl < 2000: continue
            out = w[:i + 1] + [g05(p + dl) for p in w[i + 1:]]
        elif kind == 'move1':            # one label displaced by 1-3 kb
            i = rng.randrange(1, n - 1)
            dl = g05(rng.choice([-1, 1]) * rng.uniform(1000, 3000))
            p = g05(w[i] + dl)
            if p - w[i - 1] < 2000 or w[i + 1] - p < 2000: continue
            out = w[:i] + [p] + w[i + 1:]
        else:
            raise ValueError(kind)
        return out
    return [p for i, p in enumerate(w) if i != n // 2]


def gen_reference(rng, n, kinds, inverted, true_slot, phases, grid=g05):
    """flank (4-9 labels), the copies (true window at slot true_slot, the decoys in the other slots) separated by 3-8 unrelated labels,
    flank (4-9 labels).  phases[i]: position of the first label of copy i modulo the 1400-bp bin (None = wherever the drawn gap puts it;
    otherwise the gap before the copy is adjusted by less than one bin).  Returns pos, a (0-based index of the first true label), copies."""
    for attempt in range(400):
        gaps = [draw_gap(rng) for _ in range(n - 1)]
        w = [0.0]
        for gp in gaps: w.append(grid(w[-1] + gp))
        copies = []
        di = 0
        for slot in range(len(kinds) + 1):
            if slot == true_slot:
                copies.append(('true', list(w), phases[0]))
            else:
                d = diverge(w, kinds[di], rng)
                if inverted[di]:
                    d = [grid(d[-1] - p) for p in reversed(d)]
                copies.append((kinds[di] + ('/inv' if inverted[di] else ''), d, phases[1 + di]))
                di += 1
        pos = [grid(rng.choice([20.0, 1000.0, 5000.0, rng.uniform(0, 30000)]))]
        for _ in range(rng.randint(4, 9) - 1):
            pos.append(grid(pos[-1] + draw_gap(rng)))
        starts = []
        for ci, (nm, cw, ph) in enumerate(copies):
            if ci > 0:
                for _ in range(rng.randint(3, 8)):
                    pos.append(grid(pos[-1] + draw_gap(rng)))
            gp = draw_gap(rng)
            st = pos[-1] + gp
            if ph is not None:
                st = pos[-1] + 2000 + ((ph - (pos[-1] + 2000)) % RES) + RES * int((gp - 2000) // RES)
                if st - pos[-1] > 25000: st -= RES
            st = grid(st)
            starts.append((nm, len(pos), st, len(cw)))
            pos += [grid(st + p) for p in cw]
        for _ in range(rng.randint(4, 9)):
            pos.append(grid(pos[-1] + draw_gap(rng)))
        sp = [b - a for a, b in zip(pos, pos[1:])]
        if min(sp) >= 2000 and max(sp) <= 25000 and sum(sp) / len(sp) >= 9000:
            a = [s for s in starts if s[0] == 'true'][0][1]
            if a >= 4 and a + n <= len(pos) - 4:
                return dict(pos=pos, a=a, n=n, copies=[list(s) for s in starts], mean=sum(sp) / len(sp), min=min(sp), max=max(sp))
    raise RuntimeError('no reference within the quantifier after 400 draws')


def query_of(pos, a, n, rev, off, grid=g05):
    w = pos[a:a + n]
    return [grid(w[-1] - p + off) for p in reversed(w)] if rev else [grid(p - w[0] + off) for p in w]


# ------------------------------------------------------------------ independent recomputation of the primary seeding stage
def bins(positions, start=0.0):
    """vectorisePositions + blur(1): the set of occupied bins and the vector length"""
    b = sorted(set(int((p - start) // RES) for p in positions))
    L = b[-1] + 1
    s = set()
    for x in b:
        for y in range(x - BLUR, x + BLUR + 1):
            if 0 <= y < L: s.add(y)
    return s, L


def plateaus(x):
    out, n, i = [], len(x), 1
    while i < n - 1:
        j = i
        while j + 1 < n and x[j + 1] == x[i]: j += 1
        if x[i - 1] < x[i] and j < n - 1 and x[j + 1] < x[i]:
            out.append((i + j) // 2)
        i = j + 1
    return out


def primary_peaks(ref_pos, q_pos, rev, before_distance=False):
    """all primary peaks find_peaks keeps (before the peaksCount cut) on one strand: [(position bp, height Fraction, score float)];
    before_distance: every local maximum at or above the height border (what enters the distance condition)"""
    Br, Lr = bins(ref_pos)
    Bq, Lq = bins(q_pos, q_pos[0])
    if rev:
        Bq = set(Lq - 1 - b for b in Bq)
    nq = len(Bq)
    h = []
    inwin = sum(1 for b in Br if b < Lq)
    for lag in range(Lr - Lq + 1):
        if lag > 0:
            inwin += (1 if (lag + Lq - 1) in Br else 0) - (1 if (lag - 1) in Br else 0)
        ov = sum(1 for b in Bq if b + lag in Br)
        h.append(Fraction(2 * ov, inwin + nq))
    if not h:
        return []
    nz = [float(v) for v in h if v != 0]
    noise = math.sqrt(sum(v * v for v in nz) / len(nz)) if nz else 0.0
    thr = Fraction(3, 4) * max(h)
    pk = [m for m in plateaus(h) if h[m] >= thr]
    if before_distance:
        return [(m * RES + CENTRE, h[m], float(h[m]) - noise) for m in pk]
    d = math.ceil(MPD / RES)
    keep = {m: True for m in pk}
    for m in sorted(pk, key=lambda m: (h[m], m), reverse=True):
        if keep[m]:
            for o in pk:
                if o != m and abs(o - m) < d: keep[o] = False
    return [(m * RES + CENTRE, h[m], float(h[m]) - noise) for m in pk if keep[m]]


def recompute(ref_pos, q_pos):
    """peaks of both strands (dicts rev, pos, h, score, cut = dropped by the per-correlation peaksCount cut), the scores of the selection"""
    allp = []
    for rev in (False, True):
        pk = sorted(primary_peaks(ref_pos, q_pos, rev), key=lambda t: -t[1])
        allp += [dict(rev=rev, pos=p, h=float(hh), score=s, cut=(i >= PCOUNT)) for i, (p, hh, s) in enumerate(pk)]
    sel = sorted(allp, key=lambda p: -p['score'])[:PCOUNT]        # the cut per strand cannot remove one of the 3 best scores overall
    return allp, sel


def maxima(ref_pos, q_pos):
    """every local maximum at or above the height border, both strands (two maxima of EQUAL height closer than 15 bins: which one survives
    the distance condition depends on numpy's unstable argsort and on FFT rounding noise, so a refined seed is matched against these)"""
    return [dict(rev=rev, pos=p, h=float(hh), score=s) for rev in (False, True) for p, hh, s in primary_peaks(ref_pos, q_pos, rev, True)]


def analyse(ref_pos, q_pos, r_a, rev):
    """where the true locus stands in the ranking.  r_a = reference coordinate of the true window's first label.
    true: the kept primary peak of the true strand within NEAR of r_a (None if there is none); ge / gt: number of OTHER kept peaks whose
    score is >= (within 1e-9) / > that of the true peak; border: the lowest selected score"""
    allp, sel = recompute(ref_pos, q_pos)
    t = [p for p in allp if p['rev'] == rev and abs(p['pos'] - r_a) <= NEAR]
    t = max(t, key=lambda p: p['score']) if t else None
    res = dict(peaks=sorted(allp, key=lambda p: -p['score'])[:8], npeaks=len(allp), true=t, border=sel[-1]['score'] if sel else None, nsel=len(sel))
    if t is not None:
        res['ge'] = sum(1 for p in allp if p is not t and p['score'] >= t['score'] - EPS)
        res['gt'] = sum(1 for p in allp if p is not t and p['score'] > t['score'] + EPS)
    return res

"""Subprocess entry for C09: runs COMA's real Program in ONE process with `p_imap` replaced by its contract (an ordered map:
results in input order, whatever order the tasks complete in) under a PRESCRIBED schedule of the engine counter
(AlignerEngine.iteration) and of the task execution order.  The real pool unpickles a fresh coordinator for every task, so real runs
only ever show the schedule 'fresh'; the other schedules exercise, on the unchanged code, what coq/model/Pool.v quantifies over
(`its : nat -> Z` arbitrary):
  fresh        counter reset to 1 before every task (what multiprocess/dill does today)
  persistent   one process, counter never reset through both passes (the schedule of coq/model/Coordinator.v)
  random       tasks EXECUTED in a seeded random order, each starting from a seeded random counter (also 0 and negative values)
  workers:N    N simulated workers with private persistent counters, tasks dealt to them at random, executed in random order
  pool         the REAL p_imap with the -c of argv; _WorkflowCoordinator.execute is wrapped (in the parent process only) to record the
               order of the rows it returns next to the order of the queries it was given (p_imap's contract: input order), and a
               seeded per-task sleep inside the workers perturbs the completion order (extension, as harness/e2e_runner.py)
Only module attributes of THIS process are replaced; /repo is not modified."""
import sys, json, random, traceback


def main():
    cfg = json.loads(sys.argv[1])
    from src.args import Args
    from src.program import Program
    import src.workflow_coordinator as wc
    sched = cfg['sched']
    rnd = random.Random(cfg.get('seed', 0))
    holder = {}
    log = []

    def ordered_map(f, items, **kw):
        items = list(items)
        eng = holder['prog'].workflowCoordinator.aligner.alignmentEngine
        order = list(range(len(items)))
        results = [None] * len(items)
        if sched == 'fresh':
            for k in order:
                eng.iteration = 1
                results[k] = f(items[k])
        elif sched == 'persistent':
            for k in order:
                log.append(eng.iteration)
                results[k] = f(items[k])
        elif sched == 'random':
            rnd.shuffle(order)
            for k in order:
                eng.iteration = rnd.choice([0, 1, 2, 17, -3, 1000, 123456789, rnd.randint(-50, 5000)])
                log.append(eng.iteration)
                results[k] = f(items[k])
        elif sched.startswith('workers:'):
            n = int(sched.split(':')[1])
            counters = [rnd.choice([1, 1, 40, 1000]) for _ in range(n)]
            owner = [rnd.randrange(n) for _ in items]
            rnd.shuffle(order)
            for k in order:
                w = owner[k]
                eng.iteration = counters[w]
                log.append(eng.iteration)
                results[k] = f(items[k])
                counters[w] = eng.iteration
        else:
            raise ValueError(sched)
        return results

    exts = []
    orders = []
    if sched == 'pool':
        import time
        from src.extensions.extension import Extension
        from src.extensions.messages import CorrelationResultMessage
        jitter = cfg.get('seed', 0)

        class Jitter(Extension):
            messageType = CorrelationResultMessage

            def handle(self, m):
                r = random.Random('%s|%s|%s' % (jitter, int(m.initialAlignment.query.moleculeId), m.index))
                time.sleep(r.random() * 0.05)
        exts.append(Jitter())
        orig = wc._WorkflowCoordinator.execute

        def execute(self, referenceMaps, queryMaps):
            res = orig(self, referenceMaps, queryMaps)
            orders.append(dict(given=[int(q.moleculeId) for q in queryMaps], returned=[int(r.queryId) for r in res]))
            return res
        wc._WorkflowCoordinator.execute = execute
    else:
        wc.p_imap = ordered_map
    try:
        holder['prog'] = Program(Args.parse(cfg['argv']), exts)
        holder['prog'].run()
    except SystemExit:
        raise
    except BaseException:
        traceback.print_exc()
        sys.exit(3)
    if cfg.get('log'):
        json.dump(dict(counters=log[:2000], orders=orders), open(cfg['log'], 'w'))


if __name__ == '__main__':
    main()

"""End-to-end streams shared by several properties: a case is a generated data set + parameters; impl() runs the real COMA in the
four multi-pass output modes on it (subprocesses, cached by source hash) and returns the parsed files and the captured candidates."""
import os, json, random
from .driver import Stream
from . import e2e, common, pipeline as pl
from .common import seeded_rng

MODES = ['best', 'separate', 'joined', 'all']
PARAM_SETS = [
    [],
    ['-d', '1200', '-sp', '800', '-dp', '0.5', '-su', '-100', '-ms', '1500', '-bs', '900'],
    ['-d', '2000', '-sp', '1000', '-dp', '2', '-su', '-500', '-ms', '500', '-bs', '2400', '-sj', '0.5'],
    ['-p', '1'],
    ['-p', '6', '-diff', '20000', '-ss', '1'],
    ['-diff', '0'],
]


def params_of(extra):
    P = dict(pl.DEFAULT, p=3, diff=100000)
    m = {'-d': 'd', '-sp': 'sp', '-dp': 'dp', '-su': 'su', '-ms': 'ms', '-bs': 'bs', '-sj': 'sj', '-ss': 'ss', '-p': 'p', '-diff': 'diff'}
    for k, v in zip(extra[::2], extra[1::2]):
        P[m[k]] = float(v) if k in ('-dp', '-sj') else int(v)
    return P


def half(x):
    return round(x * 2) / 2.0


def add_twodel_queries(ds, rng, k):
    """molecules made of three nearby regions of one reference (two deletions): the first pass aligns the large middle region, the second
    pass both flanks (two fragments carrying the same molecule id)"""
    qid = max(q[0] for q in ds['queries']) + 11 if ds['queries'] else 1
    for _ in range(k):
        rid, rl, rp = rng.choice(ds['refs'])
        n1, n2, n3 = rng.randint(8, 12), rng.randint(20, 24), rng.randint(8, 12)
        s1, s2 = rng.randint(3, 6), rng.randint(3, 6)
        a = rng.randint(2, len(rp) - (n1 + n2 + n3 + s1 + s2) - 3)
        w1 = rp[a:a + n1]; b = a + n1 + s1; w2 = rp[b:b + n2]; c = b + n2 + s2; w3 = rp[c:c + n3]
        q = [p - w1[0] for p in w1]
        q += [q[-1] + 3000 + (p - w2[0]) for p in w2]
        q += [q[-1] + 3000 + (p - w3[0]) for p in w3]
        rev = rng.random() < 0.5
        if rev:
            q = [q[-1] - p for p in q[::-1]]
        q = [round(p + rng.choice([0, 20.0]), 1) for p in q]
        ds['queries'].append((qid, q[-1] + 500.0, q))
        ds['truth'][qid] = dict(kind='twodel', ref=rid, start=a, n=n1 + n2 + n3, rev=rev)
        qid += 3
    return ds


def add_duplicate_contig(ds, rng):
    """a third reference that is an exact copy of one of the others under another id (a duplicated contig): every query cut from it
    ties exactly between two references, so the record shows which of two equal candidates the program keeps (the one on the reference
    with the smaller id, whatever the order of the molecules in the file)"""
    rid, rl, rp = rng.choice(ds['refs'])
    used = {r[0] for r in ds['refs']}
    new = rng.choice([i for i in range(1, 40) if i not in used])
    ds['refs'] = sorted(ds['refs'] + [(new, rl, list(rp))])
    ds['duplicate_of'] = {new: rid}
    return ds


def add_palindromes(ds, rng):
    """a molecule that reads (almost) the same on both strands: label positions 1400*m_i + e_i with a palindromic sequence of bin
    numbers m_i and small non-symmetric offsets e_i < 100, planted at the end of one reference; the query set gets the molecule as it is
    and its mirror image.  The forward and the reverse candidate of such a query start from equal seeds (equal correlation vectors at both
    resolutions) and differ only at base-pair level, so the record shows whether BOTH strands really compete"""
    k = rng.randrange(len(ds['refs']))
    rid, rl, rp = ds['refs'][k]
    h = [rng.randint(2, 9) for _ in range(rng.randint(8, 12))]
    gaps = h + h[::-1]
    m = [0]
    for g in gaps:
        m.append(m[-1] + g)
    e = [0] + [rng.randint(40, 99) for _ in range(len(m) - 2)] + [99]
    mol = [1400 * a + b for a, b in zip(m, e)]
    start = float(int(rp[-1]) + 60000 + rng.choice([0, 48, 700]))
    planted = [start + x for x in mol]
    tail = [planted[-1] + 60000.0 + 9000.0 * i for i in range(3)]
    ds['refs'][k] = (rid, tail[-1] + 5000.0, list(rp) + planted + tail)
    qid = max([q[0] for q in ds['queries']] + [0]) + 5
    mirror = [mol[-1] - x for x in mol[::-1]]
    ds['queries'].append((qid, mol[-1] + 60.0, [x + 20.0 for x in mol]))
    ds['queries'].append((qid + 2, mol[-1] + 60.0, [x + 20.0 for x in mirror]))
    ds['truth'][qid] = dict(kind='palindrome', ref=rid, rev=False, n=len(mol))
    ds['truth'][qid + 2] = dict(kind='palindrome', ref=rid, rev=True, n=len(mol))
    return ds


def make_dataset(ds_seed, nq, nlab=200, twodel=None, dup=None):
    rng = random.Random(ds_seed)
    ds = e2e.gen_mixed(rng, nref=2, nlab=nlab, nq=nq)
    if twodel is None:
        twodel = 2          # every data set has molecules whose first pass leaves a head AND a tail fragment (of different label counts)
    if twodel:
        add_twodel_queries(ds, random.Random(ds_seed + 1), twodel)
    if dup if dup is not None else ds_seed % 2 == 0:
        add_palindromes(ds, random.Random(ds_seed + 3))
        add_duplicate_contig(ds, random.Random(ds_seed + 2))
    if ds_seed % 3 != 0:
        # molecule ids that differ only in their high bits (q and q + 2^20, 2^31, 2^32): ids are 64-bit integers in a CMAP file, anything that
        # packs, hashes or truncates them must keep such molecules apart
        ids = [q[0] for q in ds['queries']]
        ren = {}
        hi = [2 ** 20, 2 ** 20, 2 ** 31, 2 ** 32]
        for k in range(1, len(ids), 2):
            ren[ids[k]] = ids[k - 1] + hi[(k // 2) % len(hi)]
        ds['queries'] = sorted((ren.get(i, i), l, ps) for i, l, ps in ds['queries'])
        ds['truth'] = {ren.get(i, i): t for i, t in ds['truth'].items()}
    # coordinates on the 0.5 grid so that every float operation of the implementation is exact (see DESIGN.md section 3)
    ds['refs'] = [(i, half(l), [half(p) for p in ps]) for i, l, ps in ds['refs']]
    ds['queries'] = [(i, half(l), sorted(set(half(p) for p in ps))) for i, l, ps in ds['queries']]
    return ds


def summarise(res):
    out = dict(rc=res.rc, stderr=res.stderr[-600:] if res.rc else '', files={})
    for k, p in res.files.items():
        try:
            hdr, rows = e2e.parse_xmap(p)
            out['files'][k] = dict(header=len(hdr), rows=[{kk: vv for kk, vv in r.items() if kk != 'raw'} for r in rows], text=None)
        except Exception as e:
            out['files'][k] = dict(parse_error=type(e).__name__ + ':' + str(e)[:100])
    return out


def run_dataset(case, modes=MODES, cpus=1, capture_mode='all'):
    ds = make_dataset(case['ds_seed'], case['nq'], case.get('nlab', 200))
    tag = 'ds%d_%d' % (case['ds_seed'], case['nq'])
    e2e.materialise(ds, tag)
    rp, qp = os.path.join(ds['dir'], 'r.cmap'), os.path.join(ds['dir'], 'q.cmap')
    jobs = [dict(refpath=rp, qpath=qp, args=['-oM', m] + list(case['extra']), cpus=cpus, capture=(m == capture_mode)) for m in modes]
    rs = e2e.run_many(jobs, workers=len(jobs))
    out = dict(modes={m: summarise(r) for m, r in zip(modes, rs)})
    cap = rs[modes.index(capture_mode)].capture if capture_mode in modes else []
    out['capture'] = cap
    out['refs'] = {str(i): dict(labels=ps, end=l) for i, l, ps in ds['refs']}
    out['queries'] = {str(i): dict(labels=ps, end=l) for i, l, ps in ds['queries']}
    out['truth'] = {str(k): v for k, v in ds['truth'].items()}
    return out


def maps_of(out):
    refs = {int(k): v for k, v in out['refs'].items()}
    qs = {int(k): v for k, v in out['queries'].items()}
    return refs, qs


def all_records(out):
    """yields (mode, file key, record)"""
    for m, mo in out['modes'].items():
        for fk, f in mo['files'].items():
            for r in f.get('rows', []):
                yield m, fk, r


def run_failures(out):
    errs = []
    for m, mo in out['modes'].items():
        if mo['rc'] != 0:
            errs.append('COMA exited with status %s in mode %s: %s' % (mo['rc'], m, mo['stderr'][-300:]))
        for fk, f in mo['files'].items():
            if 'parse_error' in f:
                errs.append('output file %s of mode %s is not well-formed XMAP: %s' % (fk, m, f['parse_error']))
    return errs


class E2EStream(Stream):
    """oracle-only end-to-end stream"""
    name = 'e2e'
    model = False
    case_timeout = 1500
    mem_limit_gb = None
    quick_n, thorough_n = 3, 14
    nq_quick, nq_thorough = 24, 40

    def gen(self, rng, tier):
        base = seeded_rng(getattr(self, 'seed', 0), 'e2e-shared')
        n = self.quick_n if tier == 'quick' else self.thorough_n
        nq = self.nq_quick if tier == 'quick' else self.nq_thorough
        return [dict(ds_seed=base.randint(1, 10 ** 9), nq=nq, extra=PARAM_SETS[k % len(PARAM_SETS)]) for k in range(n)]

    def impl(self, case):
        return run_dataset(case)

    def classify(self, case, out):
        k = ['params=%s' % (' '.join(case['extra']) or 'default')]
        for m, mo in out['modes'].items():
            for fk, f in mo['files'].items():
                n = len(f.get('rows', []))
                k.append('%s/%s records=%s' % (m, fk, '0' if n == 0 else '1-9' if n < 10 else '10+'))
        return k

    def nontrivial(self, case, out):
        return json.dumps(case, sort_keys=True) if any(f.get('rows') for mo in out['modes'].values() for f in mo['files'].values()) else None


# ------------------------------------------------------------------------------------------------ captured candidates -> pipeline cases
def candidate_cases(case, out):
    """turns the captured (secondary peaks, candidate row) pairs of a run into pipeline cases + recorded implementation outputs
    in the canonical form of pipeline.run_align, so that the pipeline model can be evaluated on what real runs did"""
    P = params_of(case['extra'])
    refs, qs = maps_of(out)
    corr = {}
    for c in out['capture']:
        if c['t'] == 'corr':
            corr[(c['pid'], c['q'], c['shift'], c['index'])] = c
    res = []
    for r in out['capture']:
        if r['t'] != 'row':
            continue
        c = corr.get((r['pid'], r['q'], r['shift'], r['index']))
        if c is None or c['r'] != r['r'] or c['rev'] != r['rev']:
            continue
        Q = qs[r['q']]; R = refs[r['r']]
        full = [p - Q['labels'][0] for p in Q['labels']]             # trimmed whole query
        qlen = r['qlen']
        if r['shift'] == 0 and r['nq'] == len(full):
            frag = full
        elif r['shift'] > 0:
            frag = full[r['shift']:]
        else:
            frag = full[:r['nq']]
        if len(frag) != r['nq']:
            continue
        peaks = [int(p) for p in c['peaks']]
        if any(abs(p - int(p)) > 0 for p in c['peaks']):
            continue
        it = 1
        for s in r['segs']:
            srcs = [p[7] for p in s['pos'] if p[0] == 'P']
            if srcs and int(s['peak']) in peaks:
                it = srcs[0] - peaks.index(int(s['peak'])); break
        pc = dict(P={k: P[k] for k in pl.DEFAULT}, it=it, ref=R['labels'], rlen=int(R['end']), qry=frag, qlen=qlen, shift=r['shift'],
                  peaks=peaks, rev=r['rev'], kind='e2e-candidate', q=r['q'], r=r['r'])
        try:
            segs = []
            for s in r['segs']:
                ps = []
                for p in s['pos']:
                    if p[0] == 'P': ps.append([0, p[1], p[2], pl.r10(p[3]), pl.r20(p[4]), p[7]])
                    elif p[0] == 'R': ps.append([1, p[1], 0, 0, pl.r20(p[2]), 0])
                    else: ps.append([2, 0, p[1], 0, pl.r20(p[2]), 0])
                segs.append([pl.r10(s['peak']), pl.r20(s['score']), ps])
            po = dict(segs=segs, hdr=[pl.r10(x) for x in r['hdr']] + [pl.r20(r['conf'])],
                      pairs=[[p[1], p[2]] for s in segs for p in s[2] if p[0] == 0])
            if r['cigar'].startswith('ERR:'):
                po['cigar_err'] = r['cigar'][4:]
            else:
                po['cigar'] = r['cigar']
        except ValueError as e:
            continue
        res.append((pc, po))
    return res


class CandidateStream(Stream):
    """the candidates real runs built (captured through COMA's extension mechanism), replayed through the pipeline model"""
    name = 'e2e_candidates'
    prelude = pl.ALIGN_CHECK
    shard = 150
    parallel = False
    mem_limit_gb = None
    e2e_cls = E2EStream
    max_per_dataset = 400

    def gen(self, rng, tier):
        src = self.e2e_cls()
        src.seed = getattr(self, 'seed', 0)
        cases = []
        for c in src.gen(rng, tier):
            out = src.impl(c)
            cc = candidate_cases(c, out)
            rng.shuffle(cc)
            for pc, po in cc[:self.max_per_dataset]:
                pc['recorded'] = po
                pc['dataset'] = c
                cases.append(pc)
        return cases

    def impl(self, case):
        return case['recorded']

    def term(self, case, out):
        return pl.align_term(case, out)

    def classify(self, case, out):
        k = ['rev' if case['rev'] else 'fwd', 'fragment' if (case.get('shift', 0) > 0 or len(case['qry']) < 0) else 'whole-or-prefix',
             'peaks=%d' % min(10, len(case['peaks'])), 'segments_out=%d' % min(5, len(pl.nonempty(out['segs'])))]
        return k

    def nontrivial(self, case, out):
        return repr((case['q'], case['r'], case['rev'], case['peaks'], case.get('shift', 0), len(case['qry']))) if out['pairs'] else None


# ------------------------------------------------------------------------------------------------ whole-run model (Coordinator.v)
RUN_PRELUDE = pl.PRELUDE + '''Require Import Coordinator.
Notation crow := (Z * Z * bool * (Z*Z*Z*Z) * Z * bool * list (Z*Z))%type.
Definition crow_of (w : row) : crow := (qid w, rid w, rrev w, (Multi.qs w, qe w, rs w, re w), conf w, rest w, site_pairs (rsegs w)).
Fixpoint eqzz (a b : list (Z*Z)) := match a, b with [], [] => true | (x,y)::s, (x',y')::t => (x=?x')&&(y=?y')&&eqzz s t | _, _ => false end.
Definition eqcrow (a b : crow) := match a, b with (q,r,v,(a1,a2,a3,a4),c,t,ps),(q',r',v',(b1,b2,b3,b4),c',t',ps') =>
  (q=?q')&&(r=?r')&&Bool.eqb v v'&&(a1=?b1)&&(a2=?b2)&&(a3=?b3)&&(a4=?b4)&&(c=?c')&&Bool.eqb t t'&&eqzz ps ps' end.
Fixpoint eqcrows (a b : list crow) := match a, b with [], [] => true | x::s, y::t => eqcrow x y && eqcrows s t | _, _ => false end.
Definition eqfile (a : option (list row)) (b : option (list crow)) := match a, b with None, None => true | Some x, Some y => eqcrows (List.map crow_of x) y | _, _ => false end.
Notation stab := (list ((Z*Z*Z) * list (Z * bool * list Z)))%type.
Fixpoint ref_by_id (refs : list omap) (i : Z) : omap := match refs with [] => mkMap 0 0 [] 0 | r :: t => if mid r =? i then r else ref_by_id t i end.
Fixpoint lookup (t : stab) (k : Z*Z*Z) : list (Z * bool * list Z) :=
  match t with [] => [] | ((a,b,c), v) :: r => match k with (a',b',c') => if (a=?a')&&(b=?b')&&(c=?c') then v else lookup r k end end.
Definition seeds_of (t : stab) (refs : list omap) (q : omap) : list cseed :=
  List.map (fun e => match e with (i, rv, pk) => mkSeed (ref_by_id refs i) rv pk end) (lookup t (mid q, mshift q, Z.of_nat (List.length (mpositions q)))).
Definition mode_of (m : Z) : mode := if m =? 0 then Best else if m =? 1 then Separate else if m =? 2 then Joined else All_.
(* case: params, mode, maxdiff, refs (id, len, positions), queries (id, len, positions), seed table; expected: error flag, main, _1, _2 *)
Notation rcase := ((Z*Z*Z*Z*Z*Z*Z*Z) * Z * Z * list (Z*Z*list Z) * list (Z*Z*list Z) * stab * (bool * list crow * option (list crow) * option (list crow)))%type.
Definition check (c : rcase) : Z :=
  match c with (p, m, maxdiff, refs, qs, t, (err, emain, e1, e2)) =>
    let mk := List.map (fun x => match x with (i, l, ps) => mkMap i l ps 0 end) in
    match program_run (mkparams p) (seeds_of t) (mode_of m) maxdiff (mk refs) (mk qs) with
    | Err => if err then 0 else 1
    | Ok o => if err then 1 else if eqcrows (List.map crow_of (o_main o)) emain && eqfile (o_1 o) e1 && eqfile (o_2 o) e2 then 0 else 1
    end end.
'''


def dec_to_int(text, scale):
    from decimal import Decimal
    v = Decimal(text) * scale
    if v != v.to_integral_value():
        raise ValueError('%s is not a multiple of 1/%d' % (text, scale))
    return int(v)


def crow_term(r):
    z, cb = common.z, common.cb
    return '(%s,%s,%s,(%s,%s,%s,%s),%s,%s,%s)' % (
        z(r['q']), z(r['r']), cb(r['ori'] == '-'), z(dec_to_int(r['qs'], 10)), z(dec_to_int(r['qe'], 10)), z(dec_to_int(r['rs'], 10)),
        z(dec_to_int(r['re'], 10)), z(dec_to_int(r['conf'], 20)), cb(r['rest'] == 'True'),
        common.clist('(%s,%s)' % (z(a), z(b)) for a, b in r['pairs']))


def seed_table(out):
    """(query id, shift, number of labels) -> [(reference id, strand, secondary peaks)] in the order of the selected primary peaks"""
    corr = {}
    rows = {}
    for c in out['capture']:
        k = (c['pid'], c['q'], c['shift'], c['index'])
        if c['t'] == 'corr':
            corr.setdefault(k, []).append(c)
        else:
            rows.setdefault(k, []).append(c)
    tab = {}
    for k, rl in rows.items():
        cl = corr.get(k, [])
        # a worker may process a prefix fragment (shift 0) of a query it also processed as a whole: pair them up in order
        for c, r in zip(cl, rl):
            tab.setdefault((r['q'], r['shift'], r['nq']), {})[r['index']] = (c['r'], c['rev'], [int(p) for p in c['peaks']])
    return {k: [v[i] for i in sorted(v)] for k, v in tab.items()}


class RunModelStream(Stream):
    """whole runs: the Coordinator/MultiPass model, given the seeds captured from the real run, must reproduce every output file"""
    name = 'e2e_run_model'
    prelude = RUN_PRELUDE
    mem_limit_gb = None
    case_type = 'rcase'
    shard = 1
    parallel = False
    e2e_cls = E2EStream
    modes = MODES

    def gen(self, rng, tier):
        src = self.e2e_cls()
        src.seed = getattr(self, 'seed', 0)
        cases = []
        for c in src.gen(rng, tier):
            out = src.impl(c)
            for m in self.modes:
                cases.append(dict(dataset=c, mode=m, recorded=dict(mode=out['modes'][m], refs=out['refs'], queries=out['queries'],
                                                                    table=[[list(k), v] for k, v in seed_table(out).items()])))
        return cases

    def impl(self, case):
        return case['recorded']

    def term(self, case, out):
        z, zl, cb, clist = common.z, common.zl, common.cb, common.clist
        P = params_of(case['dataset']['extra'])
        mo = out['mode']
        err = mo['rc'] != 0

        def mapterm(i, m, trim):
            ps = m['labels']
            if trim:
                length = ps[-1] - ps[0] + 1; ps = [p - ps[0] for p in ps]
            else:
                length = int(m['end'])
            return '(%s,%s,%s)' % (z(i), z(pl.r10(length)), zl(pl.r10(p) for p in ps))
        refs = clist(mapterm(int(i), m, False) for i, m in sorted(out['refs'].items(), key=lambda kv: int(kv[0])))
        qs = clist(mapterm(int(i), m, True) for i, m in sorted(out['queries'].items(), key=lambda kv: int(kv[0])))
        tab = clist('((%s,%s,%s), %s)' % (z(k[0]), z(k[1]), z(k[2]), clist('(%s,%s,%s)' % (z(r), cb(rv), zl(p * 10 for p in pk)) for r, rv, pk in v))
                    for k, v in out['table'])

        def fileterm(fk, optional=True):
            f = mo['files'].get(fk)
            if f is None:
                return 'None'
            t = clist(crow_term(r) for r in f['rows'])
            return 'Some %s' % t if optional else t
        return '(%s, %s, %s, %s, %s, %s, (%s, %s, %s, %s))' % (
            pl.params_term({k: P[k] for k in pl.DEFAULT}), z(MODES.index(case['mode'])), z(P['diff'] * 10), refs, qs, tab,
            cb(err), fileterm('main', False) if not err else '[]', fileterm('_1'), fileterm('_2'))

    def classify(self, case, out):
        mo = out['mode']
        return ['mode=' + case['mode']] + ['%s records=%d+' % (fk, 10 * (len(f.get('rows', [])) // 10)) for fk, f in mo['files'].items()]

    def nontrivial(self, case, out):
        return json.dumps([case['dataset'], case['mode']], sort_keys=True) if out['mode']['files'].get('main', {}).get('rows') else None


# ------------------------------------------------------------------------------------------------ records of real output files as cases
class RecordStream(Stream):
    """every record of every XMAP file written by real runs (shared data sets, four modes) becomes one case, so that verified
    checkers / models can be evaluated in Coq on what COMA actually wrote.  Subclasses define prelude/term/oracle."""
    name = 'e2e_records'
    shard = 400
    parallel = False
    mem_limit_gb = None
    e2e_cls = E2EStream
    skip_joined_main = False      # leave joined records of the main files to the file-level oracle (open finding F10)

    def gen(self, rng, tier):
        src = self.e2e_cls()
        src.seed = getattr(self, 'seed', 0)
        cases, seen = [], set()
        for c in src.gen(rng, tier):
            out = src.impl(c)
            refs, qs = maps_of(out)
            allm = out['modes'].get('all', {}).get('files', {})
            second = {(x['q'], x['r'], x['ori']) for x in allm.get('_2', {}).get('rows', [])}
            first = {(x['q'], x['r'], x['ori']) for x in allm.get('_1', {}).get('rows', [])}
            for m, fk, r in all_records(out):
                if r['r'] not in refs or r['q'] not in qs:
                    continue
                joined = fk == 'main' and m in ('best', 'joined', 'all') and (r['q'], r['r'], r['ori']) in first and (r['q'], r['r'], r['ori']) in second
                if joined and self.skip_joined_main:
                    continue
                key = (r['q'], r['r'], r['ori'], r['alignment'], r['hit'], c['ds_seed'])
                if key in seen:
                    continue
                seen.add(key)
                cases.append(dict(dataset=c, mode=m, file=fk, nref=len(refs[r['r']]['labels']), nqry=len(qs[r['q']]['labels']),
                                  rev=r['ori'] == '-', pairs=[list(p) for p in r['pairs']], hit=r['hit'], q=r['q'], r=r['r'], rest=r['rest'], joined=joined))
        return cases

    def impl(self, case):
        return dict(recorded=True)

    def classify(self, case, out):
        return ['file=%s/%s' % (case['mode'], case['file']), 'rev' if case['rev'] else 'fwd', 'rest=%s' % case['rest'],
                'pairs=%s' % ('1' if len(case['pairs']) == 1 else '2-9' if len(case['pairs']) < 10 else '10+')] + (['joined'] if case['joined'] else [])

    def nontrivial(self, case, out):
        return repr((case['q'], case['r'], case['rev'], case['pairs'])) if len(case['pairs']) >= 2 else None

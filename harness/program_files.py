"""The capstone correspondence: REAL COMA end to end against Program.program_files (coq/model/Program.v), the one function from the rows
of the two CMAP files and the command line to the data lines of every XMAP file.

A case = one real run (harness/e2e.py run_coma, one subprocess) on a small generated data set (the generator of RunFullModelStream; always
with a duplicated contig, so that exactly tied candidates show which reference the program prefers) written in one of several file layouts:
molecules in descending id order / every row shuffled with the molecules making their first appearance in descending id order (a reader
that keeps file order then sees every pair of molecules in the order opposite to the sorted one), a molecule WITHOUT labels in both
files, `-rId` / `-qId` selections (incl. ids that are not in the file and the label-less molecule), the four output modes and a few
parameter sets across the cases.
What goes to Coq: the command line's values, the rows an INDEPENDENT parser (harness/props/C17.py parse_rows) extracts from the text of the
two CMAP files, and the text COMA wrote: per file its suffix, the three machine-independent comment lines (lines 3, 6, 7) and every data
line.  Inside Coq: program_files must return the same files with the same data lines, byte for byte (code 1 otherwise), and the comment
lines must be Program.xmap_fixed_header (code 3).
FFT noise: exactly RunFullModelStream's mechanism (harness/seeding.py): every map the real run seeded (whole queries and second-pass
fragments, from the capture) is analysed by run_chain; if the seeds of one of them can depend on FFT rounding / an unspecified numpy
arrangement the run is flagged and a disagreement of such a run is tolerated (code 7 with COMA_SEEDING_STRICT=1); classify() counts them.
Because nearly every map is flagged (the heights are small integers / few distinct rationals: ties are the rule), nearly every RUN is, and a
tolerance that forgave every difference of a flagged run would make this stream blind.  A difference of a flagged run is therefore only
forgiven if the seeding stage explains it: the model is evaluated once more with the seeds CAPTURED from the real run in place of its own
seeding stage (Program.program_files_with, the seed table of e2e_streams.seed_table as in RunModelStream); if the files still differ the
difference comes from the reader, the wiring, the post-processing or the writer and is a disagreement (code 1)."""
import os, json, random, hashlib
from fractions import Fraction
from .driver import Stream
from .common import z, zl, clist, cb, cstr, seeded_rng
from . import common

MODES = ['best', 'separate', 'joined', 'all']

PRELUDE = '''From Coq Require Import ZArith QArith List Bool String. Import ListNotations.
Require Import Py Pairing Core Multi Coordinator Cmap Xmap Record Wiring FindPeaks Seeding Program. Open Scope Z_scope.
Definition mode_of (m : Z) : mode := if m =? 0 then Best else if m =? 1 then Separate else if m =? 2 then Joined else All_.
Definition mk_sp (t : Z * Z * Z * nat * Z * Z * Z * Q) : sparams := match t with (a, b, c, d, e, f, g, h) => mkSP a b c d e f g h end.
(* -sp, 2 * -dp, -su, -ms, -bs, -d, 20 * -sj, -ss: the command line's own values; Wiring.make_params scales them *)
Definition mk_args (t : Z*Z*Z*Z*Z*Z*Z*Z) : cli_args := match t with (sp, dp2, su, ms, bs, d, sj20, ss) => mkArgs sp dp2 su ms bs d sj20 ss end.
Fixpoint eqlines (a b : list string) : bool := match a, b with [] , [] => true | x :: s, y :: t => String.eqb x y && eqlines s t | _, _ => false end.
(* expected file: suffix, the comment lines 3 / 6 / 7 of the real file, the data lines *)
Notation efile := (string * list string * list string)%type.
Fixpoint eqfiles (a : list (string * list string)) (b : list efile) : bool :=
  match a, b with
  | [], [] => true
  | (s, l) :: u, (s', _, l') :: v => String.eqb s s' && eqlines l l' && eqfiles u v
  | _, _ => false
  end.
Definition tolerate := TOLERATE.
(* the seeds captured from the real run: (query id, label-number offset, number of labels) -> [(reference id, strand, secondary peaks x10)] *)
Notation stab := (list ((Z*Z*Z) * list (Z * bool * list Z)))%type.
Fixpoint ref_by_id (refs : list Pairing.omap) (i : Z) : Pairing.omap := match refs with [] => mkMap 0 0 [] 0 | r :: t => if mid r =? i then r else ref_by_id t i end.
Fixpoint lookup (t : stab) (k : Z*Z*Z) : list (Z * bool * list Z) :=
  match t with [] => [] | ((a,b,c), v) :: r => match k with (a',b',c') => if (a=?a')&&(b=?b')&&(c=?c') then v else lookup r k end end.
Definition seeds_of (t : stab) (refs : list Pairing.omap) (q : Pairing.omap) : list cseed :=
  List.map (fun e => match e with (i, rv, pk) => mkSeed (ref_by_id refs i) rv pk end) (lookup t (mid q, mshift q, Z.of_nat (List.length (mpositions q)))).
(* aligner options, seeding options, mode, -diff, -rId, -qId, reference rows, query rows, flagged, captured seeds, (the program failed, the files it wrote).
   1 = the files differ (names, number of data lines, or some data line) and the seeding stage does not explain it;  3 = a fixed comment line differs;
   7 = the files differ in a flagged run but agree when the model is given the run's own seeds (only shown when tolerate = false) *)
Definition check (c : (Z*Z*Z*Z*Z*Z*Z*Z) * (Z * Z * Z * nat * Z * Z * Z * Q) * Z * Z * list Z * list Z * list cmap_row * list cmap_row * bool * stab
                      * (bool * list efile)) : Z :=
  match c with (a, sp, m, diff, rids, qids, rr, qr, flagged, tab, (err, files)) =>
    let cl := mkCmd (mk_args a) (mk_sp sp) (mode_of m) diff rids qids in
    if negb (forallb (fun f => eqlines (snd (fst f)) xmap_fixed_header) files) then 3 else
    match program_files cl rr qr with
    | Err => if err then 0 else 1
    | Ok fs => if err then 1 else if eqfiles fs files then 0
               else if flagged then
                 match program_files_with (seeds_of tab) cl rr qr with
                 | Ok fs' => if eqfiles fs' files then (if tolerate then 0 else 7) else 1
                 | Err => 1
                 end
               else 1
    end end.
'''
CASE_TYPE = ('((Z*Z*Z*Z*Z*Z*Z*Z) * (Z * Z * Z * nat * Z * Z * Z * Q) * Z * Z * list Z * list Z * list cmap_row * list cmap_row * bool * stab '
             '* (bool * list efile))%type')

SEED_OPTS = {'-r1': 'res1', '-b1': 'blur1', '-md': 'mpd', '-p': 'pcount', '-r2': 'res2', '-b2': 'blur2', '-ma': 'margin', '-pt': 'thr'}
ALIGN_OPTS = {'-d': 'd', '-sp': 'sp', '-dp': 'dp', '-su': 'su', '-ms': 'ms', '-bs': 'bs', '-sj': 'sj', '-ss': 'ss', '-diff': 'diff'}


def options_of(extra):
    """the command line's values: aligner options (with -diff) and seeding options"""
    from . import pipeline as pl, seeding as sd
    P = dict(pl.DEFAULT, diff=100000)
    S = dict(sd.DEFAULT_SP)
    for k, v in zip(extra[::2], extra[1::2]):
        if k in ALIGN_OPTS:
            P[ALIGN_OPTS[k]] = float(v) if k in ('-dp', '-sj') else int(v)
        elif k in SEED_OPTS:
            S[SEED_OPTS[k]] = float(v) if k == '-pt' else int(v)
        else:
            raise ValueError('option %s is not modelled' % k)
    return P, S


def args_term(P):
    dp2, sj20 = P['dp'] * 2, P['sj'] * 20
    if abs(dp2 - round(dp2)) > 1e-9 or abs(sj20 - round(sj20)) > 1e-9:
        raise ValueError('parameters outside the exact grid')
    return '(%s,%s,%s,%s,%s,%s,%s,%s)' % (z(P['sp']), z(round(dp2)), z(P['su']), z(P['ms']), z(P['bs']), z(P['d']), z(round(sj20)), z(P['ss']))


# ------------------------------------------------------------------------------------------------ files
def write_cmap_layout(path, maps, layout, rng):
    """maps: (id, length, [positions]).  layout 'desc': molecule-major, descending ids;  'shuffled': every row shuffled, then one row of
    each molecule moved to the front in descending id order;  'plain': ascending ids.  A molecule without positions has only its end marker."""
    rows = []
    order = sorted(maps, key=lambda m: m[0], reverse=(layout != 'plain'))
    for (mid, length, pos) in order:
        n = len(pos)
        for i, p in enumerate(pos):
            rows.append((mid, length, n, i + 1, 1, p))
        rows.append((mid, length, n, n + 1, 0, length))
    if layout == 'shuffled':
        rng.shuffle(rows)
        lead = []
        for m in order:
            k = next(i for i, r in enumerate(rows) if r[0] == m[0])
            lead.append(rows.pop(k))
        rows = lead + rows
    with open(path, 'w') as f:
        f.write("# CMAP File Version:\t0.1\n# Label Channels:\t1\n# Nickase Recognition Site 1:\tunknown\n# Number of Consensus Maps:\t%d\n" % len(maps))
        f.write("#h CMapId\tContigLength\tNumSites\tSiteID\tLabelChannel\tPosition\tStdDev\tCoverage\tOccurrence\n")
        f.write("#f int\tfloat\tint\tint\tint\tfloat\tfloat\tfloat\tfloat\n")
        for (mid, length, n, sid, ch, p) in rows:
            f.write("%d\t%.1f\t%d\t%d\t%d\t%.1f\t0.0\t1.0\t1.0\n" % (mid, length, n, sid, ch, p))


def build(case):
    """the two CMAP files of a case and its command line"""
    from . import e2e, e2e_streams as es
    ds = es.make_dataset(case['ds_seed'], case['nq'], case['nlab'], dup=False)
    es.add_duplicate_contig(ds, random.Random(case['ds_seed'] + 2))      # exact copy of one reference under another id (coordinates already on the grid)
    rng = random.Random(case['ds_seed'] * 131 + 17)
    refs, qs = list(ds['refs']), list(ds['queries'])
    used_r, used_q = {r[0] for r in refs}, {q[0] for q in qs}
    bare_r = next(i for i in range(2, 60) if i not in used_r)
    bare_q = next(i for i in range(min(used_q) + 1, max(used_q) + 60) if i not in used_q)
    if case['bare']:                      # a molecule without labels in each file (only its end-marker row)
        refs.append((bare_r, 50000.0, []))
        qs.append((bare_q, 70000.0, []))
    rids, qids = [], []
    if case['rid']:                       # all labelled references but the smaller-id copy of the duplicated contig (so that the exactly tied
        # candidates on the two copies show whether the selection was applied), the label-less one, an id that is not in the file
        dup = ds['duplicate_of']
        out_id = min(list(dup) + list(dup.values()))
        rids = [i for i in sorted(used_r) if i != out_id] + [bare_r, 77]
        rng.shuffle(rids)
    if case.get('qid_fixed'):             # a screened selection (see `screened` below), the label-less molecule, an id that is not in the file
        qids = list(case['qid_fixed']) + [bare_q, max(used_q) + 1000]
        rng.shuffle(qids)
    elif case['qid']:                     # about two thirds of the queries, the label-less one, an id that is not in the file, one id twice
        lab = sorted(used_q)
        qids = rng.sample(lab, max(1, (2 * len(lab)) // 3))
        qids += [bare_q, max(used_q) + 1000, qids[0]]
        rng.shuffle(qids)
    d = e2e.dataset_dir('pf_%d_%d_%d_%s_%d' % (case['ds_seed'], case['nq'], case['nlab'], case['layout'], int(case['bare'])))
    rp, qp = os.path.join(d, 'r.cmap'), os.path.join(d, 'q.cmap')
    write_cmap_layout(rp, refs, case['layout'], random.Random(case['ds_seed'] + 1))
    write_cmap_layout(qp, qs, case['layout'], random.Random(case['ds_seed'] + 2))
    args = ['-oM', case['mode']] + list(case['extra'])
    if rids: args += ['-rId'] + [str(i) for i in rids]
    if qids: args += ['-qId'] + [str(i) for i in qids]
    return dict(rp=rp, qp=qp, args=args, rids=rids, qids=qids, refs=refs, queries=qs)


def flags_of(res, b, S):
    """RunFullModelStream's analysis, unchanged: every map the real run seeded goes through seeding.run_chain with the references the run used"""
    from . import seeding as sd
    refs = [[int(i), l, list(ps)] for i, l, ps in sorted(b['refs']) if ps and (not b['rids'] or i in b['rids'])]
    out = dict(capture=res.capture, queries={str(i): dict(labels=list(ps), end=l) for i, l, ps in b['queries'] if ps})
    flags, nmaps = set(), 0
    for (qid, shift, nq), (qlen, frag) in sorted(sd.processed_maps(out).items()):
        nmaps += 1
        try:
            rc = sd.run_chain(refs, [qid, qlen, frag], S, trim=False)
            if rc['xmode']: flags.update(rc['xflags'])
            if any(c2 for _, _, _, c2, _ in rc['sel']): flags.add('more than 10 secondary peaks (numpy arrangement reaches the aligner)')
        except Exception as e:
            flags.add('HARNESS: %s' % type(e).__name__)
    return sorted(flags), nmaps


def read_outputs(res):
    """what COMA wrote: [suffix, comment lines, data lines] per file, text only"""
    files = []
    for key, sfx in (('main', ''), ('_1', '_1'), ('_2', '_2')):
        p = res.files.get(key)
        if p is None:
            continue
        lines = open(p, newline='').read().split('\n')
        if lines and lines[-1] == '':
            lines.pop()
        files.append([sfx, [l for l in lines if l.startswith('#')], [l for l in lines if not l.startswith('#')]])
    return files


def trows(rows):
    return clist('(%s,%s,%s)' % (z(a), z(b), z(c)) for a, b, c in rows)


class ProgramFilesStream(Stream):
    name = 'e2e_program_files'
    mem_limit_gb = None
    shard = 1
    parallel = False
    case_timeout = 1500
    case_type = CASE_TYPE
    # data set (always with a duplicated contig), file layout, label-less molecules, id selections, mode, options
    # `screened`: nearly every map is flagged (see the module text), so nearly every run is.  These cases have a FIXED data set and a -qId selection of
    # molecules that were found (offline, with seeding.run_chain on the unchanged code) to be free of flags, one of them cut from the duplicated
    # contig: the run is then compared without any tolerance, and the exact tie between the two copies of the contig shows the reference order
    quick_cases = [dict(k=0, nq=5, nlab=100, layout='shuffled', bare=True, rid=False, qid=False, mode='joined', extra=[]),
                   dict(ds_seed=103, nq=12, nlab=100, layout='shuffled', bare=True, rid=False, qid=True, qid_fixed=[432, 447], mode='all', extra=[]),
                   dict(k=1, nq=4, nlab=100, layout='shuffled', bare=False, rid=True, qid=False, mode='best', extra=['-p', '2'])]
    thorough_cases = quick_cases + [
        dict(k=0, nq=5, nlab=100, layout='desc', bare=True, rid=False, qid=True, mode='all', extra=[]),
        dict(ds_seed=117, nq=12, nlab=100, layout='desc', bare=False, rid=False, qid=True, qid_fixed=[510, 535], mode='best', extra=[]),
        dict(k=2, nq=6, nlab=100, layout='shuffled', bare=True, rid=False, qid=False, mode='separate', extra=[]),
        dict(k=2, nq=6, nlab=100, layout='desc', bare=False, rid=True, qid=True, mode='best', extra=[]),
        dict(k=3, nq=6, nlab=100, layout='shuffled', bare=True, rid=False, qid=True, mode='joined', extra=['-p', '6', '-diff', '20000', '-ss', '1']),
        dict(k=4, nq=6, nlab=120, layout='plain', bare=True, rid=False, qid=False, mode='all', extra=['-p', '1']),
        dict(k=5, nq=6, nlab=100, layout='shuffled', bare=False, rid=False, qid=False, mode='all',
             extra=['-d', '1200', '-sp', '800', '-dp', '0.5', '-su', '-100', '-ms', '1500', '-bs', '900']),
        dict(k=6, nq=6, nlab=100, layout='desc', bare=True, rid=True, qid=False, mode='separate', extra=['-md', '28001', '-p', '4', '-pt', '20']),
        dict(k=7, nq=6, nlab=100, layout='shuffled', bare=False, rid=False, qid=True, mode='best', extra=['-sj', '0.5', '-dp', '2', '-bs', '2400'])]

    @property
    def prelude(self):
        return PRELUDE.replace('TOLERATE', 'false' if os.environ.get('COMA_SEEDING_STRICT') else 'true')

    def gen(self, rng, tier):
        from . import e2e
        base = seeded_rng(getattr(self, 'seed', 0), 'e2e-program-files')
        seeds = [base.randint(1, 10 ** 9) for _ in range(8)]
        cases = []
        for cfg in (self.quick_cases if tier == 'quick' else self.thorough_cases):
            c = dict(cfg)
            if 'k' in c:
                c['ds_seed'] = seeds[c.pop('k')]
            cases.append(c)
        # all runs of the tier at once (subprocesses, cached by source hash)
        e2e.run_many([dict(refpath=b['rp'], qpath=b['qp'], args=b['args'], cpus=1, capture=True) for b in map(build, cases)], workers=min(4, len(cases)))
        return cases

    def impl(self, case):
        from . import e2e
        from .props.C17 import parse_rows
        b = build(case)
        res = e2e.run_coma(b['rp'], b['qp'], b['args'], cpus=1, capture=True)
        P, S = options_of(case['extra'])
        flags, nmaps = flags_of(res, b, S) if res.rc == 0 else ([], 0)
        from . import e2e_streams as es
        table = [[list(k), v] for k, v in sorted(es.seed_table(dict(capture=res.capture)).items())] if res.rc == 0 else []
        return dict(rc=res.rc, stderr=res.stderr[-400:] if res.rc else '', files=read_outputs(res) if res.rc == 0 else [],
                    rrows=parse_rows(open(b['rp']).read()), qrows=parse_rows(open(b['qp']).read()), rids=b['rids'], qids=b['qids'],
                    flags=flags, nmaps=nmaps, table=table)

    def term(self, case, out):
        from . import seeding as sd
        P, S = options_of(case['extra'])
        err = out['rc'] != 0

        def fixed(hdr):
            return [hdr[i] for i in (2, 5, 6)] if len(hdr) == 7 else hdr
        files = clist('(%s, %s, %s)' % (cstr(sfx), clist(cstr(l) for l in fixed(hdr)), clist(cstr(l) for l in data)) for sfx, hdr, data in out['files'])
        tab = clist('((%s,%s,%s), %s)' % (z(k[0]), z(k[1]), z(k[2]), clist('(%s,%s,%s)' % (z(r), cb(rv), zl(p * 10 for p in pk)) for r, rv, pk in v))
                    for k, v in out['table'])
        return '(%s, %s, %s, %s, %s, %s, %s, %s, %s, %s, (%s, %s))' % (
            args_term(P), sd.sp_term(S), z(MODES.index(case['mode'])), z(P['diff']), zl(out['rids']), zl(out['qids']),
            trows(out['rrows']), trows(out['qrows']), cb(bool(out['flags'])), tab, cb(err), files)

    def oracle(self, case, out):
        if out.get('err'):
            return []
        errs = []
        want = {'best': [''], 'separate': ['', '_1'], 'joined': ['', '_1'], 'all': ['', '_1', '_2']}[case['mode']]
        if out['rc'] == 0 and [f[0] for f in out['files']] != want:
            errs.append('mode %s wrote the files %s, expected %s' % (case['mode'], [f[0] for f in out['files']], want))
        for sfx, hdr, data in out['files']:
            for k, l in enumerate(data):
                if l.split('\t')[0] != str(k + 1):
                    errs.append('file %r: data line %d carries XmapEntryID %r' % (sfx, k + 1, l.split('\t')[0])); break
        return errs[:3]

    def classify(self, case, out):
        if out.get('err'):
            return ['harness error']
        k = ['mode=' + case['mode'], 'layout=' + case['layout'], 'screened selection' if case.get('qid_fixed') else 'generated selection', 'label-less molecules' if case['bare'] else 'all molecules labelled',
             '-rId' if case['rid'] else 'no -rId', '-qId' if case['qid'] else 'no -qId', 'options=%s' % (' '.join(case['extra']) or 'default'),
             'exit status %s' % out['rc'], 'maps seeded in the real run: %d+' % (5 * (out['nmaps'] // 5)),
             'compared, no flag' if not out['flags'] else 'flagged (a disagreement is tolerated if the seeds captured from the run explain it)']
        k += ['flag: ' + f for f in out['flags']]
        k += ['file %r data lines=%d+' % (sfx, 5 * (len(data) // 5)) for sfx, hdr, data in out['files']]
        return k

    def nontrivial(self, case, out):
        if out.get('err') or not out['files']:
            return None
        return json.dumps(case, sort_keys=True) if sum(len(d) for _, _, d in out['files']) >= 2 else None

"""Generic driver: runs one property module (harness/props/<id>.py) through proofs, correspondence and oracle."""
import os, sys, json, importlib, multiprocessing, time, traceback
from . import common
from .common import Report, seeded_rng


class Stream:
    """One family of generated cases for one model entry point.
    Subclasses define: name, prelude (Coq text defining `check : T -> Z`, 0 = model agrees with the recorded
    implementation output, 1 = correspondence mismatch, 2 = the verified checker rejects the implementation's output),
    gen(rng, tier) -> list of JSON-able cases, impl(case) -> JSON-able output, term(case, out) -> Coq term,
    oracle(case, out) -> list of violation descriptions, classify(case, out) -> histogram keys,
    nontrivial(case, out) -> hashable key or None."""
    name = 'stream'
    prelude = ''
    case_timeout = None    # seconds per implementation call (SIGALRM); None = 120 for in-process model streams, 1500 for oracle-only /
                           # sequential streams (which run COMA in subprocesses); a time-out is an error outcome of that case
    mem_limit_gb = 3       # address-space limit of the worker while it runs this stream's impl (None = unlimited; e2e streams spawn subprocesses)
    shard = 400
    model = True          # False: oracle-only stream (no Coq evaluation)
    exhaustive = False
    parallel = True

    def gen(self, rng, tier): return []
    def impl(self, case): raise NotImplementedError
    def term(self, case, out): raise NotImplementedError
    def oracle(self, case, out): return []
    def classify(self, case, out): return []
    def nontrivial(self, case, out): return json.dumps(case, sort_keys=True, default=str)
    def corpus(self): return []
    def shrink(self, case, still_bad): return case
    def finding(self, case, out, viol): return None     # id of an open known finding this violation matches


def _short(x, n=2500):
    t = json.dumps(x, default=str)
    return x if len(t) <= n else t[:n] + ' ...[truncated, %d chars]' % len(t)


class _CaseTimeout(Exception):
    pass


def _alarm(signum, frame):
    raise _CaseTimeout()


def _work(args):
    import signal, resource
    modname, sname, case = args
    mod = importlib.import_module(modname)
    st = [s for s in mod.STREAMS if s.name == sname][0]
    old_limit = None
    try:
        if st.mem_limit_gb and multiprocessing.current_process().name != 'MainProcess':
            old_limit = resource.getrlimit(resource.RLIMIT_AS)
            lim = int(st.mem_limit_gb * 2 ** 30)
            resource.setrlimit(resource.RLIMIT_AS, (lim, old_limit[1]))
    except Exception:
        old_limit = None
    signal.signal(signal.SIGALRM, _alarm)
    limit = int(st.case_timeout or (120 if (st.model and st.parallel) else 1500))
    signal.alarm(limit)
    try:
        out = st.impl(case)
    except _CaseTimeout:
        out = dict(err='HARNESS:Timeout after %ss' % limit)
    except MemoryError:
        out = dict(err='HARNESS:MemoryError (more than %s GB)' % st.mem_limit_gb)
    except Exception as e:           # the adapter itself failed: report as error kind (breaks correspondence)
        out = dict(err='HARNESS:' + type(e).__name__ + ':' + str(e)[:200])
    finally:
        signal.alarm(0)
        if old_limit is not None:
            try:
                resource.setrlimit(resource.RLIMIT_AS, old_limit)
            except Exception:
                pass
    try:
        viol = st.oracle(case, out)
    except Exception as e:
        viol = ['oracle raised %s: %s' % (type(e).__name__, str(e)[:200])]
    return out, viol


def load_corpus(pid, sname):
    d = os.path.join(common.VERIF, 'corpus', pid)
    cases = []
    if os.path.isdir(d):
        for fn in sorted(os.listdir(d)):
            if fn.endswith('.json'):
                j = json.load(open(os.path.join(d, fn)))
                if j.get('stream') == sname:
                    cases.append(j['case'])
    return cases


def run_stream(mod, st, rep, tier, seed, pool, extra_round=0, with_model=False):
    rng = seeded_rng(seed, mod.ID, st.name, extra_round)
    st.seed = seed + 7919 * extra_round
    cases = (load_corpus(mod.ID, st.name) + list(st.corpus()) if extra_round == 0 else []) + list(st.gen(rng, tier))
    if not cases:
        return dict(name=st.name, evaluated=0, disagreements=0)
    args = [(mod.__name__, st.name, c) for c in cases]
    if st.parallel and pool is not None and len(cases) > 8:
        # a worker killed from outside (OOM) would make Pool.map wait forever: bound the wait
        per = st.case_timeout or (120 if (st.model and st.parallel) else 1500)
        budget = max(300, min(3000, int(len(args) * per / common.NCPU) + 120))
        res = pool.map_async(_work, args, chunksize=max(1, len(args) // (4 * common.NCPU))).get(timeout=budget)
    else:
        res = [_work(a) for a in args]
    kf = common.known_findings()
    open_ids = {f['id']: f for f in kf.get('open', []) if f.get('property') == mod.ID}
    deferred = []      # violations matching a known finding whose routing also needs the MODEL to reproduce the output
    for ci, (c, (out, viol)) in enumerate(zip(cases, res)):
        rep.evaluations += 1
        rep.oracle_evals += 1
        for k in st.classify(c, out):
            rep.dist[st.name + ':' + k] += 1
        nk = st.nontrivial(c, out)
        if nk is not None:
            rep.nontrivial.add((st.name, nk))
        if len([s for s in rep.samples if s.get('stream') == st.name]) < 2:
            rep.samples.append(dict(stream=st.name, case=_short(c), impl_output=_short(out)))
        for v in viol:
            fid = st.finding(c, out, v)
            if fid is not None and fid in open_ids:
                if getattr(st, 'finding_needs_model', False) and st.model and (extra_round == 0 or with_model):
                    deferred.append((ci, fid, v))
                    continue
                msg = '%s: %s' % (fid, open_ids[fid].get('what', ''))
                if msg not in rep.known:
                    rep.known.append(msg)
                continue
            rep.add_violation('property-violated', '[%s] %s' % (st.name, v), dict(stream=st.name, case=c, impl_output=out))
    info = dict(name=st.name, evaluated=0, disagreements=0, cases=len(cases), exhaustive=st.exhaustive)
    if st.model and (extra_round == 0 or with_model):
        terms = [st.term(c, out) for c, (out, _) in zip(cases, res)]
        r = common.run_cases_v(mod.ID, st.name + ('' if extra_round == 0 else '_x%d' % extra_round), st.prelude, terms, shard=st.shard, case_type=getattr(st, 'case_type', None))
        info.update(evaluated=r['evaluated'], disagreements=len(r['bad']), coq_files=r['files'])
        if r['errors']:
            info['errors'] = r['errors'][:3]
            rep.add_violation('correspondence-broken', '[%s] model could not be evaluated: %s' % (st.name, r['errors'][0][:400]),
                              dict(stream=st.name, correspondence=mod.ID + '/' + st.name, errors=r['errors'][:3]), no_input=True)
        tol = getattr(st, 'tolerated', None)
        if tol is not None and r['bad']:
            # cases on which the stream's own independent recomputation shows that floating-point rounding (not modelled: the model is exact)
            # decides the implementation's result; they are counted, not compared
            kept = [(idx, code) for idx, code in r['bad'] if code == 2 or not tol(cases[idx], res[idx][0])]
            info['tolerated_float_rounding'] = len(r['bad']) - len(kept)
            info['disagreements'] = len(kept)
            r['bad'] = kept
        bad_by_code = {}
        for idx, code in r['bad']:
            bad_by_code.setdefault(code, []).append(idx)
        # a known finding is behaviour of the code the model was validated against: the routing is honoured only where the model
        # reproduces the implementation's output on that very case; otherwise the violation is new
        badset = {idx for idx, _ in r['bad']}
        for ci, fid, v in deferred:
            if ci in badset or r['errors']:
                rep.add_violation('property-violated', '[%s] %s [matches the signature of %s, but the model of the validated code does not reproduce this output]'
                                  % (st.name, v, fid), dict(stream=st.name, case=cases[ci], impl_output=res[ci][0]))
            else:
                msg = '%s: %s' % (fid, open_ids[fid].get('what', ''))
                if msg not in rep.known:
                    rep.known.append(msg)
        deferred = []
        for code, idxs in sorted(bad_by_code.items()):
            idx = idxs[0]
            c, (out, viol) = cases[idx], res[idx]
            if code == 2:
                rep.add_violation('property-violated', '[%s] verified checker rejects the implementation output (%d cases)' % (st.name, len(idxs)),
                                  dict(stream=st.name, case=c, impl_output=out))
            else:
                rep.add_violation('correspondence-disagreement',
                                  '[%s] model and implementation differ on %d of %d cases (code %d); first: %s' % (
                                      st.name, len(idxs), len(cases), code, json.dumps(c, default=str)[:300]),
                                  dict(stream=st.name, correspondence=mod.ID + '/' + st.name, case=c, impl_output=out,
                                       n_disagreements=len(idxs)), no_input=True)
    return info


def run_property(mod, tier, seed):
    rep = Report(mod.ID, tier, seed)
    # ---- A
    ok, log = common.coq_build()
    pr = common.props_check(mod.ID) if ok else dict(ok=False, obligations=0, discharged=0, assumptions={}, theorems=[], log=log,
                                                    undischarged=['coq build failed'], forbidden=[])
    rep.proof = pr
    if tier == 'thorough' and pr.get('ok') and getattr(mod, 'COQCHK', True):
        okc, outc = common.coqchk(mod.ID)
        rep.extra['coqchk'] = dict(ok=okc, tail=outc[-1500:])
        if not okc:
            pr['ok'] = False
            pr.setdefault('undischarged', []).append('coqchk failed')
    # ---- B + C
    pool = multiprocessing.get_context('fork').Pool(common.NCPU)
    try:
        if hasattr(mod, 'prepare'):
            mod.prepare(tier, seed, rep)
        for st in mod.STREAMS:
            try:
                info = run_stream(mod, st, rep, tier, seed, pool)
            except multiprocessing.TimeoutError:
                pool.terminate()
                pool = multiprocessing.get_context('fork').Pool(common.NCPU)
                info = dict(name=st.name, evaluated=0, disagreements=0, error='implementation runs did not finish within the time budget')
                rep.add_violation('correspondence-broken', '[%s] the implementation did not finish on the generated cases within the time budget (hang, or a worker was killed)' % st.name,
                                  dict(stream=st.name, correspondence=mod.ID + '/' + st.name), no_input=True)
            except Exception as e:
                info = dict(name=st.name, evaluated=0, disagreements=0, error=traceback.format_exc()[-1500:])
                rep.add_violation('correspondence-broken', '[%s] stream failed: %s' % (st.name, traceback.format_exc()[-600:]),
                                  dict(stream=st.name, correspondence=mod.ID + '/' + st.name), no_input=True)
            rep.corr.append(info)
        if hasattr(mod, 'extra_checks'):
            mod.extra_checks(tier, seed, rep)
        # the code changed since the model was last validated against it: search harder (no alarm by itself)
        changed = common.changed_since_baseline()
        relevant = sorted(set(changed) & (common.relevant_files(mod.ID) | set(getattr(mod, 'EXTRA_ANCHORS', []))))
        if relevant and not rep.violations:
            boost = int(os.environ.get('COMA_BOOST', '2' if tier == 'quick' else '1'))
            rep.notes.append('source files changed since the validated baseline: %s -> %d extra rounds of every stream (with the model)' % (relevant, boost))
            for r in range(101, 101 + boost):
                for st in mod.STREAMS:
                    if st.exhaustive:
                        continue          # a complete enumeration does not change with the seed
                    try:
                        info = run_stream(mod, st, rep, tier, seed, pool, extra_round=r, with_model=True)
                        info['name'] = '%s (extra round %d)' % (st.name, r - 100)
                        rep.corr.append(info)
                    except multiprocessing.TimeoutError:
                        pool.terminate()
                        pool = multiprocessing.get_context('fork').Pool(common.NCPU)
                        rep.add_violation('correspondence-broken', '[%s] the implementation did not finish within the time budget (extra round)' % st.name,
                                          dict(stream=st.name, correspondence=mod.ID + '/' + st.name), no_input=True)
                    except Exception:
                        rep.add_violation('correspondence-broken', '[%s] stream failed in an extra round: %s' % (st.name, traceback.format_exc()[-500:]),
                                          dict(stream=st.name, correspondence=mod.ID + '/' + st.name), no_input=True)
                if rep.violations:
                    break
        broken = (not pr.get('ok')) or any(v['no_input'] for v in rep.violations)
        found = any(not v['no_input'] for v in rep.violations)
        if broken and not found:
            # search the implementation for a concrete failing input with a multiplied budget (oracle only)
            rounds = 3 if tier == 'quick' else 6
            for r in range(1, rounds + 1):
                for st in mod.STREAMS:
                    try:
                        run_stream(mod, st, rep, tier, seed, pool, extra_round=r)
                    except multiprocessing.TimeoutError:
                        pool.terminate()
                        pool = multiprocessing.get_context('fork').Pool(common.NCPU)
                    except Exception:
                        pass
                if any(not v['no_input'] for v in rep.violations):
                    break
            rep.notes.append('proof or correspondence broken: oracle search extended by up to %d rounds' % rounds)
    finally:
        pool.terminate()
        pool.join()
    if not pr.get('ok'):
        what = 'proof obligations of %s not discharged: %s %s %s' % (mod.ID, pr.get('undischarged'), pr.get('forbidden'), (pr.get('log') or '')[-400:])
        rep.add_violation('proof-obligation', what, dict(theorem_file='coq/props/%s.v' % mod.ID, undischarged=pr.get('undischarged'),
                                                         forbidden=pr.get('forbidden'), log=(pr.get('log') or '')[-2000:]), no_input=True)
    if any(not v['no_input'] for v in rep.violations):
        # shrink the first real violation
        pass
    rep.extra['exhaustive'] = any(st.exhaustive for st in mod.STREAMS)
    rep.assumptions = list(getattr(mod, 'ASSUMPTIONS', []))
    trusted = common.TRUSTED_COMMON + list(getattr(mod, 'TRUSTED', []))
    return rep.finish(mod.RULE, 'cd /verif/coq && make && coqc -Q model "" -Q proofs "" -Q props "" props/%s.v' % mod.ID, trusted)


def replay(mod, path):
    j = json.load(open(path))
    r = j.get('replay', j)
    sname = r.get('stream')
    if sname is None or 'case' not in r:
        print('replay names a broken obligation/correspondence, no concrete input: %s' % json.dumps(r, default=str)[:1500])
        pr = common.props_check(mod.ID)
        print('proof obligations now: %d/%d discharged' % (pr['discharged'], pr['obligations']))
        return 0 if pr['ok'] else 1
    st = [s for s in mod.STREAMS if s.name == sname][0]
    out, viol = _work((mod.__name__, sname, r['case']))
    print('case:', json.dumps(r['case'], default=str)[:2000])
    print('implementation output now:', json.dumps(out, default=str)[:2000])
    print('oracle:', viol or 'no violation')
    rc = 1 if viol else 0
    if st.model:
        common.coq_build()
        res = common.run_cases_v(mod.ID, 'replay', st.prelude, [st.term(r['case'], out)], case_type=getattr(st, 'case_type', None))
        tol = getattr(st, 'tolerated', None)
        if res['bad'] and not res['errors'] and tol is not None and all(code != 2 for _, code in res['bad']) and tol(r['case'], out):
            print('model vs implementation: differ, but floating-point rounding decides the implementation\'s result on this case (not compared)')
            res['bad'] = []
        print('model vs implementation:', 'agree' if not res['bad'] and not res['errors'] else 'DIFFER %s %s' % (res['bad'], res['errors'][:1]))
        if res['bad'] or res['errors']:
            rc = 1
    return rc


def main(argv):
    import argparse
    ap = argparse.ArgumentParser()
    ap.add_argument('pid')
    ap.add_argument('--tier', default=os.environ.get('VERIF_TIER', 'quick'), choices=['quick', 'thorough'])
    ap.add_argument('--replay')
    a = ap.parse_args(argv)
    seed = int(os.environ.get('VERIF_SEED', '20260930'))
    sys.path.insert(0, common.REPO)
    mod = importlib.import_module('harness.props.' + a.pid)
    try:
        from . import e2e
        e2e.clean_cache(1500)        # bound the disk used by cached end-to-end runs (oldest first)
    except Exception:
        pass
    if a.replay:
        return replay(mod, a.replay)
    return run_property(mod, a.tier, seed)


if __name__ == '__main__':
    sys.exit(main(sys.argv[1:]))

"""The seeding stage made executable (model/FindPeaks.v, model/Seeding.v): correspondence streams shared by C16 / C05.

find_peaks_unit   scipy.signal.find_peaks itself (the library function COMA calls) against the generic model, on arrays of dyadic
                  rationals / integers over small alphabets (many plateaus and ties) with random height / distance / prominence borders,
                  and the two call patterns of COMA (find_peaks_initial, find_peaks_refine).
float_borders     the float borders COMA passes (0.05 * max, minPeakDistance / resolution) against their exact readings in the model.
seeding           the real chain getInitialAlignment (both strands, every reference) -> PeaksSelector.selectPeaks -> InitialAlignment.refine
                  against Seeding.seeds_res on generated maps.
"""
import math
from fractions import Fraction
from .driver import Stream
from .common import z, zl, clist, cb

FP_PRELUDE = '''From Coq Require Import ZArith QArith Qabs List Bool. Import ListNotations.
Require Import Py FindPeaks. Open Scope Z_scope.
Definition eqpk (a b : nat * Q) := Nat.eqb (fst a) (fst b) && Qeq_bool (snd a) (snd b).
Fixpoint eqpks (a b : list (nat * Q)) := match a, b with [], [] => true | x :: s, y :: t => eqpk x y && eqpks s t | _, _ => false end.
Definition eqzk (a : nat * Z) (b : nat * Q) := Nat.eqb (fst a) (fst b) && Qeq_bool (inject_Z (snd a)) (snd b).
Fixpoint eqzks (a : list (nat * Z)) (b : list (nat * Q)) := match a, b with [], [] => true | x :: s, y :: t => eqzk x y && eqzks s t | _, _ => false end.
(* ord is an argsort of prio: a permutation of 0..n-1 along which the priorities do not decrease *)
Fixpoint nondecr (l : list Q) := match l with a :: ((b :: _) as t) => Qle_bool a b && nondecr t | _ => true end.
Definition is_perm (ord : list nat) (n : nat) := Nat.eqb (length ord) n && forallb (fun k => existsb (Nat.eqb k) ord) (seq 0 n).
Definition valid_ord (prio : list Q) (ord : list nat) := is_perm ord (length prio) && nondecr (map (fun j => nth j prio 0%Q) ord).
'''


def q(fr):
    fr = Fraction(fr)
    return '(%s # %d)' % (z(fr.numerator), fr.denominator)


def qopt(fr):
    return 'None' if fr is None else '(Some %s)' % q(fr)


def nl(xs):
    return '[' + '; '.join('%d%%nat' % x for x in xs) + ']'


def pk_list(pairs):
    return clist('(%d%%nat, %s)' % (k, q(h)) for k, h in pairs)


def stages(x, height, dceil):
    """the peaks entering the distance condition (local maxima that pass the height condition), with scipy's own helper"""
    import numpy as np
    from scipy.signal._peak_finding_utils import _local_maxima_1d
    peaks = _local_maxima_1d(np.asarray(x, dtype=np.float64))[0]
    if height is not None:
        peaks = peaks[np.asarray(x, dtype=np.float64)[peaks] >= height]
    return peaks


def tie_within(pos, hs, d):
    """two peaks of equal height closer than d: the only situation in which the unspecified argsort order can matter"""
    return any(hs[a] == hs[b] and pos[b] - pos[a] < d for a in range(len(pos)) for b in range(a + 1, min(len(pos), a + d + 1)) if pos[b] - pos[a] < d)


class FindPeaksUnit(Stream):
    """scipy.signal.find_peaks against FindPeaks.find_peaks_ord / find_peaks (generic conditions) and find_peaks_initial / find_peaks_refine"""
    name = 'find_peaks_unit'
    shard = 60
    case_type = '(list Q * (option Q * option (nat * list nat * bool) * option Q) * Z * list (nat * Q))%type'
    prelude = FP_PRELUDE + '''(* samples, (height border, (ceil distance, argsort used by numpy, equal heights within the distance), prominence border),
   pattern: 0 generic, 1 = COMA's initial call (height 0.75*max, distance), 2 = COMA's refine call (integers, height, prominence 0.05*max(initial=0));
   expected (index, height) *)
Definition check (c : list Q * (option Q * option (nat * list nat * bool) * option Q) * Z * list (nat * Q)) : Z :=
  match c with (x, (h, d, p), pat, exp) =>
    let hok := match h with Some b => Some (fun v => Qle_bool b v) | None => None end in
    let pok := match p with Some b => Some (fun v base => Qle_bool b (v - base)) | None => None end in
    let p1 := match hok with Some f => select_height f (local_maxima Qle_bool x) | None => local_maxima Qle_bool x end in
    let a := match d with
             | Some (dd, ord, tie) =>
               valid_ord (map snd p1) ord && eqpks (find_peaks_ord Qle_bool hok (Some (dd, Some ord)) pok x) exp
               && (tie || eqpks (find_peaks Qle_bool hok (Some dd) pok x) exp)
             | None => eqpks (find_peaks Qle_bool hok None pok x) exp
             end in
    let b := if pat =? 1 then match d with Some (dd, _, tie) => tie || eqpks (find_peaks_initial x dd) exp | None => false end
             else if pat =? 2 then match h with Some thr => eqzks (find_peaks_refine (map (fun v => Qnum v / Zpos (Qden v)) x) thr) exp | None => false end
             else true in
    if a && b then 0 else 1 end.'''

    def gen(self, rng, tier):
        n = 700 if tier == 'quick' else 6000
        out = []
        for _ in range(n):
            pat = rng.choice([0, 0, 0, 1, 1, 2, 2])
            L = rng.choice([0, 1, 2, 3, rng.randint(4, 12), rng.randint(10, 60), rng.randint(40, 200)])
            den = 1 if pat == 2 else rng.choice([1, 2, 8])
            hi = rng.choice([1, 2, 3, 5, 12, 60])
            shape = rng.choice(['iid', 'iid', 'walk', 'blocks'])
            if shape == 'iid':
                x = [rng.randint(0, hi) for _ in range(L)]
            elif shape == 'walk':
                x, v = [], rng.randint(0, hi)
                for _ in range(L):
                    v = max(0, v + rng.choice([-1, 0, 0, 1])); x.append(v)
            else:
                x = []
                while len(x) < L:
                    x += [rng.randint(0, hi)] * rng.randint(1, 5)
                x = x[:L]
            if pat != 2 and rng.random() < 0.2:
                x = [v - hi // 2 for v in x]                    # negative samples too
            mx = max(x) if x else 0
            case = dict(x=x, den=den, pat=pat, height=None, dist=None, prom=None)
            if pat == 1:
                if not x:
                    x = case['x'] = [0, 1, 0]; mx = 1
                case['height'] = [3 * mx, 4]                      # 0.75 * max, in units of 1/den
                case['dist'] = rng.choice([[20000, 1400], [5, 1], [3, 2], [7, 2], [1, 1], [12, 5]])
            elif pat == 2:
                case['height'] = [rng.choice([0, 1, 2, mx, mx - 1, 3]), rng.choice([1, 2])]
                case['prom'] = 'coma'
            else:
                if rng.random() < 0.7: case['height'] = [rng.randint(-1, 2 * hi + 1), 2]
                if rng.random() < 0.7: case['dist'] = rng.choice([[1, 1], [2, 1], [3, 1], [5, 2], [7, 3], [20000, 1400], [9, 1], [30, 1]])
                if rng.random() < 0.7: case['prom'] = [rng.randint(0, 2 * hi), 2]
            out.append(case)
        return out

    @staticmethod
    def floats(case):
        import numpy as np
        den = case['den']
        x = np.array([v / den for v in case['x']], dtype=np.float64) if case['pat'] != 2 else np.array(case['x'], dtype=np.int64)
        h = None if case['height'] is None else case['height'][0] / (case['height'][1] * den)
        d = None if case['dist'] is None else case['dist'][0] / case['dist'][1]
        if case['prom'] == 'coma':
            p = 0.05 * x.max(initial=0)
        else:
            p = None if case['prom'] is None else case['prom'][0] / (case['prom'][1] * den)
        return x, h, d, p

    def impl(self, case):
        import numpy as np, warnings
        from scipy.signal import find_peaks
        x, h, d, p = self.floats(case)
        kw = {}
        if h is not None: kw['height'] = h
        if d is not None: kw['distance'] = d
        if p is not None: kw['prominence'] = p
        with warnings.catch_warnings():
            warnings.simplefilter('ignore')
            if case['pat'] == 1:
                assert h == 0.75 * np.max(x)
                peaks, props = find_peaks(x, height=0.75 * np.max(x), width=(None, None), rel_height=0.5, distance=d)
            elif case['pat'] == 2:
                peaks, props = find_peaks(x, height=h, width=(None, None), prominence=0.05 * x.max(initial=0))
            else:
                peaks, props = find_peaks(x, width=(None, None), **kw)
        out = dict(peaks=[int(k) for k in peaks], n=len(peaks))
        xf = np.asarray(x, dtype=np.float64)
        if any(float(xf[k]) != float(v) for k, v in zip(peaks, props.get('peak_heights', xf[peaks]))):
            out['err'] = 'HARNESS:peak_heights differ from x[peaks]'
        if d is not None:
            p1 = stages(x, h, None)
            out['ord'] = [int(j) for j in np.argsort(xf[p1])]
            out['dceil'] = int(math.ceil(d))
            out['tie'] = tie_within([int(k) for k in p1], [float(v) for v in xf[p1]], out['dceil'])
        return out

    def term(self, case, out):
        den = case['den']
        fr = lambda v: Fraction(v, den)
        xs = clist(q(fr(v)) for v in case['x'])
        h = None if case['height'] is None else Fraction(case['height'][0], case['height'][1] * den)
        if case['prom'] == 'coma':
            p = Fraction(float(0.05 * max([0] + case['x'])))         # the double border itself, exactly
        else:
            p = None if case['prom'] is None else Fraction(case['prom'][0], case['prom'][1] * den)
        d = 'None' if case['dist'] is None else '(Some (%d%%nat, %s, %s))' % (out['dceil'], nl(out['ord']), cb(out['tie']))
        exp = pk_list((k, fr(case['x'][k])) for k in out.get('peaks', [0]))
        return '(%s, (%s, %s, %s), %s, %s)' % (xs, qopt(h), d, qopt(p), z(case['pat']), exp)

    def oracle(self, case, out):
        """find_peaks' documented contract, decided independently on its output"""
        if 'err' in out:
            return ['find_peaks: %s (case %s)' % (out['err'], case)]
        x, h, d, p = self.floats(case)
        x = [float(v) for v in x]
        errs = []
        pk = out['peaks']
        if pk != sorted(set(pk)):
            errs.append('peaks not strictly ascending')
        for k in pk:
            if not (0 < k < len(x) - 1):
                errs.append('peak %d at the edge' % k); break
            l = k
            while l > 0 and x[l - 1] == x[k]: l -= 1
            r = k
            while r < len(x) - 1 and x[r + 1] == x[k]: r += 1
            if l == 0 or r == len(x) - 1 or not (x[l - 1] < x[k] and x[r + 1] < x[k]) or k != (l + r) // 2:
                errs.append('peak %d is not the midpoint of a plateau with strictly lower neighbours' % k); break
            if h is not None and x[k] < h:
                errs.append('peak %d below the height border' % k); break
        if d is not None and any(b - a < math.ceil(d) for a, b in zip(pk, pk[1:])):
            errs.append('two peaks closer than the distance')
        return ['%s (x=%s height=%s distance=%s prominence=%s peaks=%s)' % (e, x, h, d, p, pk) for e in errs[:2]]

    def classify(self, case, out):
        k = [['generic', 'initial pattern', 'refine pattern'][case['pat']], 'peaks=%s' % (out.get('n', 0) if out.get('n', 0) < 6 else '6+')]
        if case['dist'] is not None:
            k.append('equal heights within the distance (argsort order matters: compared with the recorded order only)' if out.get('tie') else 'distance: no tie within the distance')
            if 'ord' in out and len(out['ord']) > 1:
                import numpy as np
                x, h, d, p = self.floats(case)
                xf = np.asarray(x, dtype=np.float64)
                p1 = stages(x, h, None)
                if [int(j) for j in np.argsort(xf[p1], kind='stable')] != out['ord']:
                    k.append('numpy argsort differs from the stable order')
        xs = case['x']
        if any(a == b for a, b in zip(xs, xs[1:])): k.append('plateaus')
        return k

    def nontrivial(self, case, out):
        return repr(case) if out.get('peaks') else None


class FloatBorders(Stream):
    """the float borders COMA computes against the exact readings of the model:
    fl(0.05 * m) <= p  iff  m <= 20 p  (integers);  ceil(fl(mpd / res)) = ceil(mpd / res) and fl(mpd / res) < 1 iff mpd < res"""
    name = 'float_borders'
    model = False
    exhaustive = True

    def gen(self, rng, tier):
        top = 60000 if tier == 'quick' else 400000
        return [dict(kind='prominence', lo=a, hi=min(top, a + 20000)) for a in range(0, top, 20000)] + \
               [dict(kind='distance', res=r) for r in ([1, 2, 3, 7, 100, 700, 1400, 1401, 2800, 9999] if tier == 'quick' else list(range(1, 120)) + [700, 1400, 1401, 2800, 9999])]

    def impl(self, case):
        bad = []
        if case['kind'] == 'prominence':
            import numpy as np
            for m in range(case['lo'], case['hi']):
                b = 0.05 * np.int64(m)
                for p in (m // 20 - 1, m // 20, m // 20 + 1):
                    if p >= 0 and (b <= float(p)) != (m <= 20 * p):
                        bad.append([m, p])
        else:
            r = case['res']
            for mpd in list(range(0, 40 * r + 3, max(1, r // 50))) + [k * r + e for k in range(0, 30) for e in (-1, 0, 1)]:
                if mpd < 0: continue
                f = mpd / r
                if (f < 1) != (mpd < r) or (f >= 1 and math.ceil(f) != -((-mpd) // r)):
                    bad.append([mpd, r])
        return dict(bad=bad[:5])

    def oracle(self, case, out):
        return ['float border disagrees with its exact reading: %s %s' % (case, out['bad'])] if out.get('bad') or 'err' in out else []

    def classify(self, case, out):
        return [case['kind']]


# ------------------------------------------------------------------------------------------------ the seeding chain
SCALE62 = 2 ** 62
SEED_PRELUDE = FP_PRELUDE + """Require Import Vec Peaks Correlate Pairing Core Multi Coordinator Seeding.
Fixpoint eql (a b : list Z) := match a, b with [], [] => true | x :: s, y :: t => (x =? y) && eql s t | _, _ => false end.
(* (reference id, strand, primary position, secondary peaks compared 0 = in order / 1 = as a set (more than 10 found: numpy's arrangement of the 10 kept is
   unspecified) / 2 = not at all (equal heights at the border: the set is unspecified too), secondary peaks) *)
Notation sel := (Z * bool * Z * Z * list Z)%type.
Definition skey (r : Z) (v : bool) (p : Z) : Z := (r * 2 + (if v then 1 else 0)) * 1099511627776 + p.
(* multi = true: the arrangement numpy's argpartition leaves among the kept primary peaks is visible (equal heights kept): compare as multisets *)
Definition eqprim (multi : bool) (a : list ppeak) (b : list sel) :=
  let ka := map (fun x => skey (mid (pp_ref x)) (pp_rev x) (pp_pos x)) a in
  let kb := map (fun t => match t with (r, v, p, _, _) => skey r v p end) b in
  if multi then eql (sort_by (fun k => k) ka) (sort_by (fun k => k) kb) else eql ka kb.
Fixpoint eqseeds1 (a : list cseed) (b : list sel) := match a, b with [], [] => true
  | x :: s, (r, v, _, cut, pk) :: t => (mid (sd_ref x) =? r) && Bool.eqb (sd_rev x) v
      && (if cut =? 0 then eql (sd_peaks x) pk else if cut =? 1 then eql (sort_by (fun k => k) (sd_peaks x)) (sort_by (fun k => k) pk) else true) && eqseeds1 s t
  | _, _ => false end.
(* with multi: pair every expected seed with the model's seed on the same (reference, strand, primary position): refine the EXPECTED primary peaks *)
Definition reorder (s : list ppeak) (e : list sel) : list ppeak :=
  flat_map (fun t => match t with (r, v, p, _, _) =>
    match filter (fun x => skey (mid (pp_ref x)) (pp_rev x) (pp_pos x) =? skey r v p) s with x :: _ => [x] | [] => [] end end) e.
Definition mk_sp (t : Z * Z * Z * nat * Z * Z * Z * Q) : sparams := match t with (a, b, c, d, e, f, g, h) => mkSP a b c d e f g h end.
Definition mk_map (x : Z * Z * list Z) : omap := match x with (i, l, ps) => mkMap i l ps 0 end.
(* the code's own float correlation: doubles in [0, 1] are sent as integers, v = double * 2^62 exactly *)
Definition fq (v : Z) : Q := Qmake v 4611686018427387904.
(* the border is 3/4 max up to one rounding; ord is an argsort of the heights of the peaks entering the distance condition *)
Definition fl_ok (c : list Q) (border : Q) (ord : list nat) : bool :=
  let m := qmax c in
  Qle_bool (Qabs (border - (3 # 4) * m) * inject_Z 4503599627370496) m
  && valid_ord (map snd (select_height (fun h => qleb border h) (local_maxima qleb c))) ord.
(* float tier: primary stage from the code's float correlations (one per reference and strand, None = EmptyInitialAlignment) and
   numpy's argsort inside the distance condition; everything from find_peaks on is the model's *)
Fixpoint prim_data (sp : sparams) (rr : list (omap * bool)) (data : list (option (list Z * Z * list nat))) : Py.res (list ppeak) :=
  match rr, data with
  | [], [] => Ok []
  | (r, v) :: t, d :: dt =>
    do a <- match d with
            | None => Ok []
            | Some (c, b, o) => let cq := map fq c in if fl_ok cq (fq b) o then primary_from sp r v (Some (fq b, o)) cq else Err
            end;
    do rest <- prim_data sp t dt; Ok (a ++ rest)
  | _, _ => Err
  end.
Definition tolerate := TOLERATE.
(* parameters, references, query, (exact-tier mode, float-tier mode: 0 = exact order, 1 = selected primary peaks as a multiset, 2 = left out /
   disagreement tolerated; validate score_leb against the plain test on every pair of primary peaks), float correlations,
   expected: None = the code raised, Some [sel] in the order of the selected peaks.
   float tier: 1 = selected primary peaks differ; 3 = secondary peaks differ (refine_all on the selected primary peaks);
   exact tier (from the maps alone): 5 = selected primary peaks differ; 4 = exception behaviour differs;
   7 = exact tier differs in a flagged case (only shown when tolerate = false); 8 = score_leb differs from the plain test *)
Definition check (c : (Z * Z * Z * nat * Z * Z * Z * Q) * list (Z * Z * list Z) * (Z * Z * list Z) * (Z * Z * bool) * list (option (list Z * Z * list nat))
                      * option (list sel)) : Z :=
  match c with (p, refs, q, (xmode, fmode, vs), data, exp) =>
    let sp := mk_sp p in let rs := map mk_map refs in let qm := mk_map q in
    match all_primary sp rs qm, exp with
    | Err, None => 0
    | Err, Some _ => 4
    | Ok all, None => match refine_all sp qm (select_primary sp all) with Err => 0 | Ok _ => 4 end
    | Ok all, Some e =>
      let sx := select_primary sp all in
      let okx := eqprim (0 <? xmode) sx e in
      let fl := if fmode =? 2 then None else Some (prim_data sp (flat_map (fun r => [(r, false); (r, true)]) rs) data) in
      let scores_ok := if vs then forallb (fun a => forallb (fun b => Bool.eqb (score_leb a b) (score_leb_spec a b)) all) all else true in
      if negb scores_ok then 8 else
      match fl with
      | Some Err => 4
      | Some (Ok allf) =>
        let sf := select_primary sp allf in
        if eqprim (0 <? fmode) sf e then
          match refine_all sp qm (reorder sf e) with
          | Ok sds => if eqseeds1 sds e then (if okx then 0 else if xmode =? 2 then (if tolerate then 0 else 7) else 5) else 3
          | Err => 4 end
        else 1
      | None =>
        if okx then match refine_all sp qm (reorder sx e) with Ok sds => if eqseeds1 sds e then 0 else 3 | Err => 4 end
        else if xmode =? 2 then (if tolerate then 0 else 7) else 5
      end
    end end."""

DEFAULT_SP = dict(res1=1400, blur1=1, mpd=20000, pcount=3, res2=100, blur2=4, margin=16000, thr=27.0)


class _Recorder:
    def __init__(self): self.initial = []

    def dispatch(self, m):
        from src.extensions.messages import InitialAlignmentMessage
        if isinstance(m, InitialAlignmentMessage):
            self.initial.append(m.data)


def local_maxima_exact(x):
    """(left edge, right edge, midpoint) of every maximal plateau with strictly lower neighbours on both sides (independent of scipy and of the model)"""
    out, n, i = [], len(x), 1
    while i < n - 1:
        j = i
        while j + 1 < n and x[j + 1] == x[i]: j += 1
        if x[i - 1] < x[i] and j < n - 1 and x[j + 1] < x[i]:
            out.append((i, j, (i + j) // 2))
        i = j + 1
    return out


MULTI = 'argpartition cut keeps peaks of equal height (arrangement unspecified: selected peaks compared as a multiset)'


def sign(a, b):
    return (a > b) - (a < b)


def exact_found(Qx, d):
    """find_peaks(height=3/4 max, distance=d) on exact rationals, re-implemented here (independent of scipy and of the Coq model): plateaus ->
    height border -> greedy by height, equal heights visited from the right (the stable argsort read from its end)"""
    if not Qx:
        return []
    thr = Fraction(3, 4) * max(Qx)
    pk = [m for l, r, m in local_maxima_exact(Qx) if Qx[m] >= thr]
    keep = {m: True for m in pk}
    for m in sorted(pk, key=lambda m: (Qx[m], m), reverse=True):
        if keep[m]:
            for o in pk:
                if o != m and abs(o - m) < d: keep[o] = False
    return [m for m in pk if keep[m]]


def exact_flags(F, Qx, found_f, d, pcount):
    """does FFT rounding noise (or an unspecified numpy arrangement) matter for this correlation?  found_f = the peaks scipy found on the
    code's float correlation F; compared with the peaks of the exact rational correlation Qx: same bins, same ranking by height."""
    flags = []
    found_q = exact_found(Qx, d)
    if list(found_f) != found_q:
        flags.append('FFT rounding noise decides which bins are peaks (exact ties among the samples that matter)')
    else:
        rank = lambda h: sorted(range(len(found_q)), key=lambda k: (h[found_q[k]], found_q[k]))
        if rank(F) != rank(Qx):
            flags.append('FFT rounding noise decides the order of two peaks of equal exact height')
        if 0 < pcount < len(found_q):
            hs = sorted((Qx[m] for m in found_q), reverse=True)
            if hs[pcount - 1] == hs[pcount]:
                flags.append('argpartition cut with equal exact heights at the border (set unspecified)')
            elif len(set(hs[:pcount])) < pcount:
                flags.append(MULTI)
    return flags


def run_chain(refs, query, sp, trim=True):
    """the real chain, through the coordinator's own (private) methods"""
    import numpy as np, warnings
    from itertools import chain
    from types import SimpleNamespace
    from scipy.signal import correlate, find_peaks
    from scipy.signal._peak_finding_utils import _local_maxima_1d
    from src.correlation.optical_map import OpticalMap, EmptyInitialAlignment
    from src.correlation.sequence_generator import SequenceGenerator
    from src.correlation.peaks_selector import PeaksSelector
    from src.workflow_coordinator import _WorkflowCoordinator
    args = SimpleNamespace(minPeakDistance=sp['mpd'], peaksCount=sp['pcount'], secondaryMargin=sp['margin'], peakHeightThreshold=sp['thr'])
    prim, sec = SequenceGenerator(sp['res1'], sp['blur1']), SequenceGenerator(sp['res2'], sp['blur2'])
    rec = _Recorder()
    wc = _WorkflowCoordinator(args, prim, sec, None, rec, PeaksSelector(sp['pcount']))
    rmaps = [OpticalMap(i, l, list(ps)) for i, l, ps in refs]
    q = OpticalMap(query[0], query[1], list(query[2]))
    if trim:
        q = q.trim()
    corrs = list(chain.from_iterable(wc._WorkflowCoordinator__getPrimaryCorrelations(r, q) for r in rmaps))
    selected = wc.peaksSelector.selectPeaks(iter(corrs))
    xflags, fflags, scores, data = [], [], [], []
    d = math.ceil(sp['mpd'] / sp['res1'])
    if len(rec.initial) != 2 * len(rmaps):
        raise ArithmeticError('expected two InitialAlignment messages per reference')
    for c in rec.initial:
        if isinstance(c, EmptyInitialAlignment):
            data.append(None); continue
        x = np.asarray(c.correlation, dtype=np.float64)
        F = [float(v) for v in x]
        if any(v * SCALE62 != int(v * SCALE62) or not (0 <= v <= 2) for v in F):
            raise ArithmeticError('normalised correlation sample is not a multiple of 2^-62 in [0, 2]')
        p0 = _local_maxima_1d(x)[0]
        border = float(0.75 * np.max(x))
        if border * SCALE62 != int(border * SCALE62):
            raise ArithmeticError('height border is not a multiple of 2^-62')
        p1 = p0[x[p0] >= 0.75 * np.max(x)]
        data.append(dict(F=[int(v * SCALE62) for v in F], border=int(border * SCALE62), ord=[int(j) for j in np.argsort(x[p1])]))
        s = q.getSequence(prim, c.reverseStrand); rs = c.reference.getSequence(prim)
        raw = np.rint(correlate(rs, s, mode='valid', method='fft')).astype(np.int64)
        n2 = np.rint(correlate(rs, np.ones(len(s)), mode='valid', method='fft')).astype(np.int64) + int(np.sum(s))
        Qx = [Fraction(2 * int(a), int(b)) for a, b in zip(raw, n2)]
        if any(abs(float(a) - b) > 1e-9 for a, b in zip(Qx, F)):
            xflags.append('HARNESS: float correlation not within 1e-9 of the exact rational')
        with warnings.catch_warnings():
            warnings.simplefilter('ignore')
            fpk, fprops = find_peaks(x, height=0.75 * np.max(x), distance=sp['mpd'] / sp['res1'])
        fh = sorted((float(v) for v in fprops['peak_heights']), reverse=True)
        xflags += exact_flags(F, Qx, [int(k) for k in fpk], d, sp['pcount'])
        pc = sp['pcount']
        if pc < len(fh) and pc and fh[pc - 1] == fh[pc]:
            fflags.append('argpartition cut with equal float heights at the border (set unspecified)')
        elif pc < len(fh) and pc and len(set(fh[:pc])) < pc:
            fflags.append(MULTI)
        scores += [(float(p.score), id(c), pc < len(fh)) for p in c.peaks]
    scores.sort()
    pc = sp['pcount']
    if 0 < pc < len(scores):
        a, b = scores[len(scores) - pc], scores[len(scores) - pc - 1]            # the last selected and the first left out
        if a[0] == b[0] and a[1] == b[1] and a[2]:
            fflags.append('selection border between two peaks of equal score of one correlation that argpartition cut (set unspecified)')
    if any(b[0] - a[0] < 1e-9 and a[1] != b[1] and a[0] != b[0] for a, b in zip(scores, scores[1:])):
        fflags.append('scores of two peaks of different correlations closer than 1e-9')
    # two peaks of ONE correlation whose double heights differ by rounding noise only (equal as exact rationals, e.g. 64/115 twice): their
    # order after selectPeaks - and, at the selection border, which of them is kept - is decided by FFT noise; the exact tier can only compare
    # the selected peaks as a multiset (thorough pass, data set 918620622: two equal peaks of a palindromic region on one strand)
    for k, (a, b) in enumerate(zip(scores, scores[1:])):
        if b[0] - a[0] < 1e-9 and a[1] == b[1] and a[0] != b[0]:
            if 0 < pc < len(scores) and k == len(scores) - pc - 1:
                xflags.append('selection border between two peaks of one correlation whose heights differ by rounding noise only')
            else:
                xflags.append(MULTI)
    out = []
    for k, spk in enumerate(selected):
        pc, sc = wc._WorkflowCoordinator__getSecondaryCorrelation(spk, k)
        pos = [p.position for p in sc.peaks]
        if any(int(x) != x for x in pos) or int(spk.peak.position) != spk.peak.position:
            raise ArithmeticError('non-integer peak position')
        cut2 = 0
        if len(pos) >= 10:
            with warnings.catch_warnings():
                warnings.simplefilter('ignore')
                allh = sorted((float(v) for v in find_peaks(sc.correlation, height=sp['thr'], width=(None, None),
                                                            prominence=0.05 * sc.correlation.max(initial=0))[1]['peak_heights']), reverse=True)
            if len(allh) > 10:
                cut2 = 2 if allh[9] == allh[10] else 1
        out.append([int(pc.reference.moleculeId), bool(pc.reverseStrand), int(spk.peak.position), cut2, [int(x) for x in pos]])
    xflags = sorted(set(xflags + fflags)); fflags = sorted(set(fflags))
    mode = lambda fl: 0 if not fl else 1 if fl == [MULTI] else 2
    return dict(sel=out, xflags=xflags, fflags=fflags, xmode=mode(xflags), fmode=mode(fflags), data=data, npeaks=len(scores))


def map_term(m, trim=False):
    from . import pipeline as pl
    i, l, ps = m
    if trim and ps:
        l = ps[-1] - ps[0] + 1; ps = [p - ps[0] for p in ps]
    return '(%s,%s,%s)' % (z(i), z(pl.r10(l)), zl(pl.r10(p) for p in ps))


def sp_term(sp):
    return '(%s,%s,%s,%d%%nat,%s,%s,%s,%s)' % (z(sp['res1']), z(sp['blur1']), z(sp['mpd']), sp['pcount'], z(sp['res2']), z(sp['blur2']), z(sp['margin']),
                                              q(Fraction(float(sp['thr']))))


SP_SETS = [dict(), dict(), dict(), dict(pcount=1), dict(pcount=6), dict(pcount=2, thr=15.0), dict(res1=1000, blur1=2, mpd=5000, pcount=4),
           dict(res2=50, blur2=6, margin=8000, thr=40.5, pcount=3), dict(res1=2000, blur1=0, mpd=2000, pcount=5, thr=20.0),
           dict(mpd=60000, pcount=5), dict(res1=700, mpd=1000, pcount=7, thr=27.0), dict(pcount=2), dict(mpd=28001, pcount=4)]


class SeedingChain(Stream):
    """the real seeding chain (the coordinator's __getPrimaryCorrelations on every reference, both strands -> selectPeaks ->
    __getSecondaryCorrelation/refine) against the model, in two tiers:
    float tier: Seeding.primary_from (find_peaks, createPeaks, noise level) on the code's own float correlations -> select_primary -> refine_all;
    exact tier: Seeding.all_primary from the maps alone (exact rational correlations) -> select_primary -> refine_all."""
    name = 'seeding'
    shard = 2
    case_timeout = 300
    case_type = ('((Z * Z * Z * nat * Z * Z * Z * Q) * list (Z * Z * list Z) * (Z * Z * list Z) * (Z * Z * bool) * list (option (list Z * Z * list nat)) '
                 '* option (list (Z * bool * Z * Z * list Z)))%type')
    n_quick, n_thorough = 36, 260

    @property
    def prelude(self):
        import os
        return SEED_PRELUDE.replace('TOLERATE', 'false' if os.environ.get('COMA_SEEDING_STRICT') else 'true')

    def gen(self, rng, tier):
        from . import e2e_streams as es
        from .props import C16
        n = self.n_quick if tier == 'quick' else self.n_thorough
        out = []
        nds = max(2, n // 12)
        for k in range(nds):
            seed = rng.randint(1, 10 ** 9)
            nlab = rng.choice([80, 120, 200])
            ds = es.make_dataset(seed, 14, nlab=nlab, twodel=2)
            for qi in rng.sample(range(len(ds['queries'])), min(len(ds['queries']), max(1, (n * 3 // 4) // nds))):
                sp = dict(DEFAULT_SP, **rng.choice(SP_SETS))
                out.append(dict(kind='dataset', ds_seed=seed, nlab=nlab, qi=qi, sp=sp, vs=(sp['pcount'] <= 3 and len(out) % 6 == 0)))
        for _ in range(max(6, n // 8)):
            # peaks exactly p bins apart, minPeakDistance = p * resolution + 1: the distance is p + epsilon, scipy uses ceil = p + 1
            scale = rng.choice([1, 3, 10]); res1 = 14 * scale; p = rng.choice([2, 3, 5]); res2 = scale
            slots = [k for k in range(0, 60) if rng.random() < 0.75]
            rps = sorted(set([k * p * res1 + rng.randint(0, res1 // 3) for k in slots] + [rng.randint(0, 60 * p * res1) for _ in range(rng.randint(0, 6))]))
            m = rng.randint(3, 6)
            qps = [k * p * res1 for k in range(m) if k in (0, m - 1) or rng.random() < 0.8]
            if rng.random() < 0.5:
                qps = [qps[-1] - x for x in reversed(qps)]
            sp = dict(res1=res1, blur1=rng.choice([0, 1]), mpd=p * res1 + rng.choice([1, 1, 1, res1 // 2, 0]), pcount=rng.choice([3, 5, 8]),
                      res2=res2, blur2=rng.choice([2, 4]), margin=40 * res2, thr=rng.choice([2.0, 3.0]))
            out.append(dict(kind='synthetic', sub='periodic', refs=[[1, rps[-1] + rng.randint(1, res1), rps]], query=[7, qps[-1] + 1, qps], sp=sp, vs=False))
        while len(out) < n:
            c = C16.gen_seeding_case(rng, rng.choice([1, 1, 3, 10]))
            # a second, unrelated reference and small height borders: the scaled resolutions give short vectors with many ties
            sp = dict(res1=c['res'], blur1=c['r'], mpd=c['res'] * rng.choice([1, 2, 5]) + rng.choice([0, 0, 1, c['res'] // 2]), pcount=rng.choice([1, 2, 3, 5]),
                      res2=c['res2'], blur2=c['r2'], margin=c['margin'], thr=rng.choice([1.0, 2.0, 3.5, 6.0]))
            if rng.random() < 0.05:
                sp['mpd'] = c['res'] - 1                              # distance below 1: ValueError
            other = sorted(set(rng.randint(0, c['rlen']) for _ in range(rng.randint(1, 40))))
            refs = [[1, c['rlen'], c['rps']], [2, other[-1] + rng.randint(1, 50), other]]
            if rng.random() < 0.5: refs.reverse()
            out.append(dict(kind='synthetic', sub=c['kind'], refs=refs, query=[7, c['qlen'], c['qps']], sp=sp, vs=(len(out) % 2 == 0)))
        return out

    @staticmethod
    def maps(case):
        if case['kind'] == 'dataset':
            from . import e2e_streams as es
            ds = es.make_dataset(case['ds_seed'], 14, nlab=case['nlab'], twodel=2)
            return [list(r) for r in ds['refs']], list(ds['queries'][case['qi']]), True
        return case['refs'], case['query'], False

    def impl(self, case):
        refs, query, trim = self.maps(case)
        try:
            return run_chain(refs, query, case['sp'], trim)
        except (IndexError, ValueError) as e:
            return dict(raised=type(e).__name__, xflags=[], fflags=[])

    def term(self, case, out):
        refs, query, trim = self.maps(case)
        if 'err' in out or 'raised' in out:
            exp, data, xf, ff = 'None', '[]', 0, 0
        else:
            exp = '(Some %s)' % clist('(%s,%s,%s,%s,%s)' % (z(r), cb(v), z(p), z(c2), zl(10 * x for x in pk)) for r, v, p, c2, pk in out['sel'])
            data = clist('None' if d is None else '(Some (%s, %s, %s))' % (zl(d['F']), z(d['border']), nl(d['ord'])) for d in out['data'])
            xf, ff = out['xmode'], out['fmode']
        return '(%s, %s, %s, (%s, %s, %s), %s, %s)' % (sp_term(case['sp']), clist(map_term(r) for r in refs), map_term(query, trim), z(xf), z(ff), cb(case.get('vs', False)), data, exp)

    def oracle(self, case, out):
        """C16 / C05: min(peaksCount, primary peaks) seeds, each on a reference that was given, at most 10 secondary peaks inside the refined window"""
        if 'err' in out:
            return ['seeding chain: %s' % out['err']]
        if 'raised' in out:
            return []
        errs = []
        sp = case['sp']
        refs, query, trim = self.maps(case)
        ids = {r[0] for r in refs}
        if len(out['sel']) != min(sp['pcount'], out['npeaks']):
            errs.append('%d seeds selected, expected min(peaksCount, primary peaks kept) = %d' % (len(out['sel']), min(sp['pcount'], out['npeaks'])))
        for r, v, p, c2, pk in out['sel']:
            if r not in ids:
                errs.append('seed on a reference that was not given: %s' % r)
            if len(pk) > 10:
                errs.append('more than 10 secondary peaks')
            rlen = {rr[0]: rr[1] for rr in refs}.get(r, 0)
            whole = p - sp['margin'] >= 0 and p + query[1] + sp['margin'] <= rlen
            # only when the refined window lies inside the reference: a window cut short by a reference end can be SHORTER than the query
            # vector, scipy.correlate then swaps its operands and the lags are no longer offsets of the query inside the window
            # (vp soak, VERIF_SEED=4: a query with a 45 kb unlabelled tail on a reference of its own length) - not a clause of C16
            if whole and any(not (p - sp['margin'] <= x <= p + sp['margin'] + sp['res2']) for x in pk):
                errs.append('secondary peak outside [primary - margin, primary + margin]: %s around %s' % (pk, p))
        return ['%s (case %s)' % (e, {k: case[k] for k in case if k not in ('refs', 'query')}) for e in errs[:2]]

    def classify(self, case, out):
        k = [case['kind']] + (['periodic reference (peaks exactly floor(distance) bins apart)'] if case.get('sub') == 'periodic' else [])
        if 'raised' in out:
            return k + ['raises ' + out['raised']]
        if 'err' in out:
            return k + ['harness error']
        k.append('float tier: ' + ['compared in order', 'compared as multiset', 'EXCLUDED'][out['fmode']])
        k.append('exact tier: ' + ['compared in order, no flag', 'compared as multiset', 'flagged (a disagreement is tolerated)'][out['xmode']])
        if any(c2 == 1 for _, _, _, c2, _ in out['sel']): k.append('more than 10 secondary peaks (compared as a set)')
        if any(c2 == 2 for _, _, _, c2, _ in out['sel']): k.append('more than 10 secondary peaks, equal heights at the border (that list not compared)')
        k += ['flag: ' + f for f in out['xflags']]
        k.append('seeds=%d' % len(out['sel']))
        k.append('peaksCount=%d' % case['sp']['pcount'])
        if case.get('vs'): k.append('score_leb validated against the plain algebraic test on all pairs of primary peaks')
        if len({(r, v) for r, v, _, _, _ in out['sel']}) > 1: k.append('seeds on several references/strands')
        if any(v for _, v, _, _, _ in out['sel']): k.append('reverse-strand seed')
        if any(not pk for _, _, _, _, pk in out['sel']): k.append('seed without secondary peak')
        if out['npeaks'] > case['sp']['pcount']: k.append('more primary peaks than peaksCount')
        return k

    def nontrivial(self, case, out):
        import json
        return json.dumps(case, sort_keys=True) if out.get('sel') and not out.get('fflags') else None


# ------------------------------------------------------------------------------------------------ whole runs WITHOUT captured seeds
def _run_full_prelude():
    from . import e2e_streams as es
    base = es.RUN_PRELUDE[:es.RUN_PRELUDE.index('Notation stab')]
    return base + '''Require Import FindPeaks Seeding.
Definition mode_of (m : Z) : mode := if m =? 0 then Best else if m =? 1 then Separate else if m =? 2 then Joined else All_.
Definition mk_sp (t : Z * Z * Z * nat * Z * Z * Z * Q) : sparams := match t with (a, b, c, d, e, f, g, h) => mkSP a b c d e f g h end.
Definition tolerate := TOLERATE.
(* aligner parameters, seeding parameters, mode, maxdiff, references, queries, flagged (some map processed in the real run is flagged by
   harness/seeding.py: FFT rounding noise / an unspecified numpy arrangement may decide its seeds), expected: error flag, main, _1, _2.
   7 = the outputs differ in a flagged run (only shown when tolerate = false) *)
Definition check (c : (Z*Z*Z*Z*Z*Z*Z*Z) * (Z * Z * Z * nat * Z * Z * Z * Q) * Z * Z * list (Z*Z*list Z) * list (Z*Z*list Z) * bool
                      * (bool * list crow * option (list crow) * option (list crow))) : Z :=
  match c with (p, sp, m, maxdiff, refs, qs, flagged, (err, emain, e1, e2)) =>
    let mk := List.map (fun x => match x with (i, l, ps) => mkMap i l ps 0 end) in
    match program_run_full (mkparams p) (mk_sp sp) (mode_of m) maxdiff (mk refs) (mk qs) with
    | Err => if err then 0 else 1
    | Ok o => if err then 1 else if eqcrows (List.map crow_of (o_main o)) emain && eqfile (o_1 o) e1 && eqfile (o_2 o) e2 then 0
              else if flagged then (if tolerate then 0 else 7) else 1
    end end.
'''


def processed_maps(out):
    """the maps (whole queries and second-pass fragments) the real run seeded candidates for: (query id, shift, labels) -> length"""
    _, qs = None, {int(k): v for k, v in out['queries'].items()}
    res = {}
    for r in out['capture']:
        if r['t'] != 'row' or r['q'] not in qs:
            continue
        labels = qs[r['q']]['labels']
        full = [p - labels[0] for p in labels]
        frag = full[r['shift']:r['shift'] + r['nq']]
        if len(frag) == r['nq']:
            res[(r['q'], r['shift'], r['nq'])] = (r['qlen'], frag)
    return res


class RunFullModelStream(Stream):
    """whole real runs against Seeding.program_run_full: the run model with the EXECUTABLE seeding stage — nothing captured from the run is
    passed to the model except the input maps and the command line's parameters"""
    name = 'e2e_run_full_model'
    mem_limit_gb = None
    shard = 1
    parallel = False
    case_timeout = 1500
    case_type = ('((Z*Z*Z*Z*Z*Z*Z*Z) * (Z * Z * Z * nat * Z * Z * Z * Q) * Z * Z * list (Z*Z*list Z) * list (Z*Z*list Z) * bool '
                 '* (bool * list crow * option (list crow) * option (list crow)))%type')
    quick_sets = [dict(nq=5, nlab=100, extra=[], modes=['separate'])]
    thorough_sets = [dict(nq=8, nlab=100, extra=[], modes=['separate', 'best']), dict(nq=8, nlab=140, extra=['-p', '1'], modes=['all']),
                     dict(nq=6, nlab=100, extra=['-p', '6', '-diff', '20000', '-ss', '1'], modes=['joined', 'separate']),
                     dict(nq=8, nlab=200, extra=[], modes=['separate']), dict(nq=12, nlab=120, extra=['-p', '2'], modes=['best', 'all']),
                     dict(nq=10, nlab=160, extra=['-d', '1200', '-sp', '800', '-dp', '0.5', '-su', '-100', '-ms', '1500', '-bs', '900'], modes=['separate', 'joined'])]

    @property
    def prelude(self):
        import os
        return _run_full_prelude().replace('TOLERATE', 'false' if os.environ.get('COMA_SEEDING_STRICT') else 'true')

    def gen(self, rng, tier):
        from . import e2e_streams as es
        from .common import seeded_rng
        base = seeded_rng(getattr(self, 'seed', 0), 'e2e-run-full')
        cases = []
        for k, cfg in enumerate(self.quick_sets if tier == 'quick' else self.thorough_sets):
            c = dict(ds_seed=base.randint(1, 10 ** 9), nq=cfg['nq'], nlab=cfg['nlab'], extra=cfg['extra'])
            out = es.run_dataset(c, modes=cfg['modes'], capture_mode=cfg['modes'][0])
            P = es.params_of(c['extra'])
            sp = dict(DEFAULT_SP, pcount=P['p'])
            refs = [[int(i), m['end'], m['labels']] for i, m in sorted(out['refs'].items(), key=lambda kv: int(kv[0]))]
            flags, nmaps = set(), 0
            for (qid, shift, nq), (qlen, frag) in sorted(processed_maps(out).items()):
                nmaps += 1
                try:
                    rc = run_chain(refs, [qid, qlen, frag], sp, trim=False)
                    if rc['xmode']: flags.update(rc['xflags'])
                    if any(c2 for _, _, _, c2, _ in rc['sel']): flags.add('more than 10 secondary peaks (numpy arrangement reaches the aligner)')
                except Exception as e:
                    flags.add('HARNESS: %s' % type(e).__name__)
            for m in cfg['modes']:
                cases.append(dict(dataset=c, mode=m, flags=sorted(flags), nmaps=nmaps,
                                  recorded=dict(mode=out['modes'][m], refs=out['refs'], queries=out['queries'])))
        return cases

    def impl(self, case):
        return case['recorded']

    def term(self, case, out):
        from . import e2e_streams as es, pipeline as pl
        P = es.params_of(case['dataset']['extra'])
        sp = dict(DEFAULT_SP, pcount=P['p'])
        mo = out['mode']
        err = mo['rc'] != 0

        def mapterm(i, m, trim):
            ps = m['labels']
            if trim:
                length = ps[-1] - ps[0] + 1; ps = [p - ps[0] for p in ps]
            else:
                length = int(m['end'])
            return '(%s,%s,%s)' % (z(i), z(pl.r10(length)), zl(pl.r10(p) for p in ps))
        refs = clist(mapterm(int(i), m, False) for i, m in sorted(out['refs'].items(), key=lambda kv: int(kv[0])))
        qs = clist(mapterm(int(i), m, True) for i, m in sorted(out['queries'].items(), key=lambda kv: int(kv[0])))

        def fileterm(fk, optional=True):
            f = mo['files'].get(fk)
            if f is None:
                return 'None'
            t = clist(es.crow_term(r) for r in f['rows'])
            return 'Some %s' % t if optional else t
        return '(%s, %s, %s, %s, %s, %s, %s, (%s, %s, %s, %s))' % (
            pl.params_term({k: P[k] for k in pl.DEFAULT}), sp_term(sp), z(es.MODES.index(case['mode'])), z(P['diff'] * 10), refs, qs, cb(bool(case['flags'])),
            cb(err), fileterm('main', False) if not err else '[]', fileterm('_1'), fileterm('_2'))

    def oracle(self, case, out):
        return []

    def classify(self, case, out):
        mo = out['mode']
        k = ['mode=' + case['mode'], 'maps seeded in the real run: %d+' % (5 * (case['nmaps'] // 5)),
             'compared, no flag' if not case['flags'] else 'flagged (a disagreement is tolerated)']
        k += ['flag: ' + f for f in case['flags']]
        k += ['%s records=%d+' % (fk, 5 * (len(f.get('rows', [])) // 5)) for fk, f in mo['files'].items()]
        return k

    def nontrivial(self, case, out):
        import json
        return json.dumps([case['dataset'], case['mode']], sort_keys=True) if out['mode']['files'].get('main', {}).get('rows') else None

"""writes /verif/MANIFEST.json from the table below (python3 -m harness.mkmanifest)"""
import json, os
VERIF = os.path.dirname(os.path.dirname(os.path.abspath(__file__)))
PROPS = [json.loads(l) for l in open(os.path.join(VERIF, 'properties.jsonl'))]
NOTE = ('Trusted: Coq 8.16.1 kernel + vm_compute (no native_compute); no axioms (Print Assumptions output per theorem is in the evidence file); '
        'the Gallina model is a hand transliteration of the Python, tied to /repo on every run by the correspondence streams listed in the evidence; '
        'Python harness (generators, adapters, canonicalisation). ')
CLAIMED = {
    'C03': dict(
        text='Theorems in coq/props/C03.v over the Gallina transliteration of cigarString (generator loop = specification on every valid matching '
             'of either strand, replay reproduces exactly the pairs, M at both ends, run-length aggregation well formed, text codec injective, '
             'non-empty). Unbounded in the number of pairs and skipped labels. Tie to the code: exhaustive k x k grids + random + malformed inputs '
             'evaluated by the model inside Coq (vm_compute) and by AlignmentResultRow.cigarString; the verified replay checker is also evaluated in '
             'Coq on the strings the implementation returns.',
        note=NOTE + 'cigarString only reads label numbers.', design='6 (C03)', technique='Coq proof by induction over the generator loop + differential correspondence (vm_compute) + replay oracle'),
}
PENDING_REASON = 'check not built yet in this round (planned: DESIGN.md section 6); will be claimed once its model, theorems and correspondence run'


def main():
    checks, na = [], []
    for p in PROPS:
        pid = p['id']
        if pid in CLAIMED:
            c = CLAIMED[pid]
            checks.append(dict(
                property_id=pid, quick_cmd='./check %s --tier quick' % pid, thorough_cmd='./check %s --tier thorough' % pid,
                evidence_file='/verif/evidence/%s.json' % pid, replay_cmd_template='./check %s --replay {path}' % pid,
                engine='coq-model+correspondence',
                level_claimed=dict(category='proof', text=c['text'], design_ref=c['design']), level_note=c['note'], technique=c['technique']))
        else:
            na.append(dict(property_id=pid, reason=PENDING_REASON))
    m = dict(version=1, setup_cmd='./setup.sh',
             hooks=dict(guard='COMA_VERIF', enable='no source hooks: internals are observed through COMA\'s own extension mechanism (Program(args, extensions=[...])); COMA_VERIF=1 is exported by ./check but read by nothing in /repo',
                        baseline_off_cmd='cd /repo && /venv/bin/python -m pytest -ra -q -p no:cacheprovider --timeout=900 --continue-on-collection-errors',
                        source_commits=[], add_only=True),
             engines=[dict(name='coq-model+correspondence', path='/verif/coq + /verif/harness', serves_properties=sorted(CLAIMED),
                           kind_free_text='Gallina model + Coq theorems (props/*.v); model evaluated in Coq by vm_compute on generated cases and compared with /repo; executable property oracles on the implementation outputs')],
             checks=checks, not_applicable=na,
             notes='See DESIGN.md. ./check <id> --tier quick|thorough; VERIF_SEED selects the PRNG seed. known_findings.json lists fixed defects (fix: commits in /repo).')
    json.dump(m, open(os.path.join(VERIF, 'MANIFEST.json'), 'w'), indent=1)
    print('claimed', len(checks), 'pending', len(na))


if __name__ == '__main__':
    main()

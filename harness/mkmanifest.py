"""writes /verif/MANIFEST.json from the table below (python3 -m harness.mkmanifest)"""
import json, os
VERIF = os.path.dirname(os.path.dirname(os.path.abspath(__file__)))
PROPS = [json.loads(l) for l in open(os.path.join(VERIF, 'properties.jsonl'))]
NOTE = ('Trusted: Coq 8.16.1 kernel + vm_compute (no native_compute); no axioms (Print Assumptions output per theorem is in the evidence file); '
        'the Gallina model is a hand transliteration of the Python, tied to /repo on every run by the correspondence streams listed in the evidence; '
        'Python harness (generators, adapters, canonicalisation). ')
CLAIMED = {
    'C03': dict(
        text='Theorems in coq/props/C03.v over the Gallina transliteration of cigarString (generator loop = specification on every valid matching '
             'of either strand, replay reproduces exactly the pairs, M at both ends, run-length aggregation well formed, text codec injective, '
             'non-empty). Unbounded in the number of pairs and skipped labels. Tie to the code: exhaustive k x k grids + random + malformed inputs '
             'evaluated by the model inside Coq (vm_compute) and by AlignmentResultRow.cigarString; the verified replay checker is also evaluated in '
             'Coq on the strings the implementation returns.',
        note=NOTE + 'cigarString only reads label numbers.', design='6 (C03)', technique='Coq proof by induction over the generator loop + differential correspondence (vm_compute) + replay oracle'),
    'C13': dict(
        text='Theorems in coq/props/C13.v over the fold model of the segment builder (incl. the stale currentSegment quirk): returned ranges are ordered, '
             'separated, contiguous; score = sum >= minScore; every prefix positive and less than breakSegmentThreshold below every earlier prefix; first '
             'maximum; no extension to a higher score without violating a prefix condition; single empty segment iff no range. All score lists, all thresholds. '
             'Tie: exhaustive enumeration over {-3..3}^(<=5|6) x 7 threshold pairs + random realistic sequences, model evaluated in Coq vs getSegments.',
        note=NOTE + 'Scores are exactly representable numbers.', design='6 (C13)', technique='Coq proof by fold invariant + exhaustive/random differential correspondence + property oracle'),
    'C12': dict(
        text='Theorems in coq/props/C12.v about the output list of the model of AlignerEngine.align for all sorted maps, seeds, distances, both strands, '
             'label-number offsets: partition of window/query labels (Permutation, NoDup), ascending output with the stable tie order, offsets and inclusive bound, '
             'one-to-one and order preserving, pairs in output order strictly monotone (also on every contiguous sub-run), mutual nearest neighbours paired. '
             'Tie: exhaustive small lattices (1.2e5 thorough) + random maps with ties/boundary labels vs the real AlignerEngine.',
        note=NOTE, design='6 (C12)', technique='Coq proof (stable sort/groupby/first-minimum semantics, midpoint argument) + exhaustive lattice correspondence + oracle'),
    'C17': dict(
        text='Theorems in coq/props/C17.v over the model of CmapReader.__read and OpticalMap.trim: exact result (ids ascending, sorted label multiset, truncated first end marker), '
             'error iff labelled molecule without end marker, invariance under row permutation, id filter = restriction, trim geometry and idempotence; boolean checkers proved '
             'equivalent to the statements. Tie: exhaustive tiny row lists + generated CMAP text read by the real reader vs the model on independently parsed rows.',
        note=NOTE + 'pandas text parsing (read_csv, header-driven usecols) is tied by correspondence only.', design='6 (C17)', technique='Coq proof + differential correspondence on generated CMAP files + oracle'),
    'C20': dict(
        text='Theorems in coq/props/C20.v over the model of cluster_indels (repaired code), write_indel_file ordering and both look_for_indels_in_breakage call builders: '
             'Count sum and id conservation, no mixing, interval cover (min/max attained), exact summary, writer conservation up to permutation, call self-consistency and sign/type equivalence. '
             'Tie: random sorted/unsorted call lists dense around the blur boundary, write_indel_file round trip, both finders driven with fake alignments.',
        note=NOTE + 'Integer positions in the model; sv/ scripts imported with /repo/sv on sys.path.', design='6 (C20)', technique='Coq proof by loop invariant + differential correspondence + oracle'),
    'C15': dict(
        text='Theorems in coq/props/C15.v over the model of the chainer + stack-based resolver (all closed, no partial): every output segment is a contiguous sub-run (firstn/skipn) of exactly one chain member with the same peak and '
             'score = sum of what is left (C15_subrun, also for aligner_align); pairs outside every overlap are kept through the whole loop (C15_keeps_outside); for segments produced from sorted maps by any list of seed peaks the '
             'output is pairwise disjoint and non-crossing on both sequences (C15_disjoint), via chain admissibility, the stack invariant across pop-and-retry and non-crossing of pairings of two peaks; verified checker disjoint_dirb with spec. '
             'Tie: Aligner.align on ladders of peaks, indel blocks, dense lattices, score-folding and fragment cases: the full candidate pipeline model (pairing, scoring, factory, chainer, resolver, row, HitEnum) '
             'is evaluated in Coq and compared segment by segment; oracle: sub-run / no re-scoring / no shared label or crossing / pairs outside every overlap kept.',
        note=NOTE + 'Coordinates on the 0.5 grid, parameters on the exact grid; join-score division covered by C14.', design='6 (C15)', technique='Coq proof (sub-run lemmas) + pipeline differential correspondence + oracle'),
    'C01': dict(
        text='coq/props/C01.v: C01_all_rows_valid — for every sorted reference/query, every list of seed peaks, both strands, all parameters with SU <= 0 < MS, the row built by the model of Aligner.align '
             '(pairing, scoring, factory, chain, stack-based conflict resolution, Row.create) is a valid matching (labels exist, strictly ascending reference, strictly monotone query per strand, non-empty when it has a pair), '
             'and its listing order is already sorted; C01_run_rows_valid: every non-joined row of every output file of the run model (first pass, second pass incl. fragments with label-number offsets, all modes) is such a matching of labels of its reference and of the WHOLE query; the verified checker valid_rowb (sound and complete) is evaluated INSIDE Coq on every row the implementation returns, next to the pipeline model correspondence '
             '(Aligner.align cases and the candidates of real end-to-end runs captured through COMA\'s extension mechanism); every record of every XMAP file of the four modes is checked from the file text. '
             'Joined rows of the multi-pass modes are NOT covered by the theorem (open finding, DESIGN.md 10.4); they are decided per record by the checker/oracle.',
        note=NOTE + 'End-to-end runs: Program(args, extensions) in subprocesses; independent CMAP/XMAP text parsers.', design='6 (C01)', technique='verified checker (Coq) evaluated on implementation outputs + pipeline correspondence + end-to-end oracle'),
    'C14': dict(
        text='Theorems in coq/props/C14.v over Core.chain (pre-order, O(n^2) DP with strict updates, first-best end, back-tracking) connected to the generic DP theorem: result = subsequence of the '
             'stable pre-order + all empties; total (accumulated as the code does, in exact Q) defined and >= total of every admissible subsequence; no None join inside; half-overlap inequality on both axes and strands; '
             'join <= 0 for sj >= 0, == 0 for contiguous joins. Tie: exhaustive join lattice, exhaustive small chains, random sets of 1-8 (+ up to 24) segments; exact-rational subset enumeration as oracle; '
             'binary64 division handled by a strict/loose flag computed in exact rationals.',
        note=NOTE + 'Float division in the join score: equality required where binary64 is exact, otherwise totals within 1e-9 relative (counted in evidence).', design='6 (C14)',
        technique='Coq proof (generic DP optimality instantiated at Q) + exhaustive/random differential correspondence + brute-force oracle'),
    'C16': dict(
        text='Theorems in coq/props/C16.v over the models of vectorisePositions (generator with early return), blur, toRelativeGenomicPositions, createPeaks cut and selectPeaks: bit i set iff a label in bin i, '
             'labels within [start,end] covered, blur length/bit characterisation, bin centre within res/2, top-N (descending, stable, nothing better left out), per-correlation argpartition cut harmless for any admissible cut (section argument, not an axiom); exact model of scipy.correlate(valid) incl. its operand swap, bounds, maximum iff the query vector is covered, normalising factor. '
             'Executable seeding stage (model/FindPeaks.v, Seeding.v): scipy find_peaks (local maxima = plateau midpoints with strictly lower neighbours, height/distance/prominence conditions; distance selection proved for EVERY valid argsort), createPeaks, noise-level score decided exactly, selectPeaks, refine: seeds_model yields at most peaksCount seeds and satisfies the run model\'s seeds_ok. '
             'Tie: exhaustive small vectors/blurs/peak lists + random, model in Coq vs the real functions; real scipy.signal.find_peaks vs the model; the real coordinator seeding chain vs Seeding.v (float tier: code\'s own correlations passed in; exact tier: from the maps alone, disagreement tolerated only where an independent exact-rational recomputation shows FFT rounding noise decides).',
        note=NOTE + 'numpy argpartition/argsort are arbitrary admissible arrangements (theorems quantify over them); FFT rounding of the primary correlation is outside the model (cases it decides are flagged and counted in the evidence).', design='6 (C16), 10.1', technique='Coq proof + exhaustive small-case correspondence + seeding-chain correspondence + oracle'),
    'C18': dict(
        text='Theorems in coq/props/C18.v over a text-level model of XmapReader.writeAlignments/readAlignments: number codecs (tenths, hundredths, truncation toward zero), pair-list codec, tab split/join, single line and whole file round trip '
             'for any number of rows incl. 0 and 1, both strands, AlignedRest either; HitEnum text parses back to the runs; C18_run_files_readable: every output file of the run model without joined rows (and the main files provided their joined rows are valid matchings) satisfies the round-trip hypothesis, so the reader returns one alignment per record with the expected fields. Tie: real writer text vs model text byte-wise on data lines; real reader vs model reader; Python round-trip oracle.',
        note=NOTE + 'pandas dtype inference / NA handling relied on is listed in model/Xmap.v; values with one (coordinates) or two (confidence) decimals.', design='6 (C18)', technique='Coq codec proofs + differential correspondence on real writer/reader + oracle'),
    'C19': dict(
        text='Theorems in coq/props/C19.v over the model of AlignmentComparer/AlignmentRowComparer with difflib ratio as a Section variable (range, reflexivity; positivity symmetry for the swap clause): key partition and counts, bounds, reflexivity for every alignment incl. empty pair lists, swap. '
             'Tie: exhaustive tiny sets + random sets with duplicate keys/labels, the recorded difflib ratios instantiate the variable; the hypotheses on ratio are themselves checked against difflib in Coq on exact rationals.',
        note=NOTE + 'difflib.SequenceMatcher.ratio satisfies the stated hypotheses (checked per run; positivity symmetry only below difflib\'s autojunk threshold of 200 items).', design='6 (C19)',
        technique='Coq proof with section hypotheses on difflib + differential correspondence + oracle'),
    'C06': dict(
        text='PARTIAL. coq/props/C06.v proves the deterministic half for all maps with neighbouring labels > 2*delta apart, all windows, both strands, any seed within delta of the true diagonal: '
             'the pairing returns exactly the true pairs each with |offset| = |seed - true| <= delta and only unpaired reference labels around them, the factory returns one segment holding all pairs, the row lists the true pairs '
             'and its HitEnum is nM (default parameters satisfy the side conditions for every n >= 2); bin centre within half a resolution. Seeding, in exact arithmetic (model/Correlate.v: exact integer cross-correlation of the blurred bit vectors, normalising factor as a rational): for a planted copy on the resolution grid the true lag is a global maximum of the correlation and the normalised correlation there is exactly 1 (C06_true_lag_is_global_max, C06_true_lag_window_normalised); off the grid only a bound holds and the full claim is refuted by a counterexample (C06_true_lag_any_offset_partial, C06_off_lattice_not_max). NOT provable in this family: FFT rounding and scipy.find_peaks plateau/edge handling, i.e. that a seed within delta of the '
             'true diagonal is actually selected and that this candidate wins — that hypothesis is MEASURED by the end-to-end oracle on planted queries in all four modes (exact pairs, strand, nM, |queryShift| <= 200 from the captured winning candidate). '
             'With the executable seeding model (FindPeaks.v/Seeding.v): C06_true_lag_yields_seed/_at_lag/_primary_peak — for a grid-aligned planted copy find_peaks returns a peak of height exactly 1 on (or within the peak distance of) the plateau of the true lag with a reference window identical to the query vector, and no peak is higher; the remaining gap (identical windows elsewhere, ranking across correlations, refine, floats) is stated in C06.v. '
             'The seeding-chain correspondence stream of C16 is part of this check too. The full statement is REFUTED for the code as it is on references with diverged duplicates of the planted window (C06_top_seeds_refuted, C06_best_candidate_refuted on the whole-run model; open known findings F13: true locus outside the top-3 seeds, F15: perfect true candidate loses on confidence): stream planted_decoys (k = 0..5 duplicates, both strands) routes exactly those two signatures (independent recomputation of the primary stage + captured seeds and candidates) to KNOWN-FINDING; any failure with k <= 2 duplicates lost seeds, k = 0, or not matching a signature is a violation.',
        note=NOTE + 'FFT rounding is outside the model; open findings F13/F15 are listed in known_findings.json with witnesses and matched by specific signatures.', design='6 (C06), 10.4', technique='Coq proof of the conditional core + measured seeding hypothesis (end-to-end planted queries) + pipeline correspondence'),
    'C04': dict(
        text='Theorems in coq/props/C04.v for ALL parameter values, maps, seed-peak lists, both strands: pair score = SP - DPU*|offset|, unpaired = SU; every segment reported by the model of Aligner.align has score = sum of its positions and its '
             'positions are configured-score images of the engine output of ITS OWN peak (nothing re-scored through factory, chain, slice, __sub__, resolver); confidence = recomputed double sum (also from raw label positions; also for joined rows); '
             'offsets follow the formula and are <= DMAX; no label twice inside a segment; no label inside a segment span unaccounted for (C04_no_gap, via the sub-run lift through the resolver loop); C04_run_confidence lifts the confidence statement to every non-joined row of the run model. '
             'Tie: Aligner.align stream with non-default parameters; end-to-end CLI runs with non-default -sp/-dp/-su/-d/-ms/-bs whose captured candidates are re-scored from the CMAP text and replayed through the model (wrong wiring shows as disagreement).',
        note=NOTE + 'getScoredPosition raising for su > 0 and the factory raising for ms <= 0 are not modelled (parameter grid keeps su <= 0 < ms).', design='6 (C04)', technique='Coq proof (score invariant through every constructor) + pipeline and end-to-end correspondence + independent re-scoring oracle'),
    'C05': dict(
        text='Theorems in coq/props/C05.v over model/Coordinator.v + Multi.v for every seeding function: filter_subsequent keeps exactly the first maximum-confidence row per query, ascending ids, idempotent; main file of every mode and the first/second-pass '
             'files have strictly ascending (hence unique) query ids; align_query returns the first maximum-confidence candidate in seed order, execute keeps it iff it has pairs; in best mode the record set is exactly the queries with a first- or second-pass row, each once, ascending. '
             'Tie: exhaustive/random synthetic rows for the filters; end-to-end runs with -p in {1,3,6}: first-pass record = first maximum captured candidate; whole runs replayed through the Coordinator model with the captured seeds, and (e2e_run_full_model) whole runs reproduced by Seeding.program_run_full from the input maps and the command line alone (executable seeding stage, no captured seeds). C05_program_ids_ascending / C05_program_file_names on the file-level model program_files (no hypotheses). Data sets include a duplicated contig (exact ties between references) and palindromic molecules (equal seeds on both strands).',
        note=NOTE + 'Seeding numerics are an arbitrary function (theorems hold for all of them).', design='6 (C05)', technique='Coq proof over an abstract seeding function + run-model correspondence + end-to-end oracle with candidate capture'),
    'C08': dict(
        text='Theorems in coq/props/C08.v for every seeding function, parameters, maxDifference: main(all) = main(joined), _1/_2(all) = main/_1(separate), AlignedRest flags, groups are a partition of size <= 2, every single-pass row is un-joined or part of exactly one joined row, '
             'join guard (same query/reference/strand, gap <= maxDifference), joined pairs subset of the parts (sub-run form under well-formedness); "joined = union when the union is valid" is REFUTED for the code as it is (C08_join_is_union_refuted; open known finding F7: resolve uses only segments[0]) and proved for non-conflicting single-segment parts. '
             'Tie: whole runs replayed through the Coordinator/MultiPass model with captured seeds (incl. gap == maxDifference boundary runs); text oracle over the four modes on join-rich data sets; F7 matched by a specific signature (KNOWN-FINDING), anything else is a violation.',
        note=NOTE + 'Open finding F7 (join uses only the first segments) is listed in known_findings.json with its witness and matched by a specific signature; F12 (best-mode self-join) was repaired.', design='6 (C08), 10.4', technique='Coq proof + refutation witness + run-model correspondence + four-mode text oracle with known-finding signature'),
    'C10': dict(
        text='Theorems in coq/props/C10.v for every seeding function (query-locality is its type; reference order is discharged at the reader level via C17_perm): execute = concatenation of per-query results; records of a query are the same in a run on all queries, on any subset, on [q] alone and under any permutation (all modes, up to the unprinted source counter); '
             'runs on row/molecule-permuted CMAP files are identical; -qId/-rId = physically restricted files. Tie: real runs (full, shuffled rows, subset, complement, -qId, -rId, added queries, single-molecule runs, colliding id spaces; every data set has a duplicated contig, molecules are listed in non-ascending id order and make their first appearance in opposite orders in the two files) compared as text; run-model stream across variants. Program level (model/Program.v: program_files = CMAP rows + command line -> data lines of every output file): C10_program_row_order (invariant under any permutation of the rows of both files), C10_program_id_filters (-rId/-qId = physically restricted files), hypotheses only on the parsed rows and the command line; stream e2e_program_files: real runs on row-shuffled files with label-less molecules and id selections, every data line of every file reproduced byte for byte inside Coq (a run whose seeds FFT noise may decide is forgiven a difference only if the model with the captured seeds reproduces the files; one screened flag-free data set per tier is compared without tolerance).',
        note=NOTE + 'XmapEntryID is excluded from "the record" (it is a running number).', design='6 (C10)', technique='Coq proof (locality of every grouping step; erasure of the source counter) + end-to-end variant comparison'),
    'C11': dict(
        text='PARTIAL. coq/props/C11.v proves the deterministic half: positions_with_ids of the mirror image on the other strand = renumbered labels; pairing commutes with renumbering under the no-tie hypothesis (which holds on a lattice with 2d < step); scoring, factory, chain, conflict step, resolver, Aligner.align, Row.create (same reference span and confidence, start/end exchanged) and HitEnum commute with any injective renumbering; '
             'C11_align_lattice quantifies over all lattice inputs and ANY seed peaks. Seeding in exact arithmetic: on the lattice getSequence(mirror q, -) = getSequence(q, +), hence the exact correlations (primary and refined, incl. normalisation and exceptions) coincide (C11_sequence_mirror, C11_seeding_mirror); off the lattice they differ (example). The full statement is REFUTED for the code as it is at exact ties (C11_first_pass_mirror_refuted, C11_tie_mechanism on the run model with the executable seeding stage; open known finding F14: two seeds of exactly equal score on opposite strands of one reference are ordered by enumeration, which mirroring exchanges). FFT rounding cannot break the symmetry (the arrays of mirror q are bit for bit those of q with the strands exchanged: measured on every molecule). End-to-end oracle on lattice data sets (separate mode) incl. e2e_mirror_ties (palindromic references/windows/molecules, mirrored reference pairs, inverted duplicates, periodic references; -p 1/2/3/6): exactly the F14 signature (independent tie analysis) is routed to KNOWN-FINDING, any other asymmetry is a violation with the failing stage named.',
        note=NOTE + 'FFT rounding outside the model; open finding F14 (exact strand ties) is listed in known_findings.json and matched by a specific signature.', design='6 (C11), 10.2, F14_DESIGN.md', technique='Coq proof (renumbering commutes with every stage) + pipeline correspondence on mirrored pairs + end-to-end mirror oracle'),
    'C02': dict(
        text='Theorems in coq/props/C02.v over row_create / positions_with_ids (with label-number offset) / unaligned_fragments / trim / the writer model: RefStartPos/RefEndPos = coordinates of the first/last listed reference label; QryStartPos/QryEndPos = offsets of the outermost listed query labels '
             'from the first label on + and from the last label on - with the stated order; QryLen = last-first+1 of the query as read (also for fragments), RefLen = truncated end marker; ids of the input maps; XmapEntryID of the k-th line is k; Orientation +/-; second-pass label numbers are whole-query numbers on both strands (prefix and suffix fragments); whole record text = spec; C02_run_records lifts all of it to every non-joined row of every output file of the run model (Coordinator.program_run, any seeding function), with the pairs_from hypothesis DERIVED from the pipeline. '
             'Tie: real Aligner.align rows, real writer byte-wise, getUnalignedFragments vs model, captured candidates of real runs, four-mode end-to-end text oracle with independent CMAP/XMAP parsers (incl. one data set with arbitrary one-decimal coordinates).',
        note=NOTE + 'Joined rows are excluded from the run-level record theorem (open finding F10).', design='6 (C02)',
        technique='Coq proof + differential correspondence (rows, writer, fragments, captured candidates) + end-to-end text oracle'),
    'C09': dict(
        text='PARTIAL. coq/props/C09.v proves the logic that makes the output schedule independent: the only cross-task state is the per-process iteration counter, which reaches only the `source` field of pairs; every stage (pairing ... resolver, row, fragments, filters, join, '
             'multi-pass assembly) commutes with erasing `source`, Aligner.align is independent of the counter up to source incl. the Ok/Err outcome, and for ANY assignment of counters to tasks (any worker count, any completion order, results assembled by task index) the rows and the printed XMAP data lines are identical; '
             'the sequential model run is one such schedule. NOT expressible in a Gallina model: real process scheduling, pickling, OS behaviour, p_imap returning results in input order (trusted) — exercised by real runs with -c 1,2,3,5,8,16, repetitions, jittered completion orders and recorded execute() order, plus 128 (quick) / 900 (thorough) small data sets each run with -c 1 and with a worker count cycling through 2..16 (workload size x worker count pairs), files compared byte-wise minus the "# coma" line.',
        note=NOTE + 'p_tqdm.p_imap input-order contract and process isolation are trusted; seeding numerics assumed deterministic (checked by repetition).', design='6 (C09), 10.4',
        technique='Coq proof (source-erasure noninterference over all schedules) + pipeline correspondence with different counters + end-to-end multi-worker byte comparison'),
    'C07': dict(
        text='PARTIAL. coq/props/C07.v covers the modelled glue: every segment Aligner.align builds (SU <= 0 < MS) starts and ends on a pair, so all accessors, the pre-order and the chain are total; slice raises exactly when its kept window consists of poppable positions only, resolve_pair raises only through slice, the first resolution step between factory segments is total; '
             'C07_program_total_separate / C07_program_total_partial / C07_program_reader_rejects: the file-level model program_files returns Err exactly when a selected labelled molecule has no end marker (main files with joined rows under the F7/F10 hypothesis); C07_seeding_total, C07_program_seeding_exact: the seeding stage does not raise on any map the run seeds; C07_run_full_total: the run model with the executable seeding stage never raises; C07_run_total: Coordinator.program_run (both passes, fragments, filters, join, all modes) never raises for any seeding function naming sorted references, trimmed queries with distinct ids, SU <= 0 < MS; C07_aligner_total: the model of Aligner.align never raises for SU <= 0 < MS, any maps, any seed-peak list, both strands; cigarString is total on valid matchings; the reader is total on every file the writer produces incl. zero records (re-export of C18); regression witnesses for the repaired defects (join IndexError before F8, pair-less joined row before F9) next to theorems that the current code handles them. NOT expressible in a Gallina model: exceptions raised inside numpy/scipy/pandas, memory, signals — exercised by a degenerate-input corpus through the real CLI in every mode, '
             'parameter corners (incl. thresholds low enough for one-/two-label molecules to get records, -rId/-qId selecting nothing / subsets, molecules without labels so that the reference or query list is empty; random combinations of option values inside the allowed domain), read-back of every written file with the project reader, and a crash-search stream over first pass -> fragments -> second pass -> join -> writer -> reader.',
        note=NOTE + 'Findings F8, F9, F11 were repaired in /repo (fix: commits) and are listed in known_findings.json with their witnesses (now regression cases in corpus/C07).', design='6 (C07), 10.2', technique='Coq totality proofs for the modelled glue + refutation witnesses + degenerate end-to-end corpus and crash-search oracle'),
}
PENDING_REASON = 'check not built yet in this round (planned: DESIGN.md section 6); will be claimed once its model, theorems and correspondence run'


def main():
    checks, na = [], []
    for p in PROPS:
        pid = p['id']
        if pid in CLAIMED:
            c = CLAIMED[pid]
            checks.append(dict(
                property_id=pid, quick_cmd='./check %s --tier quick' % pid, thorough_cmd='./check %s --tier thorough' % pid,
                evidence_file='/verif/evidence/%s.json' % pid, replay_cmd_template='./check %s --replay {path}' % pid,
                engine='coq-model+correspondence',
                level_claimed=dict(category='proof', text=c['text'], design_ref=c['design']), level_note=c['note'], technique=c['technique']))
        else:
            na.append(dict(property_id=pid, reason=PENDING_REASON))
    m = dict(version=1, setup_cmd='./setup.sh',
             hooks=dict(guard='COMA_VERIF', enable='no source hooks: internals are observed through COMA\'s own extension mechanism (Program(args, extensions=[...])); COMA_VERIF=1 is exported by ./check but read by nothing in /repo',
                        baseline_off_cmd='cd /repo && /venv/bin/python -m pytest -ra -q -p no:cacheprovider --timeout=900 --continue-on-collection-errors',
                        source_commits=[], add_only=True),
             engines=[dict(name='coq-model+correspondence', path='/verif/coq + /verif/harness', serves_properties=sorted(CLAIMED),
                           kind_free_text='Gallina model + Coq theorems (props/*.v); model evaluated in Coq by vm_compute on generated cases and compared with /repo; executable property oracles on the implementation outputs')],
             checks=checks, not_applicable=na,
             notes='See DESIGN.md. ./check <id> --tier quick|thorough; VERIF_SEED selects the PRNG seed. known_findings.json lists fixed defects (fix: commits in /repo).')
    json.dump(m, open(os.path.join(VERIF, 'MANIFEST.json'), 'w'), indent=1)
    print('claimed', len(checks), 'pending', len(na))


if __name__ == '__main__':
    main()

"""Subprocess entry: runs COMA's Program with capture extensions registered through COMA's own extension mechanism."""
import sys, os, json, time, random, traceback


def posrec(p):
    from src.alignment.alignment_position import AlignedPair
    if isinstance(p, AlignedPair):
        return ['P', int(p.reference.siteId), int(p.query.siteId), p.queryShift, p.score, p.reference.position, p.query.position, int(p.source)]
    pp = p.position
    return ['R', int(pp.reference.siteId), p.score] if hasattr(pp, 'reference') else ['Q', int(pp.query.siteId), p.score]


def main():
    cfg = json.loads(sys.argv[1])
    from src.args import Args
    from src.program import Program
    from src.extensions.extension import Extension
    from src.extensions.messages import AlignmentResultRowMessage, CorrelationResultMessage
    path = cfg.get('capture')
    jitter = cfg.get('jitter')

    def emit(rec):
        with open(path, 'a') as f:
            f.write(json.dumps(rec) + '\n')

    class CapRows(Extension):
        messageType = AlignmentResultRowMessage

        def handle(self, m):
            a = m.alignment
            try:
                cig = a.cigarString
            except Exception as e:
                cig = 'ERR:' + type(e).__name__
            emit(dict(t='row', cigar=cig, q=int(m.query.moleculeId), shift=int(m.query.shift), nq=len(m.query.positions), qlen=m.query.length,
                      r=int(m.reference.moleculeId), rev=bool(a.reverseStrand), index=m.index, conf=a.confidence,
                      hdr=[a.queryStartPosition, a.queryEndPosition, a.referenceStartPosition, a.referenceEndPosition],
                      segs=[dict(peak=float(s.peak.position), score=s.segmentScore, pos=[posrec(p) for p in s.positions]) for s in a.segments],
                      pid=os.getpid()))

    class CapCorr(Extension):
        messageType = CorrelationResultMessage

        def handle(self, m):
            if jitter:
                rnd = random.Random(hash((jitter, int(m.initialAlignment.query.moleculeId), m.index)))
                time.sleep(rnd.random() * 0.05)
            if path:
                ra = m.refinedAlignment
                emit(dict(t='corr', q=int(ra.query.moleculeId), shift=int(ra.query.shift), r=int(ra.reference.moleculeId), rev=bool(ra.reverseStrand),
                          index=m.index, peaks=[float(p.position) for p in ra.peaks], pid=os.getpid(),
                          # the refined window starts at (selected primary peak position - secondaryMargin): identifies the selected primary seed
                          start=float(ra.correlationStart),
                          primary=[[float(p.position), float(p.height), float(p.score)] for p in m.initialAlignment.peaks]))

    exts = []
    if path:
        exts.append(CapRows())
    if path or jitter:
        exts.append(CapCorr())
    try:
        args = Args.parse(cfg['argv'])
        Program(args, exts).run()
    except SystemExit:
        raise
    except BaseException:
        traceback.print_exc()
        sys.exit(3)


if __name__ == '__main__':
    main()

"""C12 — Pairing along a seed diagonal partitions labels and pairs nearest neighbours."""
import itertools
from ..driver import Stream
from ..common import z, zl, cb, clist

ID = 'C12'
RULE = ('lattice: every reference multiset of <=3 labels on a 7-point grid x every query multiset of <=3 labels on a 5-point grid '
        '(duplicates allowed) x 3 starts x 3 distances x both strands (thorough: all 120960, exhaustive; quick: every 5th case of that '
        'enumeration, 24192); random: maps of 5-60 reference / 0-40 query labels in half-unit coordinates built around a diagonal with planted '
        'offsets 0, +-d, +-(d+u), ties and coincident labels, reference labels exactly at start-d, stop+d and one unit beyond, empty '
        'windows, fragments with shift>0 on either map, both strands, random iteration counter. '
        'non-trivial = distinct case whose output contains at least one pair')
TRUSTED = ['adapter: OpticalMap(id, length, positions, shift) built from the case with coordinates v/10 (ints, or x.5 floats); '
           'AlignerEngine(d).iteration set to the case counter; output read back as (kind, sites, positions*10, queryShift*10, source|referenceStart*10)']
ASSUMPTIONS = ['position lists of both maps are ascending (ties allowed) - the hypothesis of the C12 theorems',
               'coordinates are multiples of 0.5, so every float operation of the pairing step is exact',
               'model unit = Python unit x 10 (the reverse strand mirrors about length - 1 = mlen - K, K = 10)']
K = 10


def pv(v):
    """case value (tenths, multiple of 5) -> Python coordinate: int when integral, else an exactly representable x.5 float"""
    return v // 10 if v % 10 == 0 else v / 10


def t10(x, flags):
    v = x * 10
    r = int(round(v))
    if r != v:
        flags.append('value %r is not a multiple of 0.1' % (x,))
    return r


def run_engine(case, eng=None):
    from src.alignment.aligner import AlignerEngine
    from src.alignment.alignment_position import AlignedPair, NotAlignedReferencePosition, NotAlignedQueryPosition
    from src.correlation.optical_map import OpticalMap
    ref = OpticalMap(1, pv(case['rlen']), [pv(p) for p in case['refp']], case['rshift'])
    qry = OpticalMap(2, pv(case['qlen']), [pv(p) for p in case['qp']], case['qshift'])
    if eng is None:
        eng = AlignerEngine(pv(case['d']))
    eng.iteration = case['it']
    res = eng.align(ref, qry, pv(case['start']), pv(case['stop']), bool(case['rev']))
    flags, pos = [], []
    for p in res:
        if isinstance(p, AlignedPair):
            pos.append([0, p.reference.siteId, t10(p.reference.position, flags), p.query.siteId, t10(p.query.position, flags),
                        t10(p.queryShift, flags), p.source])
        elif isinstance(p, NotAlignedReferencePosition):
            pos.append([1, p.reference.siteId, t10(p.reference.position, flags), 0, 0, 0, 0])
        elif isinstance(p, NotAlignedQueryPosition):
            pos.append([2, 0, 0, p.query.siteId, t10(p.query.position, flags), 0, t10(p.referenceStart, flags)])
        else:
            flags.append('unknown position type %s' % type(p).__name__)
            pos.append([9, 0, 0, 0, 0, 0, 0])
    return dict(pos=pos, flags=flags)


# ------------------------------------------------------------------------------------------------ oracle (independent of the model)
def labels(positions, shift, length, rev):
    """what getPositionsWithSiteIds is specified to yield: site = index + 1 + shift; reverse mirrors about length - 1 and reverses"""
    l = [(i + 1 + shift, p) for i, p in enumerate(positions)]
    if rev:
        l = [(s, length - K - p) for s, p in reversed(l)]
    return l


def oracle_case(case, out):
    if 'err' in out:
        return ['align raised %s' % out['err']]
    errs = list(out.get('flags', []))
    d, start, stop, rev, it = case['d'], case['start'], case['stop'], bool(case['rev']), case['it']
    R = [(s, p) for s, p in labels(case['refp'], case['rshift'], case['rlen'], False) if start - d <= p <= stop + d]
    Q = labels(case['qp'], case['qshift'], case['qlen'], rev)
    pos = out['pos']
    pairs = [e for e in pos if e[0] == 0]
    ur = [e for e in pos if e[0] == 1]
    uq = [e for e in pos if e[0] == 2]
    if len(pairs) + len(ur) + len(uq) != len(pos):
        errs.append('unknown entry kind')
    # 1. partition
    got_r = [(e[1], e[2]) for e in pairs + ur]
    got_q = [(e[3], e[4]) for e in pairs + uq]
    if sorted(got_r) != sorted(R):
        errs.append('reference labels of the window are not returned exactly once: window=%s returned=%s' % (sorted(R)[:8], sorted(got_r)[:8]))
    if sorted(got_q) != sorted(Q):
        errs.append('query labels are not returned exactly once: labels=%s returned=%s' % (sorted(Q)[:8], sorted(got_q)[:8]))
    if len(set(s for s, _ in got_r)) != len(got_r):
        errs.append('a reference site occurs twice')
    if len(set(s for s, _ in got_q)) != len(got_q):
        errs.append('a query site occurs twice')
    if any(e[6] != start for e in uq):
        errs.append('unpaired query position does not carry referenceStart')
    if any(e[6] != it for e in pairs):
        errs.append('pair does not carry the iteration counter as source')
    # 2. ascending absolute position; ties: pairs, then unpaired reference, then unpaired query, each in enumeration order
    sgn = -1 if rev else 1

    def key(e):
        return (e[2] if e[0] in (0, 1) else e[4] + start, e[0], e[1] if e[0] in (0, 1) else sgn * e[3])
    ks = [key(e) for e in pos]
    if any(a[0] > b[0] for a, b in zip(ks, ks[1:])):
        errs.append('output not ascending in absolutePosition')
    elif any(a >= b for a, b in zip(ks, ks[1:])):
        errs.append('entries with equal absolutePosition not in stable (pair, reference, query; site) order')
    # 3. within distance, shift formula
    Rset, Qset = set(R), set(Q)
    for e in pairs:
        if (e[1], e[2]) not in Rset: errs.append('pair uses a reference label outside the window: %s' % e)
        if (e[3], e[4]) not in Qset: errs.append('pair uses an unknown query label: %s' % e)
        if e[5] != e[4] - (e[2] - start): errs.append('queryShift is not query - (reference - start): %s' % e)
        if abs(e[5]) > d: errs.append('pair beyond maxDistance: %s' % e)
    # 4. one-to-one, order preserving (all pairs of pairs, not only neighbours)
    byr = sorted(pairs, key=lambda e: e[1])
    for a, b in zip(byr, byr[1:]):
        if a[1] == b[1]: errs.append('reference site %d in two pairs' % a[1])
        elif not (a[3] > b[3] if rev else a[3] < b[3]): errs.append('pairs not order preserving: %s %s' % (a, b))
        if not (a[2] <= b[2] and a[4] < b[4]): errs.append('pair positions not increasing: %s %s' % (a, b))
    for a, b in zip(pairs, pairs[1:]):           # ... and the pairs appear in the output in that order
        if not a[1] < b[1]: errs.append('pairs not in ascending reference-site order in the output: %s %s' % (a, b))
    qs = [e[3] for e in pairs]
    if len(set(qs)) != len(qs): errs.append('a query site is in two pairs')
    # 5. mutual strict nearest neighbours within d are paired
    if R and Q:
        bestq = {}
        for rs, rp in R:
            ds = sorted((abs(qp - (rp - start)), qsite) for qsite, qp in Q)
            if ds[0][0] <= d and (len(ds) == 1 or ds[1][0] > ds[0][0]):
                bestq[rs] = (ds[0][1], ds[0][0])
        paired = set((e[1], e[3]) for e in pairs)
        for qsite, qp in Q:
            ds = sorted((abs(qp - (rp - start)), rs) for rs, rp in R)
            if ds[0][0] <= d and (len(ds) == 1 or ds[1][0] > ds[0][0]):
                rs = ds[0][1]
                if bestq.get(rs, (None,))[0] == qsite and (rs, qsite) not in paired:
                    errs.append('mutual strict nearest neighbours not paired: reference site %d, query site %d, distance %d' % (rs, qsite, ds[0][0]))
    return sorted(set(errs))[:4]


# ------------------------------------------------------------------------------------------------ streams
class Base(Stream):
    shard = 1500
    prelude = '''From Coq Require Import ZArith List Bool. Import ListNotations.
Require Import Py Pairing. Open Scope Z_scope.
Notation t7 := (Z * Z * Z * Z * Z * Z * Z)%type.
Definition canon (p : apos) : t7 :=
  match p with
  | Pair r q s src => (0, site r, lpos r, site q, lpos q, s, src)
  | URef r => (1, site r, lpos r, 0, 0, 0, 0)
  | UQry q st => (2, 0, 0, site q, lpos q, 0, st)
  end.
Definition eq7 (a b : t7) : bool :=
  match a, b with (a1, a2, a3, a4, a5, a6, a7), (b1, b2, b3, b4, b5, b6, b7) =>
    (a1 =? b1) && (a2 =? b2) && (a3 =? b3) && (a4 =? b4) && (a5 =? b5) && (a6 =? b6) && (a7 =? b7) end.
Fixpoint eql (a b : list t7) : bool := match a, b with [] , [] => true | x :: s, y :: t => eq7 x y && eql s t | _, _ => false end.
(* case: d, iteration, (reference length, positions, shift), (query length, positions, shift), start, stop, reverse; expected output *)
Definition check (c : Z * Z * (Z * list Z * Z) * (Z * list Z * Z) * Z * Z * bool * list t7) : Z :=
  match c with (d, it, (rlen, refp, rshift), (qlen, qp, qshift), start, stop, rev, expected) =>
    if eql (map canon (align_engine d it (mkMap 1 rlen refp rshift) (mkMap 2 qlen qp qshift) start stop rev)) expected then 0 else 1
  end.'''

    def impl(self, case):
        try:
            return run_engine(case)
        except Exception as e:
            return dict(err=type(e).__name__)

    def term(self, case, out):
        exp = out['pos'] if 'pos' in out and not out.get('flags') else [[9, 0, 0, 0, 0, 0, 0]]
        return '(%s, %s, (%s, %s, %s), (%s, %s, %s), %s, %s, %s, %s)' % (
            z(case['d']), z(case['it']), z(case['rlen']), zl(case['refp']), z(case['rshift']),
            z(case['qlen']), zl(case['qp']), z(case['qshift']), z(case['start']), z(case['stop']), cb(case['rev']),
            clist('(' + ','.join(z(v) for v in e) + ')' for e in exp))

    def oracle(self, case, out):
        errs = oracle_case(case, out)
        if not errs:
            return []
        desc = 'reference=%s shift=%d query=%s length=%s shift=%d start=%s stop=%s maxDistance=%s reverse=%s (coordinates x10)' % (
            case['refp'][:12], case['rshift'], case['qp'][:12], case['qlen'], case['qshift'], case['start'], case['stop'], case['d'], bool(case['rev']))
        return ['%s [%s]' % (e, desc) for e in errs[:3]]

    def classify(self, case, out):
        if 'err' in out:
            return ['raised']
        d, start, stop = case['d'], case['start'], case['stop']
        pairs = [e for e in out['pos'] if e[0] == 0]
        k = ['reverse' if case['rev'] else 'forward', 'pairs=%s' % (len(pairs) if len(pairs) < 3 else '3+')]
        if not any(start - d <= p <= stop + d for p in case['refp']): k.append('empty-window')
        if not case['qp']: k.append('no-query-labels')
        if case['qshift'] or case['rshift']: k.append('shift>0')
        if d > 0 and any(abs(e[5]) == d for e in pairs): k.append('pair-exactly-at-d')
        if len(set(case['refp'])) < len(case['refp']) or len(set(case['qp'])) < len(case['qp']): k.append('coincident-labels')
        if any(p in (start - d, stop + d) for p in case['refp']): k.append('ref-label-on-window-edge')
        if any(p in (start - d - 5, start - d - 10, stop + d + 5, stop + d + 10) for p in case['refp']): k.append('ref-label-just-outside-window')
        ab = [e[2] if e[0] in (0, 1) else e[4] + start for e in out['pos']]
        if len(set(ab)) < len(ab): k.append('equal-absolutePosition')
        # a query label exactly one unit beyond d from some window label that is left unpaired with it
        Q = labels(case['qp'], case['qshift'], case['qlen'], bool(case['rev']))
        pq = set((e[1], e[3]) for e in pairs)
        hit = False
        for i, rp in enumerate(case['refp']):
            if start - d <= rp <= stop + d:
                for qsite, qp in Q:
                    if abs(qp - (rp - start)) in (d + 5, d + 10) and (i + 1 + case['rshift'], qsite) not in pq:
                        hit = True
        if hit: k.append('label-one-unit-beyond-d')
        return k

    def nontrivial(self, case, out):
        if 'pos' in out and any(e[0] == 0 for e in out['pos']):
            return repr(sorted(case.items()))
        return None


def lattice_cases():
    out = []
    for nr in range(0, 4):
        for refp in itertools.combinations_with_replacement(range(0, 7), nr):
            for nq in range(0, 4):
                for qp in itertools.combinations_with_replacement(range(0, 5), nq):
                    for start in (0, 1, 2):
                        for d in (0, 1, 2):
                            for rev in (False, True):
                                # Python units: grid step 1, query length 5 (mirror about 4), stop = start + 4; x10 for the model
                                out.append(dict(refp=[10 * x for x in refp], rlen=70, rshift=0, qp=[10 * x for x in qp], qlen=50, qshift=0,
                                                start=10 * start, stop=10 * start + 40, d=10 * d, rev=rev, it=1))
    return out


class Lattice(Base):
    name = 'lattice'
    exhaustive = True
    shard = 2500

    def gen(self, rng, tier):
        cases = lattice_cases()
        if tier == 'quick':
            self.exhaustive = False
            return cases[::5]      # stride coprime to the 18 (start, d, strand) combinations: every combination is hit
        self.exhaustive = True
        return cases


def random_case(rng):
    u = rng.choice([5, 5, 10])                       # smallest coordinate step of this case (0.5 or 1 Python unit)
    d = rng.choice([0, u, 50, 150, 500, 1500])
    rev = rng.random() < 0.5
    it = rng.randint(1, 9)
    nr = rng.randint(5, 60)
    span = rng.choice([200, 2000, 20000])             # reference density: small span -> many ties / coincident labels
    refp = sorted(rng.randrange(0, span * nr // 10 + 1) * u for _ in range(nr))
    if rng.random() < 0.3:                             # coincident reference labels
        for _ in range(rng.randint(1, 3)):
            refp.append(rng.choice(refp))
        refp.sort()
    mode = rng.random()
    seen = []                                          # query positions as the pairing sees them (after mirroring)
    if mode < 0.55:       # query follows the diagonal through `start`, with planted offsets
        i0 = rng.randrange(len(refp))
        start = refp[i0] - rng.choice([0, 0, u, 100, 1000])
        nq = rng.randint(0, 40)
        offs = [0, 0, d, -d, d + u, -(d + u), u, -u, d - u if d > u else 0, 2 * d, rng.randrange(-3, 4) * u]
        for r in refp[i0:i0 + nq]:
            c = rng.random()
            if c < 0.15:
                continue                               # deleted label
            seen.append(r - start + rng.choice(offs))
            if c > 0.85:                               # extra label, often equidistant on the other side (tie)
                seen.append(r - start - rng.choice(offs))
    elif mode < 0.8:      # independent query
        start = rng.randrange(-20, span * nr // 10 + 20) * u
        seen = [rng.randrange(0, 400) * u for _ in range(rng.randint(0, 40))]
    elif mode < 0.9:      # empty window: start far from every reference label
        start = refp[-1] + d + rng.choice([u, 100, 5000]) if rng.random() < 0.5 else refp[0] - d - rng.choice([u, 5000, 50000])
        seen = [rng.randrange(0, 200) * u for _ in range(rng.randint(0, 15))]
        if start < refp[0]:
            seen = [s for s in seen if s + start + d < refp[0]]
    else:                 # few labels
        start = rng.choice(refp) if refp else 0
        seen = [rng.randrange(0, 50) * u for _ in range(rng.randint(0, 3))]
    seen = sorted(s for s in seen if s >= 0)
    qlen = (seen[-1] if seen else 0) + K + rng.choice([0, 0, u, 1000])
    stop = start + (qlen if rng.random() < 0.8 else rng.choice([0, 100, 3000]))
    # window-boundary labels: exactly on start - d / stop + d and one unit beyond
    if rng.random() < 0.5:
        for v in rng.sample([start - d, start - d - u, stop + d, stop + d + u, start - d + u, stop + d - u], rng.randint(1, 4)):
            refp.append(v)
        refp.sort()
    qp = sorted(qlen - K - s for s in seen) if rev else seen
    return dict(refp=refp, rlen=(refp[-1] if refp else 0) + K, rshift=rng.choice([0, 0, 0, 2, 117]),
                qp=qp, qlen=qlen, qshift=rng.choice([0, 0, 3, 40, 1000]), start=start, stop=stop, d=d, rev=rev, it=it)


class Random(Base):
    name = 'random'
    shard = 250

    def gen(self, rng, tier):
        n = 1500 if tier == 'quick' else 15000
        return [random_case(rng) for _ in range(n)]


class Sequence(Base):
    """several calls on ONE AlignerEngine instance (as the second pass does: fragments of one molecule keep its id): any state kept
    between calls (caches keyed by molecule id / strand, leaked label lists) shows up as a disagreement of a later call"""
    name = 'sequence'
    shard = 300
    prelude = Base.prelude.replace('Definition check (c :', 'Definition check1 (c :') + '''
Definition check (l : list (Z * Z * (Z * list Z * Z) * (Z * list Z * Z) * Z * Z * bool * list t7)) : Z := fold_left Z.max (List.map check1 l) 0.'''

    def gen(self, rng, tier):
        n = 300 if tier == 'quick' else 3000
        out = []
        for _ in range(n):
            first = random_case(rng)
            calls = [first]
            for _ in range(rng.randint(1, 3)):
                c = random_case(rng)
                c['d'] = first['d']
                if rng.random() < 0.7:          # a fragment of the same molecule: same length and strand, other labels / label-number offset
                    c['qlen'] = max(first['qlen'], (max(c['qp']) + 10) if c['qp'] else 0)
                    if rng.random() < 0.7:
                        c['rev'] = first['rev']
                if rng.random() < 0.5:
                    c['refp'], c['rlen'], c['rshift'] = first['refp'], first['rlen'], first['rshift']
                calls.append(c)
            out.append(dict(calls=calls))
        return out

    def impl(self, case):
        from src.alignment.aligner import AlignerEngine
        eng = AlignerEngine(pv(case['calls'][0]['d']))
        outs = []
        for c in case['calls']:
            try:
                outs.append(run_engine(c, eng))
            except Exception as e:
                outs.append(dict(err=type(e).__name__))
        return outs

    def term(self, case, out):
        return clist(Base.term(self, c, o) for c, o in zip(case['calls'], out))

    def oracle(self, case, out):
        errs = []
        for k, (c, o) in enumerate(zip(case['calls'], out)):
            errs += ['call %d on the same engine: %s' % (k + 1, e) for e in Base.oracle(self, c, o)]
        return errs[:3]

    def classify(self, case, out):
        return ['calls=%d' % len(case['calls'])]

    def nontrivial(self, case, out):
        return repr(case) if any('pos' in o and any(e[0] == 0 for e in o['pos']) for o in out) else None


STREAMS = [Lattice(), Random(), Sequence()]

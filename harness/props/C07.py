"""C07 — Well-formed input never aborts the run; unalignable queries just yield no record.

Three kinds of evidence (see coq/props/C07.v for what the theorems cover and what they cannot):
 (a) degenerate_e2e / param_corners: hand-built degenerate CMAP data sets written to real files and run through the REAL command line
     (`python -m src.program`) and through Program(...) in a subprocess, every output mode; oracle on exit status, stderr, the text of
     every output file (independent parser) and the project's own reader on every file;
 (b) multi_crash: crash search on Aligner.align -> getUnalignedFragments -> Aligner.align on the fragments -> AlignmentResults.resolve ->
     writer -> reader, in process, plus comparison of the error behaviour / joined pairs with the model (Multi.results_resolve);
 (c) align_errors: Aligner.align against the model `aligner_align` (pipeline.ALIGN_CHECK compares the error flag, segments, header, HitEnum).
"""
import os, re, io, json, hashlib, random, traceback, itertools
from ..driver import Stream
from .. import common, e2e, pipeline as pl
from ..common import z, zl, cb, clist, seeded_rng

ID = 'C07'
RULE = ('(a) 13 degenerate data sets + the real-file witness of finding F8 (one/two-label queries and references, duplicate positions, queries longer than every reference, only '
        'unalignable queries, a single query, first-pass alignments confined to the first/last labels, degenerate molecules mixed with normal '
        'ones) x 4 output modes x {real CLI, Program in a subprocess} + 14 parameter corners on the mixed data set; (b) generated first/second-pass '
        'cases (dense lattices with an indel, indel blocks, realistic ladders; second-pass peaks near the first-pass ones) through the real '
        'aligner, fragment extraction, join, writer and reader; (c) Aligner.align cases of the shared pipeline generators plus dense 3-6 peak '
        'lattices, block diagonals and duplicate positions. non-trivial = (a) a run that produced at least one record or a data set built to '
        'produce none, (b) a case whose first pass has pairs and produces a fragment, (c) a case with >= 2 non-empty segments before resolution')
TRUSTED = ['harness/e2e.py (CMAP writer, subprocess runner, run cache keyed by source hash)', 'adapter harness/pipeline.py',
           'the multi-pass adapter of this module (builds OpticalMap/Peak/Aligner objects, calls the same methods in the same order as '
           '_MultiPassWorkflowCoordinator.getSecondPassAlignmentRows and AlignmentResults.resolve, with generated instead of correlated peaks)']
ASSUMPTIONS = ['exceptions raised inside numpy/scipy/pandas, memory, signals and the process pool are outside the Gallina model; they are only exercised '
               'by the end-to-end runs of (a)',
               'unmatchedPenalty <= 0 < minScore and minPeakDistance >= primaryResolution (the option help / scipy reject the rest)',
               'coordinates are multiples of 0.5 and parameters lie on the exact grid in the model-compared streams']

MODES = ['best', 'separate', 'joined', 'all']
F8_WHAT = ('IndexError raised in AlignmentSegment.slice / __trimNotAlignedPositionsFromEnd (positions[-1] of a list popped to empty) reached from '
           'AlignmentResultRow.resolve: a first segment that ends with an unpaired label after conflict resolution is sliced at a conflict start '
           'that sits on that label')
F11_WHAT = ('IndexError from scipy.signal.correlate on an empty reference slice in InitialAlignment.refine: the vectorised reference ends at its last label, a seed '
            'peak beyond it leaves the secondary reference window without any label')
F9_WHAT = ('AlignmentResultRow.resolve joins only segments[0] of each part; when both are empty (first chain member emptied by conflict resolution) '
           'the joined row has no aligned pair, is reported, and is written as a record with empty HitEnum/Alignment that XmapReader cannot read (TypeError)')


# ================================================================================================ (a) end to end
def _ladder(start, steps, n, rng):
    pos = [float(start)]
    for _ in range(n - 1):
        pos.append(pos[-1] + rng.choice(steps))
    return pos


def base_maps():
    """two ordinary references and a set of ordinary queries cut from them (exact, noisy, both strands); deterministic"""
    rng = random.Random(70707)
    steps = (2000, 3000, 5000, 8000, 12000, 20000, 9000, 15000, 4500, 6500)
    refs = [(1, 0, _ladder(1000, steps, 160, rng)), (2, 0, _ladder(5000, steps, 120, rng))]
    refs = [(i, p[-1] + 5000.0, p) for i, _, p in refs]
    qs = []
    for k, (ri, a, n, noisy, rev) in enumerate([(0, 10, 14, False, False), (0, 60, 20, True, False), (1, 30, 12, False, True), (1, 70, 25, True, True),
                                                (0, 100, 16, True, False), (0, 120, 9, False, True)]):
        w = refs[ri][2][a:a + n]
        q = [p - w[0] for p in w]
        if noisy:
            q = [p + rng.choice([0, 100, -100, 300, -200]) for p in q if rng.random() > 0.08]
        q = sorted(set(max(0.0, float(p)) for p in q))
        if rev:
            q = [q[-1] - p for p in q[::-1]]
        off = [0.0, 20.0, 1234.5][k % 3]
        q = [p + off for p in q]
        qs.append((101 + k, q[-1] + [0.0, 500.0][k % 2], q))
    return refs, qs


def datasets():
    refs, normal = base_maps()
    rng = random.Random(424242)
    nid = [q[0] for q in normal]
    rl = max(r[1] for r in refs)
    w = refs[0][2]
    one = (201, 10.0, [5.0])
    one_b = (202, 50000.0, [20000.0])
    two = (203, 9000.0, [1000.0, 8000.0])
    two_close = (204, 30.0, [10.0, 10.5])
    dup = (205, 60000.0, [1000.0, 1000.0, 9000.0, 9000.0, 9000.0, 21000.0, 30000.0, 30000.0, 44000.0, 52000.0])
    dup_true = (206, 0, None)
    seg = [p - w[40] for p in w[40:52]]
    d2 = sorted(seg + [seg[3], seg[3], seg[7]])
    dup_true = (206, d2[-1] + 100.0, [float(x) for x in d2])
    toolong = (207, rl + 1000.0, _ladder(0, (9000, 15000, 22000), int(rl // 15000), rng))
    toolong = (207, max(toolong[2][-1] + 10.0, rl + 1000.0), toolong[2])
    toolong2 = (208, rl * 3, [0.0, rl, rl * 2])
    rnd = (209, 0, _ladder(0, (2500, 4200, 7100, 11000, 16000), 18, rng)); rnd = (209, rnd[2][-1] + 1.0, rnd[2])
    allsame = (210, 5000.0, [2500.0] * 6)
    # first-pass alignment confined to the first / last labels: k true labels + a random tail (or head), both strands
    edge = []
    for k, (nt, head, rev) in enumerate([(2, False, False), (3, False, False), (2, True, False), (3, True, True), (2, False, True), (4, True, False)]):
        a = 20 + 9 * k
        t = [p - w[a] for p in w[a:a + nt]]
        g = _ladder(0, (2500, 4200, 7100, 11000, 16000), 10, rng)
        q = (g + [g[-1] + 4000 + x for x in t]) if head else (t + [t[-1] + 4000 + x for x in g])
        if rev:
            q = [q[-1] - p for p in q[::-1]]
        edge.append((301 + k, q[-1] + 1.0, [float(x) for x in q]))
    # an 8-label window with a 3 kb indel in the middle, and a long window with two indels (multi-pass candidates)
    ind = []
    for k, (a, n, cut, d) in enumerate([(30, 16, 8, 3000), (80, 30, 12, 20000), (50, 24, 10, -1500), (90, 28, 14, 40000)]):
        t = [p - w[a] for p in w[a:a + n]]
        q = t[:cut] + [p + d for p in t[cut:]]
        q = sorted(set(max(0.0, p) for p in q))
        ind.append((401 + k, q[-1] + 1.0, q))
    ref_one = (11, 100000.0, [50000.0])
    ref_two = (12, 100000.0, [20000.0, 70000.0])
    ref_dup = (13, refs[1][1], sorted(refs[1][2] + [refs[1][2][5], refs[1][2][5], refs[1][2][40], refs[1][2][77]]))
    ref_short = (14, 30000.0, [1000.0, 9000.0, 14000.0, 22000.0])
    degenerate = [one, one_b, two, two_close, dup, dup_true, toolong, toolong2, rnd, allsame]
    D = []
    D.append(dict(name='normal_only', refs=refs, queries=normal))
    D.append(dict(name='mixed', refs=refs, queries=sorted(normal + degenerate + edge + ind), normal_ids=nid, baseline='normal_only', no_record=[207, 208]))
    D.append(dict(name='too_long_only', refs=refs, queries=[toolong, toolong2], no_record=[207, 208], expect_empty=True))
    D.append(dict(name='degenerate_only', refs=refs, queries=degenerate, no_record=[207, 208]))
    D.append(dict(name='single_query', refs=refs, queries=[normal[1]]))
    D.append(dict(name='single_one_label_query', refs=refs, queries=[one]))
    D.append(dict(name='single_two_label_query', refs=refs, queries=[two]))
    D.append(dict(name='ref_one_label', refs=[ref_one], queries=normal[:3] + [one, two], expect_empty=False))
    D.append(dict(name='ref_two_labels', refs=[ref_two], queries=normal[:3] + [one, two, two_close]))
    D.append(dict(name='refs_mixed_degenerate', refs=sorted(refs + [ref_one, ref_two, ref_short]), queries=sorted(normal + [one, two, dup]), normal_ids=nid))
    D.append(dict(name='duplicates', refs=[refs[0], ref_dup], queries=sorted(normal + [dup, dup_true, allsame])))
    D.append(dict(name='edge_alignments', refs=refs, queries=edge))
    # molecules without any label site (only the end-of-molecule row): the reader drops them, so the reference or query LIST can be empty
    nolab_r, nolab_q = (15, 50000.0, []), (211, 5000.0, [])
    D.append(dict(name='ref_without_labels', refs=[nolab_r], queries=normal[:3] + [one], expect_empty=True))
    D.append(dict(name='queries_without_labels', refs=refs, queries=[nolab_q], expect_empty=True))
    D.append(dict(name='some_maps_without_labels', refs=sorted(refs + [nolab_r]), queries=sorted(normal + [nolab_q]), normal_ids=nid, baseline='normal_only'))
    D.append(dict(name='indels', refs=refs, queries=sorted(ind + edge[:2] + [normal[0]])))
    # real-file witness of open finding F8 (found by a hunt through the real correlation, minimised); after the repair: a regression case
    D.append(dict(name='f8_cli_witness', corpus_only=True,
                  refs=[(2, 1159823.5, [212256.0, 224256.0, 252269.5, 258046.5, 278296.5, 298546.5, 313546.5, 322796.5, 330823.5, 339823.5, 446707.0])],
                  queries=[(3, 301368.5, [13050.0, 57917.5, 69717.5, 97431.0, 103508.0, 115424.0, 144408.0, 167908.0, 177158.0, 182508.0, 185885.0, 193985.0])]))
    # open finding F11: a reference whose labels end before the query's extent (here: a single label at 1 kb on a 400 kb map), default parameters
    D.append(dict(name='f11_short_labelled_reference', corpus_only=True, refs=[(11, 400000.0, [1000.0])],
                  queries=[(3, 25720.0, [20.0, 520.0, 2520.0, 2620.0, 3120.0, 18120.0, 18220.0, 25220.0])]))
    return D


PARAM_CORNERS = [
    ['-md', '1400', '-r1', '1400'], ['-md', '5000', '-r1', '5000'], ['-p', '1'], ['-d', '0'], ['-ms', '1'], ['-bs', '0'], ['-su', '0'],
    ['-b1', '40', '-b2', '60'], ['-diff', '0'], ['-ms', '1', '-bs', '0', '-su', '0', '-d', '0'], ['-p', '12', '-pt', '5'], ['-sj', '0', '-ss', '1'],
    ['-ma', '1000', '-r2', '50'], ['-dp', '0', '-sp', '1'],
]


def ds_paths(ds):
    h = hashlib.sha256(json.dumps([ds['refs'], ds['queries']]).encode()).hexdigest()[:12]
    d = e2e.dataset_dir('C07_%s_%s' % (ds['name'], h))
    rp, qp = os.path.join(d, 'r.cmap'), os.path.join(d, 'q.cmap')
    if not (os.path.exists(rp) and os.path.exists(qp)):
        e2e.write_cmap(rp, ds['refs'])
        e2e.write_cmap(qp, ds['queries'])
    return rp, qp


def e2e_cases(tier):
    D = {d['name']: d for d in datasets()}
    cases = []
    for d in D.values():
        if d.get('corpus_only'):
            continue
        for m in MODES:
            for cli in (True, False):
                cases.append(dict(ds=d['name'], mode=m, cli=cli, extra=[]))
    return cases


# thresholds low enough for degenerate molecules (one label, two labels, coincident labels) to get a record at all: with the defaults
# (-pt 27, -ms 1000) most of them are filtered out before the code that builds, slices and writes their rows ever runs
PERMISSIVE = [['-pt', '0', '-ms', '1', '-bs', '0'], ['-pt', '0.5', '-ms', '500'], ['-pt', '0', '-ms', '1', '-d', '20000', '-p', '8']]
PERMISSIVE_SETS = ['degenerate_only', 'ref_two_labels', 'duplicates', 'edge_alignments']


# molecule selection: ids that match nothing (empty reference / query list), a proper subset, an id listed twice
ID_FILTERS = [['-rId', '99'], ['-qId', '9999'], ['-rId', '99', '-qId', '9999'], ['-rId', '1'], ['-qId', '101', '103', '103', '202'], ['-rId', '2', '1', '-qId', '205']]


def corner_cases(tier):
    cases = []
    for k, extra in enumerate(ID_FILTERS):
        for m in (['all', 'best'] if tier == 'quick' else MODES):
            cases.append(dict(ds='mixed', mode=m, cli=(k % 2 == 0), extra=extra))
    for k, extra in enumerate(PERMISSIVE):
        for ds in PERMISSIVE_SETS:
            for m in (['all', 'best'] if tier == 'quick' else MODES):
                cases.append(dict(ds=ds, mode=m, cli=(k == 0), extra=extra))
    for k, extra in enumerate(PARAM_CORNERS):
        for m in (['all', 'best'] if tier == 'quick' else MODES):
            cases.append(dict(ds='mixed', mode=m, cli=True, extra=extra))
        if tier != 'quick':
            cases.append(dict(ds='indels', mode='all', cli=True, extra=extra))
    return cases


def job_of(case, D):
    rp, qp = ds_paths(D[case['ds']])
    return dict(refpath=rp, qpath=qp, args=['-oM', case['mode']] + list(case['extra']), cpus=1, capture=False, cli=case['cli'])


def prepare(tier, seed, rep):
    """all end-to-end runs of the quick/thorough tier at once, in parallel subprocesses; the streams then read the run cache"""
    D = {d['name']: d for d in datasets()}
    jobs, seen = [], set()
    for c in e2e_cases(tier) + corner_cases(tier):
        for cc in [c] + ([dict(c, ds=D[c['ds']]['baseline'])] if D[c['ds']].get('baseline') and not c['extra'] else []):
            j = job_of(cc, D)
            k = json.dumps(j, sort_keys=True)
            if k not in seen:
                seen.add(k); jobs.append(j)
    e2e.run_many(jobs, workers=common.NCPU)
    e2e.clean_cache(1500)


HDR_PREFIX = ['# hostname=', '# coma ', '# XMAP File Version:\t0.2', '# Reference Maps From:\t', '# Query Maps From:\t', '#h\tXmapEntryID\tQryContigID\t', '#f\tint\tint\tint\t']
F1 = re.compile(r'^-?\d+\.\d$'); F2 = re.compile(r'^-?\d+\.\d\d$'); INT = re.compile(r'^-?\d+$')
HIT = re.compile(r'^(\d+[MDI])+$'); ALN = re.compile(r'^(\(\d+,\d+\))+$')


def check_text(path):
    """independent well-formedness check of one XMAP file: exactly the 7 header lines, then records of 15 tab-separated fields"""
    errs, recs = [], []
    text = open(path).read()
    if text and not text.endswith('\n'):
        errs.append('file does not end with a newline')
    lines = text.split('\n')[:-1] if text else []
    hdr = [l for l in lines if l.startswith('#')]
    if len(hdr) != 7 or lines[:7] != hdr:
        errs.append('expected exactly 7 header lines at the top, found %d' % len(hdr))
    else:
        for l, p in zip(hdr, HDR_PREFIX):
            if not l.startswith(p):
                errs.append('header line %r does not start with %r' % (l[:40], p))
    for i, l in enumerate(lines[len(hdr):]):
        c = l.split('\t')
        if len(c) != 15:
            errs.append('record %d has %d fields' % (i + 1, len(c))); continue
        bad = []
        if not (INT.match(c[0]) and int(c[0]) == i + 1): bad.append('XmapEntryID %r (expected %d)' % (c[0], i + 1))
        if not INT.match(c[1]): bad.append('QryContigID %r' % c[1])
        if not INT.match(c[2]): bad.append('RefContigID %r' % c[2])
        for k in (3, 4, 5, 6, 10, 11):
            if not F1.match(c[k]): bad.append('field %d %r is not a one-decimal number' % (k + 1, c[k]))
        if c[7] not in ('+', '-'): bad.append('Orientation %r' % c[7])
        if not F2.match(c[8]): bad.append('Confidence %r' % c[8])
        if not HIT.match(c[9]): bad.append('HitEnum %r' % c[9])
        if c[12] not in ('True', 'False'): bad.append('AlignedRest %r' % c[12])
        if c[13] != '1': bad.append('LabelChannel %r' % c[13])
        if not ALN.match(c[14]): bad.append('Alignment %r' % c[14][:40])
        if bad:
            errs.append('record %d malformed: %s' % (i + 1, '; '.join(bad[:3])))
        recs.append(dict(q=int(c[1]) if INT.match(c[1]) else None, rest=c[12], body='\t'.join(c[1:])))
    return errs, recs


def read_back(path, rp, qp):
    """the project's own reader on one output file, with the maps read as Program does"""
    from src.parsers.cmap_reader import CmapReader
    from src.parsers.xmap_reader import XmapReader
    from src.parsers.xmap_alignment_pair_parser import XmapAlignmentPairWithDistanceParser
    try:
        cr = CmapReader()
        with open(rp) as f: refs = cr.readReferences(f, None)
        with open(qp) as f: qs = [q.trim() for q in cr.readQueries(f, None)]
        with open(path) as f:
            als = XmapReader(XmapAlignmentPairWithDistanceParser(refs, qs)).readAlignments(f)
        return dict(n=len(als), pairs=[len(a.alignedPairs) for a in als])
    except Exception as e:
        return dict(err=type(e).__name__, msg=str(e)[:120], frames=[f.name for f in traceback.extract_tb(e.__traceback__)][-4:])


def summarise_run(res, rp, qp):
    out = dict(rc=res.rc, stderr=res.stderr[-3000:] if (res.rc or 'Traceback' in res.stderr) else '', files={})
    for k, p in sorted(res.files.items()):
        errs, recs = check_text(p)
        out['files'][k] = dict(text_errors=errs[:4], n=len(recs), qs=[r['q'] for r in recs], bodies=[r['body'] for r in recs], read=read_back(p, rp, qp))
    return out


EXPECTED_FILES = dict(best=['main'], separate=['_1', 'main'], joined=['_1', 'main'], all=['_1', '_2', 'main'])


class Degenerate(Stream):
    name = 'degenerate_e2e'
    model = False
    parallel = True

    def cases(self, tier):
        return e2e_cases(tier)

    def gen(self, rng, tier):
        return self.cases(tier)

    def impl(self, case):
        D = {d['name']: d for d in datasets()}
        ds = D[case['ds']]
        j = job_of(case, D)
        out = summarise_run(e2e.run_coma(**j), j['refpath'], j['qpath'])
        out['ds'] = dict(no_record=ds.get('no_record', []), expect_empty=bool(ds.get('expect_empty')), normal_ids=ds.get('normal_ids', []))
        if ds.get('baseline') and not case['extra']:
            jb = job_of(dict(case, ds=ds['baseline']), D)
            out['baseline'] = summarise_run(e2e.run_coma(**jb), jb['refpath'], jb['qpath'])
        return out

    def oracle(self, case, out):
        errs = []
        tag = '%s/%s/%s%s: ' % (case['ds'], case['mode'], 'cli' if case['cli'] else 'program', (' ' + ' '.join(case['extra'])) if case['extra'] else '')
        if out.get('rc') != 0:
            se = out.get('stderr') or ''
            lines = se.split('\n')
            first = next((i for i, l in enumerate(lines) if re.match(r'^\w+(Error|Exception|Iteration|Interrupt)\b', l)), len(lines))
            frames = re.findall(r', in (\w+)', '\n'.join(lines[:first]))[-8:]       # the innermost frames of the ORIGINAL exception (pool workers re-raise)
            last = [l for l in lines if l.strip()][-1:] or ['']
            return [tag + 'COMA exited with status %s: %s [%s]' % (out.get('rc'), last[0][:200], '>'.join(frames))]
        elif 'Traceback' in (out.get('stderr') or ''):
            errs.append(tag + 'traceback on stderr although exit status 0: %s' % out['stderr'][-300:])
        files = out.get('files', {})
        if out.get('rc') == 0 and sorted(files) != EXPECTED_FILES[case['mode']]:
            errs.append(tag + 'output files %s, expected %s' % (sorted(files), EXPECTED_FILES[case['mode']]))
        for fk, f in files.items():
            for e in f['text_errors']:
                errs.append(tag + 'file %s: %s' % (fk, e))
            rd = f['read']
            if 'err' in rd:
                errs.append(tag + "the project's XmapReader raises %s on file %s (%d records): %s [%s]" % (rd['err'], fk, f['n'], rd.get('msg'), '>'.join(rd.get('frames', []))))
            elif rd['n'] != f['n']:
                errs.append(tag + 'file %s has %d records, the reader returned %d alignments' % (fk, f['n'], rd['n']))
            elif any(n == 0 for n in rd['pairs']):
                errs.append(tag + 'file %s: an alignment read back has no pairs' % fk)
            for q in out['ds']['no_record']:
                if q in f['qs']:
                    errs.append(tag + 'query %d is longer than every reference but has a record in file %s' % (q, fk))
            if out['ds']['expect_empty'] and f['n']:
                errs.append(tag + 'file %s has %d records for a data set of unplaceable queries' % (fk, f['n']))
        b = out.get('baseline')
        if b and b.get('rc') == 0 and out.get('rc') == 0:
            keep = set(out['ds']['normal_ids'])
            for fk in files:
                mine = sorted(x for x, q in zip(files[fk]['bodies'], files[fk]['qs']) if q in keep)
                base = sorted(x for x, q in zip(b['files'].get(fk, dict(bodies=[], qs=[]))['bodies'], b['files'].get(fk, dict(bodies=[], qs=[]))['qs']) if q in keep)
                if mine != base:
                    errs.append(tag + 'file %s: the records of the ordinary queries differ from a run with only the ordinary queries (%d vs %d records)' % (fk, len(mine), len(base)))
        return errs[:4]

    def finding(self, case, out, viol):
        if "XmapReader raises TypeError" in viol and 'parse' in viol:
            return 'F9'
        if 'COMA exited with status' in viol and 'IndexError' in viol and viol.rstrip(']').endswith('resolve>checkForConflicts>create>slice>__trimNotAlignedPositionsFromEnd'):
            return 'F8'
        if 'COMA exited with status' in viol and 'IndexError: index 0 is out of bounds for axis 0 with size 0' in viol and '>refine>__getCorrelation>correlate>' in viol:
            return 'F11'
        return None

    def classify(self, case, out):
        k = ['dataset=%s' % case['ds'], 'mode=%s' % case['mode'], 'cli' if case['cli'] else 'program']
        for fk, f in out.get('files', {}).items():
            k.append('%s records=%s' % (fk, '0' if f['n'] == 0 else '1-9' if f['n'] < 10 else '10+'))
        return k

    def nontrivial(self, case, out):
        return json.dumps(case, sort_keys=True) if out.get('rc') is not None else None


class Corners(Degenerate):
    name = 'param_corners'

    def cases(self, tier):
        return corner_cases(tier)

    def classify(self, case, out):
        return ['params=%s' % ' '.join(case['extra']), 'mode=%s' % case['mode']] + [k for k in Degenerate.classify(self, case, out) if 'records=' in k]


class ParamFuzz(Degenerate):
    """random combinations of parameter values (each option present with probability 1/2, values from small/default/large sets inside the
    domain the property allows: minPeakDistance >= primaryResolution, unmatchedPenalty <= 0 < minScore) on the degenerate and ordinary data sets"""
    name = 'param_fuzz'
    n_quick, n_thorough = 24, 320

    def gen(self, rng, tier):
        cases = []
        for k in range(self.n_quick if tier == 'quick' else self.n_thorough):
            r1 = rng.choice([100, 350, 700, 1400, 1400, 2800, 5000]); r2 = rng.choice([10, 50, 100, 100, 200, 1000])
            p = ['-b1', rng.choice([0, 1, 1, 2, 5]), '-p', rng.choice([1, 2, 3, 3, 6, 12]), '-r2', r2, '-b2', rng.choice([0, 1, 4, 4, 10]),
                 '-ma', rng.choice([0, 100, 1000, 16000, 16000, 50000]), '-pt', rng.choice([0, 0.5, 5, 27, 27, 100]),
                 '-d', rng.choice([0, 100, 1500, 1500, 5000, 20000]), '-sp', rng.choice([1, 100, 1000, 1000]), '-dp', rng.choice([0, 0.5, 1, 1, 2]),
                 '-su', rng.choice([0, -1, -250, -250, -1000]), '-ms', rng.choice([1, 500, 1000, 1000, 3000]), '-bs', rng.choice([0, 1, 900, 1200, 5000]),
                 '-diff', rng.choice([0, 1000, 100000, 100000]), '-sj', rng.choice([0, 0.5, 1, 1, 2]), '-ss', rng.choice([0, 1])]
            extra = []
            for i in range(0, len(p), 2):
                if rng.random() < 0.5:
                    extra += [p[i], str(p[i + 1])]
            if rng.random() < 0.6:     # resolution and peak distance together, so that minPeakDistance >= primaryResolution always holds
                extra += ['-r1', str(r1), '-md', str(max(r1, 1400) * rng.choice([1, 2, 5, 14, 40]) + rng.choice([0, 1, 13]))]
            ds = rng.choice(['mixed', 'mixed', 'degenerate_only', 'duplicates', 'indels', 'refs_mixed_degenerate', 'edge_alignments', 'some_maps_without_labels'])
            cases.append(dict(ds=ds, mode=rng.choice(MODES), cli=False, extra=extra))
        return cases

    def classify(self, case, out):
        return ['dataset=%s' % case['ds'], 'mode=%s' % case['mode'], 'options_set=%d' % (len(case['extra']) // 2)] + \
               [k for k in Degenerate.classify(self, case, out) if 'records=' in k] + ['option ' + o for o in case['extra'][::2]]


# ================================================================================================ (b) first/second pass crash search
def gen_dense_long(rng):
    """a dense lattice query with one diagonal jump; first-pass peaks on one or both diagonals, second-pass peaks on the other"""
    n = rng.randint(10, 24); pos = [0]
    for _ in range(n): pos.append(pos[-1] + rng.choice([1, 2, 3, 4, 6]))
    a = rng.randint(0, n - 9); b = rng.randint(a + 8, n)
    q = []; off = 0; cut = rng.randint(a + 2, b - 2); big = rng.choice([0, 3, -2, 5, 9, 14])
    for i, p in enumerate(pos[a:b + 1]):
        if a + i == cut: off += big
        if rng.random() < 0.1: continue
        q.append(p - pos[a] + off + rng.choice([0, 0, 1, -1]))
        if rng.random() < 0.1: q.append(q[-1] + 1)
    q = sorted(set(q))
    if len(q) < 3: return None
    q0 = q[0]; q = [x - q0 for x in q]
    base = pos[a] + q0
    P = dict(sp=10, dp=1.0, su=rng.choice([-2, -3, -1, 0]), ms=rng.choice([10, 18, 8]), bs=rng.choice([12, 6, 20]), d=rng.choice([1, 2, 3]),
             sj=rng.choice([1.0, 0.5, 0.25]), ss=rng.choice([0, 0, 1]))
    peaks = [base + rng.choice([0, 1, -1, 2, -2, 3]) + rng.choice([0, 0, -big]) for _ in range(rng.randint(1, 4))]
    peaks2 = [base + rng.choice([0, 1, -1, 2, -2]) - rng.choice([0, big, big]) for _ in range(rng.randint(1, 4))]
    return dict(P=P, it=1, ref=[float(p) for p in pos], rlen=pos[-1] + 1, qry=[float(x) for x in q], qlen=q[-1] + rng.choice([1, 1, 30]), peaks=peaks, peaks2=peaks2,
                rev=rng.random() < 0.5, kind='dense_long', maxdiff=rng.choice([100000, 3, 0]))


def gen_multi_case(rng):
    r = rng.random()
    if r < 0.6:
        c = gen_dense_long(rng)
    else:
        c = pl.gen_blocks(rng) if r < 0.8 else pl.gen_realistic(rng)
        if c is not None:
            c['peaks2'] = [p + rng.choice([0, 100, -300, 1000, -2000, 3000]) for p in c['peaks']][:rng.randint(1, 4)]
            c['maxdiff'] = rng.choice([100000, 3000, 0])
    if c is None:
        return None
    c = pl.finalize(c, rng)
    if c is None:
        return None
    c['flip'] = [int(rng.random() < 0.1), int(rng.random() < 0.1)]
    return c


def canon_row(r):
    return [int(r.queryId), int(r.referenceId), pl.r10(r.queryStartPosition), pl.r10(r.queryEndPosition), pl.r10(r.referenceStartPosition),
            pl.r10(r.referenceEndPosition), 1 if r.reverseStrand else 0, pl.r20(r.confidence),
            [[int(p.reference.siteId), int(p.query.siteId)] for p in r.alignedPairs]]


def exc_info(e, stage):
    return dict(err=type(e).__name__, stage=stage, frames=[f.name for f in traceback.extract_tb(e.__traceback__)][-6:], msg=str(e)[:100])


def run_multi(c):
    """first pass, fragments, second pass on the fragments, filter, join, HitEnum, writer, reader — the calls of the multi-pass coordinator"""
    from src.correlation.optical_map import OpticalMap
    from src.correlation.peak import Peak
    from src.alignment.alignment_results import AlignmentResults
    from src.parsers.xmap_reader import XmapReader
    from src.parsers.xmap_alignment_pair_parser import XmapAlignmentPairWithDistanceParser
    from src.args import Args
    ref = OpticalMap(1, int(c['rlen']), [float(x) for x in c['ref']])
    qm = OpticalMap(7, c['qlen'], [float(x) for x in c['qry']])
    al = pl.mk_aligner(c['P'])
    out = dict(frags=[], revs2=[], joined=[], separate=[])
    stage = 'align1'
    try:
        row1 = al.align(ref, qm, [Peak(p, 10.) for p in c['peaks']], c['rev'])
        out['row1'] = canon_row(row1)
        out['row1_shape'] = [[0 if hasattr(p, 'reference') and hasattr(p, 'query') else 1 for p in s.positions] for s in row1.segments]
        if not row1.alignedPairs:
            out['stop'] = 'no pairs in the first pass'
            return out
        stage = 'fragments'
        frags = row1.getUnalignedFragments([qm])
        out['frags'] = [[[pl.r10(p) for p in f.positions], int(f.shift)] for f in frags]
        stage = 'align2'
        rows2 = []
        for i, f in enumerate(frags):
            rev2 = bool(c['rev']) ^ bool(c.get('flip', [0, 0])[i])
            out['revs2'].append(rev2)
            rows2.append(al.align(ref, f, [Peak(p, 10.) for p in c['peaks2']], rev2))
        sec = [r.setAlignedRest(True) for r in rows2 if r.alignedPairs]
        f2 = AlignmentResults.filterOutSubsequentAlignmentsForSingleQuery(sec)
        out['rows2'] = [canon_row(r) for r in f2]
        stage = 'resolve'
        joined, separate = AlignmentResults.resolve([row1] + f2, c['maxdiff'])
        out['joined'] = [canon_row(r) for r in joined]; out['separate'] = [canon_row(r) for r in separate]
        stage = 'hitenum'
        for r in joined + separate:
            r.cigarString
        stage = 'write'
        rd = XmapReader(XmapAlignmentPairWithDistanceParser([ref], [qm]))
        buf = io.StringIO()
        rd.writeAlignments(buf, AlignmentResults('r.cmap', 'q.cmap', joined + separate), Args.parse(['-r', os.devnull, '-q', os.devnull]))
        stage = 'read'
        buf.seek(0)
        als = rd.readAlignments(buf)
        out['read'] = len(als)
    except Exception as e:
        out['exc'] = exc_info(e, stage)
    return out


MULTI_PRELUDE = pl.PRELUDE + '''
Definition crow (w : row) := (qid w, rid w, qs w, qe w, rs w, re w, (if rrev w then 1 else 0), conf w, site_pairs (rsegs w)).
Definition has_pairs_row (w : row) := match row_pairs (rsegs w) with [] => false | _ => true end.
Fixpoint second (P : params) (refm : omap) (frs : list omap) (revs : list bool) (peaks2 : list Z) : res (list row) :=
  match frs, revs with
  | f :: ft, rv :: rt => do segs <- aligner_align P 1 refm f peaks2 rv; do rest_ <- second P refm ft rt peaks2;
                         let w := row_create segs (mid f) (mid refm) (mlen f) (mlen refm) rv in Ok (if has_pairs_row w then w :: rest_ else rest_)
  | _, _ => Ok [] end.
Definition pzeqb (a b : Z*Z) := (fst a =? fst b) && (snd a =? snd b).
Fixpoint leqb {A} (e : A -> A -> bool) (a b : list A) := match a, b with [], [] => true | x::xs, y::ys => e x y && leqb e xs ys | _, _ => false end.
Notation crowT := (Z*Z*Z*Z*Z*Z*Z*Z*list (Z*Z))%type.
Definition row_eqb (a b : crowT) := match a, b with (a1,a2,a3,a4,a5,a6,a7,a8,a9),(b1,b2,b3,b4,b5,b6,b7,b8,b9) =>
  (a1=?b1)&&(a2=?b2)&&(a3=?b3)&&(a4=?b4)&&(a5=?b5)&&(a6=?b6)&&(a7=?b7)&&(a8=?b8)&&leqb pzeqb a9 b9 end.
Definition frag_eqb (a b : list Z * Z) := leqb Z.eqb (fst a) (fst b) && (snd a =? snd b).
(* case: params, ref positions, ref length, query positions, query length, peaks, second-pass peaks, strand, strands of the second pass, maxDifference;
   expected: stage code (0 = ran through, 1 = first pass raised, 2 = fragments raised, 3 = second pass raised, 4 = join raised, 5 = no pairs in the first pass),
   fragments, joined rows, separate rows *)
Notation mcase := ((Z*Z*Z*Z*Z*Z*Z*Z) * list Z * Z * list Z * Z * list Z * list Z * bool * list bool * Z * (Z * list (list Z * Z) * list crowT * list crowT))%type.
Definition check (c : mcase) : Z :=
  match c with (p, refp, rlen_, qp, qlen_, peaks, peaks2, rv, revs, maxdiff, (estage, efr, ejoined, esep)) =>
    let P := mkparams p in let refm := mkMap 1 rlen_ refp 0 in let qm := mkMap 7 qlen_ qp 0 in
    match aligner_align P 1 refm qm peaks rv with
    | Err => if estage =? 1 then 0 else 1
    | Ok segs =>
      let w1 := row_create segs 7 1 qlen_ rlen_ rv in
      if negb (has_pairs_row w1) then (if estage =? 5 then 0 else 1) else
      match unaligned_fragments w1 qp with
      | Err => if estage =? 2 then 0 else 1
      | Ok frs =>
        if (estage =? 1) || (estage =? 2) || (estage =? 5) then 1 else
        if negb (leqb frag_eqb (List.map (fun f => (mpositions f, mshift f)) frs) efr) then 3 else
        match second P refm frs revs peaks2 with
        | Err => if estage =? 3 then 0 else 1
        | Ok sec =>
          if estage =? 3 then 1 else
          match results_resolve (w1 :: filter_subsequent sec) maxdiff with
          | Err => if estage =? 4 then 0 else 1
          | Ok (j, s) => if estage =? 4 then 1 else
                         if leqb row_eqb (List.map crow j) ejoined && leqb row_eqb (List.map crow s) esep then 0 else 4
          end
        end
      end
    end end.
'''


def crow_term(r):
    return '(%s,%s,%s,%s,%s,%s,%s,%s,%s)' % (z(r[0]), z(r[1]), z(r[2]), z(r[3]), z(r[4]), z(r[5]), z(r[6]), z(r[7]),
                                            clist('(%s,%s)' % (z(a), z(b)) for a, b in r[8]))


class MultiCrash(Stream):
    name = 'multi_crash'
    prelude = MULTI_PRELUDE
    shard = 250
    quick_n, thorough_n = 4000, 30000

    def gen(self, rng, tier):
        n = self.quick_n if tier == 'quick' else self.thorough_n
        out = []
        for _ in range(20 * n):
            if len(out) >= n:
                break
            c = gen_multi_case(rng)
            if c is not None:
                out.append(c)
        return out

    def impl(self, case):
        return run_multi(case)

    def oracle(self, case, out):
        errs = []
        if 'exc' in out:
            e = out['exc']
            errs.append('%s raised in stage %s [%s]: %s' % (e['err'], e['stage'], '>'.join(e['frames']), e['msg']))
        for r in out.get('joined', []):
            if not r[8]:
                errs.append('AlignmentResults.resolve reports a joined row without any aligned pair (confidence %s)' % (r[7] / 20.0))
        if 'read' in out and out['read'] != len(out['joined']) + len(out['separate']):
            errs.append('%d rows written, %d alignments read back' % (len(out['joined']) + len(out['separate']), out['read']))
        return errs

    def finding(self, case, out, viol):
        e = out.get('exc')
        if e and e['err'] == 'IndexError' and e['stage'] == 'resolve' and e['frames'][-1] == '__trimNotAlignedPositionsFromEnd' \
                and e['frames'][-2] == 'slice' and 'resolve' in e['frames'][:-2] and viol.startswith('IndexError raised in stage resolve'):
            return 'F8'
        pairless = any(not r[8] for r in out.get('joined', []))
        if pairless and viol.startswith('AlignmentResults.resolve reports a joined row without any aligned pair'):
            return 'F9'
        if pairless and e and e['err'] == 'TypeError' and e['stage'] == 'read' and e['frames'][-1] == 'parse' and viol.startswith('TypeError raised in stage read'):
            return 'F9'
        return None

    def term(self, case, out):
        e = out.get('exc')
        if 'stop' in out:
            st = 5
        elif e is None or e['stage'] in ('hitenum', 'write', 'read'):
            st = 0
        else:
            st = dict(align1=1, fragments=2, align2=3, resolve=4)[e['stage']]
        frs = clist('(%s,%s)' % (zl(f[0]), z(f[1])) for f in out.get('frags', []))
        return '((%s, %s, %s, %s, %s, %s, %s, %s, %s, %s, (%s, %s, %s, %s)) : mcase)' % (
            pl.params_term(case['P']), zl(pl.r10(x) for x in case['ref']), z(case['rlen'] * 10), zl(pl.r10(x) for x in case['qry']), z(pl.r10(case['qlen'])),
            zl(p * 10 for p in case['peaks']), zl(p * 10 for p in case['peaks2']), cb(case['rev']), clist(cb(x) for x in out.get('revs2', [])),
            z(case['maxdiff'] * 10), z(st), frs, clist(crow_term(r) for r in out.get('joined', [])), clist(crow_term(r) for r in out.get('separate', [])))

    def classify(self, case, out):
        k = [case['kind'], 'rev' if case['rev'] else 'fwd']
        if 'exc' in out:
            k.append('exception:%s:%s' % (out['exc']['stage'], out['exc']['err']))
        elif 'stop' in out:
            k.append('first pass without pairs')
        else:
            k.append('fragments=%d joined=%d separate=%d' % (len(out['frags']), len(out['joined']), len(out['separate'])))
            if any(not r[8] for r in out['joined']): k.append('pairless joined row')
        sh = out.get('row1_shape') or []
        if sh and sh[0] and sh[0][-1] == 1: k.append('first segment ends with an unpaired label')
        if len(sh) > 1 and not sh[0] and any(0 in s for s in sh): k.append('first segment emptied')
        return k

    def nontrivial(self, case, out):
        if not out.get('frags'):
            return None
        return repr((case['ref'], case['qry'], case['peaks'], case['peaks2'], case['rev'], sorted(case['P'].items())))


# ================================================================================================ (c) Aligner.align error behaviour vs model
def gen_dense3(rng):
    n = rng.randint(8, 18); pos = [0]
    steps = rng.choice([[1, 2, 3], [2, 3, 4], [1, 2, 3, 4, 6], [2, 3]])
    for _ in range(n): pos.append(pos[-1] + rng.choice(steps))
    a = rng.randint(0, n - 6); b = rng.randint(a + 5, n)
    q = []; off = 0
    for p in pos[a:b + 1]:
        if rng.random() < 0.12: off += rng.choice([1, -1, 2, -2, 3])
        if rng.random() < 0.15: continue
        q.append(p - pos[a] + off + rng.choice([0, 0, 0, 1, -1]))
        if rng.random() < 0.15: q.append(q[-1] + rng.choice([1, 2]))
    q = sorted(set(q))
    if len(q) < 4: return None
    q0 = q[0]; q = [x - q0 for x in q]
    base = pos[a] + q0
    P = dict(sp=10, dp=rng.choice([1.0, 2.0, 0.5]), su=rng.choice([-2, -3, -1, 0, -4]), ms=rng.choice([10, 18, 8, 5]), bs=rng.choice([12, 6, 20, 3]), d=rng.choice([1, 2, 3]),
             sj=rng.choice([1.0, 0.5, 0.25, 0.0]), ss=rng.choice([0, 0, 1]))
    peaks = [base + rng.choice([0, 1, -1, 2, -2, 3, -3, 4, -4]) for _ in range(rng.randint(3, 6))]
    return dict(P=P, it=1, ref=[float(p) for p in pos], rlen=pos[-1] + 1, qry=[float(x) for x in q], qlen=q[-1] + 1, peaks=peaks,
                rev=rng.random() < 0.5, kind='dense3')


def gen_diagonals(rng):
    """3-4 short blocks on neighbouring diagonals with repeated labels at the junctions, one seed peak per diagonal"""
    d = rng.choice([1, 1, 2])
    steps = rng.choice([[3, 4], [2, 3, 4], [3, 4, 5, 6], [4, 5]]) if d == 1 else rng.choice([[5, 6, 7], [4, 5, 6, 8]])
    n = rng.randint(10, 20); pos = [0]
    for _ in range(n): pos.append(pos[-1] + rng.choice(steps))
    nb = rng.randint(3, 4); a = rng.randint(0, 3)
    q = []; diag = []; off = 0; i = a
    for k in range(nb):
        if k > 0: off += rng.choice([1, -1]) * rng.choice([d + 1, d + 1, d + 2, 2 * d + 1])
        ln = rng.randint(2, 4)
        st = max(a, i - rng.choice([0, 0, 1, 1, 2]))
        for p_ in pos[st:i + ln]:
            if rng.random() < 0.1: continue
            q.append(p_ - pos[a] + off + rng.choice([0, 0, 0, 1, -1]))
            if rng.random() < 0.2: q.append(q[-1] + rng.choice([1, 2, -1, -2]))
        i += ln
        if i >= n: break
        diag.append(off)
    q = sorted(set(q))
    if len(q) < 4 or len(diag) < 2: return None
    q0 = q[0]; q = [x - q0 for x in q]
    peaks = [pos[a] + q0 - o for o in diag]
    if rng.random() < 0.3: peaks.append(pos[a] + q0 - rng.choice(diag) + rng.choice([1, -1]))
    rng.shuffle(peaks)
    P = dict(sp=10, dp=rng.choice([1.0, 2.0, 0.5]), su=rng.choice([-2, -3, -1, 0, -4]), ms=rng.choice([10, 18, 8, 5]), bs=rng.choice([12, 6, 20, 3]), d=d,
             sj=rng.choice([1.0, 0.5, 0.25, 0.0]), ss=rng.choice([0, 0, 1]))
    return dict(P=P, it=1, ref=[float(p) for p in pos], rlen=pos[-1] + 1, qry=[float(x) for x in q], qlen=q[-1] + 1, peaks=peaks,
                rev=rng.random() < 0.3, kind='diagonals')


def with_duplicates(c, rng):
    for key in ('ref', 'qry'):
        l = list(c[key])
        for i in range(1, len(l)):
            if rng.random() < 0.2: l[i] = l[i - 1]
        c[key] = sorted(l)
    c['kind'] += '+duplicates'
    return c


def gen_degenerate_align(rng):
    """one/two-label molecules, peaks far outside the reference, empty windows, a query longer than the reference"""
    k = rng.choice(['one_q', 'two_q', 'one_r', 'far_peak', 'long_q', 'same'])
    ref = sorted(set(rng.randint(0, 60) for _ in range(rng.randint(1, 8)))) if k != 'one_r' else [rng.randint(0, 50)]
    if k == 'one_q': q = [0]
    elif k == 'two_q': q = [0, rng.randint(0, 9)]
    elif k == 'long_q': q = [0] + sorted(rng.randint(1, 200) for _ in range(rng.randint(1, 6)))
    elif k == 'same': q = [0] + [rng.choice([0, 3]) for _ in range(rng.randint(1, 4))]; q.sort()
    else: q = [0] + sorted(rng.randint(1, 40) for _ in range(rng.randint(1, 6)))
    peaks = [rng.randint(-10, 70) for _ in range(rng.randint(1, 3))] if k != 'far_peak' else [rng.choice([-500, 900, 10 ** 6])] + [rng.randint(0, 50)]
    P = dict(sp=10, dp=1.0, su=rng.choice([-2, 0, -10]), ms=rng.choice([10, 1, 20]), bs=rng.choice([12, 0, 1]), d=rng.choice([0, 1, 3]), sj=rng.choice([1.0, 0.0]), ss=rng.choice([0, 1]))
    return dict(P=P, it=1, ref=[float(x) for x in ref], rlen=ref[-1] + 1, qry=[float(x) for x in q], qlen=q[-1] + rng.choice([1, 1, 5]), peaks=peaks,
                rev=rng.random() < 0.5, kind='degenerate:' + k)


class AlignErrors(Stream):
    name = 'align_errors'
    prelude = pl.ALIGN_CHECK
    shard = 250
    quick_n, thorough_n = 4000, 30000

    def gen(self, rng, tier):
        n = self.quick_n if tier == 'quick' else self.thorough_n
        cases = pl.gen_mix(rng, n // 3, dict(dense=4, folding=3, blocks=3, boundary=1, fragment=1))
        mine = []
        for _ in range(40 * n):
            if len(mine) >= n - len(cases):
                break
            r = rng.random()
            c = gen_degenerate_align(rng) if r < 0.15 else (gen_dense3 if r < 0.6 else gen_diagonals)(rng)
            if c is None:
                continue
            if not c['kind'].startswith('degenerate') and rng.random() < 0.25:
                c = with_duplicates(c, rng)
            c = pl.finalize(c, rng)
            if c is not None:
                mine.append(c)
        return cases + mine

    def impl(self, case):
        return pl.run_align(case)

    def tolerated(self, case, out):
        return bool(out.get('float_flip'))

    def term(self, case, out):
        return pl.align_term(case, out)

    def oracle(self, case, out):
        errs = []
        if 'inputs_err' in out: errs.append('Aligner.getSegments raised %s' % out['inputs_err'])
        if 'err' in out: errs.append('Aligner.align raised %s' % out['err'])
        if 'cigar_err' in out and 'err' not in out and not pl.oracle_valid_row(case, out):
            errs.append('cigarString raised %s on a valid row' % out['cigar_err'])
        return errs

    def classify(self, case, out):
        k = [case['kind'], 'rev' if case['rev'] else 'fwd']
        if 'err' in out:
            return k + ['error']
        nin = len(pl.nonempty(out.get('inputs', []))); nout = len(pl.nonempty(out['segs']))
        k.append('segments_in=%d' % min(nin, 5)); k.append('segments_out=%d' % min(nout, 5))
        if any(s[2] and not pl.seg_pairs(s) for s in out['segs']): k.append('pairless_nonempty_segment')
        if any(s[2] and s[2][-1][0] != 0 for s in out['segs']): k.append('segment_ends_unpaired')
        return k

    def nontrivial(self, case, out):
        if 'err' in out or len(pl.nonempty(out.get('inputs', []))) < 2:
            return None
        return repr((case['ref'], case['qry'], case['peaks'], case['rev'], sorted(case['P'].items())))


STREAMS = [Degenerate(), Corners(), ParamFuzz(), MultiCrash(), AlignErrors()]

"""C02 — Record fields agree with the listed pairs and with the input maps."""
import os, re, json, random, argparse, collections
from io import StringIO
from ..driver import Stream
from ..common import z, zl, cb, cstr, clist, seeded_rng
from .. import common, pipeline as pl, e2e, e2e_streams as es

ID = 'C02'
RULE = ('e2e_files: real COMA runs in the four output modes on generated data sets (two on the 0.5 grid, one with arbitrary one-decimal '
        'coordinates and end markers; thorough: 7 + 3), every record of every output file (main, _1, _2) checked from the XMAP text against the CMAP text '
        'with independent parsers, exactly in tenths of a base pair; rows: Aligner.align candidates (realistic ladders, indel blocks, window boundaries, '
        'fragments with a label-number offset and a longer length) through the model (segments, header) and through the verified statement spec_header; '
        'e2e_candidates: the candidates real runs built in both passes, replayed through the same check against the WHOLE trimmed query; '
        'writer: 1-4 rows of the real Aligner.align written by the real XmapReader.writeAlignments, data lines compared byte-wise with '
        'xmap_write_lines (map xrow_of_row rows) of the model rows; fragments: AlignmentResultRow.getUnalignedFragments against Multi.unaligned_fragments, '
        'second-pass rows on the returned fragments against the whole query. '
        'non-trivial = e2e: data set whose files contain second-pass records and joined records on both strands; other streams: distinct case whose row has >= 2 pairs')
TRUSTED = ['adapter harness/pipeline.py; harness/e2e.py (CMAP writer, subprocess runner)',
           'independent text parsers of this module (read_cmap_tenths, tenths, e2e.parse_xmap)',
           'args passed to writeAlignments is an argparse.Namespace with the fields of Args']
ASSUMPTIONS = ['model streams: coordinates are multiples of 0.5 and parameters lie on the exact grid, so every float operation of the implementation is exact '
               'and the confidence has exactly two decimals',
               'e2e text oracle: CMAP coordinates carry one decimal; the implementation computes offsets in floating point and prints one decimal, '
               'the expected value is computed in integer tenths from the CMAP text',
               'a record whose pair list is not a valid matching (C01) or names labels that do not exist is left to C01']


# ================================================================================================ text-level oracle
def tenths(txt):
    m = re.fullmatch(r'(-?)(\d+)\.(\d)', txt)
    if not m:
        return None
    v = int(m.group(2)) * 10 + int(m.group(3))
    return -v if m.group(1) and v else v


def read_cmap_tenths(path):
    """independent CMAP reader on the text: {id: dict(labels=[sorted tenths], end=tenths)}; columns located by the #h line"""
    maps = collections.OrderedDict()
    cols = None
    for line in open(path):
        if line.startswith('#h'):
            cols = line[2:].split()
            continue
        if line.startswith('#') or not line.strip():
            continue
        c = line.rstrip('\n').split('\t')
        mid = int(c[cols.index('CMapId')]); ch = int(c[cols.index('LabelChannel')]); txt = c[cols.index('Position')]
        pos = tenths(txt if '.' in txt else txt + '.0')
        m = maps.setdefault(mid, dict(labels=[], end=None))
        if ch == 0:
            if m['end'] is None:
                m['end'] = pos
        else:
            m['labels'].append(pos)
    for m in maps.values():
        m['labels'].sort()
    return maps


def t2s(v):
    return '%s%d.%d' % ('-' if v < 0 else '', abs(v) // 10, abs(v) % 10)


def expected_fields(r, R, Q):
    """(QryStartPos, QryEndPos, RefStartPos, RefEndPos, QryLen, RefLen) in tenths from the listed pairs and the CMAP text"""
    P = r['pairs']; rl, ql = R['labels'], Q['labels']
    (ra, qa), (rb, qb) = P[0], P[-1]
    if r['ori'] == '+':
        qs, qe = ql[qa - 1] - ql[0], ql[qb - 1] - ql[0]
    else:
        qs, qe = ql[-1] - ql[qb - 1], ql[-1] - ql[qa - 1]
    return dict(qs=qs, qe=qe, rs=rl[ra - 1], re=rl[rb - 1], qlen=ql[-1] - ql[0] + 10, rlen=(R['end'] // 10) * 10)


def check_record_strict(r, refs, qrys, errs, tag=''):
    """C02 on one record, exact in tenths. refs/qrys from read_cmap_tenths."""
    R = refs.get(r['r']); Q = qrys.get(r['q'])
    if R is None or Q is None or r['ori'] not in ('+', '-') or not r['pairs']:
        return                                               # reported by e2e.check_record_fields / C01
    tmp = []
    e2e.check_record_matching(r, {k: dict(labels=v['labels']) for k, v in refs.items()}, {k: dict(labels=v['labels']) for k, v in qrys.items()}, tmp)
    if tmp:
        return                                               # not a valid matching: C01's business
    if r['ncols'] != 15:
        errs.append('%squery %d: %d columns' % (tag, r['q'], r['ncols'])); return
    exp = expected_fields(r, R, Q)
    names = dict(qs='QryStartPos', qe='QryEndPos', rs='RefStartPos', re='RefEndPos', qlen='QryLen', rlen='RefLen')
    got = {}
    for k in exp:
        got[k] = tenths(r[k])
        if got[k] is None:
            errs.append('%squery %d: %s %r is not a one-decimal number' % (tag, r['q'], names[k], r[k])); return
    for k in ('qs', 'qe', 'rs', 're', 'qlen', 'rlen'):
        if got[k] != exp[k]:
            errs.append("%squery %d on '%s' (AlignedRest %s, pairs %s..%s): %s is %s, expected %s" % (
                tag, r['q'], r['ori'], r['rest'], r['pairs'][0], r['pairs'][-1], names[k], r[k], t2s(exp[k])))
    if r['ori'] == '+' and got['qs'] > got['qe']:
        errs.append("%squery %d: QryStartPos %s > QryEndPos %s on '+'" % (tag, r['q'], r['qs'], r['qe']))
    if r['ori'] == '-' and got['qs'] < got['qe']:
        errs.append("%squery %d: QryStartPos %s < QryEndPos %s on '-'" % (tag, r['q'], r['qs'], r['qe']))
    if got['rs'] > got['re']:
        errs.append('%squery %d: RefStartPos %s > RefEndPos %s' % (tag, r['q'], r['rs'], r['re']))


# ================================================================================================ (a) end to end
def tenth_dataset(ds_seed, nq, nlab=200):
    """as e2e_streams.make_dataset but with arbitrary one-decimal coordinates and end markers (not only the 0.5 grid)"""
    rng = random.Random(ds_seed)
    ds = e2e.gen_mixed(rng, nref=2, nlab=nlab, nq=nq)
    jr = random.Random(ds_seed ^ 0x5bd1e995)

    def jit(ps):
        return sorted(set(round(p + jr.randint(0, 9) / 10.0, 1) for p in ps))
    ds['refs'] = [(i, round(l + jr.randint(0, 9) / 10.0, 1), jit(ps)) for i, l, ps in ds['refs']]
    ds['queries'] = [(i, round(l + 1 + jr.randint(0, 9) / 10.0, 1), jit(ps)) for i, l, ps in ds['queries']]
    return ds


def dataset_paths(case):
    tag = ('dt%d_%d' if case.get('grid') == 'tenth' else 'ds%d_%d') % (case['ds_seed'], case['nq'])
    d = e2e.dataset_dir(tag)
    return tag, os.path.join(d, 'r.cmap'), os.path.join(d, 'q.cmap')


def run_case(case):
    tag, rp, qp = dataset_paths(case)
    if case.get('grid') == 'tenth':
        ds = tenth_dataset(case['ds_seed'], case['nq'], case.get('nlab', 200))
        e2e.materialise(ds, tag)
        jobs = [dict(refpath=rp, qpath=qp, args=['-oM', m] + list(case['extra']), cpus=1, capture=False) for m in es.MODES]
        rs = e2e.run_many(jobs, workers=len(jobs))
        out = dict(modes={m: es.summarise(r) for m, r in zip(es.MODES, rs)}, capture=[])
    else:
        out = es.run_dataset(case)
        out = dict(modes=out['modes'], capture=[], truth=out.get('truth'))
    # the maps as the FILES have them (text), not as the generator made them
    out['refs_t'] = {str(k): v for k, v in read_cmap_tenths(rp).items()}
    out['qrys_t'] = {str(k): v for k, v in read_cmap_tenths(qp).items()}
    return out


def e2e_cases(seed, tier):
    src = es.E2EStream(); src.seed = seed
    cases = [dict(c, grid='half') for c in src.gen(None, tier)]
    cases = cases[:2] if tier == 'quick' else [dict(c, nq=30) for c in cases[:7]]
    base = seeded_rng(seed, 'C02-tenth')
    nt = 1 if tier == 'quick' else 3
    for k in range(nt):
        cases.append(dict(ds_seed=base.randint(1, 10 ** 9), nq=24 if tier == 'quick' else 30, extra=es.PARAM_SETS[(k * 2) % len(es.PARAM_SETS)], grid='tenth'))
    return cases


def record_stats(out):
    st = collections.Counter()
    for m, fk, r in es.all_records(out):
        st['records'] += 1
        st['strand' + r['ori']] += 1
        if r['rest'] == 'True':
            st['second_pass'] += 1
            st['second_pass' + r['ori']] += 1
        if (m in ('joined', 'all') and fk == 'main'):
            st['joined'] += 1
            st['joined' + r['ori']] += 1
        if fk in ('_1', '_2'):
            st['additional_file'] += 1
    return st


class Files(es.E2EStream):
    name = 'e2e_files'
    parallel = False

    def gen(self, rng, tier):
        return e2e_cases(getattr(self, 'seed', 0), tier)

    def impl(self, case):
        return run_case(case)

    def oracle(self, case, out):
        errs = es.run_failures(out)
        refs = {int(k): v for k, v in out['refs_t'].items()}; qs = {int(k): v for k, v in out['qrys_t'].items()}
        reff = {k: dict(labels=[p / 10.0 for p in v['labels']], end=v['end'] / 10.0) for k, v in refs.items()}
        qf = {k: dict(labels=[p / 10.0 for p in v['labels']], end=(v['end'] or 0) / 10.0) for k, v in qs.items()}
        for m, mo in out['modes'].items():
            for fk, f in mo['files'].items():
                tag = '[mode %s file %s] ' % (m, fk)
                for idx, r in enumerate(f.get('rows', [])):
                    if r['id'] != idx + 1:
                        errs.append('%sXmapEntryID %d on data line %d' % (tag, r['id'], idx + 1))
                    e2e.check_record_fields(r, reff, qf, errs, tag=tag)
                    check_record_strict(r, refs, qs, errs, tag=tag)
        return errs[:4]

    def classify(self, case, out):
        k = ['grid=%s' % case.get('grid'), 'params=%s' % (' '.join(case['extra']) or 'default')]
        st = record_stats(out)
        for key in ('records', 'second_pass', 'second_pass-', 'second_pass+', 'joined', 'joined-', 'joined+', 'additional_file', 'strand-', 'strand+'):
            n = st[key]
            k.append('%s=%s' % (key, '0' if n == 0 else '1-9' if n < 10 else '10-99' if n < 100 else '100+'))
        return k

    def nontrivial(self, case, out):
        st = record_stats(out)
        return json.dumps(case, sort_keys=True) if st['second_pass'] and st['joined'] and st['strand-'] and st['strand+'] else None


# ================================================================================================ (b) model correspondence: rows
C02_PRELUDE = pl.PRELUDE + '''
Require Import Record RecordProofs1 RecordProofs2.
Notation acase := ((Z*Z*Z*Z*Z*Z*Z*Z) * Z * list Z * Z * list Z * Z * Z * list Z * bool * (bool * list cseg * (Z*Z*Z*Z*Z) * (bool * string)))%type.
Definition epairs (esegs : list cseg) : list (Z * Z) :=
  flat_map (fun s => match s with (_, _, l) => flat_map (fun p => match p with (k, r, q, _, _, _) => if k =? 0 then [(r, q)] else [] end) l end) esegs.
Fixpoint eqlz (a b : list Z) : bool := match a, b with [], [] => true | x :: s, y :: t => (x =? y) && eqlz s t | _, _ => false end.
(* codes: 1 segments differ / error behaviour differs, 3 header of row_create differs,
          2 the implementation's header is not what theorem C02_header says (spec_header on the implementation's pairs and the WHOLE query),
          5 the hypotheses of the C02 theorems are not met by a row the implementation produced, 6 harness: the fragment is not the stated part of the whole query *)
Definition c02_code (c : acase) (whole : list Z) : Z :=
  match c with (p, it, refp, rlen_, qp, qlen_, qshift, peaks, rev_, (err, esegs, (eqs, eqe, ers, ere, econf), _)) =>
    let reference := mkMap 1 rlen_ refp 0 in let query := mkMap 7 qlen_ qp qshift in
    match aligner_align (mkparams p) it reference query peaks rev_ with
    | Err => if err then 0 else 1
    | Ok segs =>
      if err then 1 else
      if negb (eqsegs (List.map cseg_of segs) esegs) then 1 else
      let w := align_row segs reference query rev_ in
      if negb ((qs w =? eqs) && (qe w =? eqe) && (rs w =? ers) && (re w =? ere) && (conf w =? econf)) then 3 else
      match epairs esegs with
      | [] => 0
      | ps =>
        if negb (valid_rowb (Z.of_nat (List.length refp)) (1 + qshift) (Z.of_nat (List.length qp) + qshift) rev_ ps) then 0 else
        if negb (asc_le_b refp && asc_le_b whole) then 0 else
        if negb (eqlz qp (firstn (List.length qp) (skipn (Z.to_nat qshift) whole))) then 6 else
        match spec_header reference (mkMap 7 qlen_ whole 0) rev_ ps with (sqs, sqe, srs, sre) =>
          if negb ((sqs =? eqs) && (sqe =? eqe) && (srs =? ers) && (sre =? ere)) then 2 else
          if pairs_fromb (positions_with_ids reference false) (positions_with_ids query rev_) segs then 0 else 5
        end
      end
    end end.
Definition check (c : acase * list Z) : Z := c02_code (fst c) (snd c).
'''


def whole_of(case):
    """a whole query of which the case's query is the part starting after `shift` labels (dummy labels in front when none is known)"""
    if 'whole' in case:
        return case['whole']
    k = case.get('shift', 0)
    q0 = case['qry'][0]
    return [q0 - (k - j) for j in range(k)] + list(case['qry'])


def header_oracle(case, out, whole=None):
    """spec_header in Python: header of the implementation's row from its listed pairs and the maps"""
    if 'err' in out or not out['pairs'] or pl.oracle_valid_row(case, out):
        return []
    ref = case['ref']; sh = case.get('shift', 0); rev = case['rev']; qlen = case['qlen']
    W = whole if whole is not None else whole_of(case)

    def qc(site):
        x = W[site - 1]
        return (qlen - 1 - x) if rev else x
    (ra, qa), (rb, qb) = out['pairs'][0], out['pairs'][-1]
    if not (1 <= qa <= len(W) and 1 <= qb <= len(W) and 1 <= ra <= len(ref) and 1 <= rb <= len(ref)):
        return ['listed pair %s or %s names a label that does not exist in the whole query (%d labels) / reference (%d labels)' % ((ra, qa), (rb, qb), len(W), len(ref))]
    exp = [qc(qb if rev else qa), qc(qa if rev else qb), ref[ra - 1], ref[rb - 1]]
    got = [v / 10.0 for v in out['hdr'][:4]]
    errs = []
    for name, g, e in zip(('queryStartPosition', 'queryEndPosition', 'referenceStartPosition', 'referenceEndPosition'), got, exp):
        if abs(g - e) > 1e-6:
            errs.append("%s is %s, expected %s (strand %s, label offset %d, listed pairs %s..%s)" % (name, g, e, '-' if rev else '+', sh, out['pairs'][0], out['pairs'][-1]))
    if (not rev and got[0] > got[1]) or (rev and got[0] < got[1]) or got[2] > got[3]:
        errs.append('start/end order contradicts the strand: %s' % got)
    return errs[:3]


class Rows(Stream):
    name = 'rows'
    prelude = C02_PRELUDE
    shard = 50
    weights = dict(realistic=4, blocks=3, boundary=1, fragment=6, dense=1)
    quick_n, thorough_n = 800, 6000

    def gen(self, rng, tier):
        self.shard = 50 if tier == 'quick' else 250
        return pl.gen_mix(rng, self.quick_n if tier == 'quick' else self.thorough_n, self.weights)

    def impl(self, case):
        return pl.run_align(case)

    def tolerated(self, case, out):
        return bool(out.get('float_flip'))

    def term(self, case, out):
        return '(%s, %s)' % (pl.align_term(case, out), zl(pl.r10(x) for x in whole_of(case)))

    def oracle(self, case, out):
        return header_oracle(case, out)

    def classify(self, case, out):
        k = [case['kind'], 'rev' if case['rev'] else 'fwd', 'shift>0' if case.get('shift', 0) > 0 else 'shift=0']
        if 'err' in out:
            return k + ['error']
        k.append('pairs=%s' % ('0' if not out['pairs'] else '1' if len(out['pairs']) == 1 else '2+'))
        k.append('segments_out=%d' % min(4, len(pl.nonempty(out['segs']))))
        return k

    def nontrivial(self, case, out):
        if 'err' in out or len(out['pairs']) < 2:
            return None
        return repr((case['ref'], case['qry'], case['peaks'], case['rev'], case.get('shift', 0)))


class Candidates(es.CandidateStream):
    """candidates of real runs (both passes); second-pass candidates are checked against the whole trimmed query"""
    name = 'e2e_candidates'
    prelude = C02_PRELUDE
    shard = 40
    max_per_dataset = 150
    quick_per_dataset = 60

    def gen(self, rng, tier):
        self.shard = 40 if tier == 'quick' else 150
        cases = []
        for c in e2e_cases(getattr(self, 'seed', 0), tier):
            if c.get('grid') != 'half':
                continue
            out = es.run_dataset(c)
            refs, qs = es.maps_of(out)
            cc = es.candidate_cases(c, out)
            # keep every second-pass candidate, sample the rest
            frag = [x for x in cc if x[0].get('shift', 0) > 0 or len(x[0]['qry']) < len(qs[x[0]['q']]['labels'])]
            rest = [x for x in cc if not (x[0].get('shift', 0) > 0 or len(x[0]['qry']) < len(qs[x[0]['q']]['labels']))]
            rng.shuffle(rest); rng.shuffle(frag)
            m = self.quick_per_dataset if tier == 'quick' else self.max_per_dataset
            for pc, po in (frag[:m] + rest[:m // 2]):
                L = qs[pc['q']]['labels']
                pc['whole'] = [p - L[0] for p in L]
                pc['recorded'] = po
                pc['dataset'] = dict(ds_seed=c['ds_seed'], nq=c['nq'], extra=c['extra'])
                cases.append(pc)
        return cases

    def term(self, case, out):
        return '(%s, %s)' % (pl.align_term(case, out), zl(pl.r10(x) for x in case['whole']))

    def oracle(self, case, out):
        return header_oracle(case, out, case['whole'])

    def classify(self, case, out):
        second = case.get('shift', 0) > 0 or len(case['qry']) < len(case['whole'])
        return ['rev' if case['rev'] else 'fwd', 'second-pass-%s' % ('suffix' if case.get('shift', 0) > 0 else 'prefix') if second else 'first-pass',
                'pairs=%s' % ('0' if not out['pairs'] else '1' if len(out['pairs']) == 1 else '2+')]


# ================================================================================================ (b) model correspondence: the writer
WRITER_PRELUDE = pl.PRELUDE + '''
Require Cmap.
Require Import Xmap Record.
Notation wcase := ((Z*Z*Z*Z*Z*Z*Z*Z) * Z * list Z * Z * list Z * Z * Z * list Z * bool * (Z * Z * bool))%type.
Definition model_row (c : wcase) : res Multi.row :=
  match c with (p, it, refp, rlen_, qp, qlen_, qshift, peaks, rev_, (qi, ri, rst)) =>
    let reference := mkMap ri rlen_ refp 0 in let query := mkMap qi qlen_ qp qshift in
    do segs <- aligner_align (mkparams p) it reference query peaks rev_;
    Ok (set_aligned_rest (align_row segs reference query rev_) rst)
  end.
Fixpoint eqls (a b : list string) : bool :=
  match a, b with [], [] => true | x :: s, y :: t => String.eqb x y && eqls s t | _, _ => false end.
(* expected: (error flag, data lines of the real writer) *)
Definition check (c : list wcase * (bool * list string)) : Z :=
  match Cmap.mapM model_row (fst c) with
  | Err => if fst (snd c) then 0 else 1
  | Ok rows =>
    match Cmap.mapM xrow_of rows with
    | Err => if fst (snd c) then 0 else 1
    | Ok xs => if fst (snd c) then 1 else if eqls (xmap_write_lines xs) (snd (snd c)) then 0 else 1
    end
  end.
'''


def writer_args():
    from src.args import Args
    return argparse.Namespace(**{f: (['1', '2'] if f.endswith('Ids') else 'best' if f == 'outputMode' else 0) for f in Args._fields})


def real_rows_and_text(case):
    from src.correlation.optical_map import OpticalMap
    from src.correlation.peak import Peak
    from src.parsers.xmap_reader import XmapReader
    from src.alignment.alignment_results import AlignmentResults
    rows = []
    for c in case['rows']:
        ref = OpticalMap(c['rid'], int(c['rlen']), [float(x) for x in c['ref']])
        qm = OpticalMap(c['qid'], c['qlen'], [float(x) for x in c['qry']], c.get('shift', 0))
        al = pl.mk_aligner(c['P'])
        al.alignmentEngine.iteration = c['it']
        row = al.align(ref, qm, [Peak(p, 10.) for p in c['peaks']], c['rev'])
        if c['rest']:
            row = row.setAlignedRest(True)
        rows.append(row)
    f = StringIO()
    XmapReader().writeAlignments(f, AlignmentResults('ref.cmap', 'qry.cmap', rows), writer_args())
    return rows, f.getvalue()


class Writer(Stream):
    name = 'writer'
    prelude = WRITER_PRELUDE
    shard = 30
    weights = dict(realistic=4, blocks=2, fragment=5, boundary=1)

    def gen(self, rng, tier):
        n = 240 if tier == 'quick' else 2500
        self.shard = 30 if tier == 'quick' else 120
        cases = []
        for _ in range(n):
            rows = pl.gen_mix(rng, rng.choice([1, 2, 2, 3, 4]), self.weights)
            for c in rows:
                c['qid'] = rng.choice([1, 7, 23, 108, 4711]); c['rid'] = rng.choice([1, 2, 19, 300])
                c['rest'] = rng.random() < 0.4
            cases.append(dict(rows=rows))
        return cases

    def impl(self, case):
        try:
            rows, text = real_rows_and_text(case)
        except Exception as e:
            return dict(err=type(e).__name__ + ':' + str(e)[:80], lines=[])
        lines = text.split('\n')
        flags = [] if lines[-1] == '' else ['file does not end with a newline']
        lines = lines[:-1] if lines[-1] == '' else lines
        return dict(header=[l for l in lines if l.startswith('#')], lines=[l for l in lines if not l.startswith('#')], flags=flags,
                    pairs=[[[int(p.reference.siteId), int(p.query.siteId)] for p in r.alignedPairs] for r in rows])

    def term(self, case, out):
        ts = []
        for c in case['rows']:
            ts.append('(%s, %s, %s, %s, %s, %s, %s, %s, %s, (%s, %s, %s))' % (
                pl.params_term(c['P']), z(c['it']), zl(pl.r10(x) for x in c['ref']), z(c['rlen'] * 10), zl(pl.r10(x) for x in c['qry']),
                z(pl.r10(c['qlen'])), z(c.get('shift', 0)), zl(p * 10 for p in c['peaks']), cb(c['rev']), z(c['qid']), z(c['rid']), cb(c['rest'])))
        return '((%s : list wcase), (%s, (%s : list string)))' % (clist(ts), cb('err' in out), clist(cstr(l) for l in out['lines']))

    def oracle(self, case, out):
        """the written text against the maps the rows were aligned on (fragment-level label numbers: label s of the fragment = its (s - shift)-th label)"""
        if 'err' in out:
            return []
        v = list(out['flags'])
        if len(out['lines']) != len(case['rows']):
            v.append('%d data lines for %d rows' % (len(out['lines']), len(case['rows'])))
        for k, (line, c, ps) in enumerate(zip(out['lines'], case['rows'], out['pairs'])):
            f = line.split('\t')
            if len(f) != 15:
                v.append('data line %d has %d fields' % (k + 1, len(f))); continue
            if f[0] != str(k + 1): v.append('XmapEntryID %r on data line %d' % (f[0], k + 1))
            if f[1] != str(c['qid']): v.append('QryContigID %r, the row was aligned on query %d' % (f[1], c['qid']))
            if f[2] != str(c['rid']): v.append('RefContigID %r, the row was aligned on reference %d' % (f[2], c['rid']))
            if f[7] != ('-' if c['rev'] else '+'): v.append('Orientation %r for reverseStrand=%s' % (f[7], c['rev']))
            if tenths(f[10]) != pl.r10(c['qlen']): v.append('QryLen %r, query length %s' % (f[10], c['qlen']))
            if tenths(f[11]) != c['rlen'] * 10: v.append('RefLen %r, reference length %s' % (f[11], c['rlen']))
            if f[12] != str(bool(c['rest'])): v.append('AlignedRest %r, expected %s' % (f[12], c['rest']))
            if f[14] != ''.join('(%d,%d)' % tuple(p) for p in ps): v.append('Alignment column does not list the aligned pairs in order')
            fake = dict(pairs=ps, hdr=[tenths(f[3]) or 0, tenths(f[4]) or 0, tenths(f[5]) or 0, tenths(f[6]) or 0])
            if ps and None in (tenths(f[3]), tenths(f[4]), tenths(f[5]), tenths(f[6])):
                v.append('a coordinate of data line %d is not a one-decimal number: %r' % (k + 1, f[3:7]))
            elif ps:
                v += ['data line %d: %s' % (k + 1, e) for e in header_oracle(c, fake)]
        return v[:3]

    def classify(self, case, out):
        k = ['rows=%d' % len(case['rows'])]
        if 'err' in out:
            return k + ['error']
        for c, ps in zip(case['rows'], out['pairs']):
            k.append('strand=%s' % ('-' if c['rev'] else '+'))
            k.append('alignedRest=%s' % c['rest'])
            if c.get('shift', 0) > 0: k.append('label offset')
            if not ps: k.append('row without pairs')
        return k

    def nontrivial(self, case, out):
        if 'err' in out or not any(len(ps) >= 2 for ps in out['pairs']):
            return None
        return repr([(c['ref'], c['qry'], c['peaks'], c['rev']) for c in case['rows']])


# ================================================================================================ (c) getUnalignedFragments
FRAG_PRELUDE = pl.PRELUDE + '''
Require Import Record RecordProofs1 RecordProofs2.
Definition eqpair (a b : Z * Z) : bool := (fst a =? fst b) && (snd a =? snd b).
Fixpoint eqpairs (a b : list (Z * Z)) : bool := match a, b with [], [] => true | x :: s, y :: t => eqpair x y && eqpairs s t | _, _ => false end.
Fixpoint eqlz (a b : list Z) : bool := match a, b with [], [] => true | x :: s, y :: t => (x =? y) && eqlz s t | _, _ => false end.
Notation frag := (Z * Z * list Z * Z)%type.                    (* id, length, positions, shift *)
Notation row2 := (bool * (Z*Z*Z*Z*Z) * list (Z * Z))%type.     (* strand, header (qs, qe, rs, re, conf), listed pairs *)
Definition frag_of (m : omap) : frag := (mid m, mlen m, mpositions m, mshift m).
Definition eqfrag (a b : frag) : bool := match a, b with (i, l, ps, s), (i', l', ps', s') => (i =? i') && (l =? l') && eqlz ps ps' && (s =? s') end.
Fixpoint eqfrags (a b : list frag) : bool := match a, b with [], [] => true | x :: s, y :: t => eqfrag x y && eqfrags s t | _, _ => false end.
(* the verified shape of a fragment: labels sh+1.. of the whole query, shift sh, and a prefix (sh = 0) or a suffix *)
Definition frag_okb (whole : omap) (f : frag) : bool :=
  match f with (i, l, ps, s) =>
    (i =? mid whole) && (l =? mlen whole) && (0 <=? s) &&
    eqlz ps (firstn (List.length ps) (skipn (Z.to_nat s) (mpositions whole))) &&
    ((s =? 0) || (s + Z.of_nat (List.length ps) =? Z.of_nat (List.length (mpositions whole))))
  end.
Definition epairs2 (r : row2) := snd r.
(* second pass on one fragment: model row against the recorded one (3), recorded header against spec_header on the WHOLE query (2) *)
Definition second_code (P : params) (reference whole : omap) (peaks2 : list Z) (f : frag) (r : row2) : Z :=
  match f, r with (i, l, ps, s), (rev2, (eqs, eqe, ers, ere, econf), eps) =>
    let fm := mkMap i l ps s in
    match aligner_align P 1 reference fm peaks2 rev2 with
    | Err => 4
    | Ok segs =>
      let w := align_row segs reference fm rev2 in
      if negb ((qs w =? eqs) && (qe w =? eqe) && (rs w =? ers) && (re w =? ere) && (conf w =? econf)) then 3 else
      if negb (eqpairs (site_pairs segs) eps) then 3 else
      match eps with
      | [] => 0
      | _ =>
        if negb (valid_rowb (Z.of_nat (List.length (mpositions reference))) (1 + s) (Z.of_nat (List.length ps) + s) rev2 eps) then 0 else
        match spec_header reference whole rev2 eps with (sqs, sqe, srs, sre) =>
          if (sqs =? eqs) && (sqe =? eqe) && (srs =? ers) && (sre =? ere) then 0 else 2
        end
      end
    end end.
Fixpoint second_codes (P : params) (reference whole : omap) (peaks2 : list Z) (fs : list frag) (rs : list row2) : Z :=
  match fs, rs with
  | f :: ft, r :: rt => let k := second_code P reference whole peaks2 f r in if k =? 0 then second_codes P reference whole peaks2 ft rt else k
  | _, [] => 0      (* only as many rows as were recorded *)
  | [], _ :: _ => 1
  end.
Notation fcase := ((Z*Z*Z*Z*Z*Z*Z*Z) * list Z * Z * list Z * Z * list Z * list Z * bool * (bool * list frag * list row2))%type.
Definition check (c : fcase) : Z :=
  match c with (p, refp, rlen_, qp, qlen_, peaks, peaks2, rev_, (err, efrags, erows)) =>
    let P := mkparams p in let reference := mkMap 1 rlen_ refp 0 in let whole := mkMap 7 qlen_ qp 0 in
    match (do segs <- aligner_align P 1 reference whole peaks rev_;
           unaligned_fragments (align_row segs reference whole rev_) qp) with
    | Err => if err then 0 else 1
    | Ok frs =>
      if err then 1 else
      if negb (eqfrags (List.map frag_of frs) efrags) then 1 else
      if negb (forallb (frag_okb whole) efrags) then 2 else
      second_codes P reference whole peaks2 efrags erows
    end end.
'''

def gen_fragcase(rng):
    """design-time generator of memory/proto/gen_multi.py: a query that follows the reference in two blocks separated by a large
    indel; first-pass peaks on one block (so that a part stays unaligned), second-pass peaks on the other"""
    n = rng.randint(20, 45); pos = [0]
    for _ in range(n): pos.append(pos[-1] + rng.choice([500, 700, 1000, 1500, 2000, 3000, 5000]))
    a = rng.randint(0, n - 16); b = rng.randint(a + 14, n)
    q = []; off = 0; cut = rng.randint(a + 4, b - 4); big = rng.choice([0, 0, 4000, -2500, 9000, 30000])
    for i, p in enumerate(pos[a:b + 1]):
        if a + i == cut: off += big
        if rng.random() < 0.07: continue
        q.append((p - pos[a]) + off + rng.choice([0, 0, 100, -100, 300]))
    q = sorted(set(q))
    if len(q) < 8:
        return None
    q0 = q[0]; q = [float(x - q0) for x in q]
    L = int(q[-1]) + 1
    base = pos[a] + q0
    peaks = [base + rng.choice([0, 300, -300, 600, 1000, -1000]) + rng.choice([0, 0, -big]) for _ in range(rng.randint(1, 3))]
    peaks2 = [base + rng.choice([0, 300, -300, 600]) - rng.choice([0, big, big]) for _ in range(rng.randint(1, 3))]
    rev = rng.random() < 0.5
    if rev:
        q = [float(L - 1 - p) for p in q[::-1]]
    half = rng.random() < 0.25
    ref = [p + 0.5 if half else float(p) for p in pos]
    return dict(P=dict(pl.DEFAULT), ref=ref, rlen=pos[-1] + 1, qry=q, qlen=L, peaks=peaks, peaks2=peaks2, rev=rev,
                rev2=[rev if rng.random() < 0.85 else (not rev) for _ in range(2)])


def run_fragcase(case):
    from src.correlation.optical_map import OpticalMap
    from src.correlation.peak import Peak
    ref = OpticalMap(1, int(case['rlen']), [float(x) for x in case['ref']])
    qm = OpticalMap(7, case['qlen'], [float(x) for x in case['qry']])
    out = {}
    try:
        al = pl.mk_aligner(case['P']); al.alignmentEngine.iteration = 1
        row1 = al.align(ref, qm, [Peak(p, 10.) for p in case['peaks']], case['rev'])
        out['row1'] = dict(hdr=[pl.r10(row1.queryStartPosition), pl.r10(row1.queryEndPosition)], pairs=[[int(p.reference.siteId), int(p.query.siteId)] for p in row1.alignedPairs])
        frags = row1.getUnalignedFragments([qm])
        out['frags'] = [dict(id=int(f.moleculeId), length=pl.r10(f.length), positions=[pl.r10(p) for p in f.positions], shift=int(f.shift)) for f in frags]
    except Exception as e:
        out['err'] = type(e).__name__ + ':' + str(e)[:80]
        return out
    rows2 = []
    try:
        for f, rev2 in zip(frags, case['rev2']):
            al = pl.mk_aligner(case['P']); al.alignmentEngine.iteration = 1
            r2 = al.align(ref, f, [Peak(p, 10.) for p in case['peaks2']], rev2).setAlignedRest(True)
            rows2.append(dict(rev=rev2, hdr=[pl.r10(r2.queryStartPosition), pl.r10(r2.queryEndPosition), pl.r10(r2.referenceStartPosition),
                                            pl.r10(r2.referenceEndPosition), pl.r20(r2.confidence)],
                              pairs=[[int(p.reference.siteId), int(p.query.siteId)] for p in r2.alignedPairs],
                              qid=int(r2.queryId), qlen=pl.r10(r2.queryLength), rest=bool(r2.alignedRest)))
    except Exception as e:
        out['err2'] = type(e).__name__ + ':' + str(e)[:80]
    out['rows2'] = rows2
    return out


class Fragments(Stream):
    name = 'fragments'
    prelude = FRAG_PRELUDE
    shard = 36

    def gen(self, rng, tier):
        n = 500 if tier == 'quick' else 6000
        self.shard = 40 if tier == 'quick' else 200
        cases = []
        guard = 0
        while len(cases) < n and guard < 20 * n:
            guard += 1
            c = gen_fragcase(rng)
            if c is not None:
                cases.append(c)
        return cases

    def impl(self, case):
        return run_fragcase(case)

    def term(self, case, out):
        err = 'err' in out
        frs = out.get('frags', []); rows2 = out.get('rows2', [])
        ft = clist('(%s,%s,%s,%s)' % (z(f['id']), z(f['length']), zl(f['positions']), z(f['shift'])) for f in frs)
        rt = clist('(%s,(%s,%s,%s,%s,%s),%s)' % (cb(r['rev']), z(r['hdr'][0]), z(r['hdr'][1]), z(r['hdr'][2]), z(r['hdr'][3]), z(r['hdr'][4]),
                                               clist('(%s,%s)' % (z(a), z(b)) for a, b in r['pairs'])) for r in rows2)
        return '(%s, %s, %s, %s, %s, %s, %s, %s, (%s, %s, %s))' % (
            pl.params_term(case['P']), zl(pl.r10(x) for x in case['ref']), z(case['rlen'] * 10), zl(pl.r10(x) for x in case['qry']), z(case['qlen'] * 10),
            zl(p * 10 for p in case['peaks']), zl(p * 10 for p in case['peaks2']), cb(case['rev']), cb(err), ft, rt)

    def oracle(self, case, out):
        if 'err' in out:
            return []
        v = []
        W = [pl.r10(x) for x in case['qry']]
        for f in out['frags']:
            s, ps = f['shift'], f['positions']
            if f['id'] != 7 or f['length'] != case['qlen'] * 10:
                v.append('fragment carries id %s / length %s, the whole query has id 7 / length %s' % (f['id'], f['length'] / 10.0, case['qlen']))
            if ps != W[s:s + len(ps)]:
                v.append('fragment with shift %d is not the labels %d.. of the whole query' % (s, s + 1))
            elif not (s == 0 or s + len(ps) == len(W)):
                v.append('fragment is neither a prefix nor a suffix of the query (shift %d, %d of %d labels)' % (s, len(ps), len(W)))
        for f, r in zip(out['frags'], out['rows2']):
            if r['qid'] != 7 or r['qlen'] != case['qlen'] * 10 or not r['rest']:
                v.append('second-pass row has QryContigID %s, QryLen %s, AlignedRest %s' % (r['qid'], r['qlen'] / 10.0, r['rest']))
            sub = dict(case, rev=r['rev'], shift=f['shift'], qry=[p / 10.0 for p in f['positions']])
            v += ['second-pass row: ' + e for e in header_oracle(sub, dict(pairs=r['pairs'], hdr=r['hdr']), whole=case['qry'])]
        return v[:3]

    def classify(self, case, out):
        k = ['rev' if case['rev'] else 'fwd']
        if 'err' in out:
            return k + ['error']
        if not out['row1']['pairs']: k.append('first pass without pairs')
        if 'err2' in out: k.append('second pass raised')
        fr = out['frags']
        k.append('fragments=%d' % len(fr))
        for f in fr:
            k.append('suffix' if f['shift'] > 0 else 'prefix')
        for f, r in zip(fr, out['rows2']):
            if r['pairs']:
                k.append('second-pass row on %s %s' % ('suffix' if f['shift'] > 0 else 'prefix', '-' if r['rev'] else '+'))
        return k

    def nontrivial(self, case, out):
        if 'err' in out or not any(len(r['pairs']) >= 2 for r in out.get('rows2', [])):
            return None
        return repr((case['ref'], case['qry'], case['peaks'], case['peaks2'], case['rev']))


from ..program_files import ProgramFilesStream

# last: whole real runs against Program.program_files — every field of every record of every file, byte for byte, from the CMAP rows and the
# command line alone (harness/program_files.py; the theorems about it: C02_program_records)
STREAMS = [Files(), Rows(), Candidates(), Writer(), Fragments(), ProgramFilesStream()]
_ONLY = [x for x in os.environ.get('C02_STREAMS', '').split(',') if x]      # debugging aid: run a subset of the streams
if _ONLY:
    STREAMS = [s for s in STREAMS if s.name in _ONLY]


def prepare(tier, seed, rep):
    """run every end-to-end job of this check in parallel up front (results are cached by source hash); the streams then read the cache"""
    if _ONLY and not ({'e2e_files', 'e2e_candidates'} & set(_ONLY)):
        return
    jobs = []
    for c in e2e_cases(seed, tier):
        tag, rp, qp = dataset_paths(c)
        if c.get('grid') == 'tenth':
            e2e.materialise(tenth_dataset(c['ds_seed'], c['nq'], c.get('nlab', 200)), tag)
        else:
            e2e.materialise(es.make_dataset(c['ds_seed'], c['nq'], c.get('nlab', 200)), tag)
        for m in es.MODES:
            jobs.append(dict(refpath=rp, qpath=qp, args=['-oM', m] + list(c['extra']), cpus=1, capture=(m == 'all' and c.get('grid') != 'tenth')))
    e2e.run_many(jobs, workers=min(len(jobs), common.NCPU))


def extra_checks(tier, seed, rep):
    """the generated data must contain what the property speaks about"""
    if _ONLY:
        return
    need = ['e2e_files:second_pass-', 'e2e_files:second_pass+', 'e2e_files:joined', 'e2e_candidates:second-pass-suffix', 'fragments:suffix', 'rows:shift>0']
    missing = []
    for key in need:
        hit = [k for k in rep.dist if k.startswith(key) and not k.endswith('=0')]
        if not hit:
            missing.append(key)
    rep.extra['coverage_of_second_pass'] = {k: v for k, v in rep.dist.items() if 'second' in k or 'joined' in k or 'suffix' in k}
    if missing:
        rep.add_violation('correspondence-broken', 'generated data no longer contains: %s' % ', '.join(missing), dict(missing=missing), no_input=True)

"""C17 — CMAP reading returns every labelled molecule exactly; trimming keeps geometry."""
import io, itertools
from decimal import Decimal
from ..driver import Stream
from ..common import z, zl, clist

ID = 'C17'
RULE = ('generated CMAP file TEXT (comment preamble, "#h" line with the real column names in standard or permuted order and 0-9 extra columns, '
        '"#f" line, tab separated rows; 0-8 molecules with arbitrary positive ids not in order, 0-40 labels each, one-decimal coordinates incl. '
        'duplicates, molecules without labels, channel 1/2, rows molecule-major / molecule-shuffled / fully shuffled) read by the real '
        'CmapReader.readQueries/readReferences, with and without id filters (listed, missing, duplicated ids); malformed: labelled molecules '
        'without end marker, two end markers; exhaustive: every row list up to length 3 (quick) / 4 (thorough) over 2 ids x 2 channels x 2 '
        'positions x 4 filters; trim: OpticalMap.trim once and twice on float/int/unsorted/empty position lists with arbitrary shift; '
        'text: small files incl. rows before the header, no header line, missing column, blank/comment lines, evaluated through the '
        'model\'s own text layer. non-trivial = distinct case whose result has at least one map or is an exception')
TRUSTED = ['independent CMAP text parser in harness/props/C17.py (header-driven, Decimal based) feeding the model rows',
           'canonicalisation: float coordinates in bp -> integer tenths by round(x * 10) (exact below 2^40)']
ASSUMPTIONS = ['coordinates carry at most one decimal and are below 2^40 tenths, so the floats pandas parses are the nearest doubles of p/10 and '
               'round(x*10) recovers p; differences of such floats are within 1e-6 of a multiple of 0.1 (checked at run time, flagged otherwise)',
               'the text layer (BionanoFileReader + pandas.read_csv) is tied by correspondence only, on the CMAP format class generated here']

STD = ['CMapId', 'ContigLength', 'NumSites', 'SiteID', 'LabelChannel', 'Position', 'StdDev', 'Coverage', 'Occurrence']
EXTRA = ['GmeanSNR', 'lnSNRsd', 'ChimQuality', 'SegDupL', 'SegDupR', 'FragileL', 'FragileR', 'OutlierFrac', 'ChimNorm']
PREAMBLE = ['# hostname=iryssolve00', '# CMAP File Version:\t0.1', '# Label Channels:\t1', '# Nickase Recognition Site 1:\tGCTCTTC',
            '# Number of Consensus Maps:\t24', '# Values corresponding to intervals (StdDev, Coverage) refer to the interval between current site and next site']


def dec1(t):
    """tenths -> text with one decimal"""
    s = '-' if t < 0 else ''
    return '%s%d.%d' % (s, abs(t) // 10, abs(t) % 10)


# ------------------------------------------------------------------------------------------------ rendering / independent parsing
def render(rows, names, rng=None, preamble=True, fline=True, interleave=False):
    """rows: [id, channel, pos_tenths] in file order -> file text; the other columns get plausible values"""
    out = []
    if preamble:
        out += PREAMBLE[:(rng.randint(0, len(PREAMBLE)) if rng else 3)]
    sep = '\t'
    out.append('#h ' + sep.join(names))
    if fline:
        out.append('#f ' + sep.join('int' if n in ('CMapId', 'NumSites', 'SiteID', 'LabelChannel') else 'float' for n in names))
    cnt = {}
    for (i, ch, p) in rows:
        cnt[i] = cnt.get(i, 0) + 1
        cells = []
        for n in names:
            if n == 'CMapId': cells.append(str(i))
            elif n == 'LabelChannel': cells.append(str(ch))
            elif n == 'Position': cells.append(dec1(p))
            elif n == 'ContigLength': cells.append(dec1(abs(p) + 1234))
            elif n == 'NumSites': cells.append(str(7))
            elif n == 'SiteID': cells.append(str(cnt[i]))
            elif n in ('StdDev',): cells.append('0.0')
            elif n in ('Coverage', 'Occurrence'): cells.append('%d.0' % (cnt[i] % 30 + 1))
            else: cells.append('%d.%02d' % ((i * 7 + cnt[i]) % 90 - 1, (p * 13) % 100) if (i + cnt[i]) % 3 else '-1.00')
        out.append(sep.join(cells))
        if interleave and rng and rng.random() < 0.1:
            out.append(rng.choice(['# a comment in the data', '', '#']))
    return '\n'.join(out) + '\n'


def parse_rows(text):
    """independent minimal reader of the CMAP text: [(id, channel, position in tenths)] in file order"""
    lines = text.split('\n')
    k = next(j for j, l in enumerate(lines) if l.startswith('#h'))
    names = lines[k].split()[1:]
    ci, li, pi = names.index('CMapId'), names.index('LabelChannel'), names.index('Position')
    rows = []
    for l in lines[k + 1:]:
        if l == '' or l.startswith('#'):
            continue
        f = l.split('\t')
        t = Decimal(f[pi]) * 10
        assert t == int(t)
        rows.append([int(f[ci]), int(f[li]), int(t)])
    return rows


def canon_maps(maps):
    out, flags = [], []
    for m in maps:
        ps = [float(p) for p in m.positions]
        for p in ps + [float(m.length)]:
            if abs(p * 10 - round(p * 10)) > 1e-4:
                flags.append('coordinate %r is not a multiple of 0.1' % p)
        out.append([int(m.moleculeId), int(round(float(m.length) * 10)), [int(round(p * 10)) for p in ps], int(m.shift)])
    return out, flags


def run_reader(text, ids, how):
    from src.parsers.cmap_reader import CmapReader
    try:
        r = CmapReader()
        f = io.StringIO(text)
        if how == 'references':
            maps = r.readReferences(f, ids)
        else:
            maps = r.readQueries(f, ids)
        if not isinstance(maps, list):
            return dict(err='NotAList:' + type(maps).__name__)
        out, flags = canon_maps(maps)
        for m in maps:
            if float(m.length) != int(m.length):
                flags.append('length %r is not an integer' % (m.length,))
        return dict(maps=out, flags=flags)
    except Exception as e:
        return dict(err=type(e).__name__)


def expected_read(rows, ids):
    """the property, recomputed from the generated rows: dict(maps=...) or dict(err=...)"""
    mols = {}
    for (i, ch, p) in rows:
        if ids and i not in ids:
            continue
        d = mols.setdefault(i, dict(labels=[], markers=[]))
        (d['markers'] if ch == 0 else d['labels']).append(p)
    maps = []
    for i in sorted(mols):
        d = mols[i]
        if not d['labels']:
            continue
        if not d['markers']:
            return dict(err='IndexError')
        mk = d['markers'][0]
        ln = (abs(mk) // 10) * 10 * (1 if mk >= 0 else -1)
        maps.append([i, ln, sorted(d['labels']), 0])
    return dict(maps=maps)


def tmap(m):
    return '(%s,%s,%s,%s)' % (z(m[0]), z(m[1]), zl(m[2]), z(m[3]))


def trows(rows):
    return clist('(%s,%s,%s)' % (z(a), z(b), z(c)) for a, b, c in rows)


PRELUDE = '''From Coq Require Import ZArith List Bool String. Import ListNotations.
Require Import Py Pairing Cmap CmapProofs CmapProofs2. Open Scope Z_scope.
Definition mk (t : Z * Z * list Z * Z) : omap := match t with (i, l, ps, s) => mkMap i l ps s end.
Fixpoint eqms (a b : list omap) : bool := match a, b with [], [] => true | x :: s, y :: t => omap_eqb x y && eqms s t | _, _ => false end.
Definition agree (r : res (list omap)) (e : option (list (Z * Z * list Z * Z))) : bool :=
  match r, e with Ok ms, Some l => eqms ms (List.map mk l) | Err, None => true | _, _ => false end.
'''


# ------------------------------------------------------------------------------------------------ generators
def gen_molecules(rng, nmax=8, maxlabels=40):
    n = rng.choice([0, 1, 1, 2, 3, 4, 5, nmax])
    pool = rng.choice([range(1, 30), range(1, 10 ** 6), range(1, 2 * 10 ** 9), range(2 ** 53 - 20, 2 ** 53 + 2000), range(2 ** 62, 2 ** 62 + 999)])   # ids beyond 2^53: not representable as doubles
    ids = rng.sample(pool, n)
    mols = []
    span = rng.choice([60, 3000, 10 ** 6, 3 * 10 ** 8])       # tenths; a small span forces duplicate positions
    for i in ids:
        r = rng.random()
        k = 0 if r < 0.15 else rng.randint(1, 5) if r < 0.6 else rng.randint(0, maxlabels)
        labels = [[rng.choice([1, 1, 1, 2]), rng.randint(0, span)] for _ in range(k)]
        if labels and rng.random() < 0.3:
            labels.append(list(rng.choice(labels)))              # an exact duplicate
        mk = max([p for _, p in labels] + [0]) + rng.randint(0, 5000) if rng.random() < 0.8 else rng.randint(0, span)
        mols.append(dict(id=i, labels=labels, markers=[mk]))
    return mols


def rows_of(rng, mols, order=None):
    order = order or rng.choice(['major', 'major', 'molshuffle', 'shuffle', 'shuffle'])
    per = []
    for m in mols:
        r = [[m['id'], ch, p] for ch, p in m['labels']]
        if order == 'major':
            r.sort(key=lambda x: x[2])
            r += [[m['id'], 0, p] for p in m['markers']]
        else:
            r += [[m['id'], 0, p] for p in m['markers']]
            rng.shuffle(r)
        per.append(r)
    if order == 'major':
        per.sort(key=lambda r: r[0][0] if r else 0)
    else:
        rng.shuffle(per)
    rows = [x for r in per for x in r]
    if order == 'shuffle':
        rng.shuffle(rows)
    return rows, order


def gen_names(rng):
    r = rng.random()
    if r < 0.1:
        names = ['CMapId', 'LabelChannel', 'Position']
    else:
        names = STD + rng.sample(EXTRA, rng.choice([0, 0, 2, 9]))
    if rng.random() < 0.15:
        rng.shuffle(names)
    return names


def gen_filter(rng, mols, force=False):
    present = [m['id'] for m in mols]
    if not force and rng.random() < 0.2:
        return rng.choice([None, []])
    ids = rng.sample(present, rng.randint(0, len(present))) if present else []
    ids += [rng.randint(1, 10 ** 6) for _ in range(rng.choice([0, 0, 1, 3]))]
    if ids and rng.random() < 0.2:
        ids.append(rng.choice(ids))
    rng.shuffle(ids)
    return ids or [rng.randint(1, 50)]


class ReadBase(Stream):
    shard = 80
    prelude = PRELUDE + '''Definition check (c : list row * list Z * option (list (Z * Z * list Z * Z))) : Z :=
  match c with (rows, ids, e) =>
    let accepted := match e with Some l => read_ok_b rows ids (List.map mk l) && negb (read_err_b rows ids) | None => read_err_b rows ids end in
    if negb accepted then 2 else if agree (cmap_read rows ids) e then 0 else 1 end.'''

    def make(self, rng, mols, ids, order=None, how=None):
        rows, order = rows_of(rng, mols, order)
        names = gen_names(rng)
        text = render(rows, names, rng, preamble=rng.random() < 0.8, fline=rng.random() < 0.9, interleave=rng.random() < 0.2)
        return dict(text=text, ids=ids, how=how or rng.choice(['queries', 'references']), rows=rows, order=order, ncols=len(names))

    def impl(self, case):
        return run_reader(case['text'], case['ids'], case['how'])

    def term(self, case, out):
        rows = parse_rows(case['text'])
        e = 'None' if 'err' in out else 'Some %s' % clist(tmap(m) for m in out['maps'])
        return '((%s : list row), (%s : list Z), (%s : option (list (Z * Z * list Z * Z))))' % (trows(rows), zl(case['ids'] or []), e)

    def oracle(self, case, out):
        v = list(out.get('flags', []))
        if parse_rows(case['text']) != case['rows']:
            v.append('harness: independent parser does not give back the generated rows')
        exp = expected_read(case['rows'], case['ids'] or [])
        if 'err' in exp:
            if 'err' not in out:
                v.append('a labelled molecule has no end marker but maps were returned: %s' % out['maps'][:3])
            return v
        if 'err' in out:
            v.append('reader raised %s on a well-formed file' % out['err'])
            return v
        got = out['maps']
        if [m[0] for m in got] != [m[0] for m in exp['maps']]:
            v.append('molecule ids returned %s, expected exactly the selected labelled ids ascending %s' % ([m[0] for m in got][:12], [m[0] for m in exp['maps']][:12]))
            return v
        for g, e in zip(got, exp['maps']):
            if g[2] != e[2]:
                v.append('molecule %d: positions %s are not the ascending label coordinates %s' % (g[0], g[2][:8], e[2][:8]))
            if g[1] != e[1]:
                v.append('molecule %d: length %s is not the truncated end-marker position %s' % (g[0], g[1], e[1]))
            if g[3] != 0:
                v.append('molecule %d: shift %s' % (g[0], g[3]))
        return v[:3]

    def classify(self, case, out):
        k = ['order=' + case.get('order', '?'), 'filter=' + ('none' if not case['ids'] else 'ids'), 'how=' + case['how']]
        k.append('result=' + ('err' if 'err' in out else 'maps%d' % min(4, len(out['maps']))))
        ids_in_file = {r[0] for r in case['rows']}
        labelled = {r[0] for r in case['rows'] if r[1] != 0}
        if ids_in_file - labelled: k.append('has-unlabelled-molecule')
        ps = [(r[0], r[2]) for r in case['rows'] if r[1] != 0]
        if len(ps) != len(set(ps)): k.append('duplicate-position')
        if case.get('ncols', 0) > 9: k.append('extra-columns')
        if case['ids'] and set(case['ids']) - ids_in_file: k.append('filter-names-missing-id')
        return k

    def nontrivial(self, case, out):
        return repr((case['text'], case['ids'])) if ('err' in out or out['maps']) else None


class Read(ReadBase):
    name = 'read'

    def gen(self, rng, tier):
        n = 400 if tier == 'quick' else 4000
        return [self.make(rng, gen_molecules(rng), rng.choice([None, []])) for _ in range(n)]


class Filter(ReadBase):
    name = 'filter'

    def gen(self, rng, tier):
        n = 400 if tier == 'quick' else 4000
        out = []
        for _ in range(n):
            mols = gen_molecules(rng)
            out.append(self.make(rng, mols, gen_filter(rng, mols, force=True)))
        return out


class Malformed(ReadBase):
    name = 'malformed'

    def gen(self, rng, tier):
        n = 300 if tier == 'quick' else 3000
        out = []
        for _ in range(n):
            mols = gen_molecules(rng, nmax=6, maxlabels=12)
            if not mols:
                mols = [dict(id=rng.randint(1, 99), labels=[[1, rng.randint(0, 9999)]], markers=[5000])]
            kind = rng.choice(['no-marker', 'no-marker', 'two-markers', 'both', 'negative'])
            for m in rng.sample(mols, rng.randint(1, len(mols))):
                if kind in ('no-marker', 'both') and (m['labels'] or rng.random() < 0.5):
                    if not m['labels']:
                        m['labels'] = [[1, rng.randint(0, 999)]]
                    m['markers'] = []
                elif kind in ('two-markers', 'both'):
                    m['markers'] = [rng.randint(0, 10 ** 6), rng.randint(0, 10 ** 6)] + ([rng.randint(0, 99)] if rng.random() < 0.3 else [])
                elif kind == 'negative':
                    m['markers'] = [-rng.randint(0, 10 ** 5)]
                    m['labels'] = [[ch, -p] for ch, p in m['labels']]
            # the filter sometimes hides the broken molecule
            ids = gen_filter(rng, mols) if rng.random() < 0.5 else None
            out.append(self.make(rng, mols, ids))
        return out


class Exhaustive(ReadBase):
    name = 'exhaustive'
    exhaustive = True
    shard = 500

    def gen(self, rng, tier):
        n = 3 if tier == 'quick' else 4
        alpha = [[i, ch, p] for i in (2, 1) for ch in (0, 1) for p in (105, 30)]
        out = []
        for k in range(0, n + 1):
            for rows in itertools.product(alpha, repeat=k):
                rows = [list(r) for r in rows]
                text = render(rows, ['CMapId', 'LabelChannel', 'Position'], None, preamble=False, fline=False)
                for ids in (None, [1], [2, 3], [3]):
                    out.append(dict(text=text, ids=ids, how='queries', rows=rows, order='enum', ncols=3))
        return out


# ------------------------------------------------------------------------------------------------ text layer through the model
def cstring(s):
    assert all(32 <= ord(c) < 127 or c in '\t\n' for c in s)
    return '"' + s.replace('"', '""') + '"%string'


class Text(ReadBase):
    name = 'text'
    shard = 40
    prelude = PRELUDE + '''Definition check (c : string * list Z * option (list (Z * Z * list Z * Z))) : Z :=
  match c with (text, ids, e) => if agree (cmap_read_text text ids) e then 0 else 1 end.'''

    def gen(self, rng, tier):
        n = 240 if tier == 'quick' else 1500
        out = []
        for _ in range(n):
            mols = gen_molecules(rng, nmax=4, maxlabels=6)
            c = self.make(rng, mols, gen_filter(rng, mols) if rng.random() < 0.4 else None)
            kind = rng.choice(['plain', 'plain', 'rows-before-header', 'no-header', 'missing-column', 'no-final-newline', 'header-blanks',
                               'second-header', 'missing-marker'])
            text = c['text']
            lines = text.split('\n')[:-1]
            h = next(j for j, l in enumerate(lines) if l.startswith('#h'))
            if kind == 'rows-before-header':     # the header search consumes them: pandas never sees these rows
                k = rng.randint(0, len(lines) - h - 1)
                moved = [l for l in lines[len(lines) - k:]] if k else []
                lines = lines[:h] + moved + lines[h:len(lines) - k]
                c['rows'] = parse_rows('\n'.join(lines) + '\n')
            elif kind == 'no-header':
                lines = [l for l in lines if not l.startswith('#h')]
                c['rows'] = None
            elif kind == 'missing-column':
                lines[h] = lines[h].replace(rng.choice(['CMapId', 'LabelChannel', 'Position']), 'Other')
                c['rows'] = None
            elif kind == 'header-blanks':
                lines[h] = '#h  ' + lines[h][3:].replace('\t', rng.choice(['  ', ' \t', '\t\t']), 3) + '  '
            elif kind == 'second-header':
                lines.insert(rng.randint(h + 1, len(lines)), '#h A\tB\tC')
            elif kind == 'missing-marker' and c['rows']:
                j = rng.randrange(len(c['rows']))
                c['rows'][j][1] = 1
                names = lines[h].split()[1:]
                lines = render(c['rows'], names, None, preamble=False, fline=False).split('\n')[:-1]
            text = '\n'.join(lines) + ('' if kind == 'no-final-newline' else '\n')
            c['text'] = text
            c['kind'] = kind
            out.append(c)
        return out

    def term(self, case, out):
        e = 'None' if 'err' in out else 'Some %s' % clist(tmap(m) for m in out['maps'])
        return '(%s, (%s : list Z), (%s : option (list (Z * Z * list Z * Z))))' % (cstring(case['text']), zl(case['ids'] or []), e)

    def oracle(self, case, out):
        if case['rows'] is None:
            return list(out.get('flags', []))
        return ReadBase.oracle(self, case, out)

    def classify(self, case, out):
        return ['kind=' + case['kind'], 'result=' + ('err:' + out['err'] if 'err' in out else 'maps%d' % min(4, len(out['maps'])))]


# ------------------------------------------------------------------------------------------------ trim
def run_trim(m):
    from src.correlation.optical_map import OpticalMap
    mid, ln, ps, shift, kind = m
    if kind == 'int':                    # whole base pairs as Python ints (maps built from XMAP data / tests)
        om = OpticalMap(mid, ln // 10, [p // 10 for p in ps], shift)
    else:                                # what the CMAP reader produces: int length, float positions
        om = OpticalMap(mid, ln // 10, [p / 10 for p in ps], shift)
    try:
        t1 = om.trim()
        t2 = t1.trim()
        (c1,), f1 = canon_maps([t1])
        (c2,), f2 = canon_maps([t2])
        flags = f1 + f2
        if not ps and t1 is not om:
            flags.append('trim of a map without labels is not the map itself')
        if om.positions != ([p // 10 for p in ps] if kind == 'int' else [p / 10 for p in ps]):
            flags.append('trim modified its argument')
        return dict(t1=c1, t2=c2, flags=flags)
    except Exception as e:
        return dict(err=type(e).__name__)


class Trim(Stream):
    name = 'trim'
    shard = 250
    prelude = PRELUDE + '''Definition check (c : (Z * Z * list Z * Z) * option ((Z * Z * list Z * Z) * (Z * Z * list Z * Z))) : Z :=
  match c with
  | (m, Some (t1, t2)) =>
    if negb (trim_ok_b (mk m) (mk t1) && trim_ok_b (mk t1) (mk t2) && omap_eqb (mk t1) (mk t2)) then 2
    else if omap_eqb (trim (mk m)) (mk t1) && omap_eqb (trim (trim (mk m))) (mk t2) then 0 else 1
  | (_, None) => 2
  end.'''

    def gen(self, rng, tier):
        n = 800 if tier == 'quick' else 8000
        out = []
        for _ in range(n):
            kind = rng.choice(['float', 'float', 'int'])
            unit = 10 if kind == 'int' else 1
            r = rng.random()
            k = 0 if r < 0.08 else 1 if r < 0.16 else rng.randint(2, 6) if r < 0.6 else rng.randint(2, 40)
            span = rng.choice([20, 3000, 10 ** 6, 3 * 10 ** 8])
            ps = [rng.randint(0, span) * unit for _ in range(k)]
            if rng.random() < 0.9:
                ps.sort()
            if ps and rng.random() < 0.1:
                ps[0] = 0
            ln = (max(ps + [0]) // 10 + rng.randint(0, 500)) * 10
            r2 = rng.random()
            if r2 < 0.25:
                ln = max(ps + [0]) // 10 * 10                 # end marker = truncated coordinate of the last label (span + 1 can exceed it)
            elif r2 < 0.35:
                ln = rng.randint(0, max(ps + [10])) // 10 * 10  # a length shorter than the labelled span: trim must not look at it
            out.append(dict(m=[rng.randint(1, 10 ** 6), ln, ps, rng.choice([0, 0, 3, -2, 17]), kind]))
        return out

    def impl(self, case):
        return run_trim(case['m'])

    def term(self, case, out):
        m = case['m'][:4]
        if 'err' in out:
            return '(%s, None)' % tmap(m)
        return '(%s, Some (%s, %s))' % (tmap(m), tmap(out['t1']), tmap(out['t2']))

    def oracle(self, case, out):
        mid, ln, ps, shift, kind = case['m']
        if 'err' in out:
            return ['trim raised %s' % out['err']]
        v = list(out['flags'])
        t1, t2 = out['t1'], out['t2']
        if not ps:
            if t1 != [mid, ln, ps, shift]:
                v.append('trim of a map without labels changed it: %s' % t1)
            return v
        if t1[0] != mid: v.append('id changed')
        if len(t1[2]) != len(ps): v.append('number of labels changed %d -> %d' % (len(ps), len(t1[2])))
        elif t1[2][0] != 0: v.append('first label at %s, not 0' % t1[2][0])
        elif [b - a for a, b in zip(t1[2], t1[2][1:])] != [b - a for a, b in zip(ps, ps[1:])]: v.append('inter-label distances changed')
        if t1[1] != ps[-1] - ps[0] + 10: v.append('length %s is not last-first+1 = %s (tenths)' % (t1[1], ps[-1] - ps[0] + 10))
        if t1[3] != 0: v.append('shift %s after trim' % t1[3])
        if t2 != t1: v.append('trim is not idempotent: %s then %s' % (t1, t2))
        return v[:3]

    def classify(self, case, out):
        ps = case['m'][2]
        return ['labels=%s' % (len(ps) if len(ps) < 3 else '3+'), 'kind=' + case['m'][4], 'shift=%s' % ('0' if case['m'][3] == 0 else 'nonzero'),
                'sorted' if ps == sorted(ps) else 'unsorted']

    def nontrivial(self, case, out):
        return repr(case['m']) if case['m'][2] else None


STREAMS = [Exhaustive(), Read(), Filter(), Malformed(), Trim(), Text()]

"""C19 — Alignment comparison partitions keys; measures are bounded and reflexive."""
import itertools
from fractions import Fraction
from ..driver import Stream
from ..common import z, cb, clist

ID = 'C19'
RULE = ('exhaustive: every ordered pair of alignment sets of up to 2 alignments over 2 keys x a pool of 3 (quick) / 5 (thorough) pair lists '
        '(empty list, duplicated query labels adjacent and non-adjacent, duplicated pairs), both combineMultipleQuerySources values; '
        'random: sets of up to 7 alignments with keys from a pool of 4x3 ids (including id 0) colliding within and across the sets, pair lists '
        'of up to 9 pairs over a small alphabet, second set derived from the first by edits / identical / empty / both empty / unrelated; '
        'difflib_hyp: the three hypotheses on `ratio` evaluated on the real difflib for the same kind of pair lists (and lists of >= 200 items '
        'for the bound and reflexivity hypotheses). non-trivial = distinct case with at least one BOTH row whose two pair lists differ')
TRUSTED = ['adapter: alignments are BionanoAlignment objects, pairs BenchmarkAlignedPair / BenchmarkAlignedPairWithDistance (one class per case, '
           'random distances), the module-level name SequenceMatcher of alignment_comparer is replaced by a recording subclass of '
           'difflib.SequenceMatcher (same results) so that the model can be evaluated with `ratio` = the recorded table',
           'difflib.SequenceMatcher.ratio is not modelled: Section variable `ratio` with hypotheses 0<=ratio<=1, ratio a a == 1 and '
           '(swap clause only) 0<ratio a b <-> 0<ratio b a; the hypotheses are evaluated against the real difflib by stream difflib_hyp',
           'statistics.fmean modelled as the exact rational mean; float result compared to it with tolerance 1e-12 on the oracle side']
ASSUMPTIONS = ['all pairs of the two compared sets are instances of one class (dataclass equality is class-sensitive)',
               'positivity symmetry of difflib ratio (needed only for "overlapping/nonOverlapping are unchanged by a swap") is a fact about lists '
               'shorter than 200 items: difflib autojunk drops popular items of the second sequence when it has >= 200 items']

KEYS_Q = [0, 1, 2, 7]
KEYS_R = [0, 1, 3]
TYPES = {'BOTH': 1, 'FIRST_ONLY': 2, 'SECOND_ONLY': 3}


# ------------------------------------------------------------------------------------------------ adapter
_REC = None


def _recorder():
    """difflib.SequenceMatcher that logs (a, b, ratio) of every ratio() call; installed in the comparer module"""
    global _REC
    if _REC is None:
        import difflib
        import src.diagnostic.alignment_comparer as ac

        class Rec(difflib.SequenceMatcher):
            log = []

            def ratio(self):
                r = difflib.SequenceMatcher.ratio(self)
                Rec.log.append((list(self.a), list(self.b), r))
                return r
        _REC = Rec
    import src.diagnostic.alignment_comparer as ac
    ac.SequenceMatcher = _REC
    return _REC


def build(als, withDistance, salt):
    from src.correlation.bionano_alignment import BionanoAlignment
    from src.diagnostic.benchmark_alignment import BenchmarkAlignmentPosition, BenchmarkAlignedPair, BenchmarkAlignedPairWithDistance
    out = []
    for i, (q, r, ps) in enumerate(als):
        pairs = []
        for j, (rs, rp, qs, qp) in enumerate(ps):
            if withDistance:
                pairs.append(BenchmarkAlignedPairWithDistance(BenchmarkAlignmentPosition(rs, rp), BenchmarkAlignmentPosition(qs, qp),
                                                              (salt * 31 + i * 7 + j * 13) % 1000))
            else:
                pairs.append(BenchmarkAlignedPair(BenchmarkAlignmentPosition(rs, rp), BenchmarkAlignmentPosition(qs, qp)))
        out.append(BionanoAlignment(i + 1, q, r, 0, 99, 0, 99, bool((i + salt) % 2), 12.5, "1M", 100, 100, pairs))
    return out


def p4(p):
    return [int(p.reference.siteId), int(p.reference.position), int(p.query.siteId), int(p.query.position)]


def al3(a):
    return [int(a.queryId), int(a.referenceId), [p4(p) for p in a.alignedPairs]]


def small_fraction(x, maxden, flags, what):
    """the fraction with denominator <= maxden whose float quotient is exactly x"""
    f = Fraction(x).limit_denominator(max(1, maxden))
    if f.numerator / f.denominator != x:
        flags.append('%s %r is not the float of a fraction with denominator <= %d' % (what, x, maxden))
    return [f.numerator, f.denominator]


def ratio_fraction(a, b, r, flags):
    t = len(a) + len(b)
    if t == 0:
        if r != 1.0:
            flags.append('ratio of two empty lists is %r' % r)
        return small_fraction(r, 1, flags, 'ratio')
    m = round(r * t / 2)
    if 2.0 * m / t != r:
        flags.append('ratio %r is not 2*M/T with T=%d' % (r, t))
        return small_fraction(r, t, flags, 'ratio')
    f = Fraction(2 * m, t)
    return [f.numerator, f.denominator]


def canon(res, log):
    from src.diagnostic.alignment_comparer import AlignmentComparison
    flags = []
    rows = []
    both = [r for r in res.rows if r.type.name == 'BOTH']
    if len(both) != len(log):
        flags.append('%d BOTH rows but %d SequenceMatcher.ratio calls' % (len(both), len(log)))
    bi = 0
    for r in res.rows:
        t = r.type.name
        n1 = n2 = None
        if t == 'BOTH' and bi < len(log):
            a, b, rr = log[bi]
            bi += 1
            n1, n2 = len(a), len(b)
            if rr != r.identity:
                flags.append('row identity %r is not the recorded ratio %r' % (r.identity, rr))
            identx = ratio_fraction(a, b, r.identity, flags)
        else:
            identx = small_fraction(r.identity, len(r.alignment1.alignedPairs) + len(r.alignment2.alignedPairs), flags, 'identity')
        m1 = n1 if n1 is not None else len(r.alignment1.alignedPairs)
        m2 = n2 if n2 is not None else len(r.alignment2.alignedPairs)
        rows.append(dict(key=[int(r.queryId), int(r.referenceId)], type=t, a1=al3(r.alignment1), a2=al3(r.alignment2),
                         ex1=[p4(p) for p in r.alignment1ExclusivePairs], ex2=[p4(p) for p in r.alignment2ExclusivePairs],
                         cov1=float(r.alignment1Coverage), cov2=float(r.alignment2Coverage), ident=float(r.identity),
                         cov1x=small_fraction(float(r.alignment1Coverage), m1, flags, 'coverage1'),
                         cov2x=small_fraction(float(r.alignment2Coverage), m2, flags, 'coverage2'),
                         identx=identx, n1=n1, n2=n2))
    return dict(null=res is AlignmentComparison.null,
                counts=[int(res.overlapping), int(res.nonOverlapping), int(res.firstOnly), int(res.secondOnly)],
                avgs=[float(res.avgOverlappingAlignment1Coverage), float(res.avgOverlappingAlignment2Coverage), float(res.avgOverlappingIdentity)],
                rows=rows, flags=flags,
                table=[[[p4(p) for p in a], [p4(p) for p in b], ratio_fraction(a, b, rr, [])] for a, b, rr in log])


def run_compare(a1, a2, combine):
    from src.diagnostic.alignment_comparer import AlignmentComparer, AlignmentRowComparer
    rec = _recorder()
    rec.log = []
    res = AlignmentComparer(AlignmentRowComparer(combine)).compare(a1, a2)
    log, rec.log = rec.log, []
    return canon(res, log)


def light(o):
    """what the reflexive / swap clauses need from a second run"""
    return dict(null=o['null'], counts=o['counts'], avgs=o['avgs'], flags=o['flags'],
                rows=[dict(key=r['key'], type=r['type'], ex1=sorted(r['ex1']), ex2=sorted(r['ex2']), cov1=r['cov1'], cov2=r['cov2'],
                           ident=r['ident']) for r in o['rows']])


# ------------------------------------------------------------------------------------------------ oracle
def exact_means(rows):
    ov = [r for r in rows if r['ident'] > 0]
    if not ov:
        return [Fraction(0)] * 3
    return [sum(Fraction(*r[f]) for r in ov) / len(ov) for f in ('cov1x', 'cov2x', 'identx')]


def oracle_main(case, o):
    errs = list(o['flags'])
    K1 = {(a[0], a[1]) for a in case['a1']}
    K2 = {(a[0], a[1]) for a in case['a2']}
    ov, nov, fo, so = o['counts']
    rows = o['rows']
    # 1 partition
    if ov + nov + fo + so != len(K1 | K2):
        errs.append('overlapping+nonOverlapping+firstOnly+secondOnly = %d but %d distinct keys' % (ov + nov + fo + so, len(K1 | K2)))
    if fo != len(K1 - K2): errs.append('firstOnly = %d but |keys1 - keys2| = %d' % (fo, len(K1 - K2)))
    if so != len(K2 - K1): errs.append('secondOnly = %d but |keys2 - keys1| = %d' % (so, len(K2 - K1)))
    if ov + nov != len(K1 & K2): errs.append('overlapping+nonOverlapping = %d but %d common keys' % (ov + nov, len(K1 & K2)))
    keys = [tuple(r['key']) for r in rows]
    if len(set(keys)) != len(keys): errs.append('a key has more than one row')
    if set(keys) != (K1 | K2): errs.append('rows do not cover exactly the keys of both sets')
    for r in rows:
        k = tuple(r['key'])
        want = 'BOTH' if (k in K1 and k in K2) else 'FIRST_ONLY' if k in K1 else 'SECOND_ONLY'
        if r['type'] != want: errs.append('row of key %s has type %s, expected %s' % (k, r['type'], want))
    if ov != sum(1 for r in rows if r['ident'] > 0): errs.append('overlapping is not the number of rows with identity > 0')
    if o['null'] != (not rows): errs.append('null comparison returned iff no rows: violated')
    # 2 bounds
    for r in rows:
        for f in ('cov1', 'cov2', 'ident'):
            if not (0.0 <= r[f] <= 1.0): errs.append('%s = %r outside [0,1] (key %s)' % (f, r[f], r['key']))
        if r['type'] == 'BOTH' and r['n1'] is not None:
            for n, ex, cx, nm in ((r['n1'], r['ex1'], r['cov1x'], 'coverage1'), (r['n2'], r['ex2'], r['cov2x'], 'coverage2')):
                want = Fraction(n - len(ex), n) if n > 0 else Fraction(1)
                if Fraction(*cx) != want: errs.append('%s = %s but (n - d)/n = %s (key %s)' % (nm, Fraction(*cx), want, r['key']))
        for ex in (r['ex1'], r['ex2']):
            if [p[0] for p in ex] != sorted(p[0] for p in ex): errs.append('exclusive pairs not sorted by reference site id')
            if len({tuple(p) for p in ex}) != len(ex): errs.append('duplicate among exclusive pairs')
    for a, ex, nm in zip(o['avgs'], exact_means(rows), ('avg coverage1', 'avg coverage2', 'avg identity')):
        if not (0.0 <= a <= 1.0): errs.append('%s = %r outside [0,1]' % (nm, a))
        if abs(Fraction(a) - ex) > Fraction(1, 10 ** 12): errs.append('%s = %r is not the mean %s of the overlapping rows' % (nm, a, ex))
    return errs


def oracle_reflexive(als, s, which):
    errs = ['self(%s): %s' % (which, f) for f in s['flags']]
    K = {(a[0], a[1]) for a in als}
    for r in s['rows']:
        if r['type'] != 'BOTH': errs.append('self-comparison(%s) has a %s row' % (which, r['type']))
        if r['ident'] != 1.0: errs.append('self-comparison(%s): identity %r != 1 (key %s)' % (which, r['ident'], r['key']))
        if r['cov1'] != 1.0 or r['cov2'] != 1.0:
            errs.append('self-comparison(%s): coverage (%r, %r) != 1 (key %s)' % (which, r['cov1'], r['cov2'], r['key']))
        if r['ex1'] or r['ex2']: errs.append('self-comparison(%s): exclusive pairs present (key %s)' % (which, r['key']))
    if s['counts'] != [len(K), 0, 0, 0]: errs.append('self-comparison(%s): counts %s, expected %s' % (which, s['counts'], [len(K), 0, 0, 0]))
    if K and s['avgs'] != [1.0, 1.0, 1.0]: errs.append('self-comparison(%s): averages %s != 1' % (which, s['avgs']))
    if not K and (not s['null'] or s['avgs'] != [0.0, 0.0, 0.0]): errs.append('self-comparison of the empty set is not the null comparison')
    return errs


def oracle_swap(o, w):
    errs = ['swapped: %s' % f for f in w['flags']]
    if [w['counts'][2], w['counts'][3]] != [o['counts'][3], o['counts'][2]]:
        errs.append('swap: firstOnly/secondOnly %s vs %s not exchanged' % (o['counts'][2:], w['counts'][2:]))
    if w['counts'][:2] != o['counts'][:2]:
        errs.append('swap: overlapping/nonOverlapping changed %s -> %s' % (o['counts'][:2], w['counts'][:2]))
    if abs(w['avgs'][0] - o['avgs'][1]) > 1e-12 or abs(w['avgs'][1] - o['avgs'][0]) > 1e-12:
        errs.append('swap: average coverages not exchanged %s vs %s' % (o['avgs'], w['avgs']))
    sw = {'BOTH': 'BOTH', 'FIRST_ONLY': 'SECOND_ONLY', 'SECOND_ONLY': 'FIRST_ONLY'}
    A = {tuple(r['key']): r for r in o['rows']}
    B = {tuple(r['key']): r for r in w['rows']}
    if set(A) != set(B) or len(w['rows']) != len(o['rows']):
        errs.append('swap: different key sets')
    for k in set(A) & set(B):
        a, b = A[k], B[k]
        if b['type'] != sw[a['type']]: errs.append('swap: type of key %s is %s vs %s' % (k, a['type'], b['type']))
        if (b['cov1'], b['cov2']) != (a['cov2'], a['cov1']): errs.append('swap: coverages of key %s not exchanged' % (k,))
        if (b['ex1'], b['ex2']) != (sorted(a['ex2']), sorted(a['ex1'])): errs.append('swap: exclusive pairs of key %s not exchanged' % (k,))
        if (b['ident'] > 0) != (a['ident'] > 0): errs.append('swap: key %s overlapping one way only' % (k,))
    return errs


# ------------------------------------------------------------------------------------------------ Coq rendering
def cp(p):
    return '(P %s %s %s %s)' % tuple(z(x) for x in p)


def cps(ps):
    return clist(cp(p) for p in ps)


def cal(a):
    return '(AL %s %s %s)' % (z(a[0]), z(a[1]), cps(a[2]))


def cq(f):
    return '(mkq %s %s)' % (z(f[0]), z(f[1]))


PRELUDE = '''From Coq Require Import ZArith QArith List Bool. Import ListNotations.
Require Import Py Comparer ComparerProofs1. Open Scope Z_scope.
Definition mkq (n d : Z) : Q := Qmake n (Z.to_pos d).
Fixpoint pairs_eqb (a b : list bpair) : bool := match a, b with [], [] => true | x :: s, y :: t => pair_eqb x y && pairs_eqb s t | _, _ => false end.
Definition al_eqb (a b : alignment) : bool := (aq a =? aq b) && (ar a =? ar b) && pairs_eqb (apairs a) (apairs b).
Definition p2 (p : bpair) := match p with (_, b, _, _) => b end.
Definition p4 (p : bpair) := match p with (_, _, _, d) => d end.
(* order inside the exclusive lists is only fixed up to ties of the reference site id: compare canonical forms *)
Definition canon (l : list bpair) := sort_by rsite (sort_by p2 (sort_by qsite (sort_by p4 l))).
Definition ratio_tbl (tbl : list (list bpair * list bpair * Q)) (a b : list bpair) : Q :=
  match find (fun e => pairs_eqb a (fst (fst e)) && pairs_eqb b (snd (fst e))) tbl with Some e => snd e | None => (-1)%Q end.
Definition tcode (t : rtype) : Z := match t with BOTH => 1 | FIRST_ONLY => 2 | SECOND_ONLY => 3 end.
Notation xrow := (Z * alignment * alignment * list bpair * list bpair * Q * Q * Q)%type.
Notation tent := (list bpair * list bpair * Q)%type.
Notation caseT := (bool * list alignment * list alignment * list tent * ((nat * nat * nat * nat) * (Q * Q * Q) * list xrow))%type.
(* monomorphic constructors: the generated case files elaborate much faster than with raw nested tuples *)
Definition P (a b c d : Z) : bpair := (a, b, c, d).
Definition AL (q r : Z) (ps : list bpair) : alignment := (q, r, ps).
Definition TB (a b : list bpair) (q : Q) : tent := (a, b, q).
Definition RW (t : Z) (a1 a2 : alignment) (e1 e2 : list bpair) (c1 c2 i : Q) : xrow := (t, a1, a2, e1, e2, c1, c2, i).
Definition CS (comb : bool) (a1 a2 : list alignment) (tbl : list tent) (ov nov fo so : nat) (m1 m2 mi : Q) (rws : list xrow) : caseT :=
  (comb, a1, a2, tbl, ((ov, nov, fo, so), (m1, m2, mi), rws)).
Definition row_eqb (r : row) (x : xrow) : bool :=
  match x with (t, a1, a2, e1, e2, c1, c2, i) =>
    (tcode (rty r) =? t) && al_eqb (ra1 r) a1 && al_eqb (ra2 r) a2 && pairs_eqb (canon (rex1 r)) (canon e1) &&
    pairs_eqb (canon (rex2 r)) (canon e2) && Qeq_bool (rcov1 r) c1 && Qeq_bool (rcov2 r) c2 && Qeq_bool (rident r) i end.
Fixpoint rows_eqb (a : list row) (b : list xrow) : bool :=
  match a, b with [], [] => true | r :: s, x :: t => row_eqb r x && rows_eqb s t | _, _ => false end.
Definition in01 (q : Q) : bool := Qle_bool 0 q && Qle_bool q 1.
(* the right-hand sides of theorem C19_partition / C19_bounds evaluated on the implementation's numbers *)
Definition spec_ok (a1 a2 : list alignment) (cnt : nat * nat * nat * nat) (avgs : Q * Q * Q) (rws : list xrow) : bool :=
  match cnt, avgs with (ov, nov, fo, so), (m1, m2, mi) =>
    let K1 := map akey a1 in let K2 := map akey a2 in
    Nat.eqb (ov + nov + fo + so) (length (nodup key_eq_dec (K1 ++ K2))) &&
    Nat.eqb fo (length (nodup key_eq_dec (filter (fun k => negb (kmem k K2)) K1))) &&
    Nat.eqb so (length (nodup key_eq_dec (filter (fun k => negb (kmem k K1)) K2))) &&
    Nat.eqb (length rws) (ov + nov + fo + so) &&
    in01 m1 && in01 m2 && in01 mi &&
    forallb (fun x => match x with (_, _, _, _, _, c1, c2, i) => in01 c1 && in01 c2 && in01 i end) rws end.
Definition check (c : bool * list alignment * list alignment * list (list bpair * list bpair * Q) *
                      ((nat * nat * nat * nat) * (Q * Q * Q) * list xrow)) : Z :=
  match c with (comb, a1, a2, tbl, (cnt, avgs, rws)) =>
    let m := compare comb (ratio_tbl tbl) a1 a2 in
    match cnt, avgs with (ov, nov, fo, so), (m1, m2, mi) =>
      if Nat.eqb (n_overlapping m) ov && Nat.eqb (n_nonoverlapping m) nov && Nat.eqb (n_first m) fo && Nat.eqb (n_second m) so &&
         Qeq_bool (avg1 m) m1 && Qeq_bool (avg2 m) m2 && Qeq_bool (avgid m) mi && rows_eqb (rows m) rws &&
         forallb (fun e => in01 (snd e)) tbl
      then (if spec_ok a1 a2 cnt avgs rws then 0 else 2) else 1
    end
  end.'''


class Base(Stream):
    shard = 700
    prelude = PRELUDE

    def impl(self, case):
        a1 = build(case['a1'], case['wd'], 1)
        a2 = build(case['a2'], case['wd'], 2)
        c = case['combine']
        main = run_compare(a1, a2, c)
        return dict(main=main, swapped=light(run_compare(a2, a1, c)), self1=light(run_compare(a1, a1, c)),
                    self2=light(run_compare(a2, a2, c)))

    def term(self, case, out):
        o = out.get('main') if isinstance(out, dict) else None
        if o is None:       # adapter failure: a term that cannot agree
            return '(CS false [] [] [] 9 9 9 9 (mkq 0 1) (mkq 0 1) (mkq 0 1) [])'
        means = exact_means(o['rows'])
        rws = clist('(RW %s %s %s %s %s %s %s %s)' % (z(TYPES[r['type']]), cal(r['a1']), cal(r['a2']), cps(r['ex1']), cps(r['ex2']),
                                                     cq(r['cov1x']), cq(r['cov2x']), cq(r['identx'])) for r in o['rows'])
        tbl = clist('(TB %s %s %s)' % (cps(a), cps(b), cq(f)) for a, b, f in o['table'])
        cnt = '%d %d %d %d' % tuple(o['counts'])
        avgs = '%s %s %s' % tuple(cq([m.numerator, m.denominator]) for m in means)
        return '(CS %s %s %s %s %s %s %s)' % (cb(case['combine']), clist(cal(a) for a in case['a1']), clist(cal(a) for a in case['a2']),
                                               tbl, cnt, avgs, rws)

    def oracle(self, case, out):
        if 'err' in out:
            return ['compare raised / adapter failed: %s' % out['err']]
        errs = oracle_main(case, out['main'])
        errs += oracle_reflexive(case['a1'], out['self1'], 'first set')
        errs += oracle_reflexive(case['a2'], out['self2'], 'second set')
        errs += oracle_swap(out['main'], out['swapped'])
        return sorted(set(errs))[:4]

    def classify(self, case, out):
        if 'err' in out:
            return ['error']
        o = out['main']
        k = ['combine=%s' % case['combine'], 'rows=%s' % (len(o['rows']) if len(o['rows']) < 6 else '6+')]
        if o['null']: k.append('null')
        for i, nm in enumerate(('overlapping', 'nonOverlapping', 'firstOnly', 'secondOnly')):
            if o['counts'][i]: k.append(nm + '>0')
        if len({(a[0], a[1]) for a in case['a1']}) < len(case['a1']) or len({(a[0], a[1]) for a in case['a2']}) < len(case['a2']):
            k.append('duplicate key inside a set')
        if any(r['type'] == 'BOTH' and (not r['a1'][2] or not r['a2'][2]) for r in o['rows']): k.append('empty pair list compared')
        if any(r['type'] == 'BOTH' and r['n1'] is not None and (r['n1'] != len(r['a1'][2]) or r['n2'] != len(r['a2'][2])) for r in o['rows']):
            k.append('combining removed pairs')
        if any(len({p[2] for p in a[2]}) < len(a[2]) for a in case['a1'] + case['a2']): k.append('duplicated query label')
        return k

    def nontrivial(self, case, out):
        if 'err' in out:
            return None
        if any(r['type'] == 'BOTH' and r['a1'][2] != r['a2'][2] for r in out['main']['rows']):
            return repr((case['combine'], case['a1'], case['a2']))
        return None


POOL = [[], [(1, 0, 1, 0), (2, 0, 1, 0)], [(2, 0, 1, 0), (3, 5, 2, 0), (1, 0, 1, 0)], [(1, 0, 1, 0)],
        [(1, 0, 1, 0), (3, 5, 2, 0), (2, 0, 1, 0), (2, 0, 1, 0)], [(3, 5, 2, 0), (3, 0, 2, 0)]]


class Exhaustive(Base):
    name = 'exhaustive'
    exhaustive = True
    shard = 1500

    def gen(self, rng, tier):
        pool = POOL[:3] if tier == 'quick' else POOL[:5]
        als = [[q, r, [list(p) for p in ps]] for (q, r) in ((1, 1), (0, 1)) for ps in pool]
        sets = [[]] + [[a] for a in als] + [[a, b] for a in als for b in als]
        return [dict(combine=c, wd=(i % 2 == 0), a1=s1, a2=s2) for i, (s1, s2) in enumerate(itertools.product(sets, sets)) for c in (False, True)]


def rand_pairs(rng, n):
    out = []
    for _ in range(n):
        m = rng.random()
        if out and m < 0.15:
            out.append(list(rng.choice(out)))                                   # exact duplicate, maybe non-adjacent
        elif out and m < 0.40:
            out.append([rng.randint(1, 6), rng.choice([0, 0, 10]), out[-1][2], out[-1][3]])   # same query label, adjacent
        elif out and m < 0.50:
            o = rng.choice(out)
            out.append([rng.randint(1, 6), rng.choice([0, 0, 10]), o[2], o[3]])  # same query label, maybe non-adjacent
        else:
            out.append([rng.randint(1, 6), rng.choice([0, 0, 10]), rng.randint(1, 5), rng.choice([0, 0, 5])])
    return out


def edit_pairs(rng, ps):
    ps = [list(p) for p in ps]
    for _ in range(rng.randint(0, 3)):
        m = rng.random()
        if ps and m < 0.3:
            del ps[rng.randrange(len(ps))]
        elif m < 0.6:
            ps.insert(rng.randint(0, len(ps)), rand_pairs(rng, 1)[0])
        elif ps and m < 0.8:
            i = rng.randrange(len(ps)); ps[i] = [ps[i][0] + rng.choice([-1, 1]), ps[i][1], ps[i][2], ps[i][3]]
        elif ps:
            i = rng.randrange(len(ps)); ps.insert(i, [ps[i][0] + 1, ps[i][1], ps[i][2], ps[i][3]])     # second source of a query label
    return ps


def rand_set(rng, n):
    return [[rng.choice(KEYS_Q), rng.choice(KEYS_R), rand_pairs(rng, rng.choice([0, 0, 1, 2, 3, 5, 7, 9]))] for _ in range(n)]


class Random(Base):
    name = 'random'
    shard = 250

    def gen(self, rng, tier):
        n = 2000 if tier == 'quick' else 12000
        out = []
        for i in range(n):
            a1 = rand_set(rng, rng.randint(0, 7))
            m = rng.random()
            if m < 0.08:
                a2 = [[a[0], a[1], [list(p) for p in a[2]]] for a in a1]          # identical sets
            elif m < 0.13:
                a2 = []
            elif m < 0.18:
                a1, a2 = [], a1
            elif m < 0.20:
                a1, a2 = [], []
            elif m < 0.75:                                                        # second set derived from the first
                a2 = []
                for a in a1:
                    if rng.random() < 0.8:
                        a2.append([a[0], a[1], edit_pairs(rng, a[2])])
                    if rng.random() < 0.15:
                        a2.append([a[0], a[1], edit_pairs(rng, a[2])])          # duplicate key inside the second set
                a2 += rand_set(rng, rng.randint(0, 2))
                rng.shuffle(a2)
            else:
                a2 = rand_set(rng, rng.randint(0, 7))
            out.append(dict(combine=bool(i % 2), wd=bool(rng.getrandbits(1)), a1=a1, a2=a2))
        return out


# ------------------------------------------------------------------------------------------------ hypotheses on `ratio`
class DifflibHyp(Stream):
    """the hypotheses under which the theorems are proved, evaluated on the real difflib; a failure is a broken trusted-base
    assumption and is reported through the model channel (code 1 = correspondence)"""
    name = 'difflib_hyp'
    shard = 2000
    prelude = '''From Coq Require Import ZArith QArith List Bool. Import ListNotations.
Require Import Comparer. Open Scope Z_scope.
Definition mkq (n d : Z) : Q := Qmake n (Z.to_pos d).
Definition in01 (q : Q) : bool := Qle_bool 0 q && Qle_bool q 1.
(* (short, ratio a b, ratio b a, ratio a a, ratio b b) *)
Definition check (c : bool * Q * Q * Q * Q) : Z :=
  match c with (short, ab, ba, aa, bb) =>
    if in01 ab && in01 ba && Qeq_bool aa 1 && Qeq_bool bb 1 && (negb short || Bool.eqb (Qltb 0 ab) (Qltb 0 ba)) then 0 else 1 end.'''

    def gen(self, rng, tier):
        n = 3000 if tier == 'quick' else 30000
        out = [dict(a=[], b=[]), dict(a=[], b=[[1, 0, 1, 0]]), dict(a=[[1, 0, 1, 0]], b=[])]
        for i in range(n):
            a = rand_pairs(rng, rng.choice([0, 1, 2, 3, 5, 8, 13, 40]))
            m = rng.random()
            b = [list(p) for p in a] if m < 0.1 else edit_pairs(rng, a) if m < 0.6 else rand_pairs(rng, rng.choice([0, 1, 2, 3, 5, 8, 13, 40]))
            out.append(dict(a=a, b=b))
        for i in range(20 if tier == 'quick' else 200):       # long lists with popular items: bound and reflexivity only
            a = rand_pairs(rng, rng.randint(200, 260))
            b = edit_pairs(rng, a) if i % 2 else rand_pairs(rng, rng.randint(200, 260))
            out.append(dict(a=a, b=b))
        return out

    def impl(self, case):
        import difflib
        a = build([[1, 1, case['a']]], True, 1)[0].alignedPairs
        b = build([[1, 1, case['b']]], True, 2)[0].alignedPairs
        flags = []
        rs = [ratio_fraction(x, y, difflib.SequenceMatcher(None, x, y).ratio(), flags) for x, y in ((a, b), (b, a), (a, a), (b, b))]
        return dict(short=len(a) < 200 and len(b) < 200, r=rs, flags=flags)

    def term(self, case, out):
        if 'r' not in out:
            return '(true, mkq 2 1, mkq 2 1, mkq 2 1, mkq 2 1)'
        return '(%s, %s)' % (cb(out['short']), ', '.join(cq(f) for f in out['r']))

    def oracle(self, case, out):
        return ['adapter: %s' % f for f in out.get('flags', [])] + (['adapter failed: %s' % out['err']] if 'err' in out else [])

    def classify(self, case, out):
        if 'r' not in out:
            return ['error']
        ab = Fraction(*out['r'][0])
        return ['short' if out['short'] else 'long(>=200)', 'ratio=0' if ab == 0 else 'ratio=1' if ab == 1 else '0<ratio<1']

    def nontrivial(self, case, out):
        return repr((case['a'], case['b'])) if 'r' in out and 0 < Fraction(*out['r'][0]) < 1 else None


STREAMS = [Exhaustive(), Random(), DifflibHyp()]

"""C11 — Mirroring a query mirrors its first-pass alignment.

Status: PARTIAL by construction of the proof/oracle split.
  * Proved (coq/props/C11.v): the deterministic half. For every sorted reference, every query q, every list of seed peaks and every
    parameter set, under the no-equidistant-tie hypothesis the property gives (it holds on every lattice with maxPairDistance below half
    the step), Aligner.align(ref, mirror(q), peaks, '-') is Aligner.align(ref, q, peaks, '+') with query label k renumbered to N+1-k
    (same positions in the same order, same scores, same peaks, same error behaviour); hence same RefStartPos/RefEndPos, Confidence,
    HitEnum, and QryStartPos/QryEndPos exchanged.  Also with the strands exchanged.
  * NOT provable in the model (outside it): the seeding half, i.e. that q on '+' and mirror(q) on '-' get the SAME seed peaks
    (bit-vector reversal, FFT cross-correlation, scipy.signal.find_peaks, top-N selection).  The end-to-end stream below exercises it.
"""
import os, json, random
from ..driver import Stream
from .. import pipeline as pl, e2e, common
from ..common import seeded_rng

ID = 'C11'
STEP = 1400          # lcm(primaryResolution 1400, secondaryResolution 100)
RULE = ('(a) Aligner.align pairs (case, mirror image of the case on the opposite strand): reference and query labels on multiples of 1400, '
        'maxPairDistance in {500, 650, 699} (< step/2), exact / noisy (labels dropped and added on lattice points) / indel blocks shifted by '
        'lattice multiples, 1-6 seed peaks off the lattice by up to 500, both base strands, a fraction with a label-number offset; both runs are '
        'compared with the Coq pipeline model and with each other by the oracle (segments position by position, header, HitEnum). '
        'A second stream OFF the hypothesis (ties: d >= step/2 or coordinates off the lattice) is only compared with the model and classified '
        '(symmetric / asymmetric), without oracle. (b) end to end: lattice data sets (2 references x 200 labels, 12 (quick) / 20 (thorough) query molecules each present '
        'with its mirror image under another id), COMA in `separate` mode, record of q vs record of mirror(q) from the XMAP text. '
        'non-trivial = distinct case with >= 2 non-empty segments before conflict resolution (a) / data set with >= 8 compared record pairs (b)')
TRUSTED = ['adapter harness/pipeline.py (builds OpticalMap/Peak/Aligner objects, canonicalises segments)',
           'end-to-end: harness/e2e.py (CMAP writer, independent XMAP text parser, COMA run in a subprocess with capture extensions)']
ASSUMPTIONS = ['all label coordinates are multiples of 1400 (hence of both correlation resolutions) and maxPairDistance < 700: then no label has two '
               'partners within reach (coq: C11_lattice_no_ties) — the hypothesis of the theorems',
               'the seeding half (same seed peaks for q on + and mirror(q) on -) is outside the Coq model: covered by the end-to-end oracle only',
               'parameters lie on the exact grid, so the float arithmetic of the implementation is exact (join-score division: C14)']


# ------------------------------------------------------------------------------------------------ generators (pipeline level)
def gen_lattice(rng, ties=False):
    n = rng.randint(10, 40)
    pos = [0]
    for _ in range(n):
        pos.append(pos[-1] + STEP * rng.choice([1, 1, 2, 2, 3, 4, 5, 7]))
    a = rng.randint(0, n - 6); b = rng.randint(a + 5, n)
    kind = rng.choice(['exact', 'noisy', 'noisy', 'indel', 'indel'])
    q = []; off = 0; diag = [0]
    for p in pos[a:b + 1]:
        if kind == 'indel' and rng.random() < 0.1:
            off += STEP * rng.choice([-3, -2, -1, 1, 2, 3, 5]); diag.append(off)
        if kind != 'exact' and rng.random() < 0.1:
            continue
        q.append(p - pos[a] + off)
        if kind != 'exact' and rng.random() < 0.1:
            q.append(q[-1] + STEP * rng.choice([1, 2]))
    q = sorted(set(q))
    if len(q) < 3:
        return None
    q0 = q[0]; q = [x - q0 for x in q]
    base = pos[a] + q0
    peaks = [base - o + rng.choice([0, 0, 0, 100, -100, 300, -300, 500, -500, 50]) for o in diag]
    for _ in range(rng.randint(0, 2)):
        peaks.append(base + rng.choice([-1, 1]) * rng.choice([STEP, 2 * STEP, 700, 1300]))
    rng.shuffle(peaks)
    d = rng.choice([700, 1400, 1500, 2100]) if ties else rng.choice([500, 650, 699])
    P = dict(pl.DEFAULT, d=d, ss=rng.choice([0, 0, 1]), sj=rng.choice([1.0, 0.5, 2.0, 0.25]), ms=rng.choice([1000, 1000, 500, 2000]),
             bs=rng.choice([1200, 600, 2500]))
    if rng.random() < 0.2:
        P.update(sp=rng.choice([1000, 800, 1500]), dp=rng.choice([1.0, 0.5, 2.0]), su=rng.choice([-250, -100, -500, 0]))
    c = dict(P=P, it=rng.randint(1, 3), ref=[float(x) for x in pos], rlen=pos[-1] + 1, qry=[float(x) for x in q], qlen=q[-1] + 1,
             peaks=peaks, rev=rng.random() < 0.4, kind='lattice-' + kind)
    if rng.random() < 0.1:
        c['shift'] = rng.randint(1, 9); c['kind'] += '-shifted'
    if c['rev']:            # the base run is on '-': hand the aligner the molecule whose '-' reading is q
        c['qry'] = mirror_positions(c['qry'], c['qlen'])
    return c


def mirror_positions(q, qlen):
    return [float(qlen - 1 - x) for x in reversed(q)]


def mirror_case(c):
    m = dict(c)
    m['qry'] = mirror_positions(c['qry'], c['qlen'])
    m['rev'] = not c['rev']
    return m


def msum(c):
    return len(c['qry']) + 1 + 2 * c.get('shift', 0)


def renumber_segs(segs, M):
    out = []
    for s in segs:
        ps = []
        for p in s[2]:
            p = list(p)
            if p[0] in (0, 2):
                p[2] = M - p[2]
            ps.append(p)
        out.append([s[0], s[1], ps])
    return out


def symmetry_errors(c, a, b):
    """the property on the two implementation outputs: a = run on the case, b = run on its mirror image on the opposite strand"""
    errs = []
    M = msum(c)
    if ('err' in a) != ('err' in b):
        return ['one run raised (%s), its mirror image did not (%s)' % (a.get('err'), b.get('err'))]
    if 'err' in a:
        return []
    sa, sb = renumber_segs(a['segs'], M), b['segs']
    if len(sa) != len(sb):
        errs.append('%d segments for the molecule, %d for its mirror image' % (len(sa), len(sb)))
    else:
        for i, (x, y) in enumerate(zip(sa, sb)):
            if x[0] != y[0]: errs.append('segment %d: seed peak %s vs %s' % (i, x[0] / 10.0, y[0] / 10.0)); break
            if [p[:2] for p in x[2]] != [p[:2] for p in y[2]]: errs.append('segment %d: reference labels / position kinds differ' % i); break
            if [p[2] for p in x[2]] != [p[2] for p in y[2]]:
                errs.append('segment %d: query labels are not renumbered k -> %d-k: %s vs %s' % (i, M, [p[2] for p in a['segs'][i][2]], [p[2] for p in y[2]])); break
            if x[1] != y[1] or [p[3:5] for p in x[2]] != [p[3:5] for p in y[2]]:
                errs.append('segment %d: scores/offsets differ (%s vs %s)' % (i, x[1] / 20.0, y[1] / 20.0)); break
            if [p[5] for p in x[2]] != [p[5] for p in y[2]]: errs.append('segment %d: pair sources differ' % i); break
    ha, hb = a['hdr'], b['hdr']
    if ha[4] != hb[4]: errs.append('Confidence %s vs %s' % (ha[4] / 20.0, hb[4] / 20.0))
    if ha[2:4] != hb[2:4]: errs.append('reference span %s vs %s' % (ha[2:4], hb[2:4]))
    if [ha[0], ha[1]] != [hb[1], hb[0]]: errs.append('QryStartPos/QryEndPos %s are not those of the mirror image exchanged %s' % (ha[:2], hb[:2]))
    if [[r, M - q] for r, q in a['pairs']] != b['pairs']: errs.append('pairs %s vs %s' % (a['pairs'][:6], b['pairs'][:6]))
    if a.get('cigar') != b.get('cigar') or a.get('cigar_err') != b.get('cigar_err'):
        errs.append('HitEnum %r vs %r' % (a.get('cigar', a.get('cigar_err')), b.get('cigar', b.get('cigar_err'))))
    return errs[:3]


MIRROR_CHECK = pl.ALIGN_CORR + '''
(* both runs against the model: code of the first disagreement (second run: +10) *)
Definition check (c : acase * acase) : Z :=
  let ka := corr_code (fst c) in if negb (ka =? 0) then ka else
  let kb := corr_code (snd c) in if kb =? 0 then 0 else kb + 10.
'''


class MirrorAlign(Stream):
    """on the hypothesis: model correspondence of both runs + oracle of the symmetry"""
    name = 'mirror_align'
    prelude = MIRROR_CHECK
    shard = 120
    ties = False
    quick_n, thorough_n = 600, 6000

    def gen(self, rng, tier):
        n = self.quick_n if tier == 'quick' else self.thorough_n
        out = []
        for _ in range(20 * n):
            if len(out) >= n:
                break
            c = self.one(rng)
            if c is not None and min(c['qry']) >= 0:
                out.append(c)
        return out

    def one(self, rng):
        return gen_lattice(rng, False)

    def impl(self, case):
        return dict(a=pl.run_align(case), b=pl.run_align(mirror_case(case)))

    def term(self, case, out):
        return '(%s, %s)' % (pl.align_term(case, out['a']), pl.align_term(mirror_case(case), out['b']))

    def oracle(self, case, out):
        return symmetry_errors(case, out['a'], out['b'])

    def classify(self, case, out):
        a = out['a']
        k = [case['kind'], 'base_strand=' + ('-' if case['rev'] else '+'), 'd=%s' % case['P']['d']]
        if 'err' in a:
            return k + ['error']
        k.append('segments_in=%d' % min(5, len(pl.nonempty(a.get('inputs', [])))))
        k.append('segments_out=%d' % min(5, len(pl.nonempty(a['segs']))))
        k.append('pairs=%s' % ('0' if not a['pairs'] else '1-9' if len(a['pairs']) < 10 else '10+'))
        return k

    def nontrivial(self, case, out):
        a = out['a']
        if 'err' in a or len(pl.nonempty(a.get('inputs', []))) < 2 or not a['pairs']:
            return None
        return repr((case['ref'], case['qry'], case['peaks'], case['rev'], sorted(case['P'].items())))


class MirrorAlignTies(MirrorAlign):
    """OFF the hypothesis (equidistant ties possible): both runs are still compared with the model; the symmetry is only counted"""
    name = 'mirror_align_off_hypothesis'
    quick_n, thorough_n = 250, 2000

    def one(self, rng):
        if rng.random() < 0.6:
            return gen_lattice(rng, True)
        c = pl.GENS[rng.choice(['realistic', 'blocks', 'dense', 'folding'])](rng)
        if c is None:
            return None
        if c['rev']:
            c['qry'] = mirror_positions(c['qry'], c['qlen'])
        c['kind'] = 'offlattice-' + c['kind']
        return c

    def oracle(self, case, out):
        return []

    def classify(self, case, out):
        sym = not symmetry_errors(case, out['a'], out['b'])
        return [case['kind'].split('-')[0] + ':' + ('symmetric' if sym else 'ASYMMETRIC (allowed: ties)')]

    def nontrivial(self, case, out):
        return None


# ------------------------------------------------------------------------------------------------ end to end
E2E_PARAMS = [['-d', '650'], ['-d', '500'], ['-d', '699'], ['-d', '650', '-p', '1'], ['-d', '699', '-p', '6', '-ss', '1'],
              ['-d', '500', '-sp', '800', '-dp', '0.5', '-su', '-100', '-ms', '1500', '-bs', '900'],
              ['-d', '650', '-sj', '0.5', '-ms', '500', '-bs', '2400']]
MIRROR_ID = 1000


def gen_lattice_dataset(rng, nref=2, nlab=200, nq=20, invdup=False):
    """references with labels on multiples of 1400; queries cut from them with lattice noise; every query also as its mirror image
    (id + 1000). Molecule coordinates may carry an arbitrary offset: COMA trims queries, only differences matter.
    invdup: the first reference additionally carries INVERTED duplications of some of its windows, and a few queries are exact copies of
    such a window: they align equally well on '+' at one place and on '-' at the other (an exact confidence tie between strands), so that
    the choice among equally good candidates must itself be mirror-symmetric."""
    refs = []
    dup_windows = []
    for k, rid in enumerate(sorted(rng.sample(range(1, 30), nref))):
        pos = [STEP * rng.choice([1, 3, 10])]
        for _ in range(nlab - 1):
            pos.append(pos[-1] + STEP * rng.choice([2, 3, 4, 5, 6, 7, 8, 9, 10, 12, 14]))
        if invdup and k == 0:
            for _ in range(3):
                n = rng.randint(12, 18); a = rng.randint(5, len(pos) - n - 60)
                gaps = [pos[a + i + 1] - pos[a + i] for i in range(n - 1)]
                b = rng.randint(a + n + 20, len(pos) - n - 5)
                # overwrite the stretch starting at label b with the window's gaps in reverse order, then shift the rest
                old_end = pos[b + n - 1]
                for i, g in enumerate(reversed(gaps)):
                    pos[b + i + 1] = pos[b + i] + g
                delta = pos[b + n - 1] - old_end
                for i in range(b + n, len(pos)):
                    pos[i] += delta
                dup_windows.append((a, n))
        refs.append((rid, float(pos[-1] + STEP * 5), [float(p) for p in pos]))
    qs = []; truth = {}; qid = rng.randint(1, 300)
    for _ in range(nq):
        rid, rl, rp = rng.choice(refs)
        a = rng.randint(0, len(rp) - 45); n = rng.randint(8, 40)
        kind = rng.choice(['exact', 'noisy', 'noisy', 'indel', 'indel', 'noisy-indel'])
        if dup_windows and rng.random() < 0.5:
            rid, rl, rp = refs[0]
            a, n = rng.choice(dup_windows)
            kind = 'exact-invdup'
        w = rp[a:a + n]
        q = [p - w[0] for p in w]
        if 'noisy' in kind:
            q = [p for p in q if rng.random() > 0.12]
            if len(q) < 2:
                continue
            q += [STEP * rng.randint(0, int(q[-1] // STEP)) for _ in range(rng.randint(0, 3))]
            q = sorted(set(q))
        if 'indel' in kind and len(q) > 6:
            c = rng.randint(3, len(q) - 3); d = STEP * rng.choice([2, 5, -1, 14, 28, 43])
            q = q[:c] + [p + d for p in q[c:]]
        q = sorted(set(q))
        if len(q) < 6:
            continue
        q = [p - q[0] for p in q]
        rev = rng.random() < 0.5
        if rev:
            q = [q[-1] - p for p in q[::-1]]
        off = rng.choice([0.0, 20.0, 1400.0, 1234.5])
        m = [q[-1] - p for p in q[::-1]]
        qa = [float(p + off) for p in q]; ma = [float(p + off) for p in m]
        tail = rng.choice([0.0, 0.0, 500.0])
        qs.append((qid, qa[-1] + tail, qa)); qs.append((qid + MIRROR_ID, ma[-1] + tail, ma))
        truth[qid] = dict(kind=kind, ref=rid, rev=rev, n=len(qa))
        qid += rng.choice([1, 1, 7])
    return dict(refs=refs, queries=qs, truth=truth, kind='lattice')


def stage_of_difference(cap, qid, mid):
    """where do the runs of q and mirror(q) part? uses the captured secondary peak lists and candidate rows"""
    def cands(q):
        # first-pass records of molecule q only: the capture file lists the whole first pass before the second pass, whose prefix
        # fragments also carry shift 0 and restart the candidate index at 0
        corr, rows = {}, {}
        for c in cap:
            if c['q'] != q or c['shift'] != 0:
                continue
            tgt = corr if c['t'] == 'corr' else rows if c['t'] == 'row' else None
            if tgt is None:
                continue
            if c['index'] in tgt:
                tgt['closed'] = True
            if not tgt.get('closed'):
                tgt[c['index']] = c
        corr.pop('closed', None); rows.pop('closed', None)
        return corr, rows
    ca, ra = cands(qid); cb_, rb = cands(mid)
    ka = sorted((c['r'], c['rev'], tuple(c['peaks'])) for c in ca.values())
    kb = sorted((c['r'], not c['rev'], tuple(c['peaks'])) for c in cb_.values())
    if ka != kb:
        return 'seeding: the selected seeds differ (%s vs mirrored %s)' % (ka[:3], kb[:3])
    conf_a = sorted((ra[i]['r'], ra[i]['rev'], ra[i]['conf'], ra[i]['hdr'][0], ra[i]['hdr'][1], ra[i]['hdr'][2], ra[i]['hdr'][3], ra[i]['cigar']) for i in ra)
    conf_b = sorted((rb[i]['r'], not rb[i]['rev'], rb[i]['conf'], rb[i]['hdr'][1], rb[i]['hdr'][0], rb[i]['hdr'][2], rb[i]['hdr'][3], rb[i]['cigar']) for i in rb)
    if conf_a != conf_b:
        return 'alignment: same seeds, candidate rows differ (%s vs %s)' % (conf_a[:3], conf_b[:3])
    return 'selection: same seeds and mirror-symmetric candidate rows, another candidate was reported (equal-confidence tie)'


def compare_records(a, b, n):
    """record of q vs record of mirror(q), from the XMAP text"""
    d = []
    if a['r'] != b['r']: d.append('RefContigID %s vs %s' % (a['r'], b['r']))
    if a['ori'] == b['ori']: d.append('Orientation %s for both' % a['ori'])
    if a['conf'] != b['conf']: d.append('Confidence %s vs %s' % (a['conf'], b['conf']))
    if a['hit'] != b['hit']: d.append('HitEnum %s vs %s' % (a['hit'], b['hit']))
    if (a['rs'], a['re']) != (b['rs'], b['re']): d.append('RefStartPos/RefEndPos %s/%s vs %s/%s' % (a['rs'], a['re'], b['rs'], b['re']))
    if (a['qs'], a['qe']) != (b['qe'], b['qs']): d.append('QryStartPos/QryEndPos %s/%s vs (exchanged) %s/%s' % (a['qs'], a['qe'], b['qe'], b['qs']))
    if [(r, n + 1 - q) for r, q in a['pairs']] != b['pairs']: d.append('pairs are not renumbered k -> %d-k: %s vs %s' % (n + 1, a['pairs'][:5], b['pairs'][:5]))
    if a['qlen'] != b['qlen'] or a['rlen'] != b['rlen']: d.append('QryLen/RefLen differ')
    return d


class E2EMirror(Stream):
    name = 'e2e_mirror'
    model = False
    quick_n, thorough_n = 9, 32

    def gen(self, rng, tier):
        base = seeded_rng(getattr(self, 'seed', 0), 'C11-e2e')
        n = self.quick_n if tier == 'quick' else self.thorough_n
        cases = [dict(ds_seed=base.randint(1, 10 ** 9), nq=12 if tier == 'quick' else 20, extra=E2E_PARAMS[k % len(E2E_PARAMS)]) for k in range(n)]
        # inverted duplications in the reference: exact confidence ties between the two strands
        cases += [dict(ds_seed=base.randint(1, 10 ** 9), nq=8, extra=[], invdup=True) for k in range(2 if tier == 'quick' else 8)]
        return cases

    def impl(self, case):
        ds = gen_lattice_dataset(random.Random(case['ds_seed']), nq=case['nq'], invdup=bool(case.get('invdup')))
        e2e.materialise(ds, 'c11%s_%d_%d' % ('i' if case.get('invdup') else '', case['ds_seed'], case['nq']))
        r = e2e.run_coma(os.path.join(ds['dir'], 'r.cmap'), os.path.join(ds['dir'], 'q.cmap'), ['-oM', 'separate'] + list(case['extra']),
                         cpus=1, capture=True)
        out = dict(rc=r.rc, stderr=r.stderr[-400:] if r.rc else '', pairs=[], compared=0, both_absent=0)
        if r.rc != 0:
            return out
        recs = {}
        for x in r.records('main') or []:
            recs.setdefault(x['q'], []).append({k: v for k, v in x.items() if k != 'raw'})
        cap = r.capture
        for qid, t in sorted(ds['truth'].items()):
            a = recs.get(qid, []); b = recs.get(qid + MIRROR_ID, [])
            if not a and not b:
                out['both_absent'] += 1
                continue
            out['compared'] += 1
            if len(a) != 1 or len(b) != 1:
                diff = ['%d record(s) for molecule %d, %d for its mirror image %d' % (len(a), qid, len(b), qid + MIRROR_ID)]
            else:
                diff = compare_records(a[0], b[0], t['n'])
            ent = dict(q=qid, kind=t['kind'], stored_rev=t['rev'], diff=diff, npairs=len(a[0]['pairs']) if a else 0)
            if diff:
                ent['stage'] = stage_of_difference(cap, qid, qid + MIRROR_ID)
                ent['a'] = a[:1]; ent['b'] = b[:1]
                ent['molecule'] = [m for m in ds['queries'] if m[0] == qid][0]
                ent['mirror'] = [m for m in ds['queries'] if m[0] == qid + MIRROR_ID][0]
            out['pairs'].append(ent)
        return out

    def oracle(self, case, out):
        if out['rc'] != 0:
            return ['COMA exited with status %s: %s' % (out['rc'], out['stderr'][-300:])]
        errs = []
        for e in out['pairs']:
            if e['diff']:
                errs.append('molecule %d (%s) and its mirror image %d are not aligned mirror-symmetrically: %s [stage: %s]' % (
                    e['q'], e['kind'], e['q'] + MIRROR_ID, '; '.join(e['diff'][:3]), e.get('stage')))
        return errs[:3]

    def classify(self, case, out):
        k = ['params=%s' % ' '.join(case['extra']), 'compared_pairs=%d' % out.get('compared', 0), 'both_unaligned=%d' % out.get('both_absent', 0)]
        for e in out.get('pairs', []):
            k.append('kind=%s:%s' % (e['kind'], 'symmetric' if not e['diff'] else 'ASYMMETRIC'))
        return k

    def nontrivial(self, case, out):
        return json.dumps(case, sort_keys=True) if out.get('compared', 0) >= 8 else None


STREAMS = [MirrorAlign(), MirrorAlignTies(), E2EMirror()]

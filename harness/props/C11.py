"""C11 — Mirroring a query mirrors its first-pass alignment.

Status: PARTIAL by construction of the proof/oracle split.
  * Proved (coq/props/C11.v): the deterministic half. For every sorted reference, every query q, every list of seed peaks and every
    parameter set, under the no-equidistant-tie hypothesis the property gives (it holds on every lattice with maxPairDistance below half
    the step), Aligner.align(ref, mirror(q), peaks, '-') is Aligner.align(ref, q, peaks, '+') with query label k renumbered to N+1-k
    (same positions in the same order, same scores, same peaks, same error behaviour); hence same RefStartPos/RefEndPos, Confidence,
    HitEnum, and QryStartPos/QryEndPos exchanged.  Also with the strands exchanged.
  * NOT provable in the model (outside it): the seeding half, i.e. that q on '+' and mirror(q) on '-' get the SAME seed peaks
    (bit-vector reversal, FFT cross-correlation, scipy.signal.find_peaks, top-N selection).  The end-to-end stream below exercises it.
  * REFUTED as a whole on exact ties (open finding F14, coq: C11_first_pass_mirror_refuted): the arrays of (mirror(q), strand s) are
    bit for bit those of (q, not s) (measured on every molecule of `e2e_mirror_ties`; exact arithmetic: C11_seeding_mirror), so the run
    of mirror(q) is the run of q with the strands of each reference enumerated in the opposite order; the stable sort of selectPeaks
    and the first-maximum of __getBestAlignment make that order visible when two seeds on opposite strands of one reference have
    exactly equal float scores (a reference whose bit vector is a palindrome; a query whose primary bit vector is a palindrome).
    `e2e_mirror_ties` generates such data, routes exactly this signature (tie_analysis) to F14 and reports anything else.
"""
import os, json, random
from ..driver import Stream
from .. import pipeline as pl, e2e, common
from ..common import seeded_rng

ID = 'C11'
STEP = 1400          # lcm(primaryResolution 1400, secondaryResolution 100)
RULE = ('(a) Aligner.align pairs (case, mirror image of the case on the opposite strand): reference and query labels on multiples of 1400, '
        'maxPairDistance in {500, 650, 699} (< step/2), exact / noisy (labels dropped and added on lattice points) / indel blocks shifted by '
        'lattice multiples, 1-6 seed peaks off the lattice by up to 500, both base strands, a fraction with a label-number offset; both runs are '
        'compared with the Coq pipeline model and with each other by the oracle (segments position by position, header, HitEnum). '
        'A second stream OFF the hypothesis (ties: d >= step/2 or coordinates off the lattice) is only compared with the model and classified '
        '(symmetric / asymmetric), without oracle. (b) end to end: lattice data sets (2 references x 200 labels, 12 (quick) / 20 (thorough) query molecules each present '
        'with its mirror image under another id), COMA in `separate` mode, record of q vs record of mirror(q) from the XMAP text. '
        '(c) end to end on TIE-RICH lattice data (e2e_mirror_ties: palindromic references with the first label at 0 or shifted inside, palindromic '
        'windows and molecules, a reference and its mirror image, inverted duplicates, periodic references, repeated blocks; peaksCount 1, 2, 3, 6): '
        'same record comparison; additionally the primary seed peaks of mirror(q) must be those of q with the strands exchanged bit for bit; an '
        'asymmetry is routed to the open finding F14 only if the recomputed seeds and captured candidates show an exact score tie between the '
        'strands of one reference decided by enumeration order; for a palindromic molecule (mirror(q) = q) the two records must be identical. '
        'non-trivial = distinct case with >= 2 non-empty segments before conflict resolution (a) / data set with >= 8 compared record pairs (b) / >= 6 (c)')
TRUSTED = ['adapter harness/pipeline.py (builds OpticalMap/Peak/Aligner objects, canonicalises segments)',
           'end-to-end: harness/e2e.py (CMAP writer, independent XMAP text parser, COMA run in a subprocess with capture extensions)']
ASSUMPTIONS = ['all label coordinates are multiples of 1400 (hence of both correlation resolutions) and maxPairDistance < 700: then no label has two '
               'partners within reach (coq: C11_lattice_no_ties) — the hypothesis of the theorems',
               'the seeding half (same seed peaks for q on + and mirror(q) on -) is outside the Coq model: covered by the end-to-end oracle only',
               'a palindromic molecule (mirror(q) has the labels of q) is outside the property: no deterministic program can report two different '
               'records for two identical molecules; the oracle demands identical records there',
               'F14 (known_findings.json): exact score ties between the two strands of one reference are decided by enumeration order; such '
               'asymmetries are reported as KNOWN-FINDING when tie_analysis confirms every clause of the signature',
               'parameters lie on the exact grid, so the float arithmetic of the implementation is exact (join-score division: C14)']


# ------------------------------------------------------------------------------------------------ generators (pipeline level)
def gen_lattice(rng, ties=False):
    n = rng.randint(10, 40)
    pos = [0]
    for _ in range(n):
        pos.append(pos[-1] + STEP * rng.choice([1, 1, 2, 2, 3, 4, 5, 7]))
    a = rng.randint(0, n - 6); b = rng.randint(a + 5, n)
    kind = rng.choice(['exact', 'noisy', 'noisy', 'indel', 'indel'])
    q = []; off = 0; diag = [0]
    for p in pos[a:b + 1]:
        if kind == 'indel' and rng.random() < 0.1:
            off += STEP * rng.choice([-3, -2, -1, 1, 2, 3, 5]); diag.append(off)
        if kind != 'exact' and rng.random() < 0.1:
            continue
        q.append(p - pos[a] + off)
        if kind != 'exact' and rng.random() < 0.1:
            q.append(q[-1] + STEP * rng.choice([1, 2]))
    q = sorted(set(q))
    if len(q) < 3:
        return None
    q0 = q[0]; q = [x - q0 for x in q]
    base = pos[a] + q0
    peaks = [base - o + rng.choice([0, 0, 0, 100, -100, 300, -300, 500, -500, 50]) for o in diag]
    for _ in range(rng.randint(0, 2)):
        peaks.append(base + rng.choice([-1, 1]) * rng.choice([STEP, 2 * STEP, 700, 1300]))
    rng.shuffle(peaks)
    d = rng.choice([700, 1400, 1500, 2100]) if ties else rng.choice([500, 650, 699])
    P = dict(pl.DEFAULT, d=d, ss=rng.choice([0, 0, 1]), sj=rng.choice([1.0, 0.5, 2.0, 0.25]), ms=rng.choice([1000, 1000, 500, 2000]),
             bs=rng.choice([1200, 600, 2500]))
    if rng.random() < 0.2:
        P.update(sp=rng.choice([1000, 800, 1500]), dp=rng.choice([1.0, 0.5, 2.0]), su=rng.choice([-250, -100, -500, 0]))
    c = dict(P=P, it=rng.randint(1, 3), ref=[float(x) for x in pos], rlen=pos[-1] + 1, qry=[float(x) for x in q], qlen=q[-1] + 1,
             peaks=peaks, rev=rng.random() < 0.4, kind='lattice-' + kind)
    if rng.random() < 0.1:
        c['shift'] = rng.randint(1, 9); c['kind'] += '-shifted'
    if c['rev']:            # the base run is on '-': hand the aligner the molecule whose '-' reading is q
        c['qry'] = mirror_positions(c['qry'], c['qlen'])
    return c


def mirror_positions(q, qlen):
    return [float(qlen - 1 - x) for x in reversed(q)]


def mirror_case(c):
    m = dict(c)
    m['qry'] = mirror_positions(c['qry'], c['qlen'])
    m['rev'] = not c['rev']
    return m


def msum(c):
    return len(c['qry']) + 1 + 2 * c.get('shift', 0)


def renumber_segs(segs, M):
    out = []
    for s in segs:
        ps = []
        for p in s[2]:
            p = list(p)
            if p[0] in (0, 2):
                p[2] = M - p[2]
            ps.append(p)
        out.append([s[0], s[1], ps])
    return out


def symmetry_errors(c, a, b):
    """the property on the two implementation outputs: a = run on the case, b = run on its mirror image on the opposite strand"""
    errs = []
    M = msum(c)
    if ('err' in a) != ('err' in b):
        return ['one run raised (%s), its mirror image did not (%s)' % (a.get('err'), b.get('err'))]
    if 'err' in a:
        return []
    sa, sb = renumber_segs(a['segs'], M), b['segs']
    if len(sa) != len(sb):
        errs.append('%d segments for the molecule, %d for its mirror image' % (len(sa), len(sb)))
    else:
        for i, (x, y) in enumerate(zip(sa, sb)):
            if x[0] != y[0]: errs.append('segment %d: seed peak %s vs %s' % (i, x[0] / 10.0, y[0] / 10.0)); break
            if [p[:2] for p in x[2]] != [p[:2] for p in y[2]]: errs.append('segment %d: reference labels / position kinds differ' % i); break
            if [p[2] for p in x[2]] != [p[2] for p in y[2]]:
                errs.append('segment %d: query labels are not renumbered k -> %d-k: %s vs %s' % (i, M, [p[2] for p in a['segs'][i][2]], [p[2] for p in y[2]])); break
            if x[1] != y[1] or [p[3:5] for p in x[2]] != [p[3:5] for p in y[2]]:
                errs.append('segment %d: scores/offsets differ (%s vs %s)' % (i, x[1] / 20.0, y[1] / 20.0)); break
            if [p[5] for p in x[2]] != [p[5] for p in y[2]]: errs.append('segment %d: pair sources differ' % i); break
    ha, hb = a['hdr'], b['hdr']
    if ha[4] != hb[4]: errs.append('Confidence %s vs %s' % (ha[4] / 20.0, hb[4] / 20.0))
    if ha[2:4] != hb[2:4]: errs.append('reference span %s vs %s' % (ha[2:4], hb[2:4]))
    if [ha[0], ha[1]] != [hb[1], hb[0]]: errs.append('QryStartPos/QryEndPos %s are not those of the mirror image exchanged %s' % (ha[:2], hb[:2]))
    if [[r, M - q] for r, q in a['pairs']] != b['pairs']: errs.append('pairs %s vs %s' % (a['pairs'][:6], b['pairs'][:6]))
    if a.get('cigar') != b.get('cigar') or a.get('cigar_err') != b.get('cigar_err'):
        errs.append('HitEnum %r vs %r' % (a.get('cigar', a.get('cigar_err')), b.get('cigar', b.get('cigar_err'))))
    return errs[:3]


MIRROR_CHECK = pl.ALIGN_CORR + '''
(* both runs against the model: code of the first disagreement (second run: +10) *)
Definition check (c : acase * acase) : Z :=
  let ka := corr_code (fst c) in if negb (ka =? 0) then ka else
  let kb := corr_code (snd c) in if kb =? 0 then 0 else kb + 10.
'''


class MirrorAlign(Stream):
    """on the hypothesis: model correspondence of both runs + oracle of the symmetry"""
    name = 'mirror_align'
    prelude = MIRROR_CHECK
    shard = 120
    ties = False
    quick_n, thorough_n = 600, 6000

    def gen(self, rng, tier):
        n = self.quick_n if tier == 'quick' else self.thorough_n
        out = []
        for _ in range(20 * n):
            if len(out) >= n:
                break
            c = self.one(rng)
            if c is not None and min(c['qry']) >= 0:
                out.append(c)
        return out

    def one(self, rng):
        return gen_lattice(rng, False)

    def impl(self, case):
        return dict(a=pl.run_align(case), b=pl.run_align(mirror_case(case)))

    def tolerated(self, case, out):
        return bool(out.get('a', {}).get('float_flip') or out.get('b', {}).get('float_flip'))

    def term(self, case, out):
        return '(%s, %s)' % (pl.align_term(case, out['a']), pl.align_term(mirror_case(case), out['b']))

    def oracle(self, case, out):
        return symmetry_errors(case, out['a'], out['b'])

    def classify(self, case, out):
        a = out['a']
        k = [case['kind'], 'base_strand=' + ('-' if case['rev'] else '+'), 'd=%s' % case['P']['d']]
        if 'err' in a:
            return k + ['error']
        k.append('segments_in=%d' % min(5, len(pl.nonempty(a.get('inputs', [])))))
        k.append('segments_out=%d' % min(5, len(pl.nonempty(a['segs']))))
        k.append('pairs=%s' % ('0' if not a['pairs'] else '1-9' if len(a['pairs']) < 10 else '10+'))
        return k

    def nontrivial(self, case, out):
        a = out['a']
        if 'err' in a or len(pl.nonempty(a.get('inputs', []))) < 2 or not a['pairs']:
            return None
        return repr((case['ref'], case['qry'], case['peaks'], case['rev'], sorted(case['P'].items())))


class MirrorAlignTies(MirrorAlign):
    """OFF the hypothesis (equidistant ties possible): both runs are still compared with the model; the symmetry is only counted"""
    name = 'mirror_align_off_hypothesis'
    quick_n, thorough_n = 250, 2000

    def one(self, rng):
        if rng.random() < 0.6:
            return gen_lattice(rng, True)
        c = pl.GENS[rng.choice(['realistic', 'blocks', 'dense', 'folding'])](rng)
        if c is None:
            return None
        if c['rev']:
            c['qry'] = mirror_positions(c['qry'], c['qlen'])
        c['kind'] = 'offlattice-' + c['kind']
        return c

    def oracle(self, case, out):
        return []

    def classify(self, case, out):
        sym = not symmetry_errors(case, out['a'], out['b'])
        return [case['kind'].split('-')[0] + ':' + ('symmetric' if sym else 'ASYMMETRIC (allowed: ties)')]

    def nontrivial(self, case, out):
        return None


# ------------------------------------------------------------------------------------------------ end to end
E2E_PARAMS = [['-d', '650'], ['-d', '500'], ['-d', '699'], ['-d', '650', '-p', '1'], ['-d', '699', '-p', '6', '-ss', '1'],
              ['-d', '500', '-sp', '800', '-dp', '0.5', '-su', '-100', '-ms', '1500', '-bs', '900'],
              ['-d', '650', '-sj', '0.5', '-ms', '500', '-bs', '2400']]
MIRROR_ID = 1000


def gen_lattice_dataset(rng, nref=2, nlab=200, nq=20, invdup=False):
    """references with labels on multiples of 1400; queries cut from them with lattice noise; every query also as its mirror image
    (id + 1000). Molecule coordinates may carry an arbitrary offset: COMA trims queries, only differences matter.
    invdup: the first reference additionally carries INVERTED duplications of some of its windows, and a few queries are exact copies of
    such a window: they align equally well on '+' at one place and on '-' at the other (an exact confidence tie between strands), so that
    the choice among equally good candidates must itself be mirror-symmetric."""
    refs = []
    dup_windows = []
    for k, rid in enumerate(sorted(rng.sample(range(1, 30), nref))):
        pos = [STEP * rng.choice([1, 3, 10])]
        for _ in range(nlab - 1):
            pos.append(pos[-1] + STEP * rng.choice([2, 3, 4, 5, 6, 7, 8, 9, 10, 12, 14]))
        if invdup and k == 0:
            for _ in range(3):
                n = rng.randint(12, 18); a = rng.randint(5, len(pos) - n - 60)
                gaps = [pos[a + i + 1] - pos[a + i] for i in range(n - 1)]
                b = rng.randint(a + n + 20, len(pos) - n - 5)
                # overwrite the stretch starting at label b with the window's gaps in reverse order, then shift the rest
                old_end = pos[b + n - 1]
                for i, g in enumerate(reversed(gaps)):
                    pos[b + i + 1] = pos[b + i] + g
                delta = pos[b + n - 1] - old_end
                for i in range(b + n, len(pos)):
                    pos[i] += delta
                dup_windows.append((a, n))
        refs.append((rid, float(pos[-1] + STEP * 5), [float(p) for p in pos]))
    qs = []; truth = {}; qid = rng.randint(1, 300)
    for _ in range(nq):
        rid, rl, rp = rng.choice(refs)
        a = rng.randint(0, len(rp) - 45); n = rng.randint(8, 40)
        kind = rng.choice(['exact', 'noisy', 'noisy', 'indel', 'indel', 'noisy-indel'])
        if dup_windows and rng.random() < 0.5:
            rid, rl, rp = refs[0]
            a, n = rng.choice(dup_windows)
            kind = 'exact-invdup'
        w = rp[a:a + n]
        q = [p - w[0] for p in w]
        if 'noisy' in kind:
            q = [p for p in q if rng.random() > 0.12]
            if len(q) < 2:
                continue
            q += [STEP * rng.randint(0, int(q[-1] // STEP)) for _ in range(rng.randint(0, 3))]
            q = sorted(set(q))
        if 'indel' in kind and len(q) > 6:
            c = rng.randint(3, len(q) - 3); d = STEP * rng.choice([2, 5, -1, 14, 28, 43])
            q = q[:c] + [p + d for p in q[c:]]
        q = sorted(set(q))
        if len(q) < 6:
            continue
        q = [p - q[0] for p in q]
        rev = rng.random() < 0.5
        if rev:
            q = [q[-1] - p for p in q[::-1]]
        off = rng.choice([0.0, 20.0, 1400.0, 1234.5])
        m = [q[-1] - p for p in q[::-1]]
        qa = [float(p + off) for p in q]; ma = [float(p + off) for p in m]
        tail = rng.choice([0.0, 0.0, 500.0])
        qs.append((qid, qa[-1] + tail, qa)); qs.append((qid + MIRROR_ID, ma[-1] + tail, ma))
        truth[qid] = dict(kind=kind, ref=rid, rev=rev, n=len(qa))
        qid += rng.choice([1, 1, 7])
    return dict(refs=refs, queries=qs, truth=truth, kind='lattice')


def stage_of_difference(cap, qid, mid):
    """where do the runs of q and mirror(q) part? uses the captured secondary peak lists and candidate rows"""
    def cands(q):
        # first-pass records of molecule q only: the capture file lists the whole first pass before the second pass, whose prefix
        # fragments also carry shift 0 and restart the candidate index at 0
        corr, rows = {}, {}
        for c in cap:
            if c['q'] != q or c['shift'] != 0:
                continue
            tgt = corr if c['t'] == 'corr' else rows if c['t'] == 'row' else None
            if tgt is None:
                continue
            if c['index'] in tgt:
                tgt['closed'] = True
            if not tgt.get('closed'):
                tgt[c['index']] = c
        corr.pop('closed', None); rows.pop('closed', None)
        return corr, rows
    ca, ra = cands(qid); cb_, rb = cands(mid)
    ka = sorted((c['r'], c['rev'], tuple(c['peaks'])) for c in ca.values())
    kb = sorted((c['r'], not c['rev'], tuple(c['peaks'])) for c in cb_.values())
    if ka != kb:
        return 'seeding: the selected seeds differ (%s vs mirrored %s)' % (ka[:3], kb[:3])
    conf_a = sorted((ra[i]['r'], ra[i]['rev'], ra[i]['conf'], ra[i]['hdr'][0], ra[i]['hdr'][1], ra[i]['hdr'][2], ra[i]['hdr'][3], ra[i]['cigar']) for i in ra)
    conf_b = sorted((rb[i]['r'], not rb[i]['rev'], rb[i]['conf'], rb[i]['hdr'][1], rb[i]['hdr'][0], rb[i]['hdr'][2], rb[i]['hdr'][3], rb[i]['cigar']) for i in rb)
    if conf_a != conf_b:
        return 'alignment: same seeds, candidate rows differ (%s vs %s)' % (conf_a[:3], conf_b[:3])
    return 'selection: same seeds and mirror-symmetric candidate rows, another candidate was reported (equal-confidence tie)'


def compare_records(a, b, n):
    """record of q vs record of mirror(q), from the XMAP text"""
    d = []
    if a['r'] != b['r']: d.append('RefContigID %s vs %s' % (a['r'], b['r']))
    if a['ori'] == b['ori']: d.append('Orientation %s for both' % a['ori'])
    if a['conf'] != b['conf']: d.append('Confidence %s vs %s' % (a['conf'], b['conf']))
    if a['hit'] != b['hit']: d.append('HitEnum %s vs %s' % (a['hit'], b['hit']))
    if (a['rs'], a['re']) != (b['rs'], b['re']): d.append('RefStartPos/RefEndPos %s/%s vs %s/%s' % (a['rs'], a['re'], b['rs'], b['re']))
    if (a['qs'], a['qe']) != (b['qe'], b['qs']): d.append('QryStartPos/QryEndPos %s/%s vs (exchanged) %s/%s' % (a['qs'], a['qe'], b['qe'], b['qs']))
    if [(r, n + 1 - q) for r, q in a['pairs']] != b['pairs']: d.append('pairs are not renumbered k -> %d-k: %s vs %s' % (n + 1, a['pairs'][:5], b['pairs'][:5]))
    if a['qlen'] != b['qlen'] or a['rlen'] != b['rlen']: d.append('QryLen/RefLen differ')
    return d


class E2EMirror(Stream):
    name = 'e2e_mirror'
    model = False
    quick_n, thorough_n = 9, 32

    def gen(self, rng, tier):
        base = seeded_rng(getattr(self, 'seed', 0), 'C11-e2e')
        n = self.quick_n if tier == 'quick' else self.thorough_n
        cases = [dict(ds_seed=base.randint(1, 10 ** 9), nq=12 if tier == 'quick' else 20, extra=E2E_PARAMS[k % len(E2E_PARAMS)]) for k in range(n)]
        # inverted duplications in the reference: exact confidence ties between the two strands
        cases += [dict(ds_seed=base.randint(1, 10 ** 9), nq=8, extra=[], invdup=True) for k in range(2 if tier == 'quick' else 8)]
        return cases

    def impl(self, case):
        ds = gen_lattice_dataset(random.Random(case['ds_seed']), nq=case['nq'], invdup=bool(case.get('invdup')))
        e2e.materialise(ds, 'c11%s_%d_%d' % ('i' if case.get('invdup') else '', case['ds_seed'], case['nq']))
        r = e2e.run_coma(os.path.join(ds['dir'], 'r.cmap'), os.path.join(ds['dir'], 'q.cmap'), ['-oM', 'separate'] + list(case['extra']),
                         cpus=1, capture=True)
        out = dict(rc=r.rc, stderr=r.stderr[-400:] if r.rc else '', pairs=[], compared=0, both_absent=0)
        if r.rc != 0:
            return out
        recs = {}
        for x in r.records('main') or []:
            recs.setdefault(x['q'], []).append({k: v for k, v in x.items() if k != 'raw'})
        cap = r.capture
        for qid, t in sorted(ds['truth'].items()):
            a = recs.get(qid, []); b = recs.get(qid + MIRROR_ID, [])
            if not a and not b:
                out['both_absent'] += 1
                continue
            out['compared'] += 1
            if len(a) != 1 or len(b) != 1:
                diff = ['%d record(s) for molecule %d, %d for its mirror image %d' % (len(a), qid, len(b), qid + MIRROR_ID)]
            else:
                diff = compare_records(a[0], b[0], t['n'])
            ent = dict(q=qid, kind=t['kind'], stored_rev=t['rev'], diff=diff, npairs=len(a[0]['pairs']) if a else 0)
            if diff:
                ent['stage'] = stage_of_difference(cap, qid, qid + MIRROR_ID)
                ent['a'] = a[:1]; ent['b'] = b[:1]
                ent['molecule'] = [m for m in ds['queries'] if m[0] == qid][0]
                ent['mirror'] = [m for m in ds['queries'] if m[0] == qid + MIRROR_ID][0]
            out['pairs'].append(ent)
        return out

    def oracle(self, case, out):
        if out['rc'] != 0:
            return ['COMA exited with status %s: %s' % (out['rc'], out['stderr'][-300:])]
        errs = []
        for e in out['pairs']:
            if e['diff']:
                errs.append('molecule %d (%s) and its mirror image %d are not aligned mirror-symmetrically: %s [stage: %s]' % (
                    e['q'], e['kind'], e['q'] + MIRROR_ID, '; '.join(e['diff'][:3]), e.get('stage')))
        return errs[:3]

    def classify(self, case, out):
        k = ['params=%s' % ' '.join(case['extra']), 'compared_pairs=%d' % out.get('compared', 0), 'both_unaligned=%d' % out.get('both_absent', 0)]
        for e in out.get('pairs', []):
            k.append('kind=%s:%s' % (e['kind'], 'symmetric' if not e['diff'] else 'ASYMMETRIC'))
        return k

    def nontrivial(self, case, out):
        return json.dumps(case, sort_keys=True) if out.get('compared', 0) >= 8 else None



# ------------------------------------------------------------------------------------------------ end to end, tie-rich lattice data
# Exact ties are where ORDER-based tie-breaks of the seeding stage become visible.  For a lattice query q the bit vectors of mirror(q) are
# exactly the reversed bit vectors of q, so the correlation arrays of (mirror(q), strand s) are BITWISE those of (q, strand not s): the
# run of mirror(q) is the run of q with, for every reference, the two strands enumerated in the opposite order
# (_WorkflowCoordinator.__getPrimaryCorrelations yields forward before reverse).  The order matters only between seed peaks of one
# reference on opposite strands whose float scores are exactly equal (finding F14); the families below provoke every kind of exact tie:
TIE_FAMILIES = ['palin_ref0', 'palin_ref_off', 'palin_query', 'mirror_refs', 'invdup', 'periodic', 'blocks']
GAPS = [2, 3, 4, 5, 6, 7, 8, 9, 10, 12, 14]


def _walk(start, gaps):
    pos = [start]
    for g in gaps:
        pos.append(pos[-1] + g)
    return pos


def _ref(rid, pos, tail=5 * STEP):
    return (rid, float(pos[-1] + tail), [float(p) for p in pos])


def gen_ties_dataset(rng, family, nq=10):
    """lattice data (all labels on multiples of 1400) with exact ties; every query also as its mirror image (id + 1000).
    palin_ref0     reference 1 is a palindrome whose first label is at 0 (the bit vector itself is a palindrome: the reverse-strand
                   correlation is the forward one read backwards, every seed has an exactly tied twin on the other strand at the mirror locus)
    palin_ref_off  the same with the first label 1-10 lattice steps inside (the vector is not a palindrome: the r.m.s. levels differ)
    palin_query    generic references containing palindromic windows; some queries are such a window (mirror(q) = q as a molecule)
    mirror_refs    reference 2 is the mirror image of reference 1
    invdup         inverted duplicates of windows inside a generic reference
    periodic       a reference that repeats one block of gaps (many exactly equal peaks within one correlation)
    blocks         copies of a block at several places of two references (equal peaks within and across correlations)"""
    g = lambda n: [STEP * rng.choice(GAPS) for _ in range(n)]
    ids = sorted(rng.sample(range(1, 30), 2))
    windows = []           # (reference index, first label index, number of labels) to cut exact queries from
    if family in ('palin_ref0', 'palin_ref_off'):
        half = g(rng.randint(60, 100))
        mid = [] if rng.random() < 0.5 else [STEP * rng.choice(GAPS)]
        first = 0 if family == 'palin_ref0' else STEP * rng.choice([1, 1, 2, 3, 10])
        refs = [_ref(ids[0], _walk(first, half + mid + half[::-1]), tail=STEP * rng.choice([0, 5]) if family == 'palin_ref0' else 5 * STEP),
                _ref(ids[1], _walk(STEP * 3, g(150)))]
        n1 = len(refs[0][2])
        for _ in range(2):      # a window centred on the centre of the palindrome (tie at one and the same place)
            w = rng.randint(5, 12)
            windows.append((0, n1 // 2 - w, 2 * w + (n1 % 2)))
    elif family == 'palin_query':
        refs = []
        for rid in ids:
            gaps = g(40)
            for _ in range(3):
                h = g(rng.randint(4, 9)); mid = [] if rng.random() < 0.5 else [STEP * rng.choice(GAPS)]
                windows.append((len(refs), len(gaps), 2 * len(h) + len(mid) + 1))
                gaps += h + mid + h[::-1] + g(rng.randint(15, 40))
            refs.append(_ref(rid, _walk(STEP * rng.choice([1, 3, 10]), gaps)))
    elif family == 'mirror_refs':
        pos = _walk(STEP * 2, g(180))
        refs = [_ref(ids[0], pos, tail=2 * STEP), _ref(ids[1], [pos[-1] + 2 * STEP - p for p in pos[::-1]], tail=2 * STEP)]
    elif family == 'invdup':
        gaps = g(60)
        for _ in range(3):
            blk = g(rng.randint(10, 18))
            windows.append((0, len(gaps), len(blk) + 1))
            gaps += blk + g(rng.randint(10, 30)) + blk[::-1] + g(rng.randint(10, 30))
        refs = [_ref(ids[0], _walk(STEP * 3, gaps)), _ref(ids[1], _walk(STEP, g(150)))]
    elif family == 'periodic':
        blk = g(rng.randint(3, 9))
        refs = [_ref(ids[0], _walk(STEP * rng.choice([0, 1, 4]), blk * rng.randint(8, 20) + g(20))),
                _ref(ids[1], _walk(STEP * 2, g(20) + blk[::-1] * rng.randint(4, 10)))]
    else:
        blk = g(rng.randint(8, 16))
        ga = g(20); gb = g(20)
        for _ in range(3):
            windows.append((0, len(ga), len(blk) + 1))
            ga += blk + g(rng.randint(5, 25))
        for _ in range(2):
            gb += (blk if rng.random() < 0.5 else blk[::-1]) + g(rng.randint(5, 25))
        refs = [_ref(ids[0], _walk(STEP * 2, ga)), _ref(ids[1], _walk(STEP * 5, gb))]
    qs = []; truth = {}; qid = rng.randint(1, 300)
    for k in range(nq):
        if windows and (k < len(windows) or rng.random() < 0.3):
            ri, a, n = windows[k] if k < len(windows) else rng.choice(windows)
            kind = 'window'
        else:
            ri = rng.randrange(len(refs)) if family not in ('palin_ref0', 'palin_ref_off') or rng.random() < 0.2 else 0
            n = rng.randint(8, 40); a = rng.randint(0, max(0, len(refs[ri][2]) - n))
            kind = 'cut'
        rp = refs[ri][2]
        w = rp[a:a + n]
        q = [p - w[0] for p in w]
        if rng.random() < 0.4:
            kind += '-noisy'
            keep = [p for p in q if rng.random() > 0.12]
            q = sorted(set(keep + [STEP * rng.randint(0, int(q[-1] // STEP)) for _ in range(rng.randint(0, 3))]))
        if len(q) < 6:
            continue
        q = [p - q[0] for p in q]
        if rng.random() < 0.5:
            q = [q[-1] - p for p in q[::-1]]
        m = [q[-1] - p for p in q[::-1]]
        off = rng.choice([0.0, 20.0, 1400.0, 1234.5]); tail = rng.choice([0.0, 0.0, 500.0])
        qa = [float(p + off) for p in q]; ma = [float(p + off) for p in m]
        qs.append((qid, qa[-1] + tail, qa)); qs.append((qid + MIRROR_ID, ma[-1] + tail, ma))
        truth[qid] = dict(kind=kind + ('-palindrome' if q == m else ''), ref=refs[ri][0], n=len(qa), palindrome=(q == m))
        qid += rng.choice([1, 1, 7])
    return dict(refs=refs, queries=qs, truth=truth, kind='ties-' + family)



def first_pass_candidates(cap, q):
    """captured first-pass candidates of molecule q: ({index: refined correlation}, {index: candidate row}) (see stage_of_difference)"""
    corr, rows = {}, {}
    for c in cap:
        if c['q'] != q or c['shift'] != 0:
            continue
        tgt = corr if c['t'] == 'corr' else rows if c['t'] == 'row' else None
        if tgt is None:
            continue
        if c['index'] in tgt:
            tgt['closed'] = True
        if not tgt.get('closed'):
            tgt[c['index']] = c
    corr.pop('closed', None); rows.pop('closed', None)
    return corr, rows


def primary_seeds(ds_dir, extra, qids):
    """INDEPENDENT RECOMPUTATION of the primary seeds with the code's own classes (CmapReader, OpticalMap.getInitialAlignment on both strands
    of every reference in the coordinator's order, PeaksSelector.selectPeaks): for every molecule in qids
    dict(all=[[reference id, reverse strand, position, score as float.hex()]...] in enumeration order, sel=the selected ones in order)"""
    from src.args import Args
    from src.parsers.cmap_reader import CmapReader
    from src.correlation.sequence_generator import SequenceGenerator
    from src.correlation.peaks_selector import PeaksSelector
    rp, qp = os.path.join(ds_dir, 'r.cmap'), os.path.join(ds_dir, 'q.cmap')
    args = Args.parse(['-r', rp, '-q', qp, '-o', os.devnull, '-pb', '-c', '1'] + [str(x) for x in extra])
    for f in (args.referenceFile, args.queryFile, args.outputFile):
        try: f.close()
        except Exception: pass
    with open(rp) as f: refs = CmapReader().readReferences(f, None)
    with open(qp) as f: qs = {int(m.moleculeId): m.trim() for m in CmapReader().readQueries(f, None)}
    prim = SequenceGenerator(args.primaryResolution, args.primaryBlur)
    out = {}
    for qid in qids:
        q = qs.get(qid)
        if q is None:
            continue
        corrs = []
        for r in refs:
            for rev in (False, True):
                c = q.getInitialAlignment(r, prim, args.minPeakDistance, args.peaksCount, reverseStrand=rev)
                if any(c.peaks):
                    corrs.append((int(r.moleculeId), rev, c))
        key = {id(c): (rid, rev) for rid, rev, c in corrs}
        rec = lambda c, p: [key[id(c)][0], key[id(c)][1], float(p.position), float(p.score).hex()]
        sel = PeaksSelector(args.peaksCount).selectPeaks(iter(c for _, _, c in corrs))
        out[qid] = dict(all=[rec(c, p) for _, _, c in corrs for p in c.peaks], sel=[rec(s.primaryCorrelation, s.peak) for s in sel])
    return out


def _best_index(rows):
    """__getBestAlignment: the first candidate of maximal confidence, in the order of the selected seeds"""
    ks = sorted(rows)
    return max(ks, key=lambda k: (rows[k]['conf'], -k)) if ks else None


def _row_is_record(row, rec, mirrored):
    """a captured candidate row against a record of the XMAP text (mirrored: the record is expected to be the row's mirror image)"""
    qs_, qe_ = (row['hdr'][1], row['hdr'][0]) if mirrored else (row['hdr'][0], row['hdr'][1])
    return (row['r'] == rec['r'] and (row['rev'] != (rec['ori'] == '-')) == mirrored and round(row['conf'], 2) == float(rec['conf']) and row['cigar'] == rec['hit']
            and float(rec['rs']) == row['hdr'][2] and float(rec['re']) == row['hdr'][3] and float(rec['qs']) == qs_ and float(rec['qe']) == qe_)


def tie_analysis(seeds_q, seeds_m, rows_q, rows_m, a, b):
    """is the asymmetry between record a (molecule q) and record b (mirror(q)) the order-decided choice among EXACTLY TIED candidates (F14)?
    Returns (True, description) only if ALL of the following hold on the recomputed seeds and the captured candidate rows:
      1. the seed peaks of mirror(q) are those of q with the strands exchanged, positions and scores bit for bit;
      2. the reported records are the first maximal-confidence candidates, their Confidence is equal, both are on the FORWARD strand of the
         same reference, and the float scores of their two seeds are exactly equal;
      3. the seed mirror(q) was reported from is, seen from q, a seed on the REVERSE strand of that reference with exactly that score
         (q's two tied seeds on opposite strands), and vice versa;
      4. where q's tied reverse-strand seed was among q's selected seeds, its candidate row is the mirror image of record b (so b is a
         candidate C11 permits, only not the one enumerated first), and likewise for mirror(q) and record a."""
    if seeds_q is None or seeds_m is None:
        return False, 'no recomputed seeds'
    flip = lambda l: sorted([x[0], not x[1], x[2], x[3]] for x in l)
    if flip(seeds_m['all']) != sorted(seeds_q['all']):
        return False, 'the seed peaks of mirror(q) are NOT those of q with the strands exchanged (mechanism B: the arrays differ)'
    for rows, sd in ((rows_q, seeds_q), (rows_m, seeds_m)):
        if sorted(rows) != list(range(len(sd['sel']))) or any((rows[k]['r'], rows[k]['rev']) != (sd['sel'][k][0], sd['sel'][k][1]) for k in rows):
            return False, 'captured candidate rows do not correspond to the recomputed selected seeds'
    ia, ib = _best_index(rows_q), _best_index(rows_m)
    if ia is None or ib is None or not _row_is_record(rows_q[ia], a, False) or not _row_is_record(rows_m[ib], b, False):
        return False, 'the records are not the first maximal-confidence candidates'
    sa, sb = seeds_q['sel'][ia], seeds_m['sel'][ib]
    if a['conf'] != b['conf'] or rows_q[ia]['conf'] != rows_m[ib]['conf']:
        return False, 'confidences differ'
    if sa[0] != sb[0] or sa[1] or sb[1]:
        return False, 'the two reports are not both on the forward strand of one reference'
    if sa[3] != sb[3]:
        return False, 'seed scores differ (%s vs %s)' % (sa[3], sb[3])
    twin_q = [sb[0], True, sb[2], sb[3]]; twin_m = [sa[0], True, sa[2], sa[3]]
    if twin_q not in seeds_q['all'] or twin_m not in seeds_m['all']:
        return False, 'no exactly tied seed on the opposite strand'
    for twin, sd, rows, rec in ((twin_q, seeds_q, rows_q, b), (twin_m, seeds_m, rows_m, a)):
        if twin in sd['sel'] and not _row_is_record(rows[sd['sel'].index(twin)], rec, True):
            return False, 'the tied candidate on the reverse strand is not the mirror image of the other record'
    return True, ('exact tie: seeds (ref %d, +, %.0f) and (ref %d, -, %.0f) of the molecule have the same score %s = %.17g and their rows the same Confidence %s; '
                  'both molecules report the one enumerated first (forward strand)%s' % (
                      sa[0], sa[2], sb[0], sb[2], sa[3], float.fromhex(sa[3]), a['conf'], '; same place: tie between the strands at one locus' if sa[2] == sb[2] else ''))


F14_TAG = '[F14-EXACT-TIE: '


class E2EMirrorTies(Stream):
    """tie-rich lattice data through the real program (see TIE_FAMILIES); oracle = the C11 statement, record of q vs record of mirror(q).
    A violation is routed to the open finding F14 only when tie_analysis (recomputed seeds + captured candidates) shows the cause.
    A palindromic molecule (mirror(q) has the same labels as q) cannot satisfy the statement under any deterministic program: there the
    oracle demands the two records to be identical."""
    name = 'e2e_mirror_ties'
    model = False
    quick_fam = ['palin_ref0', 'palin_ref0', 'palin_ref_off', 'palin_query', 'palin_query', 'mirror_refs', 'invdup', 'periodic', 'blocks']

    def gen(self, rng, tier):
        base = seeded_rng(getattr(self, 'seed', 0), 'C11-e2e-ties')
        fams = self.quick_fam if tier == 'quick' else TIE_FAMILIES * 4
        extras = [['-d', '650'], [], ['-d', '699', '-p', '6'], ['-d', '500', '-p', '1'], ['-d', '650', '-p', '2']]
        return [dict(ds_seed=base.randint(1, 10 ** 9), nq=10 if tier == 'quick' else 14, family=f,
                     extra=extras[0] if tier == 'quick' and k < 2 else extras[k % len(extras)]) for k, f in enumerate(fams)]

    def impl(self, case):
        ds = gen_ties_dataset(random.Random(case['ds_seed']), case['family'], nq=case['nq'])
        e2e.materialise(ds, 'c11t_%s_%d_%d' % (case['family'], case['ds_seed'], case['nq']))
        r = e2e.run_coma(os.path.join(ds['dir'], 'r.cmap'), os.path.join(ds['dir'], 'q.cmap'), ['-oM', 'separate'] + list(case['extra']),
                         cpus=1, capture=True)
        out = dict(rc=r.rc, stderr=r.stderr[-400:] if r.rc else '', pairs=[], compared=0, both_absent=0, seed_mismatch=[])
        if r.rc != 0:
            return out
        recs = {}
        for x in r.records('main') or []:
            recs.setdefault(x['q'], []).append({k: v for k, v in x.items() if k != 'raw'})
        cap = r.capture
        seeds = primary_seeds(ds['dir'], case['extra'], [m[0] for m in ds['queries']])
        for qid, t in sorted(ds['truth'].items()):
            mid = qid + MIRROR_ID
            sq, sm = seeds.get(qid), seeds.get(mid)
            # the seeding half, measured on every molecule: same seed peaks with the strands exchanged, bit for bit
            if sq is None or sm is None or sorted([x[0], not x[1], x[2], x[3]] for x in sm['all']) != sorted(sq['all']):
                out['seed_mismatch'].append(qid)
            a = recs.get(qid, []); b = recs.get(mid, [])
            if not a and not b:
                out['both_absent'] += 1
                continue
            out['compared'] += 1
            ent = dict(q=qid, kind=t['kind'], palindrome=t['palindrome'], npairs=len(a[0]['pairs']) if a else 0)
            if len(a) != 1 or len(b) != 1:
                diff = ['%d record(s) for molecule %d, %d for its mirror image %d' % (len(a), qid, len(b), mid)]
            elif t['palindrome']:
                keys = ('r', 'ori', 'conf', 'hit', 'rs', 're', 'qs', 'qe', 'pairs', 'qlen', 'rlen')
                diff = ['palindromic molecule: the records of the two identical molecules differ in %s' % k for k in keys if a[0][k] != b[0][k]]
            else:
                diff = compare_records(a[0], b[0], t['n'])
            ent['diff'] = diff
            if diff:
                ent['stage'] = stage_of_difference(cap, qid, mid)
                ent['a'] = a[:1]; ent['b'] = b[:1]
                ent['molecule'] = [m for m in ds['queries'] if m[0] == qid][0]
                ent['mirror'] = [m for m in ds['queries'] if m[0] == mid][0]
                if len(a) == 1 and len(b) == 1 and not t['palindrome']:
                    ok, why = tie_analysis(sq, sm, first_pass_candidates(cap, qid)[1], first_pass_candidates(cap, mid)[1], a[0], b[0])
                    ent['tie'] = dict(f14=ok, why=why)
            out['pairs'].append(ent)
        return out

    def oracle(self, case, out):
        if out['rc'] != 0:
            return ['COMA exited with status %s: %s' % (out['rc'], out['stderr'][-300:])]
        errs = []
        if out['seed_mismatch']:
            errs.append('the primary seed peaks of mirror(q) are not those of q with the strands exchanged (positions and scores bit for bit) for '
                        'molecule(s) %s' % out['seed_mismatch'][:5])
        routed = []
        for e in out['pairs']:
            if e['diff']:
                msg = 'molecule %d (%s) and its mirror image %d are not aligned mirror-symmetrically: %s [stage: %s]' % (
                    e['q'], e['kind'], e['q'] + MIRROR_ID, '; '.join(e['diff'][:3]), e.get('stage'))
                tie = e.get('tie') or {}
                if tie.get('f14'):
                    routed.append(msg + ' ' + F14_TAG + tie['why'] + ']')
                else:
                    errs.append(msg + (' [not the F14 signature: %s]' % tie['why'] if tie else ''))
        return errs[:4] + routed[:2]

    def finding(self, case, out, viol):
        return 'F14' if F14_TAG in viol else None

    def classify(self, case, out):
        k = ['family=%s' % case['family'], 'params=%s' % (' '.join(case['extra']) or 'default'), 'compared_pairs=%d' % out.get('compared', 0)]
        for e in out.get('pairs', []):
            if e['palindrome']:
                k.append('%s:palindromic molecule (C11 unsatisfiable): %s' % (case['family'], 'identical records' if not e['diff'] else 'RECORDS DIFFER'))
            else:
                k.append('%s:%s' % (case['family'], 'symmetric' if not e['diff'] else 'ASYMMETRIC, exact tie between the strands (F14)' if (e.get('tie') or {}).get('f14')
                                    else 'ASYMMETRIC, unexplained'))
        if not out.get('seed_mismatch') and out.get('rc') == 0:
            k.append('seed peaks of mirror(q) = seed peaks of q with strands exchanged, bit for bit (all molecules of the data set)')
        return k

    def nontrivial(self, case, out):
        return json.dumps(case, sort_keys=True) if out.get('compared', 0) >= 6 else None


# C11_seeding_mirror / C11_first_pass_mirror_refuted are statements about the executable seeding model (model/Seeding.v): its correspondence
# with the real seeding chain (harness/seeding.py, shared with C16 and C06) is part of this check too
from .. import seeding as _sd


class SeedingChain(_sd.SeedingChain):
    n_quick, n_thorough = 16, 80


STREAMS = [MirrorAlign(), MirrorAlignTies(), E2EMirror(), E2EMirrorTies(), SeedingChain()]

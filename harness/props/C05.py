"""C05 — At most one record per query: the best-scoring candidate, in query-id order."""
import itertools, json
from ..driver import Stream
from ..common import z, clist, seeded_rng
from .. import e2e, e2e_streams as es

ID = 'C05'
RULE = ('(1) whole runs of the real program in the four output modes on generated data sets with -p in {1, 3, 6}: text oracle on every '
        'output file + the captured candidates of every __align call; the Coordinator/MultiPass model re-run on the captured seeds must '
        'reproduce every file; (2) filterOutSubsequentAlignmentsForSingleQuery and __getBestAlignment on synthetic rows, exhaustively over '
        'all lists of up to 4 (quick) / 5 (thorough) rows with 2 query ids x 3 confidences and on random longer lists with many ties. '
        '(3) e2e_run_full_model: whole real runs (1 small data set, mode separate, in quick; 6 data sets of 6-12 queries, all four modes and four parameter '
        'sets between them, in thorough) against Seeding.program_run_full, the run model with the EXECUTABLE seeding stage: only the input maps and the '
        'command line parameters are given to the model, every output file must be reproduced (a run in which some map is flagged by harness/seeding.py '
        '- FFT rounding noise or an unspecified numpy arrangement may decide its seeds - may differ; none did: 7 of 7 runs reproduced exactly). '
        'non-trivial = run with at least one record / row list on which a query has two rows')
TRUSTED = ['adapter harness/e2e.py + e2e_runner.py (subprocess runs, capture through the extension mechanism, independent XMAP parser)',
           'synthetic AlignmentResultRow objects are built with the constructor (segments=[], explicit queryId/confidence)',
           'e2e_run_full_model: the flags of harness/seeding.py (computed by re-running the real seeding chain in process on every map the run seeded) '
           'decide whether a disagreement would be tolerated']
ASSUMPTIONS = ['coordinates on the 0.5 grid, so float arithmetic of the implementation is exact (confidences are multiples of 0.05)',
               'runs use one worker process (-c 1): the capture file then lists the __align calls in execution order']


# ------------------------------------------------------------------------------------------------ end to end
QUICK_SETS = [[], ['-p', '1'], ['-p', '6', '-diff', '20000', '-ss', '1']]
THOROUGH_SETS = es.PARAM_SETS + [['-p', '1', '-diff', '0'], ['-p', '6'], ['-p', '2', '-d', '2000', '-sp', '1000', '-dp', '2', '-su', '-500', '-ms', '500', '-bs', '2400', '-sj', '0.5']]


def cand_pairs(c):
    return [(int(p[1]), int(p[2])) for s in c['segs'] for p in s['pos'] if p[0] == 'P']


def candidate_runs(capture):
    """the captured candidate rows grouped per __align call, in execution order: [(key=(query id, shift, labels), [candidates by index])]"""
    runs, open_ = [], {}
    for c in capture:
        if c['t'] != 'row':
            continue
        k = (c['pid'], c['q'], c['shift'], c['nq'])
        if c['index'] == 0 or k not in open_:
            open_[k] = []
            runs.append(((c['q'], c['shift'], c['nq']), open_[k]))
        open_[k].append(c)
    return runs


def first_max(cands):
    """first maximum of the confidence in list order (what a stable descending sort puts first)"""
    best = None
    for c in cands:
        if best is None or c['conf'] > best['conf']:
            best = c
    return best


def same_record(rec, cand):
    return (rec['r'] == cand['r'] and (rec['ori'] == '-') == bool(cand['rev']) and [tuple(p) for p in rec['pairs']] == cand_pairs(cand)
            and rec['conf'] == '%.2f' % cand['conf'])


def describe(c):
    return 'candidate #%d (reference %d, %s, confidence %.2f, %d pairs)' % (c['index'], c['r'], '-' if c['rev'] else '+', c['conf'], len(cand_pairs(c)))


def unique_files(mode):
    """the files for which the property claims at most one record per query"""
    return {'best': ['main'], 'separate': ['main', '_1'], 'joined': ['main'], 'all': ['main', '_1', '_2']}[mode]


def oracle_run(case, out):
    errs = es.run_failures(out)
    if errs:
        return errs[:3]
    P = es.params_of(case['extra'])
    _, qs = es.maps_of(out)
    files = {(m, fk): f.get('rows', []) for m, mo in out['modes'].items() for fk, f in mo['files'].items()}
    # (a) at most one record per query; (b) ascending query ids, entry ids 1..n
    for m in out['modes']:
        for fk in unique_files(m):
            rows = files.get((m, fk))
            if rows is None:
                errs.append("mode '%s': file %s was not written" % (m, fk)); continue
            ids = [r['q'] for r in rows]
            for q in sorted(set(ids)):
                if ids.count(q) > 1:
                    errs.append("mode '%s' file %s: %d records for query %d" % (m, fk, ids.count(q), q))
            if ids != sorted(ids):
                errs.append("mode '%s' file %s: records not in ascending query id: %s" % (m, fk, ids[:12]))
            if [r['id'] for r in rows] != list(range(1, len(rows) + 1)):
                errs.append("mode '%s' file %s: XmapEntryID column is not 1..%d" % (m, fk, len(rows)))
    # (c) candidates: at most peaksCount per __align call; the first-pass record is the first maximum among the whole-query candidates
    runs = candidate_runs(out['capture'])
    for k, cands in runs:
        if len(cands) > P['p'] or [c['index'] for c in cands] != list(range(len(cands))):
            errs.append('query %d (shift %d, %d labels): %d candidates built with peaksCount = %d (indexes %s)' % (
                k[0], k[1], k[2], len(cands), P['p'], [c['index'] for c in cands][:10]))
    first, second = {}, {}
    for k, cands in runs:
        q = k[0]
        whole = k[1] == 0 and q in qs and k[2] == len(qs[q]['labels'])
        if whole and q not in first:
            first[q] = cands
        else:
            second.setdefault(q, []).append(cands)
    for m, fk in (('separate', 'main'), ('all', '_1')):
        recs = {}
        for r in files.get((m, fk), []):
            recs.setdefault(r['q'], r)
        for q in sorted(set(first) | set(recs)):
            best = first_max(first.get(q, []))
            rec = recs.get(q)
            want = best is not None and bool(cand_pairs(best))
            if want and rec is None:
                errs.append("mode '%s' file %s: query %d has no first-pass record although its best %s has pairs" % (m, fk, q, describe(best)))
            elif not want and rec is not None:
                errs.append("mode '%s' file %s: query %d has a first-pass record although %s" % (
                    m, fk, q, 'no candidate was built' if best is None else 'its best %s has no pair' % describe(best)))
            elif want and not same_record(rec, best):
                errs.append("mode '%s' file %s: first-pass record of query %d (reference %d, %s, confidence %s, %d pairs) is not the first "
                            "highest-confidence candidate: %s; all candidates: %s" % (
                                m, fk, q, rec['r'], rec['ori'], rec['conf'], len(rec['pairs']), describe(best),
                                [('%.2f' % c['conf'], len(cand_pairs(c))) for c in first[q]]))
    # second pass: per fragment the first maximum, dropped when pair-less; per query the first maximum of those, in fragment order
    for m, fk in (('separate', '_1'), ('all', '_2')):
        recs = {}
        for r in files.get((m, fk), []):
            recs.setdefault(r['q'], r)
        for q in sorted(set(second) | set(recs)):
            kept = [b for b in (first_max(c) for c in second.get(q, [])) if b is not None and cand_pairs(b)]
            best = first_max(kept)
            rec = recs.get(q)
            if best is None and rec is not None:
                errs.append("mode '%s' file %s: second-pass record for query %d but no fragment candidate with pairs" % (m, fk, q))
            elif best is not None and rec is None:
                errs.append("mode '%s' file %s: no second-pass record for query %d although a fragment's best %s has pairs" % (m, fk, q, describe(best)))
            elif best is not None and (not same_record(rec, best) or rec['rest'] != 'True'):
                errs.append("mode '%s' file %s: second-pass record of query %d (confidence %s, %d pairs, AlignedRest %s) is not the best fragment "
                            "candidate: %s" % (m, fk, q, rec['conf'], len(rec['pairs']), rec['rest'], describe(best)))
    # (d) 'best': exactly the queries that have a first-pass or a second-pass record, once each
    have = sorted(set(r['q'] for r in files.get(('separate', 'main'), [])) | set(r['q'] for r in files.get(('separate', '_1'), [])))
    got = [r['q'] for r in files.get(('best', 'main'), [])]
    for q in have:
        if got.count(q) != 1:
            errs.append("mode 'best': query %d has a first- or second-pass alignment but %d records in the output" % (q, got.count(q)))
    for q in sorted(set(got) - set(have)):
        errs.append("mode 'best': record for query %d, which has neither a first-pass nor a second-pass alignment" % q)
    return errs[:4]


def self_joins(out):
    """queries whose second-pass record beats the first-pass record (the row 'best' mode joins with itself when its span <= maxDifference)"""
    files = {(m, fk): f.get('rows', []) for m, mo in out['modes'].items() for fk, f in mo['files'].items()}
    A = {r['q']: r for r in files.get(('separate', 'main'), [])}
    B = {r['q']: r for r in files.get(('separate', '_1'), [])}
    best = {r['q']: r for r in files.get(('best', 'main'), [])}
    res = []
    for q, b in B.items():
        a = A.get(q)
        if a is None or float(b['conf']) > float(a['conf']):
            r = best.get(q)
            res.append((q, None if r is None else float(r['conf']) < float(b['conf'])))
    return res


class Files(es.E2EStream):
    name = 'e2e_files'
    quick_n, thorough_n = 3, 8
    nq_quick, nq_thorough = 24, 32

    def gen(self, rng, tier):
        base = seeded_rng(getattr(self, 'seed', 0), 'e2e-shared')
        sets = QUICK_SETS if tier == 'quick' else THOROUGH_SETS
        n = self.quick_n if tier == 'quick' else self.thorough_n
        nq = self.nq_quick if tier == 'quick' else self.nq_thorough
        cases = [dict(ds_seed=base.randint(1, 10 ** 9), nq=nq, extra=sets[k % len(sets)]) for k in range(n)]
        if tier != 'quick':
            # a run on which 'best' mode joins a second-pass row with itself and thereby drops its later segments (query 246:
            # first pass 7082.50, second pass 8329.50, 'best' record 3058.50); C05 itself (one record per query) holds on it
            cases.append(dict(ds_seed=538443628, nq=40, extra=[]))
        return cases

    def oracle(self, case, out):
        return oracle_run(case, out)

    def classify(self, case, out):
        k = super().classify(case, out)
        runs = candidate_runs(out.get('capture', []))
        k.append('candidates per call max=%d' % max([len(c) for _, c in runs] or [0]))
        if any(len(set('%.2f' % x['conf'] for x in c)) < len(c) for _, c in runs if len(c) > 1):
            k.append('confidence tie among the candidates of a call')
        sj = self_joins(out)
        if sj:
            k.append('second-pass row beats first-pass row')
        if any(worse for _, worse in sj):
            k.append("'best' record below the best row (self-join dropped segments)")
        return k


def independent_seeds(rp, qp, extra):
    """the candidates the property prescribes, recomputed outside the coordinator from the public components: for every query the top
    peaksCount primary peaks over ALL references and BOTH strands (stable descending sort by peak score, references in reading order,
    forward before reverse), each refined into its list of secondary peaks"""
    from src.args import Args
    from src.parsers.cmap_reader import CmapReader
    from src.correlation.sequence_generator import SequenceGenerator
    a = Args.parse(['-r', rp, '-q', qp] + list(extra))
    with a.referenceFile:
        refs = CmapReader().readReferences(a.referenceFile, a.referenceIds)
    with a.queryFile:
        queries = [q.trim() for q in CmapReader().readQueries(a.queryFile, a.queryIds)]
    prim = SequenceGenerator(a.primaryResolution, a.primaryBlur)
    sec = SequenceGenerator(a.secondaryResolution, a.secondaryBlur)
    res = {}
    for q in queries:
        found = []
        for r in refs:
            for rev in (False, True):
                ia = q.getInitialAlignment(r, prim, a.minPeakDistance, a.peaksCount, reverseStrand=rev)
                found.extend((ia, p) for p in ia.peaks)
        top = sorted(found, key=lambda t: t[1].score, reverse=True)[:a.peaksCount]
        lst = []
        for ia, p in top:
            sc = ia.refine(p.position, sec, a.secondaryMargin, a.peakHeightThreshold)
            lst.append([int(sc.reference.moleculeId), bool(sc.reverseStrand), [float(x.position) for x in sc.peaks]])
        res[int(q.moleculeId)] = lst
    return res


class Seeds(es.E2EStream):
    """are the candidates of a query built from exactly the seeds the property prescribes?  The captured seeds of the real run (first
    __align call of every whole query) are compared with an independent recomputation from the public components."""
    name = 'e2e_seeds'
    quick_n, thorough_n = 2, 6
    nq_quick, nq_thorough = 16, 28

    def gen(self, rng, tier):
        base = seeded_rng(getattr(self, 'seed', 0), 'e2e-shared')
        sets = [[], ['-p', '6'], ['-p', '1'], ['-p', '2']]
        n = self.quick_n if tier == 'quick' else self.thorough_n
        nq = self.nq_quick if tier == 'quick' else self.nq_thorough
        return [dict(ds_seed=base.randint(1, 10 ** 9), nq=nq, extra=sets[k % len(sets)]) for k in range(n)]

    def impl(self, case):
        import os
        out = es.run_dataset(case, modes=['separate'], capture_mode='separate')
        d = e2e.dataset_dir('ds%d_%d' % (case['ds_seed'], case['nq']))
        try:
            out['independent'] = {str(k): v for k, v in independent_seeds(os.path.join(d, 'r.cmap'), os.path.join(d, 'q.cmap'), case['extra']).items()}
        except Exception as e:
            out['independent_error'] = type(e).__name__ + ': ' + str(e)[:200]
        return out

    def oracle(self, case, out):
        errs = es.run_failures(out)
        if 'independent_error' in out:
            return errs + ['independent recomputation of the seeds failed: ' + out['independent_error']]
        _, qs = es.maps_of(out)
        got = {}
        for c in out['capture']:
            if c['t'] == 'corr' and c['shift'] == 0:
                got.setdefault((c['pid'], c['q']), {})
                if c['index'] in got[(c['pid'], c['q'])]:
                    continue                      # a later __align call for a prefix fragment of the same molecule
                got[(c['pid'], c['q'])][c['index']] = [c['r'], c['rev'], [float(p) for p in c['peaks']]]
        byq = {}
        for (pid, q), d in got.items():
            byq.setdefault(q, [d[i] for i in sorted(d)])
        # every seed must yield a candidate row (the best one is chosen among ALL of them)
        nrows = {}
        seen = set()
        first_pid = {}
        for c in out['capture']:       # the first-pass call of a query comes first; a second-pass fragment (+3/-2 label margins) can be the
            if c['shift'] == 0:        # WHOLE molecule again (same label count, shift 0), aligned by a worker of the second pool
                first_pid.setdefault(c['q'], c['pid'])
        for c in out['capture']:
            if c['t'] == 'row' and c['shift'] == 0 and int(c['q']) in qs and c['nq'] == len(qs[int(c['q'])]['labels']) and c['pid'] == first_pid[c['q']]:
                key = (c['pid'], c['q'], c['index'])
                if key in seen:
                    continue
                seen.add(key)
                nrows[c['q']] = nrows.get(c['q'], 0) + 1
        for q, want in out['independent'].items():
            if nrows.get(int(q), 0) != len(want):
                errs.append('query %s: %d candidate alignments were built from %d seed peaks' % (q, nrows.get(int(q), 0), len(want)))
        for q, want in sorted(out['independent'].items(), key=lambda kv: int(kv[0])):
            have = byq.get(int(q), [])
            if have != want:
                errs.append('query %s: the candidates were built from seeds %s, but the top peaksCount seed peaks over all references and both strands are %s' % (
                    q, [(r, '-' if v else '+', len(p)) for r, v, p in have], [(r, '-' if v else '+', len(p)) for r, v, p in want]))
        return errs[:3]

    def classify(self, case, out):
        ind = out.get('independent', {})
        k = ['params=%s' % (' '.join(case['extra']) or 'default'), 'queries=%d' % len(ind)]
        k.append('max seeds per query=%d' % max([len(v) for v in ind.values()] or [0]))
        if any(len(set((r, v) for r, v, _ in lst)) > 1 for lst in ind.values()): k.append('seeds on several references/strands')
        return k

    def nontrivial(self, case, out):
        return json.dumps(case, sort_keys=True) if any(out.get('independent', {}).values()) else None


class RunModel(es.RunModelStream):
    e2e_cls = Files


# ------------------------------------------------------------------------------------------------ in process: filter / best on synthetic rows
ROWS_PRELUDE = '''From Coq Require Import ZArith List Bool. Import ListNotations.
Require Import Py Pairing Core Multi Coordinator. Open Scope Z_scope.
Notation t3 := (Z * Z * Z)%type.
Definition mk (t : t3) : row := match t with (q, tag, c) => mkRow [] q tag 0 0 0 0 0 0 false c false end.
Definition key (w : row) : t3 := (qid w, rid w, conf w).
Definition eq3 (a b : t3) := match a, b with (a1,a2,a3),(b1,b2,b3) => (a1=?b1)&&(a2=?b2)&&(a3=?b3) end.
Fixpoint eql (a b : list t3) := match a, b with [], [] => true | x::s, y::t => eq3 x y && eql s t | _, _ => false end.
(* case: rows (query id, tag, confidence x2); expected: filtered rows, tag of the best row (0 = None) *)
Definition check (c : list t3 * (list t3 * Z)) : Z :=
  let rows := List.map mk (fst c) in
  if eql (List.map key (filter_subsequent rows)) (fst (snd c)) &&
     ((match best_alignment rows with None => 0 | Some w => rid w end) =? snd (snd c)) then 0 else 1.
'''


def run_rows(rows):
    from src.alignment.alignment_results import AlignmentResultRow, AlignmentResults
    from src.workflow_coordinator import _WorkflowCoordinator
    objs = [AlignmentResultRow([], queryId=q, referenceId=i + 1, confidence=c2 / 2.0) for i, (q, c2) in enumerate(rows)]
    out = {}
    try:
        f = AlignmentResults.filterOutSubsequentAlignmentsForSingleQuery(list(objs))
        out['filter'] = [[int(r.queryId), int(r.referenceId), int(round(r.confidence * 2))] for r in f]
        out['identity'] = all(any(r is o for o in objs) for r in f)
    except Exception as e:
        out['filter_err'] = type(e).__name__
    try:
        b = _WorkflowCoordinator._WorkflowCoordinator__getBestAlignment(tuple(objs))
        out['best'] = 0 if b is None else int(b.referenceId)
    except Exception as e:
        out['best_err'] = type(e).__name__
    return out


def oracle_rows(rows, out):
    errs = []
    if 'filter_err' in out or 'best_err' in out:
        return ['raised %s' % (out.get('filter_err') or out.get('best_err'))]
    f = out['filter']
    ids = [r[0] for r in f]
    if ids != sorted(set(q for q, _ in rows)):
        errs.append('filter: query ids %s, expected each input id once, ascending: %s' % (ids, sorted(set(q for q, _ in rows))))
    if not out.get('identity', True):
        errs.append('filter: returned a row that is not one of the input rows')
    for q, tag, c2 in f:
        mine = [(i + 1, c) for i, (qq, c) in enumerate(rows) if qq == q]
        top = max(c for _, c in mine) if mine else None
        firsttag = next((t for t, c in mine if c == top), None)
        if tag != firsttag:
            errs.append('filter: query %d keeps row #%d (confidence %s), the first highest-confidence row is #%s (%s); rows %s' % (
                q, tag, c2 / 2.0, firsttag, None if top is None else top / 2.0, rows))
    if rows:
        top = max(c for _, c in rows)
        firsttag = next(i + 1 for i, (_, c) in enumerate(rows) if c == top)
        if out['best'] != firsttag:
            errs.append('__getBestAlignment returned row #%s, the first highest-confidence row is #%d; confidences %s' % (
                out['best'], firsttag, [c / 2.0 for _, c in rows]))
    elif out['best'] != 0:
        errs.append('__getBestAlignment of no rows returned a row')
    return errs[:3]


class RowsBase(Stream):
    prelude = ROWS_PRELUDE
    shard = 800

    def impl(self, case):
        return run_rows(case['rows'])

    def term(self, case, out):
        rows = clist('(%s,%s,%s)' % (z(q), z(i + 1), z(c)) for i, (q, c) in enumerate(case['rows']))
        f = clist('(%s,%s,%s)' % (z(a), z(b), z(c)) for a, b, c in out.get('filter', [[-1, -1, -1]]))
        return '(%s, (%s, %s))' % (rows, f, z(out.get('best', -1)))

    def oracle(self, case, out):
        return oracle_rows(case['rows'], out)

    def classify(self, case, out):
        rows = case['rows']
        k = ['rows=%s' % (len(rows) if len(rows) < 6 else '6+')]
        byq = {}
        for q, c in rows:
            byq.setdefault(q, []).append(c)
        if any(len(v) > 1 for v in byq.values()): k.append('query with several rows')
        if any(v.count(max(v)) > 1 for v in byq.values()): k.append('tie for the best row of a query')
        if rows and [c for _, c in rows].count(max(c for _, c in rows)) > 1: k.append('tie for the best row overall')
        return k

    def nontrivial(self, case, out):
        rows = case['rows']
        return repr(rows) if len(set(q for q, _ in rows)) < len(rows) else None


class RowsExhaustive(RowsBase):
    name = 'rows_exhaustive'
    exhaustive = True

    def gen(self, rng, tier):
        n = 4 if tier == 'quick' else 5
        alphabet = [(q, c) for q in (2, 1) for c in (0, 3, 7)]
        return [dict(rows=[list(x) for x in s]) for k in range(0, n + 1) for s in itertools.product(alphabet, repeat=k)]


class RowsRandom(RowsBase):
    name = 'rows_random'
    shard = 300

    def gen(self, rng, tier):
        n = 1500 if tier == 'quick' else 12000
        out = []
        for _ in range(n):
            L = rng.randint(1, 40)
            nid = rng.choice([1, 2, 3, 5, 12])
            ids = rng.sample(range(1, 600), nid)
            vals = rng.choice([[0, 1], list(range(-4, 5)), [2000, 2001, 6999, 7000, 12345], list(range(0, 40000, 7))])
            out.append(dict(rows=[[rng.choice(ids), rng.choice(vals)] for _ in range(L)]))
        return out


# whole runs against the run model with the EXECUTABLE seeding stage (no captured seeds): harness/seeding.py
from .. import seeding as _sd

STREAMS = [RowsExhaustive(), RowsRandom(), Files(), RunModel(), Seeds(), _sd.RunFullModelStream()]

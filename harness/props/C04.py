"""C04 — Confidence is exactly the configured score of what is reported."""
from .C15 import AlignStream
from .. import pipeline as pl

ID = 'C04'
RULE = ('Aligner.align candidates (same generators as C15, with a larger share of non-default -sp/-dp/-su/-ms/-bs/-d drawn from the exactly '
        'representable grid); every position score, segment score and the confidence are recomputed from the raw maps, the segment peak '
        'and the parameters the harness passed. non-trivial = distinct case whose row has at least one pair and one unpaired label inside a segment')
TRUSTED = ['adapter harness/pipeline.py']
ASSUMPTIONS = ['coordinates are multiples of 0.5, dp in {0.5, 1, 2}: float arithmetic of the implementation is exact on these inputs']


class ScoreStream(AlignStream):
    name = 'align_scores'
    prelude = pl.ALIGN_CHECK
    weights = dict(realistic=5, blocks=3, dense=3, boundary=2, folding=1, fragment=2)

    def gen(self, rng, tier):
        cases = super().gen(rng, tier)
        for c in cases:
            if c['kind'] in ('realistic', 'blocks', 'fragment') and rng.random() < 0.6:
                c['P'].update(sp=rng.choice([1000, 800, 1500, 400]), dp=rng.choice([1.0, 0.5, 2.0]), su=rng.choice([-250, -100, -500, 0, -1000]),
                              ms=rng.choice([1000, 500, 2500, 100]), bs=rng.choice([1200, 400, 3000, 100]))
        return cases

    def oracle(self, case, out):
        return pl.oracle_confidence(case, out)

    def nontrivial(self, case, out):
        if 'err' in out:
            return None
        kinds = set(p[0] for s in out['segs'] for p in s[2])
        if 0 in kinds and (1 in kinds or 2 in kinds):
            return repr((case['ref'], case['qry'], case['peaks'], case['rev'], sorted(case['P'].items())))
        return None


STREAMS = [ScoreStream()]

"""C04 — Confidence is exactly the configured score of what is reported.

Streams
  align_scores     Aligner.align candidates on generated inputs, model correspondence + oracle (pipeline.oracle_confidence)
  e2e_confidence   real CLI runs in the four output modes with non-default -sp/-dp/-su/-d/-ms/-bs from the exactly representable grid;
                   oracle only, independent of the model: every captured candidate row is re-scored from the CMAP text, the captured
                   segment peaks and the parameters the harness put on the command line, and the Confidence column of every record of
                   every output file must be explained by a captured candidate of the same (query, reference, strand) and pair list
                   (joined records: by a prefix of the first segment of one candidate plus a suffix of the first segment of another)
  e2e_candidates   the captured candidates replayed through the pipeline model with the parameters of the command line
                   (a CLI value wired to the wrong component shows up as a correspondence disagreement)
"""
import os
from .C15 import AlignStream
from .. import pipeline as pl
from .. import e2e, e2e_streams as es
from ..common import seeded_rng

ID = 'C04'
RULE = ('(1) Aligner.align candidates (generators of C15 with a larger share of non-default -sp/-dp/-su/-ms/-bs/-d from the exactly representable '
        'grid): every position score, offset, segment score and the confidence recomputed from the raw maps, the segment peak and the parameters '
        'passed; non-trivial = distinct case whose row has a pair and an unpaired label inside a segment. '
        '(2) end-to-end CLI runs (4 output modes) with non-default scoring parameters: every captured candidate re-scored from the CMAP text, '
        'Confidence of every record of every file explained by a captured candidate (joined: two trimmed first segments); '
        'non-trivial = data set with at least one record. (3) captured candidates replayed through the model with the CLI parameters')
TRUSTED = ['adapter harness/pipeline.py', 'capture extension harness/e2e_runner.py (registered through COMA\'s own extension mechanism)',
           'independent CMAP/XMAP text parsers harness/e2e.py']
ASSUMPTIONS = ['coordinates are multiples of 0.5, dp in {0.5, 1, 2}, integer sp/su/ms/bs/d: float arithmetic of the implementation is exact on these inputs',
               'unmatchedPenalty <= 0 and minScore > 0 (otherwise the constructors / getScoredPosition raise ValueError and nothing is reported)',
               'Confidence is written with two decimals; compared to within 0.005']


class ScoreStream(AlignStream):
    name = 'align_scores'
    weights = dict(realistic=5, blocks=3, dense=3, boundary=2, folding=1, fragment=2)
    quick_n, thorough_n = 1500, 30000       # the same generators run 4000 / 6000 cases through the same model in C15 / C01

    def gen(self, rng, tier):
        cases = super().gen(rng, tier)
        for c in cases:
            if c['kind'] in ('realistic', 'blocks', 'fragment') and rng.random() < 0.6:
                c['P'].update(sp=rng.choice([1000, 800, 1500, 400]), dp=rng.choice([1.0, 0.5, 2.0]), su=rng.choice([-250, -100, -500, 0, -1000]),
                              ms=rng.choice([1000, 500, 2500, 100]), bs=rng.choice([1200, 400, 3000, 100]))
        return cases

    def oracle(self, case, out):
        return pl.oracle_confidence(case, out)

    def nontrivial(self, case, out):
        if 'err' in out:
            return None
        kinds = set(p[0] for s in out['segs'] for p in s[2])
        if 0 in kinds and (1 in kinds or 2 in kinds):
            return repr((case['ref'], case['qry'], case['peaks'], case['rev'], sorted(case['P'].items())))
        return None


# ------------------------------------------------------------------------------------------------ end to end
# every set changes all six scoring values; ms != bs and sp != -su everywhere so that swapped wiring changes the outcome
SCORE_PARAM_SETS = [
    ['-d', '1234', '-sp', '800', '-dp', '0.5', '-su', '-100', '-ms', '1500', '-bs', '900'],      # -d not a multiple of -r2 / of 50
    ['-d', '2000', '-sp', '1000', '-dp', '2', '-su', '-500', '-ms', '500', '-bs', '2400', '-sj', '0.5'],
    ['-d', '951', '-sp', '1500', '-dp', '1', '-su', '-300', '-ms', '3000', '-bs', '1000'],
    ['-d', '1649', '-sp', '600', '-dp', '0.5', '-su', '-50', '-ms', '700', '-bs', '2000', '-p', '5'],
    ['-d', '2500', '-sp', '1200', '-dp', '1', '-su', '0', '-ms', '2400', '-bs', '600'],
    ['-d', '1000', '-sp', '400', '-dp', '0.5', '-su', '-400', '-ms', '400', '-bs', '1600', '-diff', '30000'],
    ['-d', '1777', '-sp', '2000', '-dp', '2', '-su', '-1000', '-ms', '2000', '-bs', '4000', '-ss', '1'],
    [],
]
TOL = 0.005


def cmap_maps(case, out):
    """the maps as an independent parser reads them from the CMAP files the run was given (fallback: the generated data set)"""
    d = e2e.dataset_dir('ds%d_%d' % (case['ds_seed'], case['nq']))
    rp, qp = os.path.join(d, 'r.cmap'), os.path.join(d, 'q.cmap')
    if os.path.exists(rp) and os.path.exists(qp):
        try:
            refs, qs = e2e.read_cmap_indep(rp), e2e.read_cmap_indep(qp)
            mo = es.maps_of(out)
            if set(refs) == set(mo[0]) and set(qs) == set(mo[1]) and all(refs[k]['labels'] == mo[0][k]['labels'] for k in refs) \
                    and all(qs[k]['labels'] == mo[1][k]['labels'] for k in qs):
                return refs, qs
        except Exception:
            pass
    return es.maps_of(out)


def rescore_segment(seg, R, full, qlen, rev, P, errs, tag):
    """list of (kind, rsite, qsite, score) of a captured segment with every score recomputed from label coordinates, the peak and P"""
    peak = seg['peak']
    res = []
    for p in seg['pos']:
        if p[0] == 'P':
            rs, qsite = p[1], p[2]
            if not (1 <= rs <= len(R) and 1 <= qsite <= len(full)):
                errs.append('%spair (%d,%d) names a label that does not exist' % (tag, rs, qsite))
                res.append(('P', rs, qsite, 0.0))
                continue
            qc = (qlen - 1 - full[qsite - 1]) if rev else full[qsite - 1]
            off = qc - (R[rs - 1] - peak)
            if abs(off) > P['d']:
                errs.append('%spair (%d,%d) lies %.1f from the diagonal of its segment\'s peak %.1f, beyond -d %s' % (tag, rs, qsite, off, peak, P['d']))
            res.append(('P', rs, qsite, P['sp'] - P['dp'] * abs(off)))
        elif p[0] == 'R':
            res.append(('R', p[1], 0, float(P['su'])))
        else:
            res.append(('Q', 0, p[1], float(P['su'])))
    return res


def candidates_of(case, out, errs):
    """{(query, reference, reverse): [candidate]}; candidate = dict(pairs, conf (recomputed), segs (re-scored positions), first_pass)"""
    P = es.params_of(case['extra'])
    refs, qs = cmap_maps(case, out)
    idx = {}
    n = 0
    for r in out['capture']:
        if r['t'] != 'row':
            continue
        R = refs.get(r['r']); Q = qs.get(r['q'])
        if R is None or Q is None:
            errs.append('candidate names an unknown map (%s, %s)' % (r['q'], r['r']))
            continue
        ql = Q['labels']
        full = [p - ql[0] for p in ql]
        qlen = ql[-1] - ql[0] + 1
        tag = 'candidate %d of query %d on reference %d (%s): ' % (r['index'], r['q'], r['r'], '-' if r['rev'] else '+')
        segs = []
        total = 0.0
        seen_pairs = set()
        for s in r['segs']:
            sc = rescore_segment(s, R['labels'], full, qlen, r['rev'], P, errs, tag)
            ssum = sum(x[3] for x in sc)
            if abs(ssum - s['score']) > 1e-6:
                errs.append('%ssegment at peak %.1f has score %.4f, its positions re-scored from the maps and the command line sum to %.4f'
                            % (tag, s['peak'], s['score'], ssum))
            labs_r = [x[1] for x in sc if x[0] in 'PR']; labs_q = [x[2] for x in sc if x[0] in 'PQ']
            if len(set(labs_r)) != len(labs_r) or len(set(labs_q)) != len(labs_q):
                errs.append('%sa label is counted twice inside the segment at peak %.1f' % (tag, s['peak']))
            segs.append(sc)
            total += ssum
        if len(r['segs']) == 1 and segs[0]:
            # a row with a single segment never went through conflict resolution: the segment is exactly what the factory built,
            # so it must respect the -ms / -bs values of the command line (C13 run conditions, re-checked here on re-scored positions)
            run = 0.0; best = 0.0
            if total < P['ms'] - 1e-6:
                errs.append('%sthe only segment scores %.2f, below -ms %s' % (tag, total, P['ms']))
            for x in segs[0]:
                run += x[3]
                if run <= max(0.0, best - P['bs']) + 1e-9:
                    errs.append('%sinside the only segment the running score falls to %.2f after a best of %.2f: a drop of -bs %s or more '
                                'must end the segment' % (tag, run, best, P['bs']))
                    break
                best = max(best, run)
        if abs(total - r['conf']) > 1e-6:
            errs.append('%sconfidence %.4f, recomputed %.4f' % (tag, r['conf'], total))
        pairs = [(x[1], x[2]) for sc in segs for x in sc if x[0] == 'P']
        first_pass = r['shift'] == 0 and r['nq'] == len(full)
        idx.setdefault((r['q'], r['r'], bool(r['rev'])), []).append(dict(pairs=pairs, conf=total, segs=segs, first_pass=first_pass, index=r['index']))
        n += 1
    return idx, n


def joined_values(S1, S2, pairs):
    """confidences a joined record with the given pair list can have if it consists of a prefix of segment S1 and a suffix of S2"""
    p1 = [i for i, x in enumerate(S1) if x[0] == 'P']; p2 = [i for i, x in enumerate(S2) if x[0] == 'P']
    k1 = [(S1[i][1], S1[i][2]) for i in p1]; k2 = [(S2[i][1], S2[i][2]) for i in p2]
    vals = []
    for i in range(0, min(len(k1), len(pairs)) + 1):
        if k1[:i] != pairs[:i]:
            break
        rest = pairs[i:]
        j = len(k2) - len(rest)
        if j < 0 or k2[j:] != rest:
            continue
        lo1 = (p1[i - 1] + 1) if i > 0 else 0
        hi1 = p1[i] if i < len(p1) else len(S1)
        lo2 = (p2[j - 1] + 1) if j > 0 else 0
        hi2 = p2[j] if j < len(p2) else len(S2)
        for n in range(lo1, hi1 + 1):
            a = sum(x[3] for x in S1[:n])
            for m in range(lo2, hi2 + 1):
                vals.append(a + sum(x[3] for x in S2[m:]))
    return vals


def check_record_confidence(r, cands, errs, tag=''):
    key = (r['q'], r['r'], r['ori'] == '-')
    cs = cands.get(key, [])
    try:
        conf = float(r['conf'])
    except ValueError:
        errs.append('%squery %d: Confidence %r is not a number' % (tag, r['q'], r['conf']))
        return None
    same = [c for c in cs if c['pairs'] == r['pairs']]
    if any(abs(c['conf'] - conf) <= TOL for c in same):
        return 'candidate'
    vals = []
    for a in cs:
        for b in cs:
            if a is b or not a['segs'] or not b['segs'] or a['first_pass'] == b['first_pass']:
                continue
            vals.extend(joined_values(a['segs'][0], b['segs'][0], r['pairs']))
    if any(abs(v - conf) <= TOL for v in vals):
        return 'joined'
    if same:
        errs.append('%squery %d on reference %d (%s): Confidence %s, but the candidate with these pairs re-scored from the maps and the command '
                    'line gives %.2f' % (tag, r['q'], r['r'], r['ori'], r['conf'], same[0]['conf']))
    elif vals:
        errs.append('%squery %d on reference %d (%s): Confidence %s of a joined record; the two trimmed segments re-scored give %s'
                    % (tag, r['q'], r['r'], r['ori'], r['conf'], ', '.join('%.2f' % v for v in sorted(set(vals))[:4])))
    else:
        errs.append('%squery %d on reference %d (%s): Confidence %s of a record that no captured candidate (or pair of candidates) explains'
                    % (tag, r['q'], r['r'], r['ori'], r['conf']))
    return None


class Files(es.E2EStream):
    name = 'e2e_confidence'
    quick_n, thorough_n = 3, 12

    def gen(self, rng, tier):
        base = seeded_rng(getattr(self, 'seed', 0), 'e2e-shared')
        n = self.quick_n if tier == 'quick' else self.thorough_n
        nq = self.nq_quick if tier == 'quick' else self.nq_thorough
        cases = [dict(ds_seed=base.randint(1, 10 ** 9), nq=nq, extra=SCORE_PARAM_SETS[k % len(SCORE_PARAM_SETS)]) for k in range(n)]
        # fill the run cache for all data sets concurrently (each data set = 4 subprocesses); impl() then reads the cache
        from concurrent.futures import ThreadPoolExecutor
        with ThreadPoolExecutor(max_workers=4) as ex:
            list(ex.map(es.run_dataset, cases))
        return cases

    def oracle(self, case, out):
        errs = es.run_failures(out)
        cands, n = candidates_of(case, out, errs)
        if n == 0 and any(f.get('rows') for mo in out['modes'].values() for f in mo['files'].values()):
            errs.append('records were written but no candidate was captured')
        for m, fk, r in es.all_records(out):
            check_record_confidence(r, cands, errs, tag='[mode %s file %s] ' % (m, fk))
        return sorted(set(errs))[:4]

    def classify(self, case, out):
        k = super().classify(case, out)
        try:
            errs = []
            cands, n = candidates_of(case, out, errs)
            k.append('candidates=%s' % ('0' if n == 0 else '1-99' if n < 100 else '100+'))
            kinds = set()
            for m, fk, r in es.all_records(out):
                kinds.add(check_record_confidence(r, cands, errs))
            for x in kinds:
                if x:
                    k.append('record explained as ' + x)
            if any(len(c['segs']) > 1 and sum(1 for s in c['segs'] if s) > 1 for cs in cands.values() for c in cs):
                k.append('multi-segment candidate')
        except Exception:
            pass
        return k


class Candidates(es.CandidateStream):
    name = 'e2e_candidates'
    prelude = pl.ALIGN_CHECK
    e2e_cls = Files
    max_per_dataset = 120

    def oracle(self, case, out):
        return pl.oracle_confidence(case, out)

    def classify(self, case, out):
        k = super().classify(case, out)
        k.append('params=%s' % (' '.join(case['dataset']['extra']) or 'default'))
        return k


STREAMS = [ScoreStream(), Files(), Candidates()]

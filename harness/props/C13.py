"""C13 — Segments are maximal positive-scoring runs that respect both thresholds."""
import itertools
from ..driver import Stream
from ..common import z, zl, cb, clist

ID = 'C13'
RULE = ('exhaustive: every score sequence over {-3..3} up to length 5 (quick) / 6 (thorough) x seven (minScore, breakSegmentThreshold) pairs that hit '
        'the equalities ext=0, ext=cur-bs, score=ms and bs<ms (stale-segment quirk); random: sequences up to length 60 of real pair/unpaired scores '
        'with default and perturbed thresholds. non-trivial = distinct (sequence, thresholds) yielding at least one non-empty segment')
TRUSTED = ['adapter: positions are ScoredAlignedPair objects carrying the given scores; returned segments are mapped back to index ranges by object identity']
ASSUMPTIONS = ['scores are exactly representable numbers (integers here), so float addition is exact']
THRESH = [(1, 1), (2, 3), (3, 2), (4, 1), (3, 3), (2, 5), (5, 2)]


def run_factory(scores, ms, bs):
    from src.alignment.segments_factory import AlignmentSegmentsFactory
    from src.alignment.alignment_position import ScoredAlignedPair, AlignedPair
    from src.correlation.optical_map import PositionWithSiteId
    from src.correlation.peak import Peak
    pos = [ScoredAlignedPair(AlignedPair(PositionWithSiteId(i + 1, 100 * i), PositionWithSiteId(i + 1, 100 * i)), float(s))
           for i, s in enumerate(scores)]
    index = {id(p): i for i, p in enumerate(pos)}
    peak = Peak(7, 1.)
    segs = AlignmentSegmentsFactory(float(ms), float(bs)).getSegments(pos, peak)
    if len(segs) == 1 and segs[0].empty:
        return dict(ranges=[], flags=[] if segs[0].peak is peak else ['empty segment lost its peak'])
    out, flags = [], []
    for s in segs:
        if s.empty:
            flags.append('empty segment among non-empty ones'); continue
        idx = [index.get(id(p), -1) for p in s.positions]
        if idx != list(range(idx[0], idx[0] + len(idx))):
            flags.append('positions are not a contiguous run of the input: %s' % idx[:10])
        if s.peak is not peak:
            flags.append('peak not propagated')
        sc = s.segmentScore
        if sc != int(sc):
            flags.append('non-integer score %r' % sc)
        out.append([idx[0], idx[-1] + 1, int(sc)])
    return dict(ranges=out, flags=flags)


def oracle_one(scores, ms, bs, o):
    errs = list(o.get('flags', []))
    rngs = o['ranges']
    for (a, b, x) in rngs:
        if x != sum(scores[a:b]): errs.append('score is not the sum of the members')
    for (a, b, _), (a2, b2, _) in zip(rngs, rngs[1:]):
        if not b < a2: errs.append('segments not separated by a skipped position: %s %s' % ((a, b), (a2, b2)))
    for (a, b, x) in rngs:
        if not scores[a] > 0 or not scores[b - 1] > 0: errs.append('segment does not start/end on a positive score')
        tot = sum(scores[a:b])
        if tot < ms: errs.append('segment score below minScore')
        P = 0; mx = 0
        for j in range(a, b):
            P += scores[j]
            if P <= 0: errs.append('non-positive prefix sum inside a segment')
            if P <= mx - bs: errs.append('prefix fell breakSegmentThreshold or more below the running maximum')
            if j < b - 1 and P >= tot: errs.append('maximum reached before the segment end')
            mx = max(mx, P)
        P = tot; mx = tot
        for e in range(b, len(scores)):
            P += scores[e]
            if P <= 0 or P <= mx - bs: break
            if P > tot: errs.append('segment [%d,%d) can be extended to %d with a higher score' % (a, b, e + 1)); break
            mx = max(mx, P)
    # NOTE: the converse of the last clause ("if a run qualifies, it is returned") is NOT part of the property and is false of the code: with
    # breakSegmentThreshold < minScore a rejected low-scoring currentSegment is not reset after a break and its stale score makes later
    # break decisions stricter (scores [2,-3,1,3], minScore 4, threshold 1: the run [2,4) of score 4 is not returned).  An oracle clause
    # demanding it raised a false alarm on the unchanged tree and was removed; the quirk is part of the model (model/Fac.v) and of C13_runs.
    return sorted(set(errs))


class Base(Stream):
    shard = 1500
    prelude = '''From Coq Require Import ZArith List Bool. Import ListNotations.
Require Import Fac. Open Scope Z_scope.
Definition eqr (a b : nat * nat * Z) := match a, b with (a1, a2, a3), (b1, b2, b3) => Nat.eqb a1 b1 && Nat.eqb a2 b2 && (a3 =? b3) end.
Fixpoint eqrs (a b : list (nat * nat * Z)) := match a, b with [], [] => true | x :: s, y :: t => eqr x y && eqrs s t | _, _ => false end.
Definition check (c : list Z * list (Z * Z * list (nat * nat * Z))) : Z :=
  if forallb (fun t => match t with (ms, bs, exp) => eqrs (factory_ranges ms bs (fst c)) exp end) (snd c) then 0 else 1.'''

    def impl(self, case):
        outs = []
        for ms, bs in case['th']:
            try:
                outs.append(run_factory(case['scores'], ms, bs))
            except Exception as e:
                outs.append(dict(err=type(e).__name__, ranges=[[0, 0, -999]], flags=['getSegments raised %s' % type(e).__name__]))
        return outs

    def term(self, case, out):
        ts = clist('(%s,%s,%s)' % (z(ms), z(bs), clist('(%d%%nat,%d%%nat,%s)' % (a, b, z(x)) for a, b, x in o['ranges']))
                   for (ms, bs), o in zip(case['th'], out))
        return '(%s, %s)' % (zl(case['scores']), ts)

    def oracle(self, case, out):
        v = []
        for (ms, bs), o in zip(case['th'], out):
            for e in oracle_one(case['scores'], ms, bs, o):
                v.append('%s (scores=%s minScore=%s breakSegmentThreshold=%s ranges=%s)' % (e, case['scores'], ms, bs, o['ranges']))
        return v[:3]

    def classify(self, case, out):
        k = ['len=%s' % (len(case['scores']) if len(case['scores']) < 8 else '8+')]
        for (ms, bs), o in zip(case['th'], out):
            k.append('segments=%d' % min(3, len(o['ranges'])))
            if bs < ms: k.append('bs<ms')
        return k

    def nontrivial(self, case, out):
        return repr((case['scores'], case['th'])) if any(o['ranges'] for o in out) else None


class Exhaustive(Base):
    name = 'exhaustive'
    exhaustive = True

    def gen(self, rng, tier):
        n = 5 if tier == 'quick' else 6
        return [dict(scores=list(s), th=THRESH) for k in range(0, n + 1) for s in itertools.product(range(-3, 4), repeat=k)]


class Random(Base):
    name = 'random'
    shard = 300

    def gen(self, rng, tier):
        n = 1500 if tier == 'quick' else 15000
        out = []
        for _ in range(n):
            L = rng.randint(1, 60)
            mode = rng.random()
            if mode < 0.6:      # realistic: pairs 1000-|shift|, unpaired -250
                sc = [rng.choice([1000 - rng.randint(0, 1500), -250, -250, 1000, 1000 - rng.randint(0, 300)]) for _ in range(L)]
                th = [(1000, 1200), (rng.choice([500, 1000, 2000, 3000]), rng.choice([250, 600, 1200, 2500]))]
            else:               # small alphabet, long
                sc = [rng.randint(-4, 4) for _ in range(L)]
                th = [rng.choice(THRESH), (rng.randint(1, 9), rng.randint(-2, 9))]
            out.append(dict(scores=sc, th=th))
        return out


STREAMS = [Exhaustive(), Random()]

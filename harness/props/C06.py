"""C06 — A noise-free copy of an interior reference region is placed exactly.   (PARTIAL for the proof technique)

Proved (coq/props/C06.v): the deterministic half, under the hypothesis "a seed peak lies within delta <= 200 bp of the true diagonal".
Measured here:
  planted_align   the real Aligner.align on planted cases with a single seed peak at r_a + eps, |eps| <= 200 (both ends included), both
                  strands, gaps of exactly 2000 / 2000.5 / 2001 among the reference gaps: compared with the model (pipeline.ALIGN_CHECK) and
                  with the oracle "one segment, exactly the true pairs, nM, every offset = eps".
  planted_dense   the same with neighbouring reference labels only > 400 bp (= 2*delta) apart: outside the property's quantifier, inside the
                  spacing hypothesis of theorem C06_pairing_exact (competing candidate pairs exist; deduplicate must keep the nearer one).
  planted_e2e     THE HYPOTHESIS ITSELF: the real COMA (Program + capture extensions) on generated single-reference data sets in all four
                  output modes; per planted query: exactly one record, in the right file of every mode, on the right reference and strand,
                  exactly the true pairs, HitEnum nM, and |queryShift| <= 200 for every pair of the captured winning candidate.
  planted_decoys  the same oracle on references (inside the quantifier) that also hold k = 0..5 DIVERGED DUPLICATES of the planted window
                  (harness/decoys.py).  With k <= 2 the statement must hold.  With k >= 3 it is FALSE of the code as it is — open finding F13
                  (known_findings.json): only the peaksCount = 3 best primary peaks are refined; an exact copy that starts in the middle of a
                  1400-bp bin correlates with height ~0.87-0.93, a diverged duplicate that is better aligned to the bins with up to ~0.99, so
                  three such duplicates push the true locus out of the seeds and the query is reported on a duplicate.  A violation is
                  routed to F13 only when an independent recomputation of the primary stage AND the seeds captured from the real run both
                  show exactly that.  Second open finding F15 (k >= 1): the true locus IS refined and its candidate is perfect, but its
                  confidence n * (1000 - e), e = distance of the secondary seed peak from the diagonal (0..~125 bp, an artefact of the 100-bp
                  bins), is lower than that of a duplicate whose seed lies closer to its diagonal; routed only when the captured candidates
                  show exactly that (PlantedDecoys.outranked).  Everything else stays a violation."""
import os, json, random
from ..driver import Stream
from .. import pipeline as pl, e2e, common
from ..common import seeded_rng

ID = 'C06'
RULE = ('planted_align: reference of 24-70 labels with gaps >= 2000 bp (gaps of exactly 2000, 2000.5, 2001 always present; the rest 2000 + exponential '
        '(mean 7000) on the 0.5 grid), interior window of 15-45 labels at least 4 labels from either end, query = exact trimmed copy (mirror image on '
        "'-'), ONE seed peak at r_a + eps with eps in {-200, -199.5, -100, -0.5, 0, 0.5, 100, 199.5, 200} or random on the 0.5 grid in [-200, 200], "
        'default parameters. planted_dense: the same with gaps from {400.5, 401, 450, 600, 1000, 1299.5, 1300, 1500, 1700, 1700.5, 2000, 2000+exp}. planted_e2e: single reference of 300-600 labels, spacing 2000 + exponential(7000) (mean 9 kb), 15-45-label interior '
        'windows (>= 4 labels from either end) on either strand, random coordinate offset and trailing length, coordinates on the 0.5 grid and '
        "arbitrary one-decimal coordinates, the four output modes, default parameters. planted_decoys: single reference of ~40-330 labels (spacing 2000 + "
        "exponential(7400) capped at 25 kb, every spacing >= 2 kb, mean >= 9 kb) = flank of 4-9 labels, the planted 15-45-label window and k = 0..5 diverged "
        "duplicates of it (one or two labels missing, one extra label, one interval longer/shorter by 0.5-1.5 kb, one label displaced by 1-3 kb; a quarter of "
        "them inverted) in random order separated by 3-8 unrelated labels, flank of 4-9 labels; 'adversarial' data sets put the duplicates on 1400-bp bin "
        "borders and the window at the sub-bin phase (of 7) at which most duplicates outscore it, 'natural' ones leave every copy where the drawn spacings "
        "put it; two queries per data set (the window on either strand, coordinate offsets and trailing lengths); quick: the two committed witnesses + 6 "
        "data sets in mode best + one other mode, thorough: the witnesses + 40 data sets in the four modes. "
        "non-trivial = distinct planted query placed (every one is)")
TRUSTED = ['adapter harness/pipeline.py (builds OpticalMap/Peak/Aligner objects)', 'harness/e2e.py: CMAP writer, independent XMAP parser, capture extensions '
           "registered through COMA's own extension mechanism (the winning candidate = the captured first-pass candidate row with the highest confidence)"]
ASSUMPTIONS = ['PARTIAL: the numerical seeding (FFT cross-correlation, scipy find_peaks, candidate selection) is not modelled; that a seed within 200 bp '
               'of the true diagonal exists and wins is measured end to end, not proved',
               'planted_align: coordinates and seeds on the 0.5 grid, so the float arithmetic of the implementation is exact',
               'REFUTED ON REFERENCES WITH DIVERGED DUPLICATES of the planted window (open findings F13: >= 3 duplicates displace the true locus from the '
               'peaksCount = 3 refined seeds; F15: a perfect true candidate loses on confidence to a duplicate whose secondary seed lies closer to its diagonal; '
               'coq/props/C06.v C06_top_seeds_refuted, C06_best_candidate_refuted): C06 is measured to hold on references WITHOUT such duplicates '
               '(planted_e2e, planted_decoys k = 0) and, with k <= 2 duplicates, whenever F15 does not strike',
               'planted_decoys: the routing of F13/F15 trusts harness/decoys.py (independent recomputation of the primary stage) and the capture extension '
               '(refined window start + secondaryMargin = the selected primary seed)']

EPS_FIXED = [-200, -199.5, -100, -0.5, 0, 0.5, 100, 199.5, 200]


def half(x):
    return round(x * 2) / 2.0


def true_pairs(a, n, rev):
    return [[a + k + 1, (n - k) if rev else (k + 1)] for k in range(n)]


def mirror(w):
    return [round(w[-1] - p, 1) for p in reversed(w)]


# ------------------------------------------------------------------------------------------------ (a) pipeline
def gen_planted_align(rng, k, dense=False):
    n = rng.randint(15, 45)
    before = rng.randint(4, 12); after = rng.randint(4, 12)
    N = before + n + after
    if dense:      # outside the quantifier of the property, inside the hypothesis of C06_pairing_exact: gaps > 2*delta = 400 bp
        gaps = [rng.choice([400.5, 401.0, 450.0, 600.0, 1000.0, 1299.5, 1300.0, 1500.0, 1700.0, 1700.5, 2000.0, 2000 + half(rng.expovariate(1 / 3000.0))])
                for _ in range(N - 1)]
    else:
        gaps = [2000.0, 2000.5, 2001.0] + [2000 + half(rng.expovariate(1 / 7000.0)) for _ in range(N - 4)]
    rng.shuffle(gaps)
    if not dense and rng.random() < 0.5:           # the boundary gaps inside the window
        inside = rng.sample(range(before, before + n - 1), 3)
        for i, g in zip(inside, (2000.0, 2000.5, 2001.0)):
            gaps[i] = g
    pos = [half(rng.choice([20.0, 1000.0, 5000.5]))]
    for g in gaps:
        pos.append(pos[-1] + g)
    a = before
    w = pos[a:a + n]
    rev = (k % 2 == 1)
    q = mirror([p - w[0] for p in w]) if rev else [p - w[0] for p in w]
    j = (k // 2) % (len(EPS_FIXED) + 3)          # every fixed eps on both strands, then three random ones
    eps = EPS_FIXED[j] if j < len(EPS_FIXED) else half(rng.uniform(-200, 200))
    return dict(P=dict(pl.DEFAULT), it=rng.randint(1, 3), ref=pos, rlen=int(pos[-1]) + rng.choice([1, 5000]), qry=q, qlen=q[-1] + 1,
                peaks=[w[0] + eps], rev=rev, kind='planted-dense' if dense else 'planted', a=a, n=n, eps=eps)


class PlantedAlign(Stream):
    name = 'planted_align'
    prelude = pl.ALIGN_CHECK
    shard = 60
    quick_n, thorough_n = 360, 2400

    def gen(self, rng, tier):
        return [gen_planted_align(rng, k) for k in range(self.quick_n if tier == 'quick' else self.thorough_n)]

    def impl(self, case):
        return pl.run_align(case)

    def tolerated(self, case, out):
        return bool(out.get('float_flip'))

    def term(self, case, out):
        return pl.align_term(case, out)

    def oracle(self, case, out):
        if 'err' in out:
            return ['Aligner.align raised %s' % out['err']]
        a, n, rev, eps = case['a'], case['n'], case['rev'], case['eps']
        errs = []
        exp = true_pairs(a, n, rev)
        if out['pairs'] != exp:
            errs.append('pairs differ from the true pairs: got %s..., expected %s...' % (out['pairs'][:4], exp[:4]))
        if out.get('cigar') != '%dM' % n:
            errs.append('HitEnum %r, expected %dM' % (out.get('cigar', out.get('cigar_err')), n))
        segs = out['segs']
        if len(segs) != 1:
            errs.append('%d segments, expected one' % len(segs))
        for s in segs:
            for p in s[2]:
                if p[0] != 0:
                    errs.append('an unpaired label (kind %d) is inside the segment' % p[0]); break
                if p[3] != pl.r10(eps) or abs(p[3]) > 2000:
                    errs.append('pair (%d,%d) has offset %s, the seed is %s from the true diagonal' % (p[1], p[2], p[3] / 10.0, eps)); break
        if out['hdr'][4] != n * pl.r20(1000 - abs(eps)):
            errs.append('confidence %s, expected %s' % (out['hdr'][4] / 20.0, n * (1000 - abs(eps))))
        return errs[:3]

    def classify(self, case, out):
        e = case['eps']
        gaps = [b - a for a, b in zip(case['ref'], case['ref'][1:])]
        win = gaps[case['a']:case['a'] + case['n'] - 1]
        return ['rev' if case['rev'] else 'fwd', 'eps=%s' % ('-200' if e == -200 else '+200' if e == 200 else '0' if e == 0 else '+-199.5' if abs(e) == 199.5 else 'inside'),
                'n=%s' % ('15-24' if case['n'] < 25 else '25-45'), 'gap2000_in_window=%s' % (2000.0 in win), 'gap2001_in_window=%s' % (2001.0 in win)]

    def nontrivial(self, case, out):
        return repr((case['ref'], case['a'], case['n'], case['rev'], case['eps'])) if out.get('pairs') else None


class PlantedDense(PlantedAlign):
    """beyond the property's quantifier: neighbouring reference labels only more than 2*delta = 400 bp apart (the spacing hypothesis of
    C06_pairing_exact); competing candidate pairs within maxPairDistance exist and AlignedPair.deduplicate has to pick the nearer one"""
    name = 'planted_dense'
    quick_n, thorough_n = 180, 1500

    def gen(self, rng, tier):
        return [gen_planted_align(rng, k, dense=True) for k in range(self.quick_n if tier == 'quick' else self.thorough_n)]

    def classify(self, case, out):
        gaps = [b - a for a, b in zip(case['ref'], case['ref'][1:])]
        win = gaps[case['a']:case['a'] + case['n'] - 1]
        return ['rev' if case['rev'] else 'fwd', 'min gap in window %s' % ('<=401' if min(win) <= 401 else '<=1700' if min(win) <= 1700 else '>1700'),
                'eps=%s' % ('+-200' if abs(case['eps']) == 200 else 'inside')]


# ------------------------------------------------------------------------------------------------ (b) end to end
MODES = ['best', 'separate', 'joined', 'all']
# where an un-joined, fully aligned query is reported (multi_pass_workflow_coordinator.py): the main file of `joined`/`all` holds only
# joined rows; `joined` writes the un-joined rows to _1, `all` writes the first-pass rows to _1 and the second-pass rows to _2.
# A planted query is aligned over its whole length (|qs - qe| = qlen - 1 > 0.8 qlen), so it has no unaligned fragment, no second pass, no join.
EXPECT_FILE = dict(best='main', separate='main', joined='_1', all='_1')


def gen_planted_dataset(seed, nq, grid):
    rng = random.Random(seed)
    N = rng.randint(300, 600)
    g = (lambda x: round(round(x * 2) / 2.0, 1)) if grid == 0.5 else (lambda x: round(x, 1))
    pos = [g(rng.choice([20.0, 1000.0, 5000.0, rng.uniform(0, 30000)]))]
    tight = rng.random() < 0.6       # short gaps (2.0-2.6 kb) at both ends of the reference: a window 4 labels from an end is then only ~10 kb
    for k in range(N - 1):           # from it, so the secondary correlation window (+-secondaryMargin) hangs over the end of the reference
        if tight and (k < 7 or k >= N - 8):
            pos.append(g(pos[-1] + 2000 + rng.choice([0.0, 100.0, 350.5, 600.0])))
        else:
            pos.append(g(pos[-1] + 2000 + g(rng.expovariate(1 / 7000.0))))
    rid = rng.randint(1, 25)
    refs = [(rid, g(pos[-1] + rng.choice([1.0, 5000.0, 123.4])), pos)]
    qs = []; truth = {}
    qid = rng.randint(1, 300)
    for _ in range(nq):
        n = rng.randint(15, 45)
        a = rng.choice([4, N - 4 - n, rng.randint(4, N - 4 - n), rng.randint(4, N - 4 - n)])     # half of the windows as close to an end as allowed
        w = pos[a:a + n]
        rev = rng.random() < 0.5
        off = g(rng.choice([0.0, 20.0, 1234.5, rng.uniform(0, 50000), rng.uniform(0, 3000000)]))
        ql = [round(w[-1] - p + off, 1) for p in reversed(w)] if rev else [round(p - w[0] + off, 1) for p in w]
        trail = g(rng.choice([0.0, 1.0, 500.0, 3000.0, rng.uniform(0, 20000)]))
        qs.append((qid, round(ql[-1] + trail, 1), ql))
        truth[str(qid)] = dict(a=a, n=n, rev=rev, ref=rid, off=off, trail=trail)
        qid += rng.choice([1, 1, 7])
    return dict(refs=refs, queries=qs, truth=truth)


_DS = {}


def dataset_jobs(case):
    ds = gen_planted_dataset(case['ds_seed'], case['nq'], case['grid'])
    e2e.materialise(ds, 'c06_%d_%d_%s' % (case['ds_seed'], case['nq'], case['grid']))
    rp, qp = os.path.join(ds['dir'], 'r.cmap'), os.path.join(ds['dir'], 'q.cmap')
    return ds, [dict(refpath=rp, qpath=qp, args=['-oM', m], cpus=2, capture=(m == 'best')) for m in MODES]


def dataset_output(case):
    """runs (or fetches from the run cache) the four modes on one data set; memoised per process"""
    key = (case['ds_seed'], case['nq'], case['grid'], common.REPO)
    if key in _DS:
        return _DS[key]
    ds, jobs = dataset_jobs(case)
    rs = e2e.run_many(jobs, workers=len(jobs))
    out = dict(modes={}, truth=ds['truth'], ref_labels=ds['refs'][0][2])
    for m, r in zip(MODES, rs):
        files = {}
        for fk in r.files:
            try:
                files[fk] = [dict(q=x['q'], r=x['r'], ori=x['ori'], hit=x['hit'], pairs=[list(p) for p in x['pairs']]) for x in r.records(fk)]
            except Exception as e:
                files[fk] = dict(parse_error=type(e).__name__ + ':' + str(e)[:100])
        out['modes'][m] = dict(rc=r.rc, stderr=r.stderr[-400:] if r.rc else '', files=files)
    # the winning first-pass candidate of every query: highest confidence, first on ties (stable sort in __getBestAlignment)
    cand = {}; seeds = {}
    for c in rs[0].capture:
        if c['t'] == 'row' and c['shift'] == 0:
            cand.setdefault(c['q'], []).append(c)
        elif c['t'] == 'corr' and c['shift'] == 0:
            seeds.setdefault(c['q'], []).append(dict(r=c['r'], rev=c['rev'], index=c['index'], peaks=c['peaks']))
    win = {}
    for qid, cs in cand.items():
        best = sorted(cs, key=lambda c: -c['conf'])[0]
        win[str(qid)] = dict(r=best['r'], rev=best['rev'], index=best['index'], conf=best['conf'], ncand=len(cs),
                             segs=[dict(peak=s['peak'], pairs=[[p[1], p[2], p[3]] for p in s['pos'] if p[0] == 'P'],
                                        unpaired=sum(1 for p in s['pos'] if p[0] != 'P')) for s in best['segs']],
                             seeds=seeds.get(qid, []))
    out['winner'] = win
    _DS[key] = out
    return out


class PlantedE2E(Stream):
    """one case = one planted query of one generated data set (the data set is run once, in the four modes)"""
    name = 'planted_e2e'
    model = False
    parallel = False

    def datasets(self, tier):
        base = seeded_rng(getattr(self, 'seed', 0), 'c06-e2e')
        if tier == 'quick':
            return [dict(ds_seed=base.randint(1, 10 ** 9), nq=20, grid=0.5), dict(ds_seed=base.randint(1, 10 ** 9), nq=20, grid=0.1)]
        return [dict(ds_seed=base.randint(1, 10 ** 9), nq=30, grid=(0.5 if k % 2 == 0 else 0.1)) for k in range(12)]

    def gen(self, rng, tier):
        dss = self.datasets(tier)
        jobs = []
        for d in dss:
            jobs.extend(dataset_jobs(d)[1])
        e2e.run_many(jobs, workers=8)                     # fills the run cache; impl() then only parses
        cases = []
        for d in dss:
            ds = gen_planted_dataset(d['ds_seed'], d['nq'], d['grid'])
            cases.extend(dict(d, qid=int(q)) for q in ds['truth'])
        return cases

    def impl(self, case):
        o = dataset_output(case)
        qid = case['qid']; t = o['truth'][str(qid)]
        modes = {}
        for m, mo in o['modes'].items():
            files = {}
            for fk, f in mo['files'].items():
                files[fk] = f if isinstance(f, dict) else [r for r in f if r['q'] == qid]
            modes[m] = dict(rc=mo['rc'], stderr=mo['stderr'], files=files)
        return dict(modes=modes, truth=t, ra=o['ref_labels'][t['a']], winner=o['winner'].get(str(qid)))

    @staticmethod
    def stage_of(out, exp):
        w = out['winner']; rev = out['truth']['rev']
        if w is None:
            return ' [stage: no candidate at all, i.e. no primary seed peak]'
        near = [s['index'] for s in w['seeds'] if s['rev'] == rev and any(abs(p - out['ra']) <= 200 for p in s['peaks'])]
        if not near:
            return ' [stage: no secondary seed peak within 200 bp of the true diagonal %s; seeds (strand-, peaks): %s]' % (
                out['ra'], [(s['rev'], s['peaks'][:4]) for s in w['seeds']][:3])
        if w['index'] not in near:
            return ' [stage: seed %s has a secondary peak within 200 bp of the true diagonal, but the candidate of seed %d (strand %s, confidence %s) won]' % (
                near, w['index'], '-' if w['rev'] else '+', w['conf'])
        if [[p[0], p[1]] for s in w['segs'] for p in s['pairs']] != exp:
            return ' [stage: a seed near the true diagonal exists and its candidate won, but pairing/segmentation/resolution gave other pairs]'
        return ''

    def oracle(self, case, out):
        errs = []
        for m, mo in out['modes'].items():
            if mo['rc'] != 0:
                errs.append('COMA exited with status %s in mode %s: %s' % (mo['rc'], m, mo['stderr'][-300:]))
            for fk, f in mo['files'].items():
                if isinstance(f, dict):
                    errs.append('output file %s of mode %s is not well-formed XMAP: %s' % (fk, m, f['parse_error']))
        if errs:
            return errs[:3]
        t = out['truth']; qid = case['qid']
        a, n, rev = t['a'], t['n'], t['rev']
        exp = true_pairs(a, n, rev)
        tag = 'data set %d/%s: query %s (reference %d, labels %d..%d, strand %s, offset %s, trailing %s)' % (
            case['ds_seed'], case['grid'], qid, t['ref'], a + 1, a + n, '-' if rev else '+', t['off'], t['trail'])
        w = out['winner']
        stage = self.stage_of(out, exp)           # at which stage did it go wrong, if it did
        for m in [m for m in MODES if m in out['modes']]:
            fk_exp = EXPECT_FILE[m]
            files = out['modes'][m]['files']
            if fk_exp not in files:
                errs.append('%s: mode %s wrote no file %s' % (tag, m, fk_exp)); continue
            for fk, mine in files.items():
                if fk != fk_exp:
                    if mine:
                        errs.append('%s: mode %s reports it in file %s as well (%d record(s))' % (tag, m, fk, len(mine)))
                    continue
                if len(mine) != 1:
                    errs.append('%s: %d records in file %s of mode %s, expected exactly one%s' % (tag, len(mine), fk, m, stage)); continue
                r = mine[0]
                if r['r'] != t['ref']: errs.append('%s: mode %s reports reference %d' % (tag, m, r['r']))
                if r['ori'] != ('-' if rev else '+'): errs.append('%s: mode %s reports strand %s%s' % (tag, m, r['ori'], stage))
                if r['pairs'] != exp:
                    miss = [p for p in exp if p not in r['pairs']]; extra = [p for p in r['pairs'] if p not in exp]
                    errs.append('%s: mode %s: pairs are not the true pairs (missing %s, extra %s)%s' % (tag, m, miss[:4], extra[:4], stage))
                if r['hit'] != '%dM' % n: errs.append('%s: mode %s: HitEnum %s, expected %dM%s' % (tag, m, r['hit'], n, stage))
        if w is None:
            if not errs: errs.append('%s: no candidate was captured%s' % (tag, stage))
        else:
            sh = [abs(p[2]) for s in w['segs'] for p in s['pairs']]
            if not sh or max(sh) > 200 + 1e-6:
                errs.append('%s: the winning candidate has a pair %.1f bp from its seed diagonal (> 200)%s' % (tag, max(sh) if sh else -1, stage))
            if [[p[0], p[1]] for s in w['segs'] for p in s['pairs']] != exp:
                errs.append('%s: the winning candidate (index %d of %d) does not hold exactly the true pairs%s' % (tag, w['index'], w['ncand'], stage))
        return errs[:4]

    def classify(self, case, out):
        t = out.get('truth')
        if not t:
            return ['error']
        k = ['grid=%s' % case['grid'], 'strand=%s' % ('-' if t['rev'] else '+'),
             'n=%s' % ('15-24' if t['n'] < 25 else '25-34' if t['n'] < 35 else '35-45'),
             'offset=%s' % ('0' if t['off'] == 0 else '>0'), 'trailing=%s' % ('0' if t['trail'] == 0 else '>0')]
        w = out.get('winner')
        if w:
            sh = [abs(p[2]) for s in w['segs'] for p in s['pairs']]
            m = max(sh) if sh else -1
            k.append('measured max|queryShift| %s' % ('<=50' if m <= 50 else '<=100' if m <= 100 else '<=150' if m <= 150 else '<=200' if m <= 200 else '>200'))
            k.append('winner: segments=%d' % len(w['segs']))
            k.append('winner: secondary seed peaks=%d' % min(9, max([len(s['peaks']) for s in w['seeds'] if s['index'] == w['index']] or [0])))
            k.append('candidates=%d' % w['ncand'])
        return k

    def nontrivial(self, case, out):
        w = out.get('winner')
        return repr((case['ds_seed'], case['grid'], case['qid'])) if w and w['segs'] else None


# ------------------------------------------------------------------------------------------------ (c) diverged duplicates (finding F13)
from .. import decoys as dk

F13_MARK = '[SEED-DISPLACED:'
F14_MARK = '[OUTRANKED-BY-DUPLICATE:'
# the committed witnesses (known_findings.json; coq/props/C06.v C06_top_seeds_refuted / C06_best_candidate_refuted), positions on a 10-bp grid.
# F13: 77 labels, the window = labels 6..20 starting in the middle of a 1400-bp bin, three duplicates with ONE label missing each that
#      start on bin borders (distinct heights 80/81, 78/80, 76/79 against 72/81 for the true lag: no tie anywhere)
WITNESS = dict(ds_seed=16, n=15, kinds=['del1'] * 3, inverted=[False] * 3, true_slot=0, phases=[700, 0, 0, 0], grid=10, tag='witness-F13 k=3',
               queries=[dict(rev=False, off=0.0, trail=1.0), dict(rev=True, off=20.0, trail=500.0)])
# F15: 46 labels, the window = labels 7..21, ONE duplicate with one extra label, every copy where the drawn spacings put it
WITNESS_F15 = dict(ds_seed=20, n=15, kinds=['ins1'], inverted=[False], true_slot=0, phases=[None, None], grid=10, tag='witness-F15 k=1',
                   queries=[dict(rev=False, off=0.0, trail=1.0), dict(rev=True, off=20.0, trail=500.0)])
ADVERSARIAL_PHASES = [700, 525, 875, 350, 1050, 175, 1225]


def grid_fn(grid):
    return (lambda x: float(round(x / 10.0) * 10)) if grid == 10 else dk.g05


def decoy_dataset(spec):
    rng = random.Random(spec['ds_seed'])
    g = grid_fn(spec['grid'])
    R = dk.gen_reference(rng, spec['n'], spec['kinds'], spec['inverted'], spec['true_slot'], spec['phases'], grid=g)
    pos, a, n = R['pos'], R['a'], R['n']
    qs = []; truth = {}
    for j, qd in enumerate(spec['queries']):
        ql = dk.query_of(pos, a, n, qd['rev'], qd['off'], grid=g)
        qid = 7 + 4 * j
        qs.append((qid, round(ql[-1] + qd['trail'], 1), ql))
        truth[str(qid)] = dict(a=a, n=n, rev=qd['rev'], ref=3, off=qd['off'], trail=qd['trail'])
    return dict(refs=[(3, round(pos[-1] + 5000.0, 1), pos)], queries=qs, truth=truth, R=R)


def make_spec(rng, k, adversarial, designated_rev, n_hi=45):
    """a data-set description, deterministic from the rng.  adversarial: the sub-bin phase of the true window is chosen (among 7 phases) so
    that, by the independent recomputation, as many duplicates as possible outscore the true locus for the designated strand's query, the
    duplicates start on bin borders; otherwise every copy lies wherever the drawn spacings put it"""
    n = rng.randint(15, n_hi)
    base = dict(ds_seed=rng.randint(1, 10 ** 9), n=n, kinds=[rng.choice(dk.KINDS) for _ in range(k)], inverted=[rng.random() < 0.25 for _ in range(k)],
                true_slot=rng.randint(0, k), grid=0.5, tag='%s k=%d' % ('adversarial' if adversarial else 'natural', k),
                queries=[dict(rev=designated_rev, off=dk.g05(rng.choice([0.0, 20.0, 1234.5, rng.uniform(0, 3000000)])), trail=dk.g05(rng.choice([0.0, 1.0, 500.0, rng.uniform(0, 20000)]))),
                         dict(rev=not designated_rev, off=dk.g05(rng.choice([0.0, 777.5, rng.uniform(0, 50000)])), trail=dk.g05(rng.choice([1.0, 3000.0])))])
    if not adversarial:
        return dict(base, phases=[None] * (k + 1))
    best = None
    for ph in ADVERSARIAL_PHASES:
        spec = dict(base, phases=[ph] + [0] * k)
        try:
            ds = decoy_dataset(spec)
        except RuntimeError:
            continue
        t = ds['truth']['7']
        an = dk.analyse(ds['refs'][0][2], ds['queries'][0][2], ds['refs'][0][2][t['a']], t['rev'])
        key = (an.get('gt', -1), -(an['true']['score'] if an['true'] else 9))
        if best is None or key > best[0]:
            best = (key, spec)
    if best is None:
        raise RuntimeError('no adversarial data set')
    return best[1]


_DK = {}


def decoy_jobs(spec, modes):
    ds = decoy_dataset(spec)
    e2e.materialise(ds, 'c06dk_%d_%s' % (spec['ds_seed'], '_'.join(str(p) for p in spec['phases'])))
    rp, qp = os.path.join(ds['dir'], 'r.cmap'), os.path.join(ds['dir'], 'q.cmap')
    return ds, [dict(refpath=rp, qpath=qp, args=['-oM', m], cpus=1, capture=(m == 'best')) for m in modes]


def decoy_output(spec, modes):
    key = (json.dumps(spec, sort_keys=True), tuple(modes), common.REPO)
    if key in _DK:
        return _DK[key]
    ds, jobs = decoy_jobs(spec, modes)
    rs = e2e.run_many(jobs, workers=len(jobs))
    out = dict(modes={}, truth=ds['truth'], ref_labels=ds['refs'][0][2], queries={str(q[0]): q[2] for q in ds['queries']}, copies=ds['R']['copies'],
               spacing=[ds['R']['min'], round(ds['R']['mean'], 1), ds['R']['max']])
    for m, r in zip(modes, rs):
        files = {}
        for fk in r.files:
            try:
                files[fk] = [dict(q=x['q'], r=x['r'], ori=x['ori'], hit=x['hit'], conf=x['conf'], pairs=[list(p) for p in x['pairs']]) for x in r.records(fk)]
            except Exception as e:
                files[fk] = dict(parse_error=type(e).__name__ + ':' + str(e)[:100])
        out['modes'][m] = dict(rc=r.rc, stderr=r.stderr[-400:] if r.rc else '', files=files)
    cand = {}; seeds = {}
    for c in rs[0].capture:                       # modes[0] is 'best', run with the capture extensions
        if c['t'] == 'row' and c['shift'] == 0:
            cand.setdefault(c['q'], []).append(c)
        elif c['t'] == 'corr' and c['shift'] == 0:
            # the selected primary seed: the refined window starts at (its position - secondaryMargin)
            seeds.setdefault(c['q'], []).append(dict(r=c['r'], rev=c['rev'], index=c['index'], peaks=c['peaks'],
                                                     primary=(c['start'] + dk.MARGIN) if 'start' in c else None))
    win = {}
    for qid, cs in cand.items():
        best = sorted(cs, key=lambda c: -c['conf'])[0]
        win[str(qid)] = dict(r=best['r'], rev=best['rev'], index=best['index'], conf=best['conf'], ncand=len(cs),
                             segs=[dict(peak=s['peak'], pairs=[[p[1], p[2], p[3]] for p in s['pos'] if p[0] == 'P'],
                                        unpaired=sum(1 for p in s['pos'] if p[0] != 'P')) for s in best['segs']],
                             seeds=seeds.get(qid, []))
    out['winner'] = win
    out['seeds'] = {str(k): v for k, v in seeds.items()}
    out['cands'] = {str(k): [dict(r=c['r'], rev=c['rev'], index=c['index'], conf=c['conf'], cigar=c['cigar'],
                                  pairs=[[p[1], p[2]] for sg in c['segs'] for p in sg['pos'] if p[0] == 'P'],
                                  shifts=[p[3] for sg in c['segs'] for p in sg['pos'] if p[0] == 'P']) for c in cs] for k, cs in cand.items()}
    _DK[key] = out
    return out


class PlantedDecoys(PlantedE2E):
    """one case = one planted query of one generated single-reference data set with k diverged duplicates of the planted window"""
    name = 'planted_decoys'

    def specs(self, rng, tier):
        plan = ([(0, True, False), (1, True, True), (2, True, False), (3, True, True), (4, False, False), (5, True, True)] if tier == 'quick' else
                [(k, adv, bool((k + j) % 2)) for j in range(3) for k in range(6) for adv in (True, False)] + [(3, True, False), (3, True, True), (2, True, True), (2, True, False)])
        out = [dict(WITNESS), dict(WITNESS_F15)]
        for j, (k, adv, drev) in enumerate(plan):
            out.append(make_spec(rng, k, adv, drev, n_hi=(30 if tier == 'quick' else 45)))
        return out

    def modes_of(self, tier, j):
        return list(MODES) if tier != 'quick' else ['best', MODES[1 + j % 3]]

    def gen(self, rng, tier):
        specs = self.specs(rng, tier)
        plan = [(sp, self.modes_of(tier, j)) for j, sp in enumerate(specs)]
        jobs = []
        for sp, modes in plan:
            jobs.extend(decoy_jobs(sp, modes)[1])
        e2e.run_many(jobs, workers=8)                     # fills the run cache; impl() then only parses
        cases = []
        for sp, modes in plan:
            for qid in decoy_dataset(sp)['truth']:
                cases.append(dict(spec=sp, modes=modes, qid=int(qid), k=len(sp['kinds']), ds_seed=sp['ds_seed'], grid=sp['grid']))
        return cases

    def impl(self, case):
        o = decoy_output(case['spec'], case['modes'])
        qid = case['qid']; t = o['truth'][str(qid)]
        modes = {}
        for m, mo in o['modes'].items():
            files = {}
            for fk, f in mo['files'].items():
                files[fk] = f if isinstance(f, dict) else [r for r in f if r['q'] == qid]
            modes[m] = dict(rc=mo['rc'], stderr=mo['stderr'], files=files)
        ra = o['ref_labels'][t['a']]
        an = dk.analyse(o['ref_labels'], o['queries'][str(qid)], ra, t['rev'])
        return dict(modes=modes, truth=t, ra=ra, winner=o['winner'].get(str(qid)), seeds=o['seeds'].get(str(qid), []), recomputed=an,
                    cands=o['cands'].get(str(qid), []),
                    copies=o['copies'], spacing=o['spacing'], reference=o['ref_labels'], query=o['queries'][str(qid)])

    # ---- the seeding facts of the case
    @staticmethod
    def seed_facts(case, out):
        """(problems, displaced).  problems: the seeds captured from the real run are not the ones the independent recomputation of the
        primary stage selects (same strands, positions within one bin, scores at or above the selection border).  displaced: finding F13's
        signature holds (see known_findings.json)"""
        an, t, ra = out['recomputed'], out['truth'], out['ra']
        seeds = out['seeds']
        probs = []
        if any(s.get('primary') is None for s in seeds):
            return ['the capture of the real run does not name the selected primary seeds'], False
        if len(seeds) != an['nsel']:
            probs.append('the real run refined %d primary seeds, the recomputation selects %d (of %d peaks)' % (len(seeds), an['nsel'], an['npeaks']))
        pool = dk.maxima(out['reference'], out['query'])
        for s in seeds:
            m = [p for p in pool if p['rev'] == s['rev'] and abs(p['pos'] - s['primary']) <= dk.RES]
            if not m:
                probs.append('the real run refined a seed at %.0f (strand %s) where the recomputation has no local maximum above the height border' % (s['primary'], '-' if s['rev'] else '+'))
            elif an['border'] is not None and max(p['score'] for p in m) < an['border'] - dk.EPS:
                probs.append('the real run refined the seed at %.0f (score %.4f) although %d peaks score higher (selection border %.4f)' % (
                    s['primary'], max(p['score'] for p in m), an['nsel'], an['border']))
        true_seeded = any(s['rev'] == t['rev'] and abs(s['primary'] - ra) <= dk.MPD for s in seeds)
        tp = an['true']
        displaced = (case['k'] >= dk.PCOUNT and not probs and tp is not None and an.get('ge', 0) >= dk.PCOUNT and not true_seeded
                     and not any(s['rev'] == t['rev'] and any(abs(p - ra) <= 200 for p in s['peaks']) for s in seeds))
        if tp is None:
            probs.append('the recomputation finds no primary peak within %d bp of the true lag %.1f on the true strand' % (dk.NEAR, ra))
        elif an.get('gt', 0) < dk.PCOUNT and an.get('ge', 0) < dk.PCOUNT and not true_seeded:
            probs.append('the true locus (score %.4f, outscored by %d other peaks only) is not among the refined seeds %s' % (
                tp['score'], an['gt'], [(s['rev'], s['primary']) for s in seeds]))
        return probs, displaced

    @staticmethod
    def outranked(case, out):
        """finding F15's signature (see known_findings.json): the candidate of the true locus is perfect and still loses on confidence to
        the candidate of a planted duplicate whose pairs lie closer to ITS seed diagonal; returns a description or None"""
        t, ra = out['truth'], out['ra']
        exp = true_pairs(t['a'], t['n'], t['rev'])
        near = [s['index'] for s in out['seeds'] if s['rev'] == t['rev'] and any(abs(p - ra) <= 200 for p in s['peaks'])]
        mine = [c for c in out['cands'] if c['index'] in near and c['rev'] == t['rev'] and c['pairs'] == exp and c['cigar'] == '%dM' % t['n']
                and c['shifts'] and max(abs(x) for x in c['shifts']) <= 200 and len(set(c['shifts'])) == 1
                and abs(c['conf'] - t['n'] * (1000 - abs(c['shifts'][0]))) < 1e-6]
        if not mine or not out['cands']:
            return None
        win = sorted(out['cands'], key=lambda c: -c['conf'])[0]          # stable: the first of equal confidences, as in __getBestAlignment
        tc = mine[0]
        if win['index'] in near or not win['pairs'] or not (win['conf'] > tc['conf'] or (win['conf'] == tc['conf'] and win['index'] < tc['index'])):
            return None
        sites = [p[0] for p in win['pairs']]
        dup = [c for c in out['copies'] if c[0] != 'true' and c[1] + 1 <= min(sites) and max(sites) <= c[1] + c[3]]
        if not dup:
            return None                          # the winner must lie inside one planted duplicate
        mean_abs = sum(abs(x) for x in win['shifts']) / len(win['shifts'])
        if not mean_abs < abs(tc['shifts'][0]):
            return None                          # ... with its pairs closer to its seed diagonal than the true pairs are to theirs
        for m, mo in out['modes'].items():       # and that winner is what every mode reports
            recs = mo['files'].get(EXPECT_FILE[m]) or []
            if len(recs) != 1 or recs[0]['pairs'] != win['pairs']:
                return None
        return ('the candidate of the true locus is perfect (%dM, exactly the true pairs, every pair %.1f bp off the seed diagonal: confidence %.1f = %d * (1000 - %.1f)); '
                'the winner is the candidate of the duplicate %s at reference labels %d..%d (%d pairs, %s, strand %s, mean distance from its seed diagonal %.1f bp): confidence %.1f'
                % (t['n'], tc['shifts'][0], tc['conf'], t['n'], abs(tc['shifts'][0]), dup[0][0], min(sites), max(sites), len(sites), win['cigar'],
                   '-' if win['rev'] else '+', mean_abs, win['conf']))

    def oracle(self, case, out):
        errs = PlantedE2E.oracle(self, case, out)
        if any(mo['rc'] != 0 for mo in out['modes'].values()):
            return errs
        probs, displaced = self.seed_facts(case, out)
        if errs and not displaced and not probs and case['k'] >= 1:
            why = self.outranked(case, out)
            if why:
                errs = [e + ' %s %s]' % (F14_MARK, why) for e in errs]
        if displaced and errs:
            an = out['recomputed']
            w = out['winner'] or {}
            where = [c[0] for c in out['copies'] if w.get('segs') and w['segs'][0]['pairs'] and c[1] < w['segs'][0]['pairs'][0][0] <= c[1] + c[3]]
            note = ' %s the primary peak of the true locus (height %.4f, score %.4f) is outscored by %d kept primary peaks (>= %d = peaksCount; best: %s); the real run refined the seeds %s, none within %d bp of the true lag %.1f; reported on %s]' % (
                F13_MARK, an['true']['h'], an['true']['score'], an['ge'], dk.PCOUNT, [(('-' if p['rev'] else '+'), p['pos'], round(p['h'], 4), round(p['score'], 4)) for p in an['peaks'][:4]],
                [(('-' if s['rev'] else '+'), s['primary']) for s in out['seeds']], dk.MPD, out['ra'], where or 'another place')
            errs = [e + note for e in errs]
        return errs[:4] + ['[seeding] data set %d query %d: %s' % (case['ds_seed'], case['qid'], p) for p in probs[:2]]

    def finding(self, case, out, viol):
        if viol.startswith('[seeding]'):
            return None
        probs, displaced = self.seed_facts(case, out)
        if F13_MARK in viol and case['k'] >= dk.PCOUNT and displaced:
            return 'F13'
        if F14_MARK in viol and case['k'] >= 1 and not probs and not displaced and self.outranked(case, out):
            return 'F15'
        return None

    def classify(self, case, out):
        t = out.get('truth')
        if not t:
            return ['error']
        an = out['recomputed']
        sp = case['spec']
        k = ['duplicates=%d' % case['k'], sp['tag'].split(' ')[0], 'strand=%s' % ('-' if t['rev'] else '+'), 'n=%s' % ('15-24' if t['n'] < 25 else '25-45')]
        k += ['duplicate kind %s' % kd for kd in set(sp['kinds'])]
        if any(sp['inverted']): k.append('with an inverted duplicate')
        if an['true']:
            k.append('true locus outscored by %s other primary peaks' % (an['ge'] if an['ge'] < 3 else '>=3'))
            h = an['true']['h']
            k.append('height of the true primary peak %s' % ('1' if h == 1 else '>=0.95' if h >= 0.95 else '>=0.90' if h >= 0.9 else '>=0.85' if h >= 0.85 else '<0.85'))
        ok = not PlantedE2E.oracle(self, case, out)
        k.append('k=%d: %s' % (case['k'], 'C06 holds' if ok else 'C06 FAILS (F13: true locus not refined)' if self.seed_facts(case, out)[1]
                               else 'C06 FAILS (F15: perfect true candidate outranked by a duplicate)' if self.outranked(case, out) else 'C06 FAILS'))
        return k

    def nontrivial(self, case, out):
        w = out.get('winner')
        return repr((case['ds_seed'], case['qid'])) if w and w['segs'] else None


# the theorems C06_true_lag_yields_seed* are about the executable seeding model (model/Seeding.v): its correspondence with the real seeding
# chain (harness/seeding.py, shared with C16) is therefore part of this check as well
from .. import seeding as _sd


class SeedingChain(_sd.SeedingChain):
    n_quick, n_thorough = 16, 80


STREAMS = [PlantedAlign(), PlantedDense(), PlantedE2E(), PlantedDecoys(), SeedingChain()]

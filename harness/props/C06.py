"""C06 — A noise-free copy of an interior reference region is placed exactly.   (PARTIAL for the proof technique)

Proved (coq/props/C06.v): the deterministic half, under the hypothesis "a seed peak lies within delta <= 200 bp of the true diagonal".
Measured here:
  planted_align   the real Aligner.align on planted cases with a single seed peak at r_a + eps, |eps| <= 200 (both ends included), both
                  strands, gaps of exactly 2000 / 2000.5 / 2001 among the reference gaps: compared with the model (pipeline.ALIGN_CHECK) and
                  with the oracle "one segment, exactly the true pairs, nM, every offset = eps".
  planted_dense   the same with neighbouring reference labels only > 400 bp (= 2*delta) apart: outside the property's quantifier, inside the
                  spacing hypothesis of theorem C06_pairing_exact (competing candidate pairs exist; deduplicate must keep the nearer one).
  planted_e2e     THE HYPOTHESIS ITSELF: the real COMA (Program + capture extensions) on generated single-reference data sets in all four
                  output modes; per planted query: exactly one record, in the right file of every mode, on the right reference and strand,
                  exactly the true pairs, HitEnum nM, and |queryShift| <= 200 for every pair of the captured winning candidate."""
import os, json, random
from ..driver import Stream
from .. import pipeline as pl, e2e, common
from ..common import seeded_rng

ID = 'C06'
RULE = ('planted_align: reference of 24-70 labels with gaps >= 2000 bp (gaps of exactly 2000, 2000.5, 2001 always present; the rest 2000 + exponential '
        '(mean 7000) on the 0.5 grid), interior window of 15-45 labels at least 4 labels from either end, query = exact trimmed copy (mirror image on '
        "'-'), ONE seed peak at r_a + eps with eps in {-200, -199.5, -100, -0.5, 0, 0.5, 100, 199.5, 200} or random on the 0.5 grid in [-200, 200], "
        'default parameters. planted_dense: the same with gaps from {400.5, 401, 450, 600, 1000, 1299.5, 1300, 1500, 1700, 1700.5, 2000, 2000+exp}. planted_e2e: single reference of 300-600 labels, spacing 2000 + exponential(7000) (mean 9 kb), 15-45-label interior '
        'windows (>= 4 labels from either end) on either strand, random coordinate offset and trailing length, coordinates on the 0.5 grid and '
        "arbitrary one-decimal coordinates, the four output modes, default parameters. non-trivial = distinct planted query placed (every one is)")
TRUSTED = ['adapter harness/pipeline.py (builds OpticalMap/Peak/Aligner objects)', 'harness/e2e.py: CMAP writer, independent XMAP parser, capture extensions '
           "registered through COMA's own extension mechanism (the winning candidate = the captured first-pass candidate row with the highest confidence)"]
ASSUMPTIONS = ['PARTIAL: the numerical seeding (FFT cross-correlation, scipy find_peaks, candidate selection) is not modelled; that a seed within 200 bp '
               'of the true diagonal exists and wins is measured end to end, not proved',
               'planted_align: coordinates and seeds on the 0.5 grid, so the float arithmetic of the implementation is exact']

EPS_FIXED = [-200, -199.5, -100, -0.5, 0, 0.5, 100, 199.5, 200]


def half(x):
    return round(x * 2) / 2.0


def true_pairs(a, n, rev):
    return [[a + k + 1, (n - k) if rev else (k + 1)] for k in range(n)]


def mirror(w):
    return [round(w[-1] - p, 1) for p in reversed(w)]


# ------------------------------------------------------------------------------------------------ (a) pipeline
def gen_planted_align(rng, k, dense=False):
    n = rng.randint(15, 45)
    before = rng.randint(4, 12); after = rng.randint(4, 12)
    N = before + n + after
    if dense:      # outside the quantifier of the property, inside the hypothesis of C06_pairing_exact: gaps > 2*delta = 400 bp
        gaps = [rng.choice([400.5, 401.0, 450.0, 600.0, 1000.0, 1299.5, 1300.0, 1500.0, 1700.0, 1700.5, 2000.0, 2000 + half(rng.expovariate(1 / 3000.0))])
                for _ in range(N - 1)]
    else:
        gaps = [2000.0, 2000.5, 2001.0] + [2000 + half(rng.expovariate(1 / 7000.0)) for _ in range(N - 4)]
    rng.shuffle(gaps)
    if not dense and rng.random() < 0.5:           # the boundary gaps inside the window
        inside = rng.sample(range(before, before + n - 1), 3)
        for i, g in zip(inside, (2000.0, 2000.5, 2001.0)):
            gaps[i] = g
    pos = [half(rng.choice([20.0, 1000.0, 5000.5]))]
    for g in gaps:
        pos.append(pos[-1] + g)
    a = before
    w = pos[a:a + n]
    rev = (k % 2 == 1)
    q = mirror([p - w[0] for p in w]) if rev else [p - w[0] for p in w]
    j = (k // 2) % (len(EPS_FIXED) + 3)          # every fixed eps on both strands, then three random ones
    eps = EPS_FIXED[j] if j < len(EPS_FIXED) else half(rng.uniform(-200, 200))
    return dict(P=dict(pl.DEFAULT), it=rng.randint(1, 3), ref=pos, rlen=int(pos[-1]) + rng.choice([1, 5000]), qry=q, qlen=q[-1] + 1,
                peaks=[w[0] + eps], rev=rev, kind='planted-dense' if dense else 'planted', a=a, n=n, eps=eps)


class PlantedAlign(Stream):
    name = 'planted_align'
    prelude = pl.ALIGN_CHECK
    shard = 60
    quick_n, thorough_n = 360, 2400

    def gen(self, rng, tier):
        return [gen_planted_align(rng, k) for k in range(self.quick_n if tier == 'quick' else self.thorough_n)]

    def impl(self, case):
        return pl.run_align(case)

    def term(self, case, out):
        return pl.align_term(case, out)

    def oracle(self, case, out):
        if 'err' in out:
            return ['Aligner.align raised %s' % out['err']]
        a, n, rev, eps = case['a'], case['n'], case['rev'], case['eps']
        errs = []
        exp = true_pairs(a, n, rev)
        if out['pairs'] != exp:
            errs.append('pairs differ from the true pairs: got %s..., expected %s...' % (out['pairs'][:4], exp[:4]))
        if out.get('cigar') != '%dM' % n:
            errs.append('HitEnum %r, expected %dM' % (out.get('cigar', out.get('cigar_err')), n))
        segs = out['segs']
        if len(segs) != 1:
            errs.append('%d segments, expected one' % len(segs))
        for s in segs:
            for p in s[2]:
                if p[0] != 0:
                    errs.append('an unpaired label (kind %d) is inside the segment' % p[0]); break
                if p[3] != pl.r10(eps) or abs(p[3]) > 2000:
                    errs.append('pair (%d,%d) has offset %s, the seed is %s from the true diagonal' % (p[1], p[2], p[3] / 10.0, eps)); break
        if out['hdr'][4] != n * pl.r20(1000 - abs(eps)):
            errs.append('confidence %s, expected %s' % (out['hdr'][4] / 20.0, n * (1000 - abs(eps))))
        return errs[:3]

    def classify(self, case, out):
        e = case['eps']
        gaps = [b - a for a, b in zip(case['ref'], case['ref'][1:])]
        win = gaps[case['a']:case['a'] + case['n'] - 1]
        return ['rev' if case['rev'] else 'fwd', 'eps=%s' % ('-200' if e == -200 else '+200' if e == 200 else '0' if e == 0 else '+-199.5' if abs(e) == 199.5 else 'inside'),
                'n=%s' % ('15-24' if case['n'] < 25 else '25-45'), 'gap2000_in_window=%s' % (2000.0 in win), 'gap2001_in_window=%s' % (2001.0 in win)]

    def nontrivial(self, case, out):
        return repr((case['ref'], case['a'], case['n'], case['rev'], case['eps'])) if out.get('pairs') else None


class PlantedDense(PlantedAlign):
    """beyond the property's quantifier: neighbouring reference labels only more than 2*delta = 400 bp apart (the spacing hypothesis of
    C06_pairing_exact); competing candidate pairs within maxPairDistance exist and AlignedPair.deduplicate has to pick the nearer one"""
    name = 'planted_dense'
    quick_n, thorough_n = 180, 1500

    def gen(self, rng, tier):
        return [gen_planted_align(rng, k, dense=True) for k in range(self.quick_n if tier == 'quick' else self.thorough_n)]

    def classify(self, case, out):
        gaps = [b - a for a, b in zip(case['ref'], case['ref'][1:])]
        win = gaps[case['a']:case['a'] + case['n'] - 1]
        return ['rev' if case['rev'] else 'fwd', 'min gap in window %s' % ('<=401' if min(win) <= 401 else '<=1700' if min(win) <= 1700 else '>1700'),
                'eps=%s' % ('+-200' if abs(case['eps']) == 200 else 'inside')]


# ------------------------------------------------------------------------------------------------ (b) end to end
MODES = ['best', 'separate', 'joined', 'all']
# where an un-joined, fully aligned query is reported (multi_pass_workflow_coordinator.py): the main file of `joined`/`all` holds only
# joined rows; `joined` writes the un-joined rows to _1, `all` writes the first-pass rows to _1 and the second-pass rows to _2.
# A planted query is aligned over its whole length (|qs - qe| = qlen - 1 > 0.8 qlen), so it has no unaligned fragment, no second pass, no join.
EXPECT_FILE = dict(best='main', separate='main', joined='_1', all='_1')


def gen_planted_dataset(seed, nq, grid):
    rng = random.Random(seed)
    N = rng.randint(300, 600)
    g = (lambda x: round(round(x * 2) / 2.0, 1)) if grid == 0.5 else (lambda x: round(x, 1))
    pos = [g(rng.choice([20.0, 1000.0, 5000.0, rng.uniform(0, 30000)]))]
    for _ in range(N - 1):
        pos.append(g(pos[-1] + 2000 + g(rng.expovariate(1 / 7000.0))))
    rid = rng.randint(1, 25)
    refs = [(rid, g(pos[-1] + rng.choice([1.0, 5000.0, 123.4])), pos)]
    qs = []; truth = {}
    qid = rng.randint(1, 300)
    for _ in range(nq):
        n = rng.randint(15, 45)
        a = rng.randint(4, N - 4 - n)
        w = pos[a:a + n]
        rev = rng.random() < 0.5
        off = g(rng.choice([0.0, 20.0, 1234.5, rng.uniform(0, 50000), rng.uniform(0, 3000000)]))
        ql = [round(w[-1] - p + off, 1) for p in reversed(w)] if rev else [round(p - w[0] + off, 1) for p in w]
        trail = g(rng.choice([0.0, 1.0, 500.0, 3000.0, rng.uniform(0, 20000)]))
        qs.append((qid, round(ql[-1] + trail, 1), ql))
        truth[str(qid)] = dict(a=a, n=n, rev=rev, ref=rid, off=off, trail=trail)
        qid += rng.choice([1, 1, 7])
    return dict(refs=refs, queries=qs, truth=truth)


_DS = {}


def dataset_jobs(case):
    ds = gen_planted_dataset(case['ds_seed'], case['nq'], case['grid'])
    e2e.materialise(ds, 'c06_%d_%d_%s' % (case['ds_seed'], case['nq'], case['grid']))
    rp, qp = os.path.join(ds['dir'], 'r.cmap'), os.path.join(ds['dir'], 'q.cmap')
    return ds, [dict(refpath=rp, qpath=qp, args=['-oM', m], cpus=2, capture=(m == 'best')) for m in MODES]


def dataset_output(case):
    """runs (or fetches from the run cache) the four modes on one data set; memoised per process"""
    key = (case['ds_seed'], case['nq'], case['grid'], common.REPO)
    if key in _DS:
        return _DS[key]
    ds, jobs = dataset_jobs(case)
    rs = e2e.run_many(jobs, workers=len(jobs))
    out = dict(modes={}, truth=ds['truth'], ref_labels=ds['refs'][0][2])
    for m, r in zip(MODES, rs):
        files = {}
        for fk in r.files:
            try:
                files[fk] = [dict(q=x['q'], r=x['r'], ori=x['ori'], hit=x['hit'], pairs=[list(p) for p in x['pairs']]) for x in r.records(fk)]
            except Exception as e:
                files[fk] = dict(parse_error=type(e).__name__ + ':' + str(e)[:100])
        out['modes'][m] = dict(rc=r.rc, stderr=r.stderr[-400:] if r.rc else '', files=files)
    # the winning first-pass candidate of every query: highest confidence, first on ties (stable sort in __getBestAlignment)
    cand = {}; seeds = {}
    for c in rs[0].capture:
        if c['t'] == 'row' and c['shift'] == 0:
            cand.setdefault(c['q'], []).append(c)
        elif c['t'] == 'corr' and c['shift'] == 0:
            seeds.setdefault(c['q'], []).append(dict(r=c['r'], rev=c['rev'], index=c['index'], peaks=c['peaks']))
    win = {}
    for qid, cs in cand.items():
        best = sorted(cs, key=lambda c: -c['conf'])[0]
        win[str(qid)] = dict(r=best['r'], rev=best['rev'], index=best['index'], conf=best['conf'], ncand=len(cs),
                             segs=[dict(peak=s['peak'], pairs=[[p[1], p[2], p[3]] for p in s['pos'] if p[0] == 'P'],
                                        unpaired=sum(1 for p in s['pos'] if p[0] != 'P')) for s in best['segs']],
                             seeds=seeds.get(qid, []))
    out['winner'] = win
    _DS[key] = out
    return out


class PlantedE2E(Stream):
    """one case = one planted query of one generated data set (the data set is run once, in the four modes)"""
    name = 'planted_e2e'
    model = False
    parallel = False

    def datasets(self, tier):
        base = seeded_rng(getattr(self, 'seed', 0), 'c06-e2e')
        if tier == 'quick':
            return [dict(ds_seed=base.randint(1, 10 ** 9), nq=20, grid=0.5), dict(ds_seed=base.randint(1, 10 ** 9), nq=20, grid=0.1)]
        return [dict(ds_seed=base.randint(1, 10 ** 9), nq=30, grid=(0.5 if k % 2 == 0 else 0.1)) for k in range(12)]

    def gen(self, rng, tier):
        dss = self.datasets(tier)
        jobs = []
        for d in dss:
            jobs.extend(dataset_jobs(d)[1])
        e2e.run_many(jobs, workers=8)                     # fills the run cache; impl() then only parses
        cases = []
        for d in dss:
            ds = gen_planted_dataset(d['ds_seed'], d['nq'], d['grid'])
            cases.extend(dict(d, qid=int(q)) for q in ds['truth'])
        return cases

    def impl(self, case):
        o = dataset_output(case)
        qid = case['qid']; t = o['truth'][str(qid)]
        modes = {}
        for m, mo in o['modes'].items():
            files = {}
            for fk, f in mo['files'].items():
                files[fk] = f if isinstance(f, dict) else [r for r in f if r['q'] == qid]
            modes[m] = dict(rc=mo['rc'], stderr=mo['stderr'], files=files)
        return dict(modes=modes, truth=t, ra=o['ref_labels'][t['a']], winner=o['winner'].get(str(qid)))

    def oracle(self, case, out):
        errs = []
        for m, mo in out['modes'].items():
            if mo['rc'] != 0:
                errs.append('COMA exited with status %s in mode %s: %s' % (mo['rc'], m, mo['stderr'][-300:]))
            for fk, f in mo['files'].items():
                if isinstance(f, dict):
                    errs.append('output file %s of mode %s is not well-formed XMAP: %s' % (fk, m, f['parse_error']))
        if errs:
            return errs[:3]
        t = out['truth']; qid = case['qid']
        a, n, rev = t['a'], t['n'], t['rev']
        exp = true_pairs(a, n, rev)
        tag = 'data set %d/%s: query %s (reference %d, labels %d..%d, strand %s, offset %s, trailing %s)' % (
            case['ds_seed'], case['grid'], qid, t['ref'], a + 1, a + n, '-' if rev else '+', t['off'], t['trail'])
        w = out['winner']
        # at which stage did it go wrong, if it did
        stage = ''
        if w is None:
            stage = ' [stage: no candidate at all, i.e. no primary seed peak]'
        else:
            near = [p for s in w['seeds'] if s['rev'] == rev for p in s['peaks'] if abs(p - out['ra']) <= 200]
            if not near:
                stage = ' [stage: no secondary seed peak within 200 bp of the true diagonal %s; seeds (strand-, peaks): %s]' % (
                    out['ra'], [(s['rev'], s['peaks'][:4]) for s in w['seeds']][:3])
            elif w['rev'] != rev:
                stage = ' [stage: a seed near the true diagonal exists but a candidate on the other strand won]'
            elif [[p[0], p[1]] for s in w['segs'] for p in s['pairs']] != exp:
                stage = ' [stage: a seed near the true diagonal exists and its candidate won, but pairing/segmentation/resolution gave other pairs]'
        for m in MODES:
            fk_exp = EXPECT_FILE[m]
            files = out['modes'][m]['files']
            if fk_exp not in files:
                errs.append('%s: mode %s wrote no file %s' % (tag, m, fk_exp)); continue
            for fk, mine in files.items():
                if fk != fk_exp:
                    if mine:
                        errs.append('%s: mode %s reports it in file %s as well (%d record(s))' % (tag, m, fk, len(mine)))
                    continue
                if len(mine) != 1:
                    errs.append('%s: %d records in file %s of mode %s, expected exactly one%s' % (tag, len(mine), fk, m, stage)); continue
                r = mine[0]
                if r['r'] != t['ref']: errs.append('%s: mode %s reports reference %d' % (tag, m, r['r']))
                if r['ori'] != ('-' if rev else '+'): errs.append('%s: mode %s reports strand %s%s' % (tag, m, r['ori'], stage))
                if r['pairs'] != exp:
                    miss = [p for p in exp if p not in r['pairs']]; extra = [p for p in r['pairs'] if p not in exp]
                    errs.append('%s: mode %s: pairs are not the true pairs (missing %s, extra %s)%s' % (tag, m, miss[:4], extra[:4], stage))
                if r['hit'] != '%dM' % n: errs.append('%s: mode %s: HitEnum %s, expected %dM%s' % (tag, m, r['hit'], n, stage))
        if w is None:
            if not errs: errs.append('%s: no candidate was captured%s' % (tag, stage))
        else:
            sh = [abs(p[2]) for s in w['segs'] for p in s['pairs']]
            if not sh or max(sh) > 200 + 1e-6:
                errs.append('%s: the winning candidate has a pair %.1f bp from its seed diagonal (> 200)%s' % (tag, max(sh) if sh else -1, stage))
            if [[p[0], p[1]] for s in w['segs'] for p in s['pairs']] != exp:
                errs.append('%s: the winning candidate (index %d of %d) does not hold exactly the true pairs%s' % (tag, w['index'], w['ncand'], stage))
        return errs[:4]

    def classify(self, case, out):
        t = out.get('truth')
        if not t:
            return ['error']
        k = ['grid=%s' % case['grid'], 'strand=%s' % ('-' if t['rev'] else '+'),
             'n=%s' % ('15-24' if t['n'] < 25 else '25-34' if t['n'] < 35 else '35-45'),
             'offset=%s' % ('0' if t['off'] == 0 else '>0'), 'trailing=%s' % ('0' if t['trail'] == 0 else '>0')]
        w = out.get('winner')
        if w:
            sh = [abs(p[2]) for s in w['segs'] for p in s['pairs']]
            m = max(sh) if sh else -1
            k.append('measured max|queryShift| %s' % ('<=50' if m <= 50 else '<=100' if m <= 100 else '<=150' if m <= 150 else '<=200' if m <= 200 else '>200'))
            k.append('winner: segments=%d' % len(w['segs']))
            k.append('winner: secondary seed peaks=%d' % min(9, max([len(s['peaks']) for s in w['seeds'] if s['index'] == w['index']] or [0])))
            k.append('candidates=%d' % w['ncand'])
        return k

    def nontrivial(self, case, out):
        w = out.get('winner')
        return repr((case['ds_seed'], case['grid'], case['qid'])) if w and w['segs'] else None


# the theorems C06_true_lag_yields_seed* are about the executable seeding model (model/Seeding.v): its correspondence with the real seeding
# chain (harness/seeding.py, shared with C16) is therefore part of this check as well
from .. import seeding as _sd


class SeedingChain(_sd.SeedingChain):
    n_quick, n_thorough = 16, 80


STREAMS = [PlantedAlign(), PlantedDense(), PlantedE2E(), SeedingChain()]

"""C08 — Output modes agree; joined records are justified by and faithful to their parts. (INTERIM: run-model correspondence only)"""
from .. import e2e_streams as es
ID = 'C08'
RULE = 'interim'
STREAMS = [es.RunModelStream()]

"""C08 — Output modes agree; joined records are justified by and faithful to their parts.

Streams:
  e2e_modes      oracle from the FILE TEXT of the output modes separate, joined and all run on the same data set (independent XMAP parser):
                 file equalities, AlignedRest flags, partition of the single-pass records into un-joined records and parts of exactly one
                 joined record, guard / subset / union clauses of every joined record.  Data sets rich in indel, chimeric and partial
                 queries, several -diff values (0, small, default), boundary runs with -diff == the reference gap of a joined record.
  e2e_run_model_joinrich / e2e_run_model
                 the Coordinator/MultiPass model (coq/model/Coordinator.v: program_run), given the seeds captured from the real runs, must
                 reproduce every output file of every mode (the theorems of coq/props/C08.v are about that model): on the boundary runs
                 (reference gap == maxDifference), the F7 witness and further join-rich data sets (modes separate/joined/all), and on the
                 data sets shared with the other properties (all four modes).

Known finding F7 (known_findings.json): AlignmentResultRow.resolve joins only segments[0] of each part.  `ModesStream.finding` recognises it
by the specific signature  joined != union  AND  union is a valid matching  AND  joined is a subset of the union  AND  a part (captured
candidate row of the `all` run) carries aligned pairs outside its segments[0] (>= 2 segments with pairs);  every other violation of the
union clause, and every other clause, is reported as a VIOLATION."""
import os, json, random, re, collections
from .. import e2e, e2e_streams as es, common
from ..common import seeded_rng

ID = 'C08'
RULE = ('whole COMA runs (Program.run with capture extensions registered through COMA\'s own extension mechanism) in the output modes separate, joined and '
        'all on the same generated data set (2 references x 200 labels, 20-32 queries of kinds indel / double indel / gap / chimera / inversion / partial / '
        'exact / noisy on both strands; -diff in {0, 2000, 3000, 5000, 8000, 12000, 20000, 60000, default 100000}, three parameter sets, plus boundary runs '
        'with -diff equal to (and one below) the reference gap of a joined record of the same data set); mode best is exercised by the shared run-model '
        'stream (all four modes).  non-trivial = run in which at least one joined record is written')
TRUSTED = ['harness/e2e.py (data-set writer, independent XMAP text parser, subprocess runner with capture extension)',
           'harness/e2e_streams.py seed_table: the captured seeds instantiate the abstract seeding function of the run model']
ASSUMPTIONS = ['coordinates are multiples of 0.5 and parameters lie on the exact grid, so that the float arithmetic of the implementation is exact',
               'the numerical seeding stage (FFT cross-correlation, peak selection) is abstract in the model: theorems hold for every seeding function']

# ------------------------------------------------------------------------------------------------ data sets
P_A = ['-d', '1200', '-sp', '800', '-dp', '0.5', '-su', '-100', '-ms', '1500', '-bs', '900']
P_B = ['-d', '2000', '-sp', '1000', '-dp', '2', '-su', '-500', '-ms', '500', '-bs', '2400', '-sj', '0.5']
C08_PARAMS = [
    [],
    ['-diff', '5000'],
    P_B,
    ['-diff', '0'],
    ['-diff', '12000', '-p', '6', '-ss', '1'],
    P_A + ['-diff', '20000'],
    ['-diff', '60000'],
    ['-diff', '3000', '-p', '1'],
    ['-diff', '2000'],
    P_B + ['-diff', '8000'],
]


def gen_joinrich(rng, nref=2, nlab=200, nq=24):
    """like e2e.gen_mixed, but most queries are indel-containing (gap sizes around the usual -diff values), chimeric or partial,
    so that the second pass finds something and the join guard is exercised on both sides"""
    refs = []
    for rid in rng.sample(range(1, 30), nref):
        pos = e2e.gen_ref(rng, nlab)
        refs.append((rid, pos[-1] + 5000.0, pos))
    refs.sort()
    qs = []; truth = {}
    qid = rng.randint(1, 500)
    for k in range(nq):
        rid, rl, rp = rng.choice(refs)
        n = rng.randint(18, 48)
        a = rng.randint(0, len(rp) - n - 30)
        w = rp[a:a + n]
        kind = rng.choice(['indel', 'indel', 'indel2', 'indel2', 'indel2', 'gap', 'gap', 'chimera', 'partial', 'inversion', 'exact', 'noisy'])
        q = [p - w[0] for p in w]
        if kind == 'noisy':
            q = [p + rng.choice([0, 100, -100, 300, -200, 500]) for p in q if rng.random() > 0.1]
        elif kind == 'indel':          # insertion/deletion in the query: both halves match the same reference region, shifted
            c = rng.randint(7, max(7, len(q) - 7)); d = rng.choice([3000, 8000, -1500, 20000, 40000, 60000, 100000, 2500, 150000])
            q = q[:c] + [p + d for p in q[c:]]
        elif kind == 'indel2':         # a small indel (two chained segments in one candidate row) and a large one (second pass)
            n = len(q); c1 = rng.randint(6, max(6, n // 3)); c2 = rng.randint(min(n - 6, c1 + 6), max(c1 + 6, n - 6))
            small = rng.choice([3000, 5000, 8000, -1500, 2500, 4000]); large = rng.choice([20000, 40000, 60000, 30000, 100000])
            d1, d2 = (small, large) if rng.random() < 0.5 else (large, small)
            q = q[:c1] + [p + d1 for p in q[c1:c2]] + [p + d1 + d2 for p in q[c2:]]
        elif kind == 'gap':            # the second half comes from further down the same reference (deletion in the query)
            c = rng.randint(7, max(7, len(q) - 7)); skip = rng.choice([1, 2, 4, 8, 15, 30])
            b = min(a + c + skip, len(rp) - (n - c) - 1)
            w2 = rp[b:b + (n - c)]
            q = q[:c] + [q[c - 1] + rng.choice([2000, 5000, 9000]) + (p - w2[0]) for p in w2]
        elif kind == 'chimera':
            rid2, rl2, rp2 = rng.choice(refs); b = rng.randint(0, len(rp2) - 50); w2 = rp2[b:b + rng.randint(8, 30)]
            q = q + [q[-1] + 5000 + (p - w2[0]) for p in w2]
        elif kind == 'inversion':      # second half reversed: same reference, other strand
            c = rng.randint(7, max(7, len(q) - 7)); tail = q[c:]
            q = q[:c] + [q[c] + (tail[-1] - p) for p in tail[::-1]]
        elif kind == 'partial':
            g = [0.0]
            for _ in range(rng.randint(6, 14)): g.append(g[-1] + rng.choice([2500, 4200, 7100, 11000, 16000]))
            if rng.random() < 0.5:
                q = q + [q[-1] + 4000 + x for x in g]
            else:
                q = g + [g[-1] + 4000 + x for x in q]
        q = sorted(set(round(max(0, p), 1) for p in q))
        if len(q) < 2:
            continue
        rev = rng.random() < 0.5
        if rev:
            q = [round(q[-1] - p, 1) for p in q[::-1]]
        off = rng.choice([0, 20.0, 1234.5])
        q = [round(p + off, 1) for p in q]
        qs.append((qid, q[-1] + rng.choice([0.0, 500.0, 3000.0]), q))
        truth[qid] = dict(kind=kind, ref=rid, start=a, n=n, rev=rev)
        qid += rng.choice([1, 1, 7])
    return dict(refs=refs, queries=qs, truth=truth, kind='joinrich')


def gen_crossref(rng, nlab=200, nq=2):
    """very few queries, each a chimera of two DIFFERENT references at similar reference coordinates on the same strand: the first pass
    aligns the part on one reference (< 80 % of the molecule), the second pass the rest on the other reference; the two records are adjacent
    when rows are ordered by (reference, query) and their coordinates are within maxDifference — they must NOT be joined"""
    ids = sorted(rng.sample(range(1, 30), 2))
    refs = []
    for rid in ids:
        pos = e2e.gen_ref(rng, nlab)
        refs.append((rid, pos[-1] + 5000.0, pos))
    qs = []; truth = {}
    qid = rng.randint(1, 500)
    for k in range(nq):
        (ra, la, pa), (rb, lb, pb) = (refs[0], refs[1]) if rng.random() < 0.5 else (refs[1], refs[0])
        n1 = rng.randint(16, 24); n2 = rng.randint(9, 13)
        a = rng.randint(10, len(pa) - n1 - 40)
        w1 = pa[a:a + n1]
        target = w1[-1] + rng.choice([3000, 8000, 20000])
        b = min(range(5, len(pb) - n2 - 5), key=lambda j: abs(pb[j] - target))
        w2 = pb[b:b + n2]
        q = [p - w1[0] for p in w1]
        q = q + [q[-1] + 6000 + (p - w2[0]) for p in w2]
        rev = rng.random() < 0.5
        if rev:
            q = [round(q[-1] - p, 1) for p in q[::-1]]
        off = rng.choice([0, 20.0])
        q = [round(p + off, 1) for p in q]
        qs.append((qid, q[-1] + 500.0, q))
        truth[qid] = dict(kind='crossref', ref=ra, ref2=rb, rev=rev)
        qid += rng.choice([1, 7])
    return dict(refs=refs, queries=qs, truth=truth, kind='crossref')


def make_dataset(case):
    if case.get('gen') == 'crossref':
        rng = random.Random(case['ds_seed'])
        ds = gen_crossref(rng, nlab=case.get('nlab', 200), nq=case['nq'])
        ds['refs'] = [(i, es.half(l), [es.half(p) for p in ps]) for i, l, ps in ds['refs']]
        ds['queries'] = [(i, es.half(l), sorted(set(es.half(p) for p in ps))) for i, l, ps in ds['queries']]
        return ds
    if case.get('gen') != 'joinrich':
        return es.make_dataset(case['ds_seed'], case['nq'], case.get('nlab', 200))
    rng = random.Random(case['ds_seed'])
    ds = gen_joinrich(rng, nref=2, nlab=case.get('nlab', 200), nq=case['nq'])
    ds['refs'] = [(i, es.half(l), [es.half(p) for p in ps]) for i, l, ps in ds['refs']]
    ds['queries'] = [(i, es.half(l), sorted(set(es.half(p) for p in ps))) for i, l, ps in ds['queries']]
    return ds


C08_MODES = ['separate', 'joined', 'all']        # `best` writes one file only: C05's business (covered here by the shared run-model stream)


def run_dataset(case, modes=C08_MODES, capture_mode='all'):
    """es.run_dataset with the generator chosen by case['gen']"""
    ds = make_dataset(case)
    tag = '%s%d_%d' % ({'joinrich': 'jr', 'crossref': 'xr'}.get(case.get('gen'), 'ds'), case['ds_seed'], case['nq'])
    e2e.materialise(ds, tag)
    rp, qp = os.path.join(ds['dir'], 'r.cmap'), os.path.join(ds['dir'], 'q.cmap')
    jobs = [dict(refpath=rp, qpath=qp, args=['-oM', m] + list(case['extra']), cpus=1, capture=(m == capture_mode)) for m in modes]
    rs = e2e.run_many(jobs, workers=len(jobs))
    out = dict(modes={m: es.summarise(r) for m, r in zip(modes, rs)})
    out['capture'] = rs[modes.index(capture_mode)].capture if capture_mode in modes else []
    out['refs'] = {str(i): dict(labels=ps, end=l) for i, l, ps in ds['refs']}
    out['queries'] = {str(i): dict(labels=ps, end=l) for i, l, ps in ds['queries']}
    out['truth'] = {str(k): v for k, v in ds['truth'].items()}
    return out


# ------------------------------------------------------------------------------------------------ oracle (file text only)
def rec_key(r):
    """a record without its XmapEntryID (entry ids are positions in the file)"""
    return json.dumps({k: v for k, v in r.items() if k != 'id'}, sort_keys=True)


def rows_of(out, mode, fk):
    f = out['modes'][mode]['files'].get(fk)
    if f is None or 'rows' not in f:
        return None
    return f['rows']


def same_file(a, b, what, errs, with_ids=True):
    if a is None or b is None:
        errs.append('%s: a file is missing' % what); return
    if len(a) != len(b):
        errs.append('%s: %d records against %d' % (what, len(a), len(b))); return
    for x, y in zip(a, b):
        if (x != y) if with_ids else (rec_key(x) != rec_key(y)):
            d = [k for k in x if x.get(k) != y.get(k)]
            errs.append('%s: records of query %s / %s differ in %s' % (what, x['q'], y['q'], d)); return


def valid_matching(pairs, rev):
    """one-to-one and collinear: reference labels strictly ascending, query labels strictly monotone in the direction of the strand"""
    for (a1, b1), (a2, b2) in zip(pairs, pairs[1:]):
        if not a1 < a2:
            return False
        if (not rev and not b1 < b2) or (rev and not b1 > b2):
            return False
    return len(pairs) > 0


def captured_rows(out):
    """candidate rows of the `all` run by (query, reference, strand, pair list)"""
    tab = collections.defaultdict(list)
    for c in out.get('capture', []):
        if c.get('t') != 'row':
            continue
        segs = [[(p[1], p[2]) for p in s['pos'] if p[0] == 'P'] for s in c['segs']]
        pairs = tuple(p for s in segs for p in s)
        tab[(c['q'], c['r'], bool(c['rev']), pairs)].append(dict(segs=segs, conf=c['conf'], shift=c['shift'], nq=c['nq']))
    return tab


def part_segments(tab, rec, second):
    """the captured candidate row a written single-pass record was made from -> list of pair lists per segment (None: not captured)"""
    cands = tab.get((rec['q'], rec['r'], rec['ori'] == '-', tuple(tuple(p) for p in rec['pairs'])), [])
    try:
        conf = float(rec['conf'])
        close = [c for c in cands if abs(c['conf'] - conf) < 0.006]
        cands = close or cands
    except ValueError:
        pass
    return cands[0]['segs'] if cands else None


def analyse(case, out):
    """decides every clause of C08 on the parsed files; returns (violations, joined-record analyses)"""
    errs = es.run_failures(out)
    info = []
    if errs:
        return errs, info
    diff = es.params_of(case['extra'])['diff']
    all_m, all_1, all_2 = rows_of(out, 'all', 'main'), rows_of(out, 'all', '_1'), rows_of(out, 'all', '_2')
    j_m, j_1 = rows_of(out, 'joined', 'main'), rows_of(out, 'joined', '_1')
    s_m, s_1 = rows_of(out, 'separate', 'main'), rows_of(out, 'separate', '_1')
    if any(x is None for x in (all_m, all_1, all_2, j_m, j_1, s_m, s_1)):
        return ['an output file of a multi-pass mode is missing (all: main/_1/_2, joined: main/_1, separate: main/_1)'], info
    for m, fk in (('joined', '_2'), ('separate', '_2'), ('best', '_1'), ('best', '_2')):
        if m in out['modes'] and rows_of(out, m, fk) is not None:
            errs.append('mode %s wrote an additional file %s' % (m, fk))
    # ---- the same alignments in every mode
    same_file(all_m, j_m, "main file of 'all' vs main file of 'joined'", errs)
    same_file(all_1, s_m, "_1 file of 'all' vs main file of 'separate'", errs)
    same_file(all_2, s_1, "_2 file of 'all' vs _1 file of 'separate'", errs)
    for r in all_1:
        if r['rest'] != 'False':
            errs.append("first-pass record of query %d in the _1 file of 'all' carries AlignedRest %s" % (r['q'], r['rest'])); break
    for r in all_2:
        if r['rest'] != 'True':
            errs.append("second-pass record of query %d in the _2 file of 'all' carries AlignedRest %s" % (r['q'], r['rest'])); break
    # ---- partition: every single-pass record is un-joined or a part of exactly one joined record
    unj = collections.Counter(rec_key(r) for r in j_1)
    single = collections.Counter(rec_key(r) for r in all_1 + all_2)
    joined_by_q = collections.defaultdict(list)
    for r in j_m:
        joined_by_q[r['q']].append(r)
    parts = collections.defaultdict(lambda: dict(first=[], second=[]))
    for which, rows in (('first', all_1), ('second', all_2)):
        for r in rows:
            k = rec_key(r)
            if unj.get(k, 0) > 0:
                unj[k] -= 1
                if any(j['r'] == r['r'] for j in joined_by_q.get(r['q'], [])):
                    errs.append('%s-pass record of query %d on reference %d is written as un-joined and a joined record of that query on that '
                                'reference exists too' % (which, r['q'], r['r']))
                continue
            js = [j for j in joined_by_q.get(r['q'], []) if j['r'] == r['r']]
            if len(js) != 1:
                errs.append('%s-pass record of query %d on reference %d is neither among the un-joined records nor part of exactly one joined '
                            'record (%d joined records of that query on that reference)' % (which, r['q'], r['r'], len(js)))
                continue
            parts[(r['q'], r['r'])][which].append(r)
    left = [k for k, n in unj.items() if n > 0]
    if left:
        errs.append("%d record(s) of the un-joined file (_1 of 'joined') are not single-pass records of the _1/_2 files of 'all'; first: query %s"
                    % (len(left), json.loads(left[0])['q']))
    # ---- every joined record
    tab = None
    for j in j_m:
        pp = parts.get((j['q'], j['r']), dict(first=[], second=[]))
        if len(pp['first']) != 1 or len(pp['second']) != 1:
            errs.append('joined record of query %d on reference %d does not come from one first-pass and one second-pass record '
                        '(%d first-pass, %d second-pass records left for it)' % (j['q'], j['r'], len(pp['first']), len(pp['second'])))
            continue
        a, b = pp['first'][0], pp['second'][0]
        tag = 'joined record of query %d on reference %d' % (j['q'], j['r'])
        if not (a['q'] == b['q'] == j['q'] and a['r'] == b['r'] == j['r']):
            errs.append('%s: parts name other maps' % tag)
        if not (a['ori'] == b['ori'] == j['ori']):
            errs.append('%s: strands of the parts and the joined record are %s, %s, %s' % (tag, a['ori'], b['ori'], j['ori']))
        gap = abs(max(float(a['rs']), float(b['rs'])) - min(float(a['re']), float(b['re'])))
        if gap > diff:
            errs.append('%s: reference gap %.1f between the parts exceeds maxDifference %d' % (tag, gap, diff))
        if j['rest'] != 'False':
            pass        # the property says nothing about the flag of a joined record
        J = [tuple(p) for p in j['pairs']]
        A = [tuple(p) for p in a['pairs']]; B = [tuple(p) for p in b['pairs']]
        union = sorted(set(A) | set(B))
        subset = set(J) <= set(union)
        rev = j['ori'] == '-'
        uvalid = valid_matching(union, rev)
        rec = dict(q=j['q'], r=j['r'], rev=rev, gap=gap, n_first=len(A), n_second=len(B), n_union=len(union), n_joined=len(J),
                   union_valid=uvalid, subset=subset, equal=(J == union))
        if not subset:
            errs.append('%s: pairs %s are in neither part' % (tag, sorted(set(J) - set(union))[:4]))
        if uvalid and J != union:
            if tab is None:
                tab = captured_rows(out)
            sa, sb = part_segments(tab, a, False), part_segments(tab, b, True)
            na = len([s for s in sa if s]) if sa is not None else -1
            nb = len([s for s in sb if s]) if sb is not None else -1
            outside = bool((sa is not None and len(sa) >= 2 and any(sa[1:])) or (sb is not None and len(sb) >= 2 and any(sb[1:])))
            rec.update(segs_first=na, segs_second=nb, pairs_outside_segment0=outside)
            errs.append('%s [union-clause q=%d r=%d]: the union of the parts\' pairs (%d first-pass + %d second-pass = %d pairs) is a valid '
                        'matching but the joined record has %d pairs; missing %s%s; segments with pairs in the captured candidate rows: '
                        'first pass %d, second pass %d' % (
                            tag, j['q'], j['r'], len(A), len(B), len(union), len(J), sorted(set(union) - set(J))[:6],
                            '' if subset else ' (and the joined record is not a subset of the union)', na, nb))
        info.append(rec)
    return errs, info


F7_RE = re.compile(r'\[union-clause q=(\d+) r=(\d+)\]')




class ModesStream(es.E2EStream):
    name = 'e2e_modes'
    quick_n, thorough_n = 3, 12
    nq_quick, nq_thorough = 20, 32
    quick_boundary, thorough_boundary = 2, 4

    def gen(self, rng, tier):
        base = seeded_rng(getattr(self, 'seed', 0), 'e2e-c08')
        n = self.quick_n if tier == 'quick' else self.thorough_n
        nq = self.nq_quick if tier == 'quick' else self.nq_thorough
        cases = [dict(WITNESS_CASE)]                                   # the recorded F7 witness first
        for k in range(n):
            cases.append(dict(ds_seed=base.randint(1, 10 ** 9), nq=nq, extra=C08_PARAMS[k % len(C08_PARAMS)], gen='joinrich'))
        for k in range(5 if tier == 'quick' else 16):                  # cross-reference chimeras: a single query, so that its two records
            cases.append(dict(ds_seed=base.randint(1, 10 ** 9), nq=1, extra=[], gen='crossref'))    # are adjacent in every row order
        outs = prewarm(cases)
        # boundary runs: the same data set again with -diff equal to the reference gap of one of its joined records (gap == maxDifference:
        # the parts do not depend on -diff, so that record must be joined again) and with -diff one below it
        extra = []
        want = self.quick_boundary if tier == 'quick' else self.thorough_boundary
        for c, out in zip(cases, outs):
            if len(extra) >= want:
                break
            try:
                info = analyse(c, out)[1]
            except Exception:
                continue
            gaps = sorted({int(r['gap']) for r in info if r['gap'] == int(r['gap']) and r['gap'] > 0})
            rest = [x for k, x in enumerate(c['extra']) if not (x == '-diff' or (k > 0 and c['extra'][k - 1] == '-diff'))]
            if gaps:
                g = gaps[len(gaps) // 2]
                extra.append(dict(c, extra=rest + ['-diff', str(g)], boundary='gap == diff'))
                if tier != 'quick':
                    extra.append(dict(c, extra=rest + ['-diff', str(g - 1)], boundary='gap == diff + 1'))
            # -diff is an integer but coordinates are not: a record joined across a gap of g + 0.5 must NOT be joined with -diff g
            fgaps = sorted({int(r['gap']) for r in info if r['gap'] != int(r['gap']) and r['gap'] > 1})
            if fgaps and len([e for e in extra if e.get('boundary') == 'gap == diff + 0.5']) < max(1, want // 3):
                extra.append(dict(c, extra=rest + ['-diff', str(fgaps[len(fgaps) // 2])], boundary='gap == diff + 0.5'))
        prewarm(extra)
        return cases + extra

    def impl(self, case):
        return run_dataset(case)

    def oracle(self, case, out):
        return analyse(case, out)[0][:12]

    def finding(self, case, out, viol):
        m = F7_RE.search(viol)
        if not m:
            return None
        q, r = int(m.group(1)), int(m.group(2))
        for rec in analyse(case, out)[1]:
            if rec['q'] == q and rec['r'] == r:
                if (not rec['equal']) and rec['union_valid'] and rec['subset'] and rec.get('pairs_outside_segment0'):
                    return 'F7'
        return None

    def classify(self, case, out):
        k = ['params=%s' % (' '.join(case['extra']) or 'default')]
        if case.get('boundary'):
            k.append('boundary run: ' + case['boundary'])
        diff = es.params_of(case['extra'])['diff']
        try:
            errs, info = analyse(case, out)
        except Exception as e:
            return k + ['analysis-error']
        n1, n2 = len(rows_of(out, 'all', '_1') or []), len(rows_of(out, 'all', '_2') or [])
        nj, nu = len(rows_of(out, 'joined', 'main') or []), len(rows_of(out, 'joined', '_1') or [])
        k += ['first-pass records=%d+' % (10 * (n1 // 10)), 'second-pass records=%s' % ('0' if n2 == 0 else '1-4' if n2 < 5 else '5-9' if n2 < 10 else '10+'),
              'joined records=%s' % ('0' if nj == 0 else '1-2' if nj < 3 else '3-5' if nj < 6 else '6+')]
        for rec in info:
            k.append('joined: %s' % ('equals the union' if rec['equal'] else 'union not a valid matching, proper subset' if not rec['union_valid']
                                     else 'F7 (pairs outside segments[0] lost)' if rec.get('pairs_outside_segment0') and rec['subset'] else 'differs from a valid union'))
            if rec['gap'] == diff:
                k.append('joined: reference gap == maxDifference')
            k.append('joined: reference gap %s' % ('0' if rec['gap'] == 0 else '<=3000' if rec['gap'] <= 3000 else '<=20000' if rec['gap'] <= 20000 else '>20000'))
        # second-pass records that were not joined although a first-pass record of the same query exists: which guard failed
        firsts = {r['q']: r for r in rows_of(out, 'all', '_1') or []}
        jq = {(r['q'], r['r']) for r in rows_of(out, 'joined', 'main') or []}
        for b in rows_of(out, 'all', '_2') or []:
            a = firsts.get(b['q'])
            if a is None or (b['q'], b['r']) in jq:
                continue
            if a['r'] != b['r']: k.append('not joined: other reference')
            elif a['ori'] != b['ori']: k.append('not joined: other strand')
            else:
                gap = abs(max(float(a['rs']), float(b['rs'])) - min(float(a['re']), float(b['re'])))
                k.append('not joined: gap > diff' if gap > diff else 'not joined: GUARD HOLDS')
        return k

    def nontrivial(self, case, out):
        return json.dumps(case, sort_keys=True) if rows_of(out, 'joined', 'main') else None


# the committed witness of F7 (also in known_findings.json): data set + parameters.  Query 69 on reference 15: first pass 14M (two segments
# of 7 pairs), second pass 6M, union = 20 pairs (valid), joined record 13M: the 7 pairs of the second segment of the first-pass row are lost.
WITNESS_CASE = dict(ds_seed=100, nq=24, extra=[], gen='joinrich')


def prewarm(cases, workers=4):
    """runs the data sets concurrently (each is four COMA subprocesses; results are cached by source hash) and returns the outputs"""
    from concurrent.futures import ThreadPoolExecutor
    if not cases:
        return []
    with ThreadPoolExecutor(max_workers=workers) as ex:
        return list(ex.map(run_dataset, cases))


class RunModel(es.RunModelStream):
    """whole runs of the same data sets: program_run must reproduce every file of every mode"""
    name = 'e2e_run_model_joinrich'
    e2e_cls = ModesStream
    quick_runs, thorough_runs = 3, 9
    modes = C08_MODES

    def gen(self, rng, tier):
        src = self.e2e_cls()
        src.seed = getattr(self, 'seed', 0)
        cases = []
        n = self.quick_runs if tier == 'quick' else self.thorough_runs
        allc = src.gen(rng, tier)
        chosen = [c for c in allc if c.get('boundary')] + allc           # boundary runs (gap == maxDifference), the F7 witness, then the rest
        for c in chosen[:n]:
            out = src.impl(c)
            for m in self.modes:
                cases.append(dict(dataset=c, mode=m, recorded=dict(mode=out['modes'][m], refs=out['refs'], queries=out['queries'],
                                                                    table=[[list(k), v] for k, v in es.seed_table(out).items()])))
        return cases


class SharedSets(es.E2EStream):
    """the data sets shared with the other properties (all four modes, cached across checks): fewer of them here"""
    quick_n, thorough_n = 1, 4


class SharedRunModel(es.RunModelStream):
    e2e_cls = SharedSets


def rec_key(r):
    return (r['q'], r['r'], r['ori'], r['qs'], r['qe'], r['rs'], r['re'], r['conf'], r['hit'], r['qlen'], r['rlen'], r['alignment'])


class BestMode(es.E2EStream):
    """mode `best`: every record must be the query's first-pass record, its second-pass record, or the joined record the other modes
    report for it ("a joined record exists only for a first- and a second-pass record ...").  Finding F12 (repaired, fix: 69b485a): when
    the second-pass row beat the first-pass row, `best` mode handed that row to the join twice and reported the self-join (only its first
    segment); the signature is kept so that a recurrence is named precisely (it is no longer listed as open, so it is a VIOLATION)."""
    name = 'e2e_best_mode'
    quick_n, thorough_n = 3, 8

    def gen(self, rng, tier):
        cases = super().gen(rng, tier)
        if tier != 'quick':
            cases.append(dict(ds_seed=538443628, nq=40, extra=[]))      # the recorded F12 witness (query 246)
        return cases

    def analyse(self, out):
        files = {(m, fk): f.get('rows', []) for m, mo in out['modes'].items() for fk, f in mo['files'].items()}
        first = {r['q']: r for r in files.get(('separate', 'main'), [])}
        second = {r['q']: r for r in files.get(('separate', '_1'), [])}
        joined = {r['q']: r for r in files.get(('joined', 'main'), [])}
        res = []
        for r in files.get(('best', 'main'), []):
            q = r['q']
            cands = [x for x in (first.get(q), second.get(q), joined.get(q)) if x is not None]
            ok = any(rec_key(r) == rec_key(x) for x in cands)
            b = second.get(q); a = first.get(q)
            selfjoin = (not ok) and b is not None and (a is None or float(b['conf']) > float(a['conf'])) and \
                set(map(tuple, r['pairs'])) <= set(map(tuple, b['pairs'])) and r['r'] == b['r'] and r['ori'] == b['ori']
            res.append(dict(q=q, ok=ok, selfjoin=selfjoin, rec=r, first=a, second=b, joined=joined.get(q)))
        return res

    def oracle(self, case, out):
        errs = es.run_failures(out)
        for e in self.analyse(out):
            if not e['ok']:
                errs.append("mode 'best': the record of query %d (reference %d, %s, confidence %s, %d pairs) is neither its first-pass record, nor its "
                            "second-pass record, nor the joined record of mode 'joined'%s" % (
                                e['q'], e['rec']['r'], e['rec']['ori'], e['rec']['conf'], len(e['rec']['pairs']),
                                ' [SELF-JOIN of the second-pass record (confidence %s, %d pairs), which beats the first-pass record]' % (
                                    e['second']['conf'], len(e['second']['pairs'])) if e['selfjoin'] else ''))
        return errs[:4]

    def finding(self, case, out, viol):
        return 'F12' if '[SELF-JOIN of the second-pass record' in viol else None

    def classify(self, case, out):
        k = super().classify(case, out)
        for e in self.analyse(out):
            k.append('best record = ' + ('first/second/joined record' if e['ok'] else 'SELF-JOIN (F12)' if e['selfjoin'] else 'SOMETHING ELSE'))
        return k


# ---- in process: the multi-pass chain on dense lattices (C07's crash search stream): model correspondence for results_resolve / the join
# where labels around the junction match coincidentally, plus the join clauses that can be read off the rows
from . import C07 as _c07


class MultiJoin(_c07.MultiCrash):
    name = 'multi_join'
    quick_n, thorough_n = 2500, 16000

    def oracle(self, case, out):
        errs = []
        if 'row1' not in out or 'exc' in out or 'stop' in out:     # resolve was not reached
            return errs
        parts = [out['row1']] + out.get('rows2', [])
        union = set(tuple(p) for r in parts for p in r[8])
        for j in out.get('joined', []):
            ps = set(tuple(p) for p in j[8])
            if not ps <= union:
                errs.append('joined row has pairs that are in neither part: %s' % sorted(ps - union))
            a = out['row1']
            cands = [b for b in out.get('rows2', []) if b[6] == a[6] and b[1] == a[1] and abs(max(a[4], b[4]) - min(a[5], b[5])) <= case['maxdiff'] * 10]
            if not cands:
                errs.append('a joined row exists although no second-pass row passes the join guard (same reference and strand, reference gap <= %s)' % case['maxdiff'])
        key = lambda r: json.dumps(r)
        single = [key(r) for r in parts]
        sep = [key(r) for r in out.get('separate', [])]
        if out.get('joined'):
            if len(out['joined']) != 1 or len(parts) - len(sep) != 2 or any(x not in single for x in sep):
                errs.append('%d joined and %d un-joined rows from %d single-pass rows: every single-pass row must be un-joined or part of exactly one joined row'
                            % (len(out['joined']), len(sep), len(parts)))
        elif sorted(sep) != sorted(single):
            errs.append('no joined row, but the un-joined rows are not exactly the single-pass rows (%d vs %d)' % (len(sep), len(parts)))
        return errs[:4]

    def finding(self, case, out, viol):
        return None


STREAMS = [ModesStream(), RunModel(), SharedRunModel(), BestMode(), MultiJoin()]

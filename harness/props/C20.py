"""C20 — Indel calls are self-consistent and clustering conserves every call."""
import os, sys, copy, operator, tempfile, collections
from fractions import Fraction
from types import SimpleNamespace as NS
from ..driver import Stream
from .. import common
from ..common import z, zl, cb, clist

ID = 'C20'
RULE = ('cluster / cluster_unsorted: random lists of 0-14 indel calls over 1-4 chromosomes and both types (80% single type, as the writer passes them), '
        'RefStop differences dense around the blur boundary (exactly blur, blur+1, blur-1), blur 30000 and a few other values; sorted by '
        '(Chromosome, RefStop) like write_indel_file, resp. left unsorted; every field of every cluster compared with the model. '
        'write: write_indel_file on an {"insertion","deletion"} dict into a temporary file, parsed back. '
        'calls_mol / calls_seg: the two look_for_indels_in_breakage functions on fake alignments whose label gaps hit the thresholds '
        '(|diff| in {100,101,2000,2001,99999,100000} and around), both query orientations, missing breakage entries, breakage at the last pair, '
        'label numbers out of range (exception kind compared as raised / not raised). '
        'non-trivial = distinct case with at least one merged cluster (cluster, write) / at least one produced call (calls)')
TRUSTED = ['adapter: alignments, maps and label pairs are SimpleNamespace objects with the attributes the two finders read '
           '(queryId, referenceId, alignedPairs[i].reference.siteId / .query.siteId, positions)',
           'type strings "insertion"/"deletion" are rendered as 0/1, the comma-joined QueryId string as a list of ints, '
           'the float Length of a merged cluster as an exact fraction']
ASSUMPTIONS = ['label positions and Length values are integers (base pairs), so the float running mean (a+b)/2 of a cluster is exact '
               '(clusters of at most 14 calls); real CMAP positions carry one decimal and are then subject to float rounding',
               'a dict passed to write_indel_file lists "insertion" first and "deletion" second, as the two finders build it '
               '(the writer takes values()[0] and values()[1])',
               'query ids within one generated case are distinct, so the oracle can tell the members of a cluster from its QueryId list']
TYPES = ['insertion', 'deletion']


def _sv():
    p = os.path.join(common.REPO, 'sv')
    if p not in sys.path:
        sys.path.insert(0, p)
    if common.REPO not in sys.path:
        sys.path.insert(0, common.REPO)


# ------------------------------------------------------------------------------------------------ helpers
def rows_of(calls):
    return [[TYPES[c[0]], c[1], c[2], c[3], c[4], c[5], c[6], c[7]] for c in calls]


def frac(x):
    f = Fraction(float(x)) if isinstance(x, str) else Fraction(x)      # float(repr(v)) == v, and Fraction(float) is exact
    return [f.numerator, f.denominator]


def canon_cluster(o):
    """a row of cluster_indels / a parsed line of the file -> [typ, chr, rs, re, ids, qs, qe, [num, den], count]"""
    if len(o) != 9:
        return dict(bad='row with %d fields' % len(o))
    t = str(o[0]).strip()
    return [TYPES.index(t) if t in TYPES else -1, int(o[1]), int(o[2]), int(o[3]), [int(t) for t in str(o[4]).split(',')],
            int(o[5]), int(o[6]), frac(o[7]), int(o[8])]


def call_term(c):
    return 'mkCall %s %s %s %s %s %s %s (inject_Z %s)' % tuple(z(v) for v in c)


def cluster_term(o):
    if isinstance(o, dict):
        return 'mkCl (-9) 0 0 0 [] 0 0 0%Q 0'
    return 'mkCl %s %s %s %s %s %s %s (Qmake %s %d%%positive) %s' % (z(o[0]), z(o[1]), z(o[2]), z(o[3]), zl(o[4]), z(o[5]), z(o[6]),
                                                                   z(o[7][0]), o[7][1], z(o[8]))


def oracle_clusters(calls, out, in_order):
    """conservation, no mixing, interval cover decided on the implementation's output"""
    if isinstance(out, dict):
        return ['clustering raised %s' % out.get('err')]
    errs = []
    for o in out:
        if isinstance(o, dict):
            return ['malformed cluster row: %s' % o['bad']]
    n = len(calls)
    if sum(o[8] for o in out) != n:
        errs.append('Count values sum to %d but there are %d calls' % (sum(o[8] for o in out), n))
    ids_in = [c[4] for c in calls]
    ids_out = [i for o in out for i in o[4]]
    if collections.Counter(ids_in) != collections.Counter(ids_out):
        lost = sorted((collections.Counter(ids_in) - collections.Counter(ids_out)).elements())
        extra = sorted((collections.Counter(ids_out) - collections.Counter(ids_in)).elements())
        errs.append('query ids not conserved: lost %s invented %s' % (lost[:5], extra[:5]))
    elif in_order and ids_in != ids_out:
        errs.append('query ids of the clusters are not in input order')
    by_id = collections.defaultdict(list)
    for c in calls:
        by_id[c[4]].append(c)
    for o in out:
        if o[8] != len(o[4]):
            errs.append('Count %d but %d query ids' % (o[8], len(o[4])))
        members = [c for i in o[4] for c in by_id.get(i, [])[:1]]
        if not members:
            continue
        if any(c[0] != o[0] or c[1] != o[1] for c in members):
            errs.append('cluster %s/%s mixes types or chromosomes: members %s' % (o[0], o[1], [(c[0], c[1]) for c in members]))
        if o[2] != min(c[2] for c in members) or o[3] != max(c[3] for c in members):
            errs.append('cluster interval [%d,%d] is not [min RefStart, max RefStop] = [%d,%d] of its members' % (
                o[2], o[3], min(c[2] for c in members), max(c[3] for c in members)))
        if any(c[2] < o[2] or c[3] > o[3] for c in members):
            errs.append('cluster interval does not cover a member')
    return sorted(set(errs))[:3]


CL_PRELUDE = '''From Coq Require Import ZArith QArith List Bool. Import ListNotations.
Require Import Py Indels Indels2 IndelProofs2. Open Scope Z_scope.
Fixpoint eqzl (a b : list Z) : bool := match a, b with [], [] => true | x :: s, y :: t => (x =? y) && eqzl s t | _, _ => false end.
Definition cleq (a b : cluster) : bool :=
  (ltyp a =? ltyp b) && (lchr a =? lchr b) && (lrs a =? lrs b) && (lre a =? lre b) && eqzl (lids a) (lids b) &&
  (lqs a =? lqs b) && (lqe a =? lqe b) && Qeq_bool (llen a) (llen b) && (lcount a =? lcount b).
Fixpoint cleqs (a b : list cluster) : bool := match a, b with [], [] => true | x :: s, y :: t => cleq x y && cleqs s t | _, _ => false end.
'''


# ------------------------------------------------------------------------------------------------ (a) cluster_indels
def gen_calls(rng, n, id0=100, single_type=None):
    """calls as [typ, chr, RefStart, RefStop, QueryId, QueryStart, QueryStop, Length]; RefStop values in chains whose steps sit on the blur boundary"""
    nchr = rng.randint(1, 4)
    out = []
    stops = {}
    for i in range(n):
        ch = rng.randint(1, nchr)
        prev = stops.get(ch, rng.randrange(0, 50) * 1000)
        step = rng.choice([0, 1, 29999, 30000, 30001, 30000, 30001, 15000, 60000, 60001, rng.randrange(0, 70000), -30000, -30001])
        re = max(0, prev + step)
        stops[ch] = re
        rs = re - rng.choice([0, 1, 500, 5000, 29999, 30000, 30001, 45000, rng.randrange(0, 90000)])
        typ = single_type if single_type is not None else rng.randint(0, 1)
        ln = rng.randrange(2001, 99999) * (1 if typ == 1 else -1) if rng.random() < 0.7 else rng.randrange(-400, 400) * 256
        qs = rng.randrange(0, 200000)
        out.append([typ, ch, rs, re, id0 + i, qs, qs + rng.randrange(1, 90000), ln])
    return out


class Cluster(Stream):
    name = 'cluster'
    shard = 100
    sort_input = True
    prelude = CL_PRELUDE + '''Definition check (c : Z * list call * list cluster) : Z :=
  match c with (blur, l, out) => if cleqs (cluster_indels true blur l) out then (if clusters_ok l out then 0 else 2) else 1 end.'''

    def gen(self, rng, tier):
        n = 1500 if tier == 'quick' else 6000
        cases = []
        for _ in range(n):
            k = rng.choice([0, 1, 2, 2, 3, 3, 4, 5, 6, 8, 10, 14])
            calls = gen_calls(rng, k, single_type=(rng.randint(0, 1) if rng.random() < 0.8 else None))
            if self.sort_input:
                calls.sort(key=operator.itemgetter(1, 3))
            blur = 30000 if rng.random() < 0.8 else rng.choice([0, 1, 1000, 29999, 30001, 100000, -1])
            cases.append(dict(calls=calls, blur=blur))
        return cases

    def impl(self, case):
        _sv()
        from write_indel_files import cluster_indels
        rows = rows_of(case['calls'])
        before = copy.deepcopy(rows)
        try:
            out = cluster_indels(rows, case['blur'])
        except Exception as e:
            return dict(err=type(e).__name__)
        res = [canon_cluster(o) for o in out]
        if rows != before:
            res.append(dict(bad='cluster_indels changed its input list'))
        return res

    def term(self, case, out):
        o = [dict(bad=1)] if isinstance(out, dict) else out
        return '(%s, %s, %s)' % (z(case['blur']), clist(call_term(c) for c in case['calls']), clist(cluster_term(x) for x in o))

    def oracle(self, case, out):
        return ['%s (blur=%d calls=%s clusters=%s)' % (e, case['blur'], case['calls'], out) for e in oracle_clusters(case['calls'], out, True)]

    def classify(self, case, out):
        if isinstance(out, dict):
            return ['raised']
        k = ['calls=%s' % (len(case['calls']) if len(case['calls']) < 6 else '6+'), 'blur=%s' % ('default' if case['blur'] == 30000 else 'other')]
        good = [o for o in out if not isinstance(o, dict)]
        k.append('merged=%d' % min(3, sum(1 for o in good if o[8] > 1)))
        if len({c[0] for c in case['calls']}) > 1: k.append('both types')
        if len({c[1] for c in case['calls']}) > 1: k.append('several chromosomes')
        return k

    def nontrivial(self, case, out):
        if isinstance(out, dict) or not any((not isinstance(o, dict)) and o[8] > 1 for o in out):
            return None
        return repr((case['calls'], case['blur']))


class ClusterUnsorted(Cluster):
    name = 'cluster_unsorted'
    sort_input = False

    def gen(self, rng, tier):
        cases = Cluster.gen(self, rng, tier)
        return cases[:len(cases) // 2]


# ------------------------------------------------------------------------------------------------ (b) write_indel_file
class Write(Stream):
    name = 'write'
    shard = 35
    prelude = CL_PRELUDE + '''Definition check (c : list call * list call * list cluster) : Z :=
  match c with (ins, dels, out) => if cleqs (write_lines (ins, dels)) out then (if written_ok (ins, dels) out then 0 else 2) else 1 end.'''

    def gen(self, rng, tier):
        n = 500 if tier == 'quick' else 1500
        cases = []
        for _ in range(n):
            a, b = rng.choice([0, 1, 2, 3, 5, 8]), rng.choice([0, 1, 2, 3, 5, 8])
            mixed = rng.random() < 0.1          # the writer does not look at the type: lists of mixed type are clustered all the same
            ins = gen_calls(rng, a, id0=100, single_type=None if mixed else 0)
            dels = gen_calls(rng, b, id0=500, single_type=None if mixed else 1)
            rng.shuffle(ins); rng.shuffle(dels)
            cases.append(dict(ins=ins, dels=dels))
        return cases

    def impl(self, case):
        _sv()
        from write_indel_files import write_indel_file
        d = {'insertion': rows_of(case['ins']), 'deletion': rows_of(case['dels'])}
        fd, path = tempfile.mkstemp(prefix='c20_', suffix='.txt')
        os.close(fd)
        try:
            try:
                write_indel_file(d, 'alignments.xmap', file_name=path)
            except Exception as e:
                return dict(err=type(e).__name__)
            lines = open(path).read().split('\n')
        finally:
            os.remove(path)
        if len(lines) < 3 or lines[0] != '#alignments.xmap' or not lines[1].startswith('#Type') or lines[-1] != '':
            return dict(err='malformed header or missing final newline')
        return [canon_cluster(l.split('\t')) for l in lines[2:-1]]

    def term(self, case, out):
        o = [dict(bad=1)] if isinstance(out, dict) else out
        return '(%s, %s, %s)' % (clist(call_term(c) for c in case['ins']), clist(call_term(c) for c in case['dels']), clist(cluster_term(x) for x in o))

    def oracle(self, case, out):
        errs = oracle_clusters(case['dels'] + case['ins'], out, False)     # line order is not part of the property (the model comparison covers it)
        return ['%s (ins=%s dels=%s lines=%s)' % (e, case['ins'], case['dels'], out) for e in errs]

    def classify(self, case, out):
        if isinstance(out, dict):
            return ['raised']
        return ['ins=%d' % min(3, len(case['ins'])), 'dels=%d' % min(3, len(case['dels'])), 'merged=%d' % min(3, sum(1 for o in out if not isinstance(o, dict) and o[8] > 1))]

    def nontrivial(self, case, out):
        if isinstance(out, dict) or not any((not isinstance(o, dict)) and o[8] > 1 for o in out):
            return None
        return repr((case['ins'], case['dels']))


# ------------------------------------------------------------------------------------------------ (c) the two finders
DIFFS = [0, 99, 100, 101, 150, 1999, 2000, 2001, 2500, 50000, 99999, 100000, 100001]


def gen_alignment_world(rng, seg):
    """alignments with their maps and breakage entries; gaps between consecutive paired labels realise chosen diffs"""
    nal = rng.randint(1, 5)
    rids = [rng.randint(1, 3) for _ in range(nal)]
    rpos = {}
    qdict, alns, bd = [], [], []
    for k in range(nal):
        qid, rid = 10 + k, rids[k]
        npairs = rng.randint(2, 5)
        rp = rpos.setdefault(rid, [])
        roff = len(rp)                       # this alignment uses reference labels roff+1 .. roff+npairs
        base = (rp[-1] if rp else 0) + rng.randrange(1000, 5000)
        qgaps, rgaps = [], []
        for j in range(npairs - 1):
            d = rng.choice(DIFFS) * rng.choice([1, -1]) if rng.random() < 0.85 else rng.randrange(-120000, 120000)
            qg = rng.randrange(500, 20000) + max(0, -d)
            rgaps.append(qg + d); qgaps.append(qg)         # reference gap - query gap = d
            if rng.random() < 0.03:
                rgaps[-1] = -rgaps[-1]                     # unsorted labels: the code takes absolute values
        cur = base
        rp.append(cur)
        for g in rgaps:
            cur += g; rp.append(cur)
        reverse = rng.random() < 0.4
        qp = [rng.randrange(0, 3000)]
        for g in (qgaps[::-1] if reverse else qgaps):
            qp.append(qp[-1] + g)
        extra = rng.randint(0, 2)
        for _ in range(extra):
            qp.append(qp[-1] + rng.randrange(500, 9000))
        pairs = [[roff + j + 1, (npairs - j) if reverse else (j + 1)] for j in range(npairs)]
        r = rng.random()
        if r < 0.04:
            pairs[rng.randrange(npairs)][rng.randint(0, 1)] = rng.choice([0, 40, -1])       # label number out of range / wrapping
        qdict.append([qid, qp])
        alns.append(dict(qid=qid, rid=rid, pairs=pairs))
        r = rng.random()
        if seg:
            if r < 0.12:
                pass                                                                   # molecule with a single segment: no entry
            else:
                idx = [rng.randrange(0, npairs - 1) for _ in range(rng.choice([1, 1, 2, 3]))]
                if rng.random() < 0.1: idx.append(npairs - 1)                           # breakage at the last pair: skipped
                if rng.random() < 0.03: idx.append(rng.choice([npairs, -1, -2]))
                bd.append([qid, sorted(set(idx)) if rng.random() < 0.7 else idx])
        else:
            if r < 0.03:
                pass                                                                   # KeyError
            else:
                i = rng.randrange(0, npairs - 1) if r < 0.95 else rng.choice([npairs - 1, npairs, -1])
                stored = list(pairs[i]) if 0 <= i < npairs else list(pairs[0])
                if rng.random() < 0.25:
                    stored = list(pairs[rng.randrange(npairs)])                        # stored pair differs from alignedPairs[index]
                bd.append([qid, [i, stored]])
    order = []
    for a in alns:                       # alignment_dict groups by referenceId in order of first appearance
        if a['rid'] not in order: order.append(a['rid'])
    alns = [a for rid in order for a in alns if a['rid'] == rid]
    rdict = [[rid, rpos[rid]] for rid in sorted(rpos)]
    if rng.random() < 0.02 and rdict:
        rdict.pop(rng.randrange(len(rdict)))                                           # KeyError on the reference
    return dict(alns=alns, rdict=rdict, qdict=qdict, bd=bd)


def pair_obj(p):
    return NS(reference=NS(siteId=p[0]), query=NS(siteId=p[1]))


def canon_calls(d):
    out = {}
    for key in TYPES:
        rows = []
        for r in d[key]:
            if len(r) != 8 or any(type(v) is not int for v in r[1:]):
                return dict(err='malformed call row %r' % (r,))
            rows.append([TYPES.index(r[0]) if r[0] in TYPES else -1] + [int(v) for v in r[1:]])
        out[key] = rows
    if list(d.keys()) != TYPES:
        return dict(err='dict keys %s' % list(d.keys()))
    return out


def oracle_calls(out):
    if 'err' in out:
        return []
    errs = []
    for key in TYPES:
        for r in out[key]:
            gap = abs(r[2] - r[3]) - abs(r[5] - r[6])
            if r[7] != gap:
                errs.append('Length %d is not reference gap - query gap = %d in call %s' % (r[7], gap, r))
            if (r[0] == 0) != (r[7] < 0) or r[0] not in (0, 1):
                errs.append('type %s but Length %d in call %s' % (TYPES[r[0]] if r[0] in (0, 1) else r[0], r[7], r))
            if TYPES[r[0]] != key if r[0] in (0, 1) else True:
                errs.append('call of type %s filed under "%s"' % (r[0], key))
    return sorted(set(errs))[:3]


class CallsMol(Stream):
    name = 'calls_mol'
    shard = 80
    seg = False
    prelude = '''From Coq Require Import ZArith QArith List Bool. Import ListNotations.
Require Import Py Indels Indels2 IndelProofs2. Open Scope Z_scope.
Definition calleq (a b : call) : bool :=
  (ctyp a =? ctyp b) && (cchr a =? cchr b) && (crs a =? crs b) && (cre a =? cre b) && (cq a =? cq b) && (cqs a =? cqs b) && (cqe a =? cqe b) && Qeq_bool (clen a) (clen b).
Fixpoint calleqs (a b : list call) : bool := match a, b with [], [] => true | x :: s, y :: t => calleq x y && calleqs s t | _, _ => false end.
Definition agree (m : res (list call * list call)) (err : bool) (ins dels : list call) : Z :=
  match m with
  | Err => if err then 0 else 1
  | Ok d => if err then 1 else if calleqs (fst d) ins && calleqs (snd d) dels then (if calls_ok ins dels then 0 else 2) else 1
  end.
Definition check (c : list aln * list (Z * list Z) * list (Z * list Z) * list (Z * (Z * (Z * Z))) * bool * list call * list call) : Z :=
  match c with (alns, rd, qd, bd, err, ins, dels) => agree (look_mol alns rd qd bd) err ins dels end.'''

    def gen(self, rng, tier):
        n = 1200 if tier == 'quick' else 5000
        return [gen_alignment_world(rng, self.seg) for _ in range(n)]

    def objects(self, case):
        ad = collections.OrderedDict()
        for a in case['alns']:
            ad.setdefault(a['rid'], []).append(NS(queryId=a['qid'], referenceId=a['rid'], alignedPairs=[pair_obj(p) for p in a['pairs']]))
        rd = {k: NS(positions=list(v)) for k, v in case['rdict']}
        qd = {k: NS(positions=list(v)) for k, v in case['qdict']}
        return ad, rd, qd

    def impl(self, case):
        _sv()
        import molecule_indels
        ad, rd, qd = self.objects(case)
        bd = {k: [v[0], pair_obj(v[1])] for k, v in case['bd']}
        try:
            return canon_calls(molecule_indels.look_for_indels_in_breakage(ad, rd, qd, bd))
        except (KeyError, IndexError) as e:
            return dict(err=type(e).__name__)

    def bd_term(self, case):
        return clist('(%s,(%s,(%s,%s)))' % (z(k), z(v[0]), z(v[1][0]), z(v[1][1])) for k, v in case['bd'])

    def term(self, case, out):
        alns = clist('mkAln %s %s %s' % (z(a['qid']), z(a['rid']), clist('(%s,%s)' % (z(p[0]), z(p[1])) for p in a['pairs'])) for a in case['alns'])
        dd = lambda d: clist('(%s,%s)' % (z(k), zl(v)) for k, v in d)
        err = 'err' in out
        ins = [] if err else out['insertion']
        dels = [] if err else out['deletion']
        return '(%s, %s, %s, %s, %s, %s, %s)' % (alns, dd(case['rdict']), dd(case['qdict']), self.bd_term(case), cb(err),
                                                 clist(call_term(c) for c in ins), clist(call_term(c) for c in dels))

    def oracle(self, case, out):
        if 'err' in out and out['err'] not in ('KeyError', 'IndexError'):
            return ['finder returned a malformed result: %s' % out['err']]
        return ['%s (case=%s)' % (e, case) for e in oracle_calls(out)]

    def classify(self, case, out):
        if 'err' in out:
            return ['raised ' + out['err'][:10]]
        return ['insertions=%d' % min(3, len(out['insertion'])), 'deletions=%d' % min(3, len(out['deletion']))]

    def nontrivial(self, case, out):
        if 'err' in out or not (out['insertion'] or out['deletion']):
            return None
        return repr(case)


class CallsSeg(CallsMol):
    name = 'calls_seg'
    seg = True
    prelude = CallsMol.prelude.replace('list (Z * (Z * (Z * Z)))', 'list (Z * list Z)').replace('look_mol', 'look_seg')

    def impl(self, case):
        _sv()
        import segment_indels
        ad, rd, qd = self.objects(case)
        bd = {k: [[i, '(%d, %d)' % (i, i)] for i in v] for k, v in case['bd']}
        try:
            return canon_calls(segment_indels.look_for_indels_in_breakage(ad, rd, qd, bd))
        except (KeyError, IndexError) as e:
            return dict(err=type(e).__name__)

    def bd_term(self, case):
        return clist('(%s,%s)' % (z(k), zl(v)) for k, v in case['bd'])


STREAMS = [Cluster(), ClusterUnsorted(), Write(), CallsMol(), CallsSeg()]

"""C01 — Every reported alignment is a one-to-one, collinear matching of real labels."""
from .C15 import AlignStream
from .. import pipeline as pl

ID = 'C01'
RULE = ('candidate rows of Aligner.align from any list of seed peaks (generators of C15: realistic ladders, indel blocks, dense lattices, '
        'window boundaries, score folding, fragments with label offsets); non-trivial = distinct case whose row is built from >= 2 non-empty segments '
        'before conflict resolution')
TRUSTED = ['adapter harness/pipeline.py']
ASSUMPTIONS = ['coordinates are multiples of 0.5 and parameters lie on the exact grid']


class RowStream(AlignStream):
    # (AlignStream's prelude is overridden below)
    name = 'align_rows'
    weights = dict(realistic=2, blocks=5, dense=5, boundary=1, folding=2, fragment=2)
    quick_n, thorough_n = 6000, 60000
    prelude = pl.ALIGN_CHECK_C01

    def oracle(self, case, out):
        return pl.oracle_valid_row(case, out)


STREAMS = [RowStream()]


# ---- end to end: every record of every file of every mode, and every candidate real runs built
from .. import e2e, e2e_streams as es


def joined_parts(out, r):
    """the first-pass and second-pass records (files _1/_2 of the `all` run) a main-file record may have been joined from"""
    allm = out['modes'].get('all', {}).get('files', {})
    p1 = [x for x in allm.get('_1', {}).get('rows', []) if x['q'] == r['q'] and x['r'] == r['r'] and x['ori'] == r['ori']]
    p2 = [x for x in allm.get('_2', {}).get('rows', []) if x['q'] == r['q'] and x['r'] == r['r'] and x['ori'] == r['ori']]
    if not p1 or not p2:
        return None
    a, b = p1[0], p2[0]
    union = set(map(tuple, a['pairs'])) | set(map(tuple, b['pairs']))
    mine = [tuple(p) for p in r['pairs']]
    if set(mine) <= union and mine != [tuple(p) for p in a['pairs']] and mine != [tuple(p) for p in b['pairs']]:
        return a, b
    return None


class Files(es.E2EStream):
    name = 'e2e_files'

    def oracle(self, case, out):
        errs = es.run_failures(out)
        refs, qs = es.maps_of(out)
        for m, fk, r in es.all_records(out):
            e = []
            e2e.check_record_matching(r, refs, qs, e, tag='[mode %s file %s] ' % (m, fk))
            if e and fk == 'main' and m in ('best', 'joined', 'all') and r['pairs'] and joined_parts(out, r) is not None:
                # open finding F10: the multi-pass join resolves segments[0] of the two parts without the chain admissibility the resolver relies on
                e = [x + ' [JOINED-RECORD: join of the first-pass and second-pass records of this query; both parts are valid]' for x in e]
            errs.extend(e)
        return errs[:6]

    def finding(self, case, out, viol):
        return 'F10' if '[JOINED-RECORD:' in viol else None


class Candidates(es.CandidateStream):
    name = 'e2e_candidates'
    prelude = pl.ALIGN_CHECK_C01

    def oracle(self, case, out):
        return pl.oracle_valid_row(case, out)


class Records(es.RecordStream):
    """the verified checker valid_rowb (C01_checker_sound_complete) evaluated in Coq on every record of every file real runs wrote
    (joined records of the main files are left to `e2e_files`, which routes the open finding F10)"""
    name = 'e2e_records'
    skip_joined_main = True
    prelude = '''From Coq Require Import ZArith List Bool. Import ListNotations.
Require Import Checkers. Open Scope Z_scope.
Definition check (c : Z * Z * bool * list (Z * Z)) : Z := match c with (nref, nqry, rev, ps) => if valid_rowb nref 1 nqry rev ps then 0 else 2 end.'''

    def term(self, case, out):
        from ..common import z, cb, clist
        return '(%s, %s, %s, %s)' % (z(case['nref']), z(case['nqry']), cb(case['rev']), clist('(%s,%s)' % (z(a), z(b)) for a, b in case['pairs']))


STREAMS = [RowStream(), Files(), Candidates(), Records()]

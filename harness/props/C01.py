"""C01 — Every reported alignment is a one-to-one, collinear matching of real labels."""
from .C15 import AlignStream
from .. import pipeline as pl

ID = 'C01'
RULE = ('candidate rows of Aligner.align from any list of seed peaks (generators of C15: realistic ladders, indel blocks, dense lattices, '
        'window boundaries, score folding, fragments with label offsets); non-trivial = distinct case whose row is built from >= 2 non-empty segments '
        'before conflict resolution')
TRUSTED = ['adapter harness/pipeline.py']
ASSUMPTIONS = ['coordinates are multiples of 0.5 and parameters lie on the exact grid']


class RowStream(AlignStream):
    # (AlignStream's prelude is overridden below)
    name = 'align_rows'
    weights = dict(realistic=2, blocks=5, dense=5, boundary=1, folding=2, fragment=2)
    quick_n, thorough_n = 6000, 100000
    prelude = pl.ALIGN_CHECK_C01

    def oracle(self, case, out):
        return pl.oracle_valid_row(case, out)


STREAMS = [RowStream()]


# ---- end to end: every record of every file of every mode, and every candidate real runs built
from .. import e2e, e2e_streams as es


class Files(es.E2EStream):
    name = 'e2e_files'

    def oracle(self, case, out):
        errs = es.run_failures(out)
        refs, qs = es.maps_of(out)
        for m, fk, r in es.all_records(out):
            e2e.check_record_matching(r, refs, qs, errs, tag='[mode %s file %s] ' % (m, fk))
        return errs[:4]


class Candidates(es.CandidateStream):
    name = 'e2e_candidates'
    prelude = pl.ALIGN_CHECK_C01

    def oracle(self, case, out):
        return pl.oracle_valid_row(case, out)


STREAMS = [RowStream(), Files(), Candidates()]

"""C01 — Every reported alignment is a one-to-one, collinear matching of real labels."""
from .C15 import AlignStream
from .. import pipeline as pl

ID = 'C01'
RULE = ('candidate rows of Aligner.align from any list of seed peaks (generators of C15: realistic ladders, indel blocks, dense lattices, '
        'window boundaries, score folding, fragments with label offsets); non-trivial = distinct case whose row is built from >= 2 non-empty segments '
        'before conflict resolution')
TRUSTED = ['adapter harness/pipeline.py']
ASSUMPTIONS = ['coordinates are multiples of 0.5 and parameters lie on the exact grid']


class RowStream(AlignStream):
    # (AlignStream's prelude is overridden below)
    name = 'align_rows'
    weights = dict(realistic=2, blocks=5, dense=5, boundary=1, folding=2, fragment=2)
    quick_n, thorough_n = 6000, 60000
    prelude = pl.ALIGN_CHECK_C01

    def oracle(self, case, out):
        return pl.oracle_valid_row(case, out)


STREAMS = [RowStream()]


# ---- end to end: every record of every file of every mode, and every candidate real runs built
from .. import e2e, e2e_streams as es


def joined_parts(out, r):
    """the first-pass and second-pass records (files _1/_2 of the `all` run) a main-file record may have been joined from"""
    allm = out['modes'].get('all', {}).get('files', {})
    p1 = [x for x in allm.get('_1', {}).get('rows', []) if x['q'] == r['q'] and x['r'] == r['r'] and x['ori'] == r['ori']]
    p2 = [x for x in allm.get('_2', {}).get('rows', []) if x['q'] == r['q'] and x['r'] == r['r'] and x['ori'] == r['ori']]
    if not p1 or not p2:
        return None
    a, b = p1[0], p2[0]
    union = set(map(tuple, a['pairs'])) | set(map(tuple, b['pairs']))
    mine = [tuple(p) for p in r['pairs']]
    if set(mine) <= union and mine != [tuple(p) for p in a['pairs']] and mine != [tuple(p) for p in b['pairs']]:
        return a, b
    return None


class Files(es.E2EStream):
    name = 'e2e_files'

    def oracle(self, case, out):
        errs = es.run_failures(out)
        refs, qs = es.maps_of(out)
        for m, fk, r in es.all_records(out):
            e = []
            e2e.check_record_matching(r, refs, qs, e, tag='[mode %s file %s] ' % (m, fk))
            if e and fk == 'main' and m in ('best', 'joined', 'all') and r['pairs'] and joined_parts(out, r) is not None:
                # open finding F10: the multi-pass join resolves segments[0] of the two parts without the chain admissibility the resolver relies on
                e = [x + ' [JOINED-RECORD: join of the first-pass and second-pass records of this query; both parts are valid]' for x in e]
            errs.extend(e)
        return errs[:6]

    def finding(self, case, out, viol):
        return 'F10' if '[JOINED-RECORD:' in viol else None


class Candidates(es.CandidateStream):
    name = 'e2e_candidates'
    prelude = pl.ALIGN_CHECK_C01

    def oracle(self, case, out):
        return pl.oracle_valid_row(case, out)


class Records(es.RecordStream):
    """the verified checker valid_rowb (C01_checker_sound_complete) evaluated in Coq on every record of every file real runs wrote
    (joined records of the main files are left to `e2e_files`, which routes the open finding F10)"""
    name = 'e2e_records'
    skip_joined_main = True
    prelude = '''From Coq Require Import ZArith List Bool. Import ListNotations.
Require Import Checkers. Open Scope Z_scope.
Definition check (c : Z * Z * bool * list (Z * Z)) : Z := match c with (nref, nqry, rev, ps) => if valid_rowb nref 1 nqry rev ps then 0 else 2 end.'''

    def term(self, case, out):
        from ..common import z, cb, clist
        return '(%s, %s, %s, %s)' % (z(case['nref']), z(case['nqry']), cb(case['rev']), clist('(%s,%s)' % (z(a), z(b)) for a, b in case['pairs']))


# ---- in process: first pass -> fragments -> second pass -> join on dense lattices (the multi-pass chain of C07's crash search): the rows the
# join produces from coincidentally matching labels around the junction; model correspondence for the join + validity of every row
from . import C07 as _c07


def _valid(pairs, rev, nref, nqry):
    if not pairs:
        return 'no pairs'
    if any(not (1 <= a <= nref and 1 <= b <= nqry) for a, b in pairs):
        return 'a label that does not exist'
    for (a, b), (c, d) in zip(pairs, pairs[1:]):
        if not a < c:
            return 'reference labels not strictly ascending'
        if not (d < b if rev else b < d):
            return 'query labels not strictly %s' % ('descending' if rev else 'ascending')
    return None


class MultiJoin(_c07.MultiCrash):
    name = 'multi_join'
    quick_n, thorough_n = 2500, 16000
    finding_needs_model = True      # an invalid joined row is F10 only where the join model of the validated code produces the same row

    def oracle(self, case, out):
        errs = []
        nref, nqry = len(case['ref']), len(case['qry'])
        parts = [out['row1']] if 'row1' in out else []
        parts += out.get('rows2', [])
        for kind, rows in (('separate', out.get('separate', [])), ('second-pass', out.get('rows2', [])), ('first-pass', parts[:1])):
            for r in rows:
                why = _valid([tuple(p) for p in r[8]], bool(r[6]), nref, nqry)
                if why and r[8]:
                    errs.append('%s row is not a valid matching (%s): %s' % (kind, why, r[8]))
        union = set(tuple(p) for r in parts for p in r[8])
        for r in out.get('joined', []):
            ps = [tuple(p) for p in r[8]]
            why = _valid(ps, bool(r[6]), nref, nqry)
            if why and ps:
                if set(ps) <= union and all(_valid([tuple(p) for p in q[8]], bool(q[6]), nref, nqry) is None for q in parts):
                    errs.append('[JOINED-RECORD: both parts valid, pairs a subset of their union] joined row is not a valid matching (%s): %s' % (why, ps))
                else:
                    errs.append('joined row is not a valid matching (%s) and is not explained by its parts: %s' % (why, ps))
        return errs[:4]

    def finding(self, case, out, viol):
        return 'F10' if viol.startswith('[JOINED-RECORD:') else None


STREAMS = [RowStream(), Files(), Candidates(), Records(), MultiJoin()]

"""C01 — Every reported alignment is a one-to-one, collinear matching of real labels."""
from .C15 import AlignStream
from .. import pipeline as pl

ID = 'C01'
RULE = ('candidate rows of Aligner.align from any list of seed peaks (generators of C15: realistic ladders, indel blocks, dense lattices, '
        'window boundaries, score folding, fragments with label offsets); non-trivial = distinct case whose row is built from >= 2 non-empty segments '
        'before conflict resolution')
TRUSTED = ['adapter harness/pipeline.py']
ASSUMPTIONS = ['coordinates are multiples of 0.5 and parameters lie on the exact grid']


class RowStream(AlignStream):
    name = 'align_rows'
    weights = dict(realistic=2, blocks=5, dense=5, boundary=1, folding=2, fragment=2)
    quick_n, thorough_n = 6000, 100000

    def oracle(self, case, out):
        return pl.oracle_valid_row(case, out)


STREAMS = [RowStream()]

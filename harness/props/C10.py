"""C10 — A query's record is independent of the other molecules and of file order.

End-to-end only (the property is about whole runs).  For one generated data set D and one output mode the REAL program is run
  full   on D as generated
  shuf   on D with the rows of BOTH CMAP files shuffled (so also the molecules in another order, end markers anywhere)
  sub    on D with the query file physically restricted to a subset S of the molecules;  sub2: to the complement of S
  qid    on D with `-qId <S kept>`
  rid    on D with `-rId <T>`            rphys  on D with the reference file physically restricted to T
  add    on D with unrelated query molecules ADDED (ids interleaved with D's)
  one:i  on D with `-qId i` for a few single molecules i (those whose id is also a reference id, two that have an aligned-rest
         record in the full run, one random; ALL molecules when the full run fails: a run may only fail if a single-query run fails)
Two query molecules of D are renumbered to the ids of the two references (the id spaces of the two files are independent).
and the oracle compares the XMAP text: shuf == full line for line; qid == sub and rid == rphys file for file (all lines but
'# coma', '# Reference Maps From', '# Query Maps From'); for every query present in two runs its records (every column except
XmapEntryID, in every output file, in file order) are identical text in full / sub / add; no record names a query that was not given.
Model tie (`run_model`): program_run, with the seeds captured in ONE run, must reproduce the files of ANOTHER run on other
query molecules (full-run seeds -> the sub run; add-run seeds -> the full run), plus the plain tie full -> full.
Capstone tie (`e2e_program_files`, harness/program_files.py): whole real runs against Program.program_files, the one function from the rows of
the two CMAP files (independent text parser) and the command line to every data line of every XMAP file, with the executable seeding stage."""
import os, json, random
from ..driver import Stream
from .. import e2e, e2e_streams as es, common
from ..common import seeded_rng

ID = 'C10'
RULE = ('real COMA runs on generated data sets (2 references x 200 labels, ~20-40 query molecules of kinds exact/noisy/indel/chimera/stretch/'
        'partial on both strands) in the output modes best and all (thorough: all four, several parameter sets): full run vs rows of both '
        'files shuffled, queries physically removed, -qId, -rId vs physically restricted reference file, unrelated queries added; '
        'non-trivial = data set/mode whose full run has a first-pass record and, in the modes other than best, also an aligned-rest or a joined record'
        + '; e2e_program_files: whole real runs (3 quick / 12 thorough; duplicated contig, rows shuffled with the molecules first appearing in descending id order, '
        'label-less molecules, -rId / -qId incl. absent ids, four modes, several option sets) against Program.program_files on independently parsed CMAP rows: every data line byte for byte')
TRUSTED = ['adapter harness/e2e.py, harness/e2e_runner.py (capture through COMA\'s extension mechanism)', 'independent XMAP/CMAP text parsers in harness/e2e.py']
ASSUMPTIONS = ['coordinates are multiples of 0.5 and parameters lie on the exact grid (model tie only; the text oracle needs nothing)',
               'one end-marker row per molecule in the CMAP files (C17: with two, the first in file order wins)',
               '-c 1 (one worker process); the seeding stage of a query sees the reference list and that query only (type of `seeds`)']
SKIP = ('# coma', '# Reference Maps From', '# Query Maps From')
RUNS = ['full', 'shuf', 'sub', 'sub2', 'qid', 'rid', 'rphys', 'add']


def build(case):
    """writes the variant files of the data set; returns (dir, meta)"""
    ds = es.make_dataset(case['ds_seed'], case['nq'], case.get('nlab', 200), dup=True)     # always with a duplicated contig (exact ties)
    rng = random.Random(case['ds_seed'] * 31 + 7)
    d = e2e.dataset_dir('c10_%d_%d' % (case['ds_seed'], case['nq']))
    qs = list(ds['queries']); refs = ds['refs']
    for rid in [r[0] for r in refs]:                 # a query molecule may carry the id of a reference molecule
        if rid not in [q[0] for q in qs]:
            k = rng.randrange(len(qs))
            if qs[k][0] not in [r[0] for r in refs]:
                qs[k] = (rid,) + tuple(qs[k][1:])
    ids = [q[0] for q in qs]
    kept = sorted(rng.sample(ids, max(1, (len(ids) * 3) // 5)))
    keptset = set(kept)
    T = [rng.choice(refs)[0]]
    # unrelated molecules: queries of another data set (other references), ids drawn among the unused ones so that they interleave
    other = es.make_dataset(case['ds_seed'] + 104729, max(4, case['nq'] // 3), case.get('nlab', 200))['queries']
    small = [i for i in ids if i < 10 ** 6]
    free = [i for i in range(1, max(small + [0]) + 40) if i not in set(ids)]      # ids may be as large as 2^32: enumerate around the small ones only
    new_ids = rng.sample(free, len(other))
    added = [(ni, l, ps) for ni, (_, l, ps) in zip(new_ids, other)]
    order2 = qs[:]; rng.shuffle(order2)
    mixed = qs + added; rng.shuffle(mixed)
    p = lambda n: os.path.join(d, n)
    e2e.write_cmap(p('r.cmap'), refs)
    e2e.write_cmap(p('q.cmap'), qs)
    e2e.write_cmap(p('r_shuf.cmap'), refs[::-1], shuffle_rng=random.Random(case['ds_seed'] + 1))
    e2e.write_cmap(p('q_shuf.cmap'), order2, shuffle_rng=random.Random(case['ds_seed'] + 2))
    e2e.write_cmap(p('q_sub.cmap'), [q for q in qs if q[0] in keptset])
    e2e.write_cmap(p('q_sub2.cmap'), [q for q in qs if q[0] not in keptset])
    e2e.write_cmap(p('r_phys.cmap'), [r for r in refs if r[0] in T])
    e2e.write_cmap(p('q_add.cmap'), mixed)
    meta = dict(kept=kept, rest=sorted(set(ids) - keptset), T=T, ids=ids, added=sorted(new_ids),
                refs={str(i): dict(labels=ps, end=l) for i, l, ps in refs},
                queries={str(i): dict(labels=ps, end=l) for i, l, ps in qs})
    return d, meta


def jobs_of(case, d, meta):
    a = ['-oM', case['mode']] + list(case['extra'])
    p = lambda n: os.path.join(d, n)
    J = dict(full=dict(refpath=p('r.cmap'), qpath=p('q.cmap'), args=a, capture=True),
             shuf=dict(refpath=p('r_shuf.cmap'), qpath=p('q_shuf.cmap'), args=a, capture=False),
             sub=dict(refpath=p('r.cmap'), qpath=p('q_sub.cmap'), args=a, capture=False),
             sub2=dict(refpath=p('r.cmap'), qpath=p('q_sub2.cmap'), args=a, capture=False),
             qid=dict(refpath=p('r.cmap'), qpath=p('q.cmap'), args=a + ['-qId'] + [str(i) for i in meta['kept']], capture=False),
             rid=dict(refpath=p('r.cmap'), qpath=p('q.cmap'), args=a + ['-rId'] + [str(i) for i in meta['T']], capture=False),
             rphys=dict(refpath=p('r_phys.cmap'), qpath=p('q.cmap'), args=a, capture=False),
             add=dict(refpath=p('r.cmap'), qpath=p('q_add.cmap'), args=a, capture=True))
    return J


def text_of(res):
    out = dict(rc=res.rc, stderr=res.stderr[-400:] if res.rc else '', files={})
    for k, path in res.files.items():
        try:
            lines = [l.rstrip('\n') for l in open(path)]
            hdr, rows = e2e.parse_xmap(path)
            out['files'][k] = dict(lines=lines, rows=[dict(q=r['q'], id=r['id'], rest=r['rest'], rec=r['raw'].split('\t', 1)[1]) for r in rows])
        except Exception as e:
            out['files'][k] = dict(parse_error=type(e).__name__ + ':' + str(e)[:100])
    return out


_memo = {}


def run_variants(case):
    prefetch([case])
    return _memo[json.dumps(case, sort_keys=True)]


def singles_of(case, meta, full):
    """which single-molecule runs to make, decided from the full run"""
    ids = meta['ids']
    if full.rc != 0:
        return list(ids)
    rng = random.Random(case['ds_seed'] * 17 + 3)
    refids = [int(i) for i in meta['refs']]
    pick = [i for i in ids if i in refids]
    rest = sorted({r['q'] for fk in full.files for r in (full.records(fk) or []) if r['rest'] == 'True'})
    pick += rng.sample(rest, min(2, len(rest)))
    pick.append(rng.choice(ids))
    return sorted(set(pick))


def prefetch(cases):
    """all runs of all cases in parallel batches: the variants first, then the single-molecule runs chosen from the full runs"""
    todo = []
    for c in cases:
        key = json.dumps(c, sort_keys=True)
        if key not in _memo and key not in [t[0] for t in todo]:
            d, meta = build(c)
            todo.append((key, meta, jobs_of(c, d, meta), c))
    if todo:
        rs = e2e.run_many([dict(J[k], cpus=1) for _, _, J, _ in todo for k in RUNS], workers=common.NCPU)
        res = {}
        for n, (key, meta, J, c) in enumerate(todo):
            res[key] = dict(zip(RUNS, rs[n * len(RUNS):(n + 1) * len(RUNS)]))
        ones = []
        for key, meta, J, c in todo:
            for i in singles_of(c, meta, res[key]['full']):
                ones.append((key, i, dict(refpath=J['full']['refpath'], qpath=J['full']['qpath'], args=J['full']['args'] + ['-qId', str(i)], capture=False, cpus=1)))
        rs1 = e2e.run_many([j for _, _, j in ones], workers=common.NCPU) if ones else []
        for (key, i, _), r in zip(ones, rs1):
            res[key]['one:%d' % i] = r
        for key, meta, J, c in todo:
            _memo[key] = (meta, res[key])


def prepare(tier, seed, rep):
    st = Local(); st.seed = seed
    cases = st.gen(seeded_rng(seed, ID, st.name, 0), tier)
    for i in range(0, len(cases), 4):
        prefetch(cases[i:i + 4])


def by_query(f):
    m = {}
    for r in f.get('rows', []):
        m.setdefault(r['q'], []).append(r['rec'])
    return m


def significant(lines):
    return [l for l in lines if not l.startswith(SKIP)]


class Local(Stream):
    """text oracle on real runs"""
    name = 'e2e_local'
    model = False
    parallel = False

    def gen(self, rng, tier):
        base = seeded_rng(getattr(self, 'seed', 0), 'c10-e2e')
        if tier == 'quick':
            s = base.randint(1, 10 ** 9)
            return [dict(ds_seed=s, nq=20, extra=[], mode='best'), dict(ds_seed=s, nq=20, extra=[], mode='all')]
        cases = []
        for k in range(4):
            s = base.randint(1, 10 ** 9)
            for m in (es.MODES if k < 2 else ['best', 'all']):
                cases.append(dict(ds_seed=s, nq=32, extra=es.PARAM_SETS[k % len(es.PARAM_SETS)], mode=m))
        return cases

    def impl(self, case):
        meta, rs = run_variants(case)
        return dict(meta=dict(kept=meta['kept'], rest=meta['rest'], T=meta['T'], ids=meta['ids'], added=meta['added']), runs={k: text_of(r) for k, r in rs.items()})

    def oracle(self, case, out):
        errs = []
        R = out['runs']; meta = out['meta']
        for k, r in R.items():
            for fk, f in r['files'].items():
                if 'parse_error' in f:
                    errs.append('run %s: output file %s is not well-formed XMAP: %s' % (k, fk, f['parse_error']))
        if errs:
            return errs[:4]
        full = R['full']
        # a run on the same molecules must behave the same; on fewer molecules of a successful run it must succeed
        if R['shuf']['rc'] != full['rc']:
            errs.append('exit status %s on the shuffled files, %s on the original files' % (R['shuf']['rc'], full['rc']))
        if full['rc'] == 0:
            for k in ('sub', 'sub2', 'qid'):
                if R[k]['rc'] != 0:
                    errs.append('the full run succeeds but run %s (fewer query molecules) exits with status %s: %s' % (k, R[k]['rc'], R[k]['stderr'][-200:]))
        if R['add']['rc'] == 0 and full['rc'] != 0:
            errs.append('the run with added molecules succeeds but the run on the original query file exits with status %s: %s' % (full['rc'], full['stderr'][-200:]))
        if R['qid']['rc'] != R['sub']['rc']:
            errs.append('exit status %s with -qId, %s on the physically restricted query file' % (R['qid']['rc'], R['sub']['rc']))
        if R['rid']['rc'] != R['rphys']['rc']:
            errs.append('exit status %s with -rId, %s on the physically restricted reference file' % (R['rid']['rc'], R['rphys']['rc']))

        def same_files(a, b, what, skip_header):
            fa, fb = R[a]['files'], R[b]['files']
            if sorted(fa) != sorted(fb):
                errs.append('%s: output files %s vs %s' % (what, sorted(fa), sorted(fb))); return
            for fk in fa:
                la, lb = fa[fk]['lines'], fb[fk]['lines']
                if skip_header:
                    la, lb = significant(la), significant(lb)
                if la != lb:
                    i = next((i for i, (x, y) in enumerate(zip(la, lb)) if x != y), min(len(la), len(lb)))
                    errs.append('%s: file %s differs at line %d: %r vs %r' % (what, fk, i + 1, la[i][:160] if i < len(la) else None, lb[i][:160] if i < len(lb) else None))
        if R['shuf']['rc'] == full['rc'] == 0:
            same_files('shuf', 'full', 'rows of both CMAP files shuffled vs original files', True)
        if R['qid']['rc'] == R['sub']['rc'] == 0:
            same_files('qid', 'sub', '-qId %s vs query file physically restricted to these molecules' % ' '.join(map(str, meta['kept'])), True)
        if R['rid']['rc'] == R['rphys']['rc'] == 0:
            same_files('rid', 'rphys', '-rId %s vs reference file physically restricted' % ' '.join(map(str, meta['T'])), True)

        def same_records(a, b, common_ids, what):
            fa, fb = R[a]['files'], R[b]['files']
            if sorted(fa) != sorted(fb):
                errs.append('%s: output files %s vs %s' % (what, sorted(fa), sorted(fb))); return
            for fk in fa:
                qa, qb = by_query(fa[fk]), by_query(fb[fk])
                for q in common_ids:
                    if qa.get(q, []) != qb.get(q, []):
                        errs.append('%s: query %d, file %s: records %r vs %r' % (what, q, fk, [x[:140] for x in qa.get(q, [])], [x[:140] for x in qb.get(q, [])]))
                        return

        def only_given(a, given, what):
            for fk, f in R[a]['files'].items():
                for r in f['rows']:
                    if r['q'] not in given:
                        errs.append('%s: file %s has a record for query %d which is not in the query file/selection' % (what, fk, r['q'])); return
        if full['rc'] == 0 and R['sub']['rc'] == 0:
            same_records('sub', 'full', meta['kept'], 'query molecules physically removed')
            only_given('sub', set(meta['kept']), 'query molecules physically removed')
        if full['rc'] == 0 and R['sub2']['rc'] == 0:
            same_records('sub2', 'full', meta['rest'], 'query molecules physically removed (complement)')
            only_given('sub2', set(meta['rest']), 'query molecules physically removed (complement)')
        if full['rc'] == 0 and R['qid']['rc'] == 0:
            same_records('qid', 'full', meta['kept'], '-qId selection')
            only_given('qid', set(meta['kept']), '-qId selection')
        if full['rc'] == 0 and R['add']['rc'] == 0:
            same_records('add', 'full', meta['ids'], 'unrelated query molecules added')
            only_given('add', set(meta['ids']) | set(meta['added']), 'unrelated query molecules added')
        if full['rc'] == 0:
            only_given('full', set(meta['ids']), 'full run')
        ones = sorted(k for k in R if k.startswith('one:'))
        for k in ones:
            i = int(k[4:])
            if full['rc'] == 0:
                if R[k]['rc'] != 0:
                    errs.append('the full run succeeds but the run with -qId %d exits with status %s: %s' % (i, R[k]['rc'], R[k]['stderr'][-200:]))
                else:
                    same_records(k, 'full', [i], 'query %d alone (-qId %d)' % (i, i))
                    only_given(k, {i}, '-qId %d' % i)
        if full['rc'] != 0 and ones and all(R[k]['rc'] == 0 for k in ones) and len(ones) == len(meta['ids']):
            errs.append('the full run exits with status %s (%s) although the run on every single query molecule succeeds' % (full['rc'], full['stderr'][-300:].strip().splitlines()[-1:] ))
        if R['rid']['rc'] == 0:
            for fk, f in R['rid']['files'].items():
                for r in f['rows']:
                    if int(r['rec'].split('\t')[1]) not in meta['T']:
                        errs.append('-rId %s: file %s has a record on reference %s' % (meta['T'], fk, r['rec'].split('\t')[1])); break
        return errs[:4]

    def classify(self, case, out):
        k = ['mode=' + case['mode'], 'params=%s' % (' '.join(case['extra']) or 'default')]
        full = out['runs']['full']; sub = out['runs']['sub']
        for fk, f in full['files'].items():
            n = len(f.get('rows', []))
            k.append('full/%s records=%s' % (fk, '0' if n == 0 else '1-9' if n < 10 else '10+'))
        k.append('single-molecule runs=%d' % len([x for x in out['runs'] if x.startswith('one:')]))
        for name in ('sub', 'sub2'):
            qs = {r['q'] for f in out['runs'][name]['files'].values() for r in f.get('rows', [])}
            k.append('%s: queries with a record=%s' % (name, '0' if not qs else '1-9' if len(qs) < 10 else '10+'))
        return k

    def nontrivial(self, case, out):
        full = out['runs']['full']
        rows = [r for f in full['files'].values() for r in f.get('rows', [])]
        first = any(r['rest'] == 'False' for r in rows)
        if case['mode'] == 'best':       # joined records show up as queries whose best-mode record differs from the separate first-pass one: not visible here
            second = len(rows) > 0
        else:
            second = any(r['rest'] == 'True' for r in rows) or (case['mode'] in ('joined', 'all') and len(full['files'].get('main', {}).get('rows', [])) > 0)
        return json.dumps(case, sort_keys=True) if first and second else None


class RunModel(es.RunModelStream):
    """program_run with the seeds captured in one run reproduces the files of another run on other query molecules"""
    name = 'run_model'

    def gen(self, rng, tier):
        src = Local(); src.seed = getattr(self, 'seed', 0)
        cases = []
        for c in src.gen(rng, tier):
            if tier != 'quick' and c['mode'] not in ('best', 'all'):
                continue
            meta, rs = run_variants(c)
            kept = set(meta['kept'])
            tab_full = [[list(k), v] for k, v in es.seed_table(dict(capture=rs['full'].capture)).items()]
            tab_add = [[list(k), v] for k, v in es.seed_table(dict(capture=rs['add'].capture)).items()]
            qsub = {i: m for i, m in meta['queries'].items() if int(i) in kept}
            ds = dict(ds_seed=c['ds_seed'], nq=c['nq'], extra=c['extra'])
            cases.append(dict(dataset=ds, mode=c['mode'], tie='full->full',
                              recorded=dict(mode=es.summarise(rs['full']), refs=meta['refs'], queries=meta['queries'], table=tab_full)))
            cases.append(dict(dataset=ds, mode=c['mode'], tie='full->sub',
                              recorded=dict(mode=es.summarise(rs['sub']), refs=meta['refs'], queries=qsub, table=tab_full)))
            cases.append(dict(dataset=ds, mode=c['mode'], tie='add->full',
                              recorded=dict(mode=es.summarise(rs['full']), refs=meta['refs'], queries=meta['queries'], table=tab_add)))
        return cases

    def classify(self, case, out):
        return ['tie=' + case['tie']] + es.RunModelStream.classify(self, case, out)

    def nontrivial(self, case, out):
        return json.dumps([case['dataset'], case['mode'], case['tie']], sort_keys=True) if out['mode']['files'].get('main', {}).get('rows') else None


from ..program_files import ProgramFilesStream

# the capstone: real runs (row-shuffled files, label-less molecules, -rId / -qId, all modes) reproduced byte for byte by Program.program_files
STREAMS = [Local(), RunModel(), ProgramFilesStream()]

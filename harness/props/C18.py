"""C18 — XMAP written by COMA reads back to the same alignments."""
import argparse, math
from io import StringIO
from ..driver import Stream
from ..common import z, cb, cstr, clist

ID = 'C18'
RULE = ('write: random AlignmentResultRow lists (0..6 rows, both strands, AlignedRest either, one-decimal coordinates incl. a few negative ones, '
        'two-decimal confidences incl. negative, rows without pairs) written by the real XmapReader.writeAlignments, data lines compared byte-wise '
        'with the model; read: the text of the real writer read back by the real XmapReader(XmapAlignmentPairWithDistanceParser) against the model '
        'reader (every field; exception type when a map is missing, a site id is outside the map, is 0/negative, or a record has no pairs) and against '
        'the verified `expected` function when the case is well formed; grid (exhaustive): every tenths value in [-250,2300] and every hundredths value in '
        '[-1300,1300] (thorough: [-1500,12500] and [-2000,4000]) through the real writer and reader; the 0-record and 1-record files are corpus cases that always run. '
        'non-trivial = distinct case with at least one record')
TRUSTED = ['row construction adapter: AlignmentResultRow([AlignmentSegment([ScoredAlignedPair...])], header fields set explicitly); '
           'args is an argparse.Namespace with the fields of Args (what Args.parse really returns; vars() does not accept the NamedTuple)',
           'canonicalisation of BionanoAlignment objects to integers (confidence as round(x*100), NaN cigarString as None)']
ASSUMPTIONS = ['coordinates/lengths have exactly one decimal and confidences exactly two (the model takes the already rounded value; a negative value that '
               'rounds to zero prints "-0.00", which the writer model does not produce)',
               'values have at most 15 significant digits, so pandas returns the correctly rounded double and int() of it is the decimal text truncated toward zero',
               'pandas per-column type inference: id columns hold integers and float columns hold a decimal point in every record; empty field = NaN; '
               'other NA spellings and numeric-looking HitEnum/Orientation/Alignment texts cannot be written by COMA',
               'header lines (starting with #) are only counted (exactly 7) and skipped by the reader via comment="#"']

ERR = {'StopIteration': 1, 'IndexError': 2, 'ValueError': 3, 'TypeError': 4, 'AttributeError': 5}


# ---------------------------------------------------------------------------------------------- adapters
def make_row(r):
    from src.alignment.alignment_results import AlignmentResultRow
    from src.alignment.alignment_position import AlignedPair, ScoredAlignedPair
    from src.alignment.segments import AlignmentSegment
    from src.correlation.optical_map import PositionWithSiteId
    from src.correlation.peak import Peak
    pos = [ScoredAlignedPair(AlignedPair(PositionWithSiteId(a, 1000 * a), PositionWithSiteId(b, 1000 * b)), 1.) for a, b in r['pairs']]
    # pairs spread over two segments when there are enough of them (alignedPairs concatenates the segments in order)
    k = len(pos) // 2 if len(pos) >= 4 else len(pos)
    segs = [AlignmentSegment(pos[:k], float(k), Peak(0, 1.), pos[:k])]
    if pos[k:]:
        segs.append(AlignmentSegment(pos[k:], float(len(pos) - k), Peak(0, 1.), pos[k:]))
    return AlignmentResultRow(segs, queryId=r['qid'], referenceId=r['rid'], queryLength=r['qlen'] / 10, referenceLength=r['rlen'] / 10,
                              queryStartPosition=r['qs'] / 10, queryEndPosition=r['qe'] / 10, referenceStartPosition=r['rs'] / 10,
                              referenceEndPosition=r['re'] / 10, reverseStrand=bool(r['rev']), confidence=r['conf'] / 100,
                              alignedRest=bool(r['rest']))


def real_write(rows):
    from src.parsers.xmap_reader import XmapReader
    from src.alignment.alignment_results import AlignmentResults
    from src.args import Args
    args = argparse.Namespace(**{f: (['1', '2'] if f.endswith('Ids') else 'best' if f == 'outputMode' else 0) for f in Args._fields})
    real = [make_row(r) for r in rows]
    f = StringIO()
    XmapReader().writeAlignments(f, AlignmentResults('ref.cmap', 'qry.cmap', real), args)
    return f.getvalue(), [r.cigarString for r in real]


def split_text(text):
    """header lines, data lines, flags about the overall shape"""
    flags = []
    if text and not text.endswith('\n'):
        flags.append('file does not end with a newline')
    lines = text.split('\n')[:-1] if text.endswith('\n') else text.split('\n')
    header = [l for l in lines if l.startswith('#')]
    data = [l for l in lines if not l.startswith('#')]
    if lines[:len(header)] != header:
        flags.append('header lines are not all before the data lines')
    return header, data, flags


def canon(a):
    cig = a.cigarString
    return dict(id=int(a.alignmentId), qid=int(a.queryId), rid=int(a.referenceId), qs=int(a.queryStartPosition), qe=int(a.queryEndPosition),
                rs=int(a.referenceStartPosition), re=int(a.referenceEndPosition), rev=bool(a.reverseStrand),
                conf=int(round(float(a.confidence) * 100)), cigar=cig if isinstance(cig, str) else None,
                qlen=int(a.queryLength), rlen=int(a.referenceLength),
                pairs=[[int(p.reference.siteId), int(p.reference.position), int(p.query.siteId), int(p.query.position), int(p.distance)]
                       for p in a.alignedPairs],
                exact=all(type(v) is int for v in (a.queryId, a.referenceId, a.queryStartPosition, a.queryEndPosition, a.referenceStartPosition,
                                                   a.referenceEndPosition, a.queryLength, a.referenceLength)))


def real_read(text, refs, qrys):
    from src.parsers.xmap_reader import XmapReader
    from src.parsers.xmap_alignment_pair_parser import XmapAlignmentPairWithDistanceParser
    from src.correlation.optical_map import OpticalMap
    R = [OpticalMap(i, (p[-1] + 1 if p else 1), list(p)) for i, p in refs]
    Q = [OpticalMap(i, (p[-1] + 1 if p else 1), list(p)) for i, p in qrys]
    try:
        res = XmapReader(XmapAlignmentPairWithDistanceParser(R, Q)).readAlignments(StringIO(text))
        if not isinstance(res, list):
            return dict(err='NotAList:' + type(res).__name__)
        return dict(als=[canon(a) for a in res])
    except Exception as e:
        return dict(err=type(e).__name__)


# ---------------------------------------------------------------------------------------------- Coq rendering
def raw_term(r):
    return '(%s,%s,(%s,%s,%s,%s),%s,%s,(%s,%s),%s,%s)' % (
        z(r['qid']), z(r['rid']), z(r['qs']), z(r['qe']), z(r['rs']), z(r['re']), cb(r['rev']), z(r['conf']), z(r['qlen']), z(r['rlen']),
        cb(r['rest']), clist('(%s,%s)' % (z(a), z(b)) for a, b in r['pairs']))


def maps_term(ms):
    return clist('(%s,%s)' % (z(i), clist(z(p) for p in ps)) for i, ps in ms)


def align_term(a):
    cig = 'None' if a['cigar'] is None else '(Some %s)' % cstr(a['cigar'])
    return '(Build_xalign %s %s %s %s %s %s %s %s %s %s %s %s %s)' % (
        z(a['id']), z(a['qid']), z(a['rid']), z(a['qs']), z(a['qe']), z(a['rs']), z(a['re']), cb(a['rev']), z(a['conf']), cig,
        z(a['qlen']), z(a['rlen']), clist('(%s,%s,%s,%s,%s)' % tuple(z(v) for v in p) for p in a['pairs']))


PRELUDE = '''From Coq Require Import ZArith List Bool String Ascii. Import ListNotations.
Require Import Py Cigar Xmap. Open Scope Z_scope.
Notation raw := (Z * Z * (Z * Z * Z * Z) * bool * Z * (Z * Z) * bool * list (Z * Z))%type.
(* the HitEnum runs are those of the C03 model of cigarString on the record's pairs *)
Definition mk (w : raw) : option xrow :=
  match w with (qid, rid, (qs, qe, rs, re), rev, conf, (ql, rl), rest, ps) =>
    match cigar_runs ps with
    | Ok runs => Some {| x_qid := qid; x_rid := rid; x_qstart := qs; x_qend := qe; x_rstart := rs; x_rend := re; x_rev := rev; x_conf := conf;
                         x_runs := runs; x_qlen := ql; x_rlen := rl; x_rest := rest; x_pairs := ps |}
    | Err => None
    end end.
Fixpoint mks (l : list raw) : option (list xrow) :=
  match l with [] => Some [] | w :: t => match mk w, mks t with Some r, Some rs => Some (r :: rs) | _, _ => None end end.
Fixpoint eqls (a b : list string) : bool :=
  match a, b with [], [] => true | x :: s, y :: t => String.eqb x y && eqls s t | _, _ => false end.
Definition eqp (a b : Z * Z * Z * Z * Z) : bool :=
  match a, b with (a1, a2, a3, a4, a5), (b1, b2, b3, b4, b5) => (a1 =? b1) && (a2 =? b2) && (a3 =? b3) && (a4 =? b4) && (a5 =? b5) end.
Fixpoint eqps (a b : list (Z * Z * Z * Z * Z)) : bool :=
  match a, b with [], [] => true | x :: s, y :: t => eqp x y && eqps s t | _, _ => false end.
Definition eqo (a b : option string) : bool :=
  match a, b with None, None => true | Some x, Some y => String.eqb x y | _, _ => false end.
Definition eqa (a b : xalign) : bool :=
  (a_id a =? a_id b) && (a_qid a =? a_qid b) && (a_rid a =? a_rid b) && (a_qstart a =? a_qstart b) && (a_qend a =? a_qend b) &&
  (a_rstart a =? a_rstart b) && (a_rend a =? a_rend b) && Bool.eqb (a_rev a) (a_rev b) && (a_conf a =? a_conf b) &&
  eqo (a_cigar a) (a_cigar b) && (a_qlen a =? a_qlen b) && (a_rlen a =? a_rlen b) && eqps (a_pairs a) (a_pairs b).
Fixpoint eqas (a b : list xalign) : bool :=
  match a, b with [], [] => true | x :: s, y :: t => eqa x y && eqas s t | _, _ => false end.
Definition code_of (r : xres (list xalign)) : Z * list xalign :=
  match r with XOk l => (0, l) | XErr EStop => (1, []) | XErr EIndex => (2, []) | XErr EValue => (3, []) | XErr EType => (4, [])
             | XErr EAttr => (5, []) end.
Definition eqres (m : xres (list xalign)) (r : Z * list xalign) : bool :=
  let '(c, l) := code_of m in (c =? fst r) && eqas l (snd r).
(* equality as the Python dataclasses define it: `distance` is compare=False and not part of the property *)
Definition no_dist (a : xalign) : xalign :=
  Build_xalign (a_id a) (a_qid a) (a_rid a) (a_qstart a) (a_qend a) (a_rstart a) (a_rend a) (a_rev a) (a_conf a) (a_cigar a) (a_qlen a) (a_rlen a)
               (map (fun p => match p with (a1, a2, a3, a4, _) => (a1, a2, a3, a4, 0) end) (a_pairs a)).
Definition eqres_nd (m : xres (list xalign)) (r : Z * list xalign) : bool :=
  let '(c, l) := code_of m in (c =? fst r) && eqas (map no_dist l) (map no_dist (snd r)).
'''


class Write(Stream):
    name = 'write'
    shard = 120
    prelude = PRELUDE + '''
Definition check (c : list raw * list string) : Z :=
  match mks (fst c) with
  | Some rows => if eqls (xmap_write_lines rows) (snd c) then 0 else 1
  | None => 1
  end.'''

    def gen(self, rng, tier):
        n = 700 if tier == 'quick' else 2500
        return [gen_case(rng, 'write') for _ in range(n)]

    def corpus(self):
        return [dict(rows=[], refs=[], qrys=[]), dict(rows=[FIXED_ROW], refs=[], qrys=[]),
                dict(rows=[FIXED_ROW, FIXED_ROW_REV], refs=[], qrys=[])]

    def impl(self, case):
        try:
            text, cigars = real_write(case['rows'])
        except Exception as e:
            return dict(err=type(e).__name__, header=[], lines=[], flags=['writeAlignments raised %s' % type(e).__name__], cigars=[])
        header, data, flags = split_text(text)
        return dict(header=len(header), lines=data, flags=flags, cigars=cigars)

    def term(self, case, out):
        return '((%s : list raw), (%s : list string))' % (clist(raw_term(r) for r in case['rows']), clist(cstr(l) for l in out['lines']))

    def oracle(self, case, out):
        v = list(out['flags'])
        if 'err' in out:
            return v
        if out['header'] != 7:
            v.append('%d header lines instead of 7' % out['header'])
        if len(out['lines']) != len(case['rows']):
            v.append('%d data lines for %d records' % (len(out['lines']), len(case['rows'])))
        for k, (line, r) in enumerate(zip(out['lines'], case['rows'])):
            f = line.split('\t')
            if len(f) != 15:
                v.append('data line %d has %d fields' % (k + 1, len(f))); continue
            if f[0] != str(k + 1):
                v.append('XmapEntryID %r at position %d' % (f[0], k + 1))
            if f[7] != ('-' if r['rev'] else '+'):
                v.append('Orientation %r for reverseStrand=%s' % (f[7], r['rev']))
            if f[12] != str(bool(r['rest'])) or f[13] != '1':
                v.append('AlignedRest/LabelChannel %r %r' % (f[12], f[13]))
        return v[:3]

    def classify(self, case, out):
        n = len(case['rows'])
        k = ['records=%s' % (n if n < 3 else '3+')]
        for r in case['rows']:
            k.append('strand=%s' % ('-' if r['rev'] else '+'))
            k.append('alignedRest=%s' % bool(r['rest']))
            if r['conf'] < 0: k.append('negative confidence')
            if min(r['qs'], r['qe'], r['rs'], r['re'], r['qlen'], r['rlen']) < 0: k.append('negative coordinate')
            if not r['pairs']: k.append('record without pairs')
        return k

    def nontrivial(self, case, out):
        return repr(case['rows']) if case['rows'] else None


class Read(Stream):
    name = 'read'
    shard = 100
    prelude = PRELUDE + '''
(* 2: the case is well formed (verified: row_okb -> row_ok) and the implementation's result is not `expected` of theorem C18_roundtrip
      (up to the `distance` attribute, which the dataclass excludes from equality and the property does not mention);
   1: the model writer or the model reader differs from the implementation *)
Definition check (c : list raw * list string * list omap * list omap * (Z * list xalign)) : Z :=
  match c with (raws, lines, refs, qrys, result) =>
    match mks raws with
    | None => 1
    | Some rows =>
      if forallb (row_okb refs qrys) rows && negb (eqres_nd (XOk (map (expected refs qrys) (number rows))) result) then 2
      else if negb (eqls (xmap_write_lines rows) lines) then 1
      else if eqres (xmap_read_lines lines refs qrys) result then 0 else 1
    end end.'''

    def gen(self, rng, tier):
        n = 900 if tier == 'quick' else 3500
        modes = ['ok'] * 6 + ['missing_ref', 'missing_qry', 'short_ref', 'short_qry', 'shift', 'nopairs']
        return [gen_case(rng, rng.choice(modes)) for _ in range(n)]

    def corpus(self):
        refs = [[2, [1000, 2500, 4000, 9000]], [5, [100, 200]]]
        qrys = [[7, [300, 1800, 3300, 5000]]]
        return [dict(rows=[], refs=refs, qrys=qrys), dict(rows=[FIXED_ROW], refs=refs, qrys=qrys),
                dict(rows=[FIXED_ROW_REV], refs=refs, qrys=qrys), dict(rows=[FIXED_ROW, FIXED_ROW_REV], refs=refs, qrys=qrys),
                dict(rows=[], refs=[], qrys=[])]

    def impl(self, case):
        try:
            text, cigars = real_write(case['rows'])
        except Exception as e:
            return dict(err='write:' + type(e).__name__, lines=[], cigars=[], header=0)
        header, data, flags = split_text(text)
        out = dict(lines=data, cigars=cigars, header=len(header))
        out.update(real_read(text, case['refs'], case['qrys']))
        return out

    def term(self, case, out):
        if 'als' in out:
            res = '(0, (%s : list xalign))' % clist(align_term(a) for a in out['als'])
        else:
            res = '(%s, ([] : list xalign))' % z(ERR.get(out['err'], 9))
        return '((%s : list raw), (%s : list string), (%s : list omap), (%s : list omap), %s)' % (clist(raw_term(r) for r in case['rows']), clist(cstr(l) for l in out['lines']),
                                         maps_term(case['refs']), maps_term(case['qrys']), res)

    def oracle(self, case, out):
        """the round-trip property on the real writer + real reader, independent of the model"""
        if not well_formed(case):
            return []
        if 'err' in out:
            return ['reading back a file of %d well-formed record(s) raised %s' % (len(case['rows']), out['err'])]
        v = []
        als = out['als']
        if len(als) != len(case['rows']):
            return ['%d alignments read back from %d records' % (len(als), len(case['rows']))]
        for k, (a, r, cig) in enumerate(zip(als, case['rows'], out['cigars'])):
            ref = first_map(case['refs'], r['rid']); qry = first_map(case['qrys'], r['qid'])
            want = dict(id=k + 1, qid=r['qid'], rid=r['rid'], qs=trunc10(r['qs']), qe=trunc10(r['qe']), rs=trunc10(r['rs']), re=trunc10(r['re']),
                        rev=bool(r['rev']), conf=r['conf'], cigar=cig, qlen=trunc10(r['qlen']), rlen=trunc10(r['rlen']))
            for key, val in want.items():
                if a[key] != val:
                    v.append('record %d: %s read back as %r, written %r' % (k + 1, key, a[key], val))
            if not a['exact']:
                v.append('record %d: ids/coordinates are not Python ints' % (k + 1))
            got = [[p[0], p[1], p[2], p[3]] for p in a['pairs']]
            wantp = [[s, ref[s - 1], t, qry[t - 1]] for s, t in r['pairs']]
            if got != wantp:
                v.append('record %d: pairs read back as %s, written %s' % (k + 1, got[:6], wantp[:6]))
            if not cig:
                v.append('record %d: empty HitEnum for a record with pairs' % (k + 1))
        return v[:3]

    def classify(self, case, out):
        n = len(case['rows'])
        k = ['records=%s' % (n if n < 3 else '3+'), 'well-formed' if well_formed(case) else 'malformed',
             'result=%s' % (out.get('err') or 'list')]
        for r in case['rows']:
            k.append('strand=%s' % ('-' if r['rev'] else '+'))
            k.append('alignedRest=%s' % bool(r['rest']))
            if r['conf'] < 0: k.append('negative confidence')
        return k

    def nontrivial(self, case, out):
        return repr((case['rows'], case['refs'], case['qrys'])) if case['rows'] else None


class Grid(Read):
    """every small tenths / hundredths value through the real writer and reader (sign, zero padding, truncation)"""
    name = 'grid'
    exhaustive = True

    def corpus(self):
        return []

    def gen(self, rng, tier):
        lo, hi = (-250, 2300) if tier == 'quick' else (-1500, 12500)
        tenths = list(range(lo, hi + 1))
        hund = list(range(-1300, 1301)) if tier == 'quick' else list(range(-2000, 4001))
        refs = [[1, [10, 20, 30]]]; qrys = [[1, [5, 15, 25]]]
        rows = []
        ti = hi_i = 0
        while ti < len(tenths) or hi_i < len(hund):
            t = [tenths[(ti + j) % len(tenths)] for j in range(6)]
            ti += 6
            c = hund[hi_i % len(hund)]; hi_i += 1
            rows.append(dict(qid=1, rid=1, qs=t[0], qe=t[1], rs=t[2], re=t[3], rev=(len(rows) % 2 == 1), conf=c, qlen=t[4], rlen=t[5],
                             rest=(len(rows) % 3 == 0), pairs=[[1, 1], [2, 2]] if len(rows) % 2 == 0 else [[1, 3], [3, 1]]))
        return [dict(rows=rows[i:i + 6], refs=refs, qrys=qrys) for i in range(0, len(rows), 6)]


# ---------------------------------------------------------------------------------------------- oracle helpers (no model involved)
def trunc10(t):
    return (abs(t) // 10) * (1 if t >= 0 else -1)


def first_map(ms, i):
    for j, p in ms:
        if j == i:
            return p
    return None


def well_formed(case):
    for r in case['rows']:
        ref = first_map(case['refs'], r['rid']); qry = first_map(case['qrys'], r['qid'])
        if ref is None or qry is None or not r['pairs']:
            return False
        if any(not (1 <= s <= len(ref)) or not (1 <= t <= len(qry)) for s, t in r['pairs']):
            return False
    return True


# ---------------------------------------------------------------------------------------------- generators
FIXED_ROW = dict(qid=7, rid=5, qs=3000, qe=3000, rs=2000, re=2000, rev=False, conf=100025, qlen=53010, rlen=3010, rest=False, pairs=[[2, 1]])
FIXED_ROW_REV = dict(qid=7, rid=2, qs=33000, qe=3005, rs=10000, re=90009, rev=True, conf=-50, qlen=53019, rlen=5, rest=True,
                     pairs=[[1, 3], [2, 2], [4, 1]])


def gen_positions(rng, n):
    p, out = rng.randint(0, 5000), []
    for _ in range(n):
        out.append(p)
        p += rng.choice([1, 7, 500, 2500, 12000, rng.randint(1, 100000)])
    return out


def gen_coord(rng):
    m = rng.random()
    if m < 0.08: return 0
    if m < 0.18: return rng.randint(1, 99)
    if m < 0.24: return -rng.randint(1, 250)
    if m < 0.60: return rng.randint(100, 10 ** 7)
    if m < 0.90: return rng.randint(10 ** 7, 3 * 10 ** 9)
    return 10 * rng.randint(0, 10 ** 8)


def gen_conf(rng):
    m = rng.random()
    if m < 0.08: return 0
    if m < 0.25: return rng.randint(-150, 150)
    if m < 0.45: return -rng.randint(1, 10 ** 6)
    if m < 0.75: return rng.randint(0, 10 ** 7)
    if m < 0.90: return rng.randint(10 ** 7, 5 * 10 ** 9)      # long contig alignments: confidence beyond 2^17 (float32 would lose the cents)
    return 100 * rng.randint(-5000, 50000)


def gen_case(rng, mode):
    nr, nq = rng.randint(1, 3), rng.randint(1, 3)
    rids = rng.sample(range(1, 30), nr); qids = rng.sample(range(1, 2000), nq)
    refs = [[i, gen_positions(rng, rng.randint(1, 14))] for i in rids]
    qrys = [[i, gen_positions(rng, rng.randint(1, 12))] for i in qids]
    if rng.random() < 0.25:       # a second map with the same id: the first one must be used
        refs.append([rids[0], gen_positions(rng, rng.randint(1, 14))])
    if rng.random() < 0.25:
        qrys.append([qids[0], gen_positions(rng, rng.randint(1, 12))])
    n = rng.choice([0, 1, 1, 2, 2, 3, 4, 5, 6])
    rows = []
    for _ in range(n):
        ri, qi = rng.randrange(nr), rng.randrange(nq)
        lr, lq = len(refs[ri][1]), len(qrys[qi][1])
        m = rng.randint(1, min(lr, lq))
        rs = sorted(rng.sample(range(1, lr + 1), m)); qs = sorted(rng.sample(range(1, lq + 1), m))
        rev = rng.random() < 0.5
        if rev:
            qs = qs[::-1]
        rows.append(dict(qid=qids[qi], rid=rids[ri], qs=gen_coord(rng), qe=gen_coord(rng), rs=gen_coord(rng), re=gen_coord(rng), rev=rev,
                         conf=gen_conf(rng), qlen=gen_coord(rng), rlen=gen_coord(rng), rest=rng.random() < 0.4,
                         pairs=[[a, b] for a, b in zip(rs, qs)]))
    if mode == 'write':
        if rows and rng.random() < 0.15:
            rng.choice(rows)['pairs'] = []
        return dict(rows=rows, refs=[], qrys=[])
    if rows and mode != 'ok':
        r = rng.choice(rows)
        if mode == 'missing_ref':
            refs = [m for m in refs if m[0] != r['rid']]
        elif mode == 'missing_qry':
            qrys = [m for m in qrys if m[0] != r['qid']]
        elif mode == 'short_ref':
            for m in refs:
                if m[0] == r['rid']:
                    m[1] = m[1][:max(0, max(a for a, _ in r['pairs']) - rng.randint(1, 2))]
                    break
        elif mode == 'short_qry':
            for m in qrys:
                if m[0] == r['qid']:
                    m[1] = m[1][:max(0, max(b for _, b in r['pairs']) - rng.randint(1, 2))]
                    break
        elif mode == 'shift':      # site ids 0 and below: Python's negative indexing, or IndexError further down
            k = rng.randint(1, 4) + (min(a for a, _ in r['pairs']) - 1 if rng.random() < 0.6 else rng.randint(0, 12))
            if rng.random() < 0.5:
                r['pairs'] = [[a - k, b] for a, b in r['pairs']]
            else:
                k = rng.randint(1, 3) + min(b for _, b in r['pairs']) - 1
                r['pairs'] = [[a, b - k] for a, b in r['pairs']]
        elif mode == 'nopairs':
            r['pairs'] = []
    return dict(rows=rows, refs=refs, qrys=qrys)


STREAMS = [Write(), Read(), Grid()]

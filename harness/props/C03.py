"""C03 — HitEnum is a faithful run-length encoding of the aligned pairs."""
import itertools, re
from ..driver import Stream
from ..common import z, zl, cb, cstr, clist

ID = 'C03'
RULE = ('grid: every valid matching (all subsets of reference labels x subsets of query labels of equal size) on a k x k label grid, '
        'both strands (exhaustive); random: random valid matchings up to 300 pairs with random skips; malformed: pair lists with '
        'duplicate query labels, equal/descending reference labels or wrong direction (exception kind compared). '
        'non-trivial = distinct case whose HitEnum has at least one I or D run, or is malformed')
TRUSTED = ['row construction adapter: AlignmentResultRow([AlignmentSegment([ScoredAlignedPair...])])']
ASSUMPTIONS = ['label numbers are the only input of cigarString; coordinates are irrelevant (checked by reading the code: only siteId is used)']


def make_row(ps):
    from src.alignment.alignment_results import AlignmentResultRow
    from src.alignment.alignment_position import AlignedPair, ScoredAlignedPair
    from src.alignment.segments import AlignmentSegment
    from src.correlation.optical_map import PositionWithSiteId
    from src.correlation.peak import Peak
    pos = [ScoredAlignedPair(AlignedPair(PositionWithSiteId(r, 1000 * r), PositionWithSiteId(q, 1000 * q)), 1.) for r, q in ps]
    seg = AlignmentSegment(pos, float(len(pos)), Peak(0, 1.), pos)
    return AlignmentResultRow([seg])


def replay_hitenum(s, first, dirn):
    """independent reader: returns the pair list the string encodes, or None when it is not well formed"""
    if not re.fullmatch(r'(\d+[MDI])+', s):
        return None
    runs = [(int(n), o) for n, o in re.findall(r'(\d+)([MDI])', s)]
    if any(n < 1 for n, _ in runs) or any(a[1] == b[1] for a, b in zip(runs, runs[1:])):
        return None
    if runs[0][1] != 'M' or runs[-1][1] != 'M':
        return None
    r, q = first[0] - 1, first[1] - dirn
    out = []
    for n, o in runs:
        for _ in range(n):
            if o == 'M':
                r += 1; q += dirn; out.append([r, q])
            elif o == 'D':
                r += 1
            else:
                q += dirn
    return out


class Base(Stream):
    case_timeout = 10
    mem_limit_gb = 1.5
    prelude = '''From Coq Require Import ZArith List Bool String. Import ListNotations.
Require Import Py Cigar. Open Scope Z_scope.
Fixpoint eqps (a b : list (Z * Z)) : bool := match a, b with [], [] => true | (r, q) :: t, (r', q') :: t' => (r =? r') && (q =? q') && eqps t t' | _, _ => false end.
Definition is_M (o : op) := match o with M => true | _ => false end.
(* verified checker of the property on the implementation's string (decode/parse_hit are the functions of props/C03.v) *)
Definition replay_ok (dir : Z) (ps : list (Z * Z)) (s : string) : bool :=
  match ps, parse_hit s with
  | (r0, q0) :: _, Some rs => let l := expand rs in eqps (decode dir (r0 - 1) (q0 - dir) l) ps && is_M (hd D l) && is_M (last l D) && negb (String.eqb s "")
  | _, _ => false end.
Definition check (c : Z * list (Z * Z) * bool * string) : Z :=
  match c with (dir, ps, err, s) =>
    match cigar_string ps with
    | Ok m => if err then 1 else if String.eqb m s then (if dir =? 0 then 0 else if replay_ok dir ps s then 0 else 2) else 1
    | Err => if err then 0 else 1
    end end.'''

    def impl(self, case):
        try:
            s = make_row([tuple(p) for p in case['ps']]).cigarString
            return dict(s=s if len(s) <= 6000 else s[:6000] + '...[%d chars]' % len(s))
        except Exception as e:
            return dict(err=type(e).__name__)

    def term(self, case, out):
        ps = clist('(%s,%s)' % (z(r), z(q)) for r, q in case['ps'])
        return '(%s, %s, %s, %s)' % (z(case['dir']), ps, cb('err' in out), cstr(out.get('s', '')))

    def oracle(self, case, out):
        if case['dir'] == 0:
            return []
        if 'err' in out:
            return ['cigarString raised %s on a valid matching' % out['err']]
        if out['s'] == '':
            return ['empty HitEnum for a record with %d pair(s)' % len(case['ps'])]
        got = replay_hitenum(out['s'], case['ps'][0], case['dir'])
        if got is None:
            return ['HitEnum %r is not a well-formed run-length string starting and ending with M' % out['s']]
        if got != [list(p) for p in case['ps']]:
            return ['replaying HitEnum %r gives %s, listed pairs are %s' % (out['s'], got[:8], case['ps'][:8])]
        return []

    def classify(self, case, out):
        n = len(case['ps'])
        k = ['pairs=%s' % ('1' if n == 1 else '2-5' if n <= 5 else '6-50' if n <= 50 else '>50'), 'dir=%d' % case['dir']]
        if 'err' in out:
            k.append('error:' + out['err'])
        else:
            k.append('has_I' if 'I' in out['s'] else 'no_I')
            k.append('has_D' if 'D' in out['s'] else 'no_D')
        return k

    def nontrivial(self, case, out):
        if 'err' in out or case['dir'] == 0 or 'I' in out['s'] or 'D' in out['s']:
            return repr((case['dir'], case['ps']))
        return None


class Grid(Base):
    name = 'grid'
    exhaustive = True

    def gen(self, rng, tier):
        k = 6 if tier == 'quick' else 8
        out = []
        for m in range(1, k + 1):
            for rs in itertools.combinations(range(1, k + 1), m):
                for qs in itertools.combinations(range(1, k + 1), m):
                    out.append(dict(dir=1, ps=[[r, q] for r, q in zip(rs, qs)]))
                    out.append(dict(dir=-1, ps=[[r, q] for r, q in zip(rs, reversed(qs))]))
        return out


class Random(Base):
    name = 'random'

    def gen(self, rng, tier):
        n = 1500 if tier == 'quick' else 12000
        out = []
        for _ in range(n):
            m = rng.choice([1, 1, 2, 3, 5, 8, 20, 60, 150, 300])
            m = rng.randint(1, m)
            dirn = rng.choice([1, -1])
            r = rng.randint(1, 50); q = rng.randint(1, 50)
            rs, qs = [r], [q]
            for _ in range(m - 1):
                r += rng.choice([1, 1, 1, 1, 2, 2, 3, 7, 40]); q += rng.choice([1, 1, 1, 1, 2, 2, 3, 5, 25])
                rs.append(r); qs.append(q)
            if dirn < 0:
                qs = qs[::-1]
            out.append(dict(dir=dirn, ps=[[a, b] for a, b in zip(rs, qs)]))
        return out


class Malformed(Base):
    name = 'malformed'

    def gen(self, rng, tier):
        n = 600 if tier == 'quick' else 4000
        out = []
        for _ in range(n):
            m = rng.randint(1, 6)
            ps = [[rng.randint(1, 7), rng.randint(1, 7)] for _ in range(m)]
            if rng.random() < 0.5:
                ps.sort()
            out.append(dict(dir=0, ps=ps))
        return out


from .. import e2e_streams as es


class Records(es.RecordStream):
    """every record real end-to-end runs wrote (four output modes, first-pass, second-pass and joined records): the model's cigar_string of
    the listed pairs must be the HitEnum in the file, and the verified replay checker must accept it"""
    name = 'e2e_records'
    prelude = Base.prelude

    def term(self, case, out):
        ps = clist('(%s,%s)' % (z(r), z(q)) for r, q in case['pairs'])
        valid = all(a[0] < b[0] and ((a[1] > b[1]) if case['rev'] else (a[1] < b[1])) for a, b in zip(case['pairs'], case['pairs'][1:]))
        d = (-1 if case['rev'] else 1) if valid else 0          # invalid matchings (open finding F10 of C01): model agreement only
        return '(%s, %s, %s, %s)' % (z(d), ps, cb(False), cstr(case['hit']))

    def oracle(self, case, out):
        pairs = [tuple(p) for p in case['pairs']]
        valid = all(a[0] < b[0] and ((a[1] > b[1]) if case['rev'] else (a[1] < b[1])) for a, b in zip(pairs, pairs[1:]))
        if not valid or not pairs:
            return []
        got = replay_hitenum(case['hit'], pairs[0], -1 if case['rev'] else 1)
        tag = 'record of query %d on reference %d (mode %s, file %s): ' % (case['q'], case['r'], case['mode'], case['file'])
        if got is None:
            return [tag + 'HitEnum %r is not a well-formed run-length string starting and ending with M' % case['hit']]
        if got != [list(p) for p in pairs]:
            return [tag + 'replaying HitEnum %r does not reproduce the listed pairs' % case['hit']]
        return []

    def classify(self, case, out):
        return es.RecordStream.classify(self, case, out) + [('has_I' if 'I' in case['hit'] else 'no_I'), ('has_D' if 'D' in case['hit'] else 'no_D')]


STREAMS = [Grid(), Random(), Malformed(), Records()]

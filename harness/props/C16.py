"""C16 — Vectorisation, blur and bin-to-bp mapping are exact; seeds are the top peaks."""
import itertools
from ..driver import Stream
from ..common import z, zl, clist

ID = 'C16'
RULE = ('vector: exhaustive, every ascending label list (duplicates allowed, also the empty list) of up to 3 (quick) / 4 (thorough) labels over '
        '-2..11 x resolution 1..4 x start in {-3,0,1,2,5} x end in {None,0,-1,3,6,11,14}; random: up to 60 labels, coordinates up to 6000, '
        'resolution up to 400, negative starts, ends before/after the last label; malformed: unsorted labels, resolution < 1 (model-vs-code only). '
        'blur: exhaustive, every bit vector up to length 8 (quick) / 10 (thorough) x radius 0..3 (0..4); random: up to length 300, radius up to 15, '
        'also non-0/1 entries and negative radius. centre: resolution 1..12 x bins 0..5 x three starts exhaustive, random integer arrays. '
        'peaks: exhaustive, every score assignment over three values to up to 5 (quick) / 7 (thorough) peaks x three splits into correlations '
        '(with an empty correlation) x every count 0..n+1 and -1,-2; random: up to 8 correlations x 12 peaks with heavy ties. create: '
        'createPeaks with tied heights and peaksCount below/at/above the number of peaks. seeds: createPeaks per correlation then selectPeaks. '
        'xcorr: exhaustive, every pair of 0/1 vectors of lengths 0..6 x 0..4 (quick) / 0..8 x 0..5 (thorough) through the code\'s own '
        'correlate(valid, fft) wrapper, including empty inputs and the swapped branch (second vector longer); random: lengths up to 700 (1500), '
        'several densities, small non-0/1 integers; also correlate(in1, ones) + sum(in2), the normalising numerator. sequence: real '
        'OpticalMap.getSequence on both strands, window start/end, lattice and off-lattice labels, invalid resolution/radius, no labels. '
        'seeding_correlation: real OpticalMap.getInitialAlignment(...).correlation (normalised floats, compared with the exact rational within 1e-9) '
        'and InitialAlignment.refine(...).correlation/correlationStart/correlationEnd for noise-free copies (half of them at a lattice offset), '
        'noisy copies, unrelated queries, both strands, queries longer than the reference, queries reaching beyond the reference\'s last label '
        '(scipy\'s swapped branch), molecules without labels, empty secondary windows; scaled resolutions plus a few cases at the default 1400/1, 100/4, 8000. '
        'find_peaks_unit: scipy.signal.find_peaks itself on 700 (6000) arrays of dyadic rationals / integers over small alphabets (iid, random walks, '
        'blocks: many plateaus and ties, negative samples, lengths 0..200) with random height / distance / prominence borders, plus COMA\'s two call '
        'patterns (height 0.75*max + distance; integers + height + prominence 0.05*max(initial=0)); the distance condition is compared with numpy\'s own '
        'argsort order (recorded), and with the stable order wherever no two equal peaks are closer than the distance. float_borders: exhaustive, '
        'fl(0.05*m) <= p iff m <= 20p for every integer m <= 60000 (400000) and p around m/20; ceil(fl(mpd/res)) and fl(mpd/res) < 1 against integer '
        'arithmetic. seeding: the real coordinator chain (__getPrimaryCorrelations on every reference and both strands -> selectPeaks -> '
        '__getSecondaryCorrelation/refine) on 36 (260) generated cases: queries of e2e data sets (2 references of 80..200 labels, 12 parameter sets, '
        'peaksCount 1..7), scaled synthetic maps incl. malformed ones (exceptions), periodic references whose peaks are exactly floor(distance) bins apart; '
        'two tiers, see TRUSTED. non-trivial = distinct inputs with a non-empty result')
TRUSTED = ['adapter: fake correlations are objects with a .peaks list of real Peak objects; a peak is identified by its (unique) position',
           'np.argpartition is not modelled: the model takes the cut as an argument, the checker accepts any output that is a '
           'sub-multiset of the right size with the same top scores (theorem C16_cut_harmless quantifies over every such cut)',
           'scipy.signal.correlate(method=fft): floating-point rounding of the FFT is not modelled; np.rint of its output is compared with the exact '
           'integer model (the check also fails if an output is further than 1e-6 from an integer); normalised correlation compared within 1e-9',
           'stream seeding_correlation: find_peaks runs inside the real getInitialAlignment/refine calls and its output is ignored there; it IS modelled '
           '(model/FindPeaks.v) and compared by the streams find_peaks_unit and seeding',
           'seeding, float tier: the three things the code computes in floating point before find_peaks - the normalised correlation (doubles, sent exactly as '
           'multiples of 2^-62), the height border 0.75*max (checked in Coq to be within 2^-52 of 3/4 max) and numpy\'s argsort inside the distance condition '
           '(checked in Coq to be an argsort) - are taken from the code; everything from find_peaks on (createPeaks, noise level, selectPeaks, refine) is the '
           'model\'s.  Left out: a createPeaks cut whose border falls between equal heights (numpy leaves the SET unspecified), scores of different correlations '
           'closer than 1e-9; compared as multisets / sets: selections in which argpartition kept equal heights, more than 10 secondary peaks',
           'seeding, exact tier: Seeding.all_primary from the maps alone; a disagreement is tolerated only in cases flagged by an independent re-implementation '
           'in harness/seeding.py (exact_found: find_peaks on exact rationals): the peaks scipy found on the code\'s float correlation differ in bins or height '
           'ranking from those of the exact rational correlation, i.e. FFT rounding noise decides the code\'s result (measured: quick 24 of 35 cases flagged, 7 of them '
           'disagree; thorough 176 of 255 flagged, 32 of them disagree; every unflagged case and all other flagged cases agree)',
           'Peak.score order: the model decides height - sqrt(mean square) exactly (le_sqrt); its two shortcuts (same correlation: by height; disjoint '
           'enclosures from floor(sqrt(M) 2^80)) are compared with the plain algebraic test on all pairs of primary peaks of part of the cases']
ASSUMPTIONS = ['labels ascending (CMAP reader sorts them, C17); resolution >= 1',
               'heights, noise levels and scores are integer-valued floats in the generated cases, so height - noiseLevel and comparisons are exact',
               'positions=[] with end None/0 raises IndexError in the code (positions[-1]); the model (vectorise_py) returns Err there and the '
               'pure model `vectorise` (last ps 0) is only claimed for the inputs where the code returns',
               'lag theorems (C16_xcorr_*, C06_true_lag_*, C11_sequence_mirror): reference vector at least as long as the query vector, both non-empty; '
               'the model function correlate_valid itself also covers scipy\'s swapped branch and the IndexError on an empty vector']

LIST_PRELUDE = '''From Coq Require Import ZArith List Bool. Import ListNotations.
Require Import Py Vec Peaks. Open Scope Z_scope.
Fixpoint eql (a b : list Z) := match a, b with [], [] => true | x :: s, y :: t => (x =? y) && eql s t | _, _ => false end.
Definition agree (r : Py.res (list Z)) (o : option (list Z)) := match r, o with Ok v, Some w => eql v w | Err, None => true | _, _ => false end.
'''


def opt(o):
    return 'None' if o is None else 'Some %s' % z(o)


def optl(o):
    return 'None' if 'err' in o else '(Some %s)' % zl(o['v'])


def canon(f):
    try:
        return dict(v=[int(x) for x in f()])
    except Exception as e:
        return dict(err=type(e).__name__)


# ------------------------------------------------------------------------------------------------ vectorise
def vec_oracle(ps, res, start, end, o):
    errs = []
    if res < 1:
        return [] if o.get('err') == 'ValueError' else ['resolution %s < 1 did not raise ValueError: %s' % (res, o)]
    if not ps and not end:
        return [] if o.get('err') == 'IndexError' else ['no label and no end: expected IndexError, got %s' % o]
    if 'err' in o:
        return ['vectorisePositions raised %s' % o['err']]
    if ps != sorted(ps):
        return []
    v = o['v']
    e = end or ps[-1]
    for i, b in enumerate(v):
        lo, hi = start + i * res, start + (i + 1) * res
        has = any(lo <= p < hi for p in ps)
        if b != (1 if has else 0):
            errs.append('bit %d is %s but %s label lies in [%d,%d)' % (i, b, 'a' if has else 'no', lo, hi))
            break
    for p in ps:
        if start <= p <= e:
            i = (p - start) // res
            if i >= len(v):
                errs.append('label %d in [start,end] falls outside the vector (bin %d, length %d)' % (p, i, len(v)))
                break
            if v[i] != 1:
                errs.append('label %d in [start,end]: bit %d not set' % (p, i))
                break
    return errs


class VecBase(Stream):
    shard = 40
    prelude = LIST_PRELUDE + '''Definition check (c : list Z * list (Z * Z * option Z * option (list Z))) : Z :=
  if forallb (fun t => match t with (r, s, e, o) => agree (vectorise_py (fst c) r s e) o end) (snd c) then 0 else 1.'''

    def impl(self, case):
        from src.correlation.vectorise import vectorisePositions
        return [canon(lambda: list(vectorisePositions(list(case['ps']), r, s, e))) for r, s, e in case['cfg']]

    def term(self, case, out):
        return '(%s, %s)' % (zl(case['ps']), clist('(%s,%s,%s,%s)' % (z(r), z(s), opt(e), optl(o)) for (r, s, e), o in zip(case['cfg'], out)))

    def oracle(self, case, out):
        v = []
        for (r, s, e), o in zip(case['cfg'], out):
            for m in vec_oracle(case['ps'], r, s, e, o):
                v.append('%s (positions=%s resolution=%s start=%s end=%s output=%s)' % (m, case['ps'], r, s, e, o))
                if len(v) >= 3: return v
        return v

    def classify(self, case, out):
        k = ['labels=%s' % (len(case['ps']) if len(case['ps']) < 5 else '5+')]
        for (r, s, e), o in zip(case['cfg'], out):
            if 'err' in o: k.append('raises ' + o['err'])
            else:
                if s < 0: k.append('negative start')
                if case['ps'] and e and e < case['ps'][-1]: k.append('end before last label')
                if case['ps'] and e and e > case['ps'][-1]: k.append('end after last label')
                if not e: k.append('end None/0')
        return sorted(set(k))

    def nontrivial(self, case, out):
        return repr(case) if any(o.get('v') and 1 in o['v'] for o in out) else None


VEC_CFG = [(r, s, e) for r in (1, 2, 3, 4) for s in (-3, 0, 1, 2, 5) for e in (None, 0, -1, 3, 6, 11, 14)]


class VecExh(VecBase):
    name = 'vector'
    exhaustive = True

    def gen(self, rng, tier):
        n = 3 if tier == 'quick' else 4
        return [dict(ps=list(ps), cfg=VEC_CFG) for k in range(0, n + 1) for ps in itertools.combinations_with_replacement(range(-2, 12), k)]


class VecRandom(VecBase):
    name = 'vector_random'
    shard = 25

    def gen(self, rng, tier):
        n = 200 if tier == 'quick' else 800
        out = []
        for _ in range(n):
            if rng.random() < 0.3:
                top, rs = 300, [1, 2, 3, 5]
            else:
                top, rs = 6000, [7, 10, 33, 100, 128, 250, 400]
            L = rng.randint(1, 60)
            ps = sorted(rng.choice([rng.randint(-top // 10, top), rng.randint(0, top // 4)]) for _ in range(L))
            if rng.random() < 0.3:
                ps = sorted(ps + [rng.choice(ps) for _ in range(3)])
            cfg = []
            for _ in range(3):
                s = rng.choice([0, 0, rng.randint(-top // 5, top // 2), ps[0], ps[0] + 1, -rng.randint(1, top // 5)])
                e = rng.choice([None, 0, ps[-1], ps[-1] - 1, ps[-1] + 1, rng.randint(-10, top), ps[len(ps) // 2], ps[-1] + rng.randint(1, top // 3)])
                cfg.append((rng.choice(rs), s, e))
            out.append(dict(ps=ps, cfg=cfg))
        return out


class VecMalformed(VecBase):
    name = 'vector_malformed'

    def gen(self, rng, tier):
        n = 300 if tier == 'quick' else 2000
        out = []
        for _ in range(n):
            ps = [rng.randint(-3, 14) for _ in range(rng.randint(0, 6))]
            cfg = [(rng.choice([-2, 0, 1, 2, 3]), rng.randint(-4, 6), rng.choice([None, 0, -2, 4, 9, 20])) for _ in range(4)]
            out.append(dict(ps=ps, cfg=cfg))
        return out


# ------------------------------------------------------------------------------------------------ blur
def blur_oracle(v, r, o):
    if r < 0:
        return [] if o.get('err') == 'ValueError' else ['radius %s < 0 did not raise ValueError: %s' % (r, o)]
    if 'err' in o:
        return ['blur raised %s' % o['err']]
    b = o['v']
    if len(b) != len(v):
        return ['length changed from %d to %d' % (len(v), len(b))]
    for i in range(len(v)):
        has = any(v[j] != 0 for j in range(max(0, i - r), min(len(v), i + r + 1)))
        if b[i] != (1 if has else 0):
            return ['bit %d is %s but %s original bit within radius %d' % (i, b[i], 'an' if has else 'no', r)]
    return []


class BlurBase(Stream):
    shard = 150
    prelude = LIST_PRELUDE + '''Definition check (c : list Z * list (Z * option (list Z))) : Z :=
  if forallb (fun t => agree (blur_py (fst c) (fst t)) (snd t)) (snd c) then 0 else 1.'''

    def impl(self, case):
        from src.correlation.vectorise import blur
        return [canon(lambda: blur(list(case['v']), r)) for r in case['radii']]

    def term(self, case, out):
        return '(%s, %s)' % (zl(case['v']), clist('(%s,%s)' % (z(r), optl(o)) for r, o in zip(case['radii'], out)))

    def oracle(self, case, out):
        v = []
        for r, o in zip(case['radii'], out):
            for m in blur_oracle(case['v'], r, o):
                v.append('%s (vector=%s radius=%s output=%s)' % (m, case['v'], r, o))
        return v[:3]

    def classify(self, case, out):
        return ['len=%s' % (len(case['v']) if len(case['v']) < 11 else '11+')] + sorted(set('radius=%s' % (r if r < 5 else '5+') for r in case['radii']))

    def nontrivial(self, case, out):
        return repr(case) if any(case['v']) else None


class BlurExh(BlurBase):
    name = 'blur'
    exhaustive = True

    def gen(self, rng, tier):
        n, rm = (8, 3) if tier == 'quick' else (10, 4)
        return [dict(v=list(v), radii=list(range(0, rm + 1))) for k in range(0, n + 1) for v in itertools.product([0, 1], repeat=k)]


class BlurRandom(BlurBase):
    name = 'blur_random'
    shard = 30

    def gen(self, rng, tier):
        n = 200 if tier == 'quick' else 600
        out = []
        for _ in range(n):
            L = rng.randint(0, 300)
            dens = rng.choice([0.02, 0.05, 0.2])
            vals = [1] if rng.random() < 0.8 else [1, 2, -1, 7]
            v = [rng.choice(vals) if rng.random() < dens else 0 for _ in range(L)]
            out.append(dict(v=v, radii=[rng.choice([0, 1, 2, 3, 5, 8, 15, L, L + 3]), rng.randint(0, 15), rng.choice([-1, -3, 4])]))
        return out


# ------------------------------------------------------------------------------------------------ centre
class Centre(Stream):
    name = 'centre'
    shard = 200
    prelude = LIST_PRELUDE + '''Definition check (c : Z * Z * list Z * list Z) : Z :=
  match c with (r, s, ks, o) => if eql (map (fun k => bin_to_bp k r s) ks) o then 0 else 1 end.'''

    def gen(self, rng, tier):
        out = [dict(res=r, start=s, ks=list(range(0, 6))) for r in range(1, 13) for s in (-7, 0, 13)]
        n = 300 if tier == 'quick' else 3000
        for _ in range(n):
            r = rng.choice([rng.randint(1, 20), rng.randint(1, 2000), rng.choice([1, 2, 100, 101])])
            if rng.random() < 0.05: r = rng.choice([0, -1, -4, -7])      # not a valid resolution: model-vs-code only
            out.append(dict(res=r, start=rng.choice([0, rng.randint(-10 ** 6, 10 ** 6)]),
                            ks=[rng.randint(-5, 10 ** 5) for _ in range(rng.randint(0, 12))]))
        return out

    def impl(self, case):
        import numpy as np
        from src.correlation.optical_map import toRelativeGenomicPositions
        return canon(lambda: toRelativeGenomicPositions(np.array(case['ks'], dtype=np.int64), case['res'], case['start']).tolist())

    def term(self, case, out):
        return '(%s, %s, %s, %s)' % (z(case['res']), z(case['start']), zl(case['ks']), zl(out.get('v', [-999999999])))

    def oracle(self, case, out):
        if 'err' in out:
            return ['toRelativeGenomicPositions raised %s' % out['err']]
        r, s = case['res'], case['start']
        if len(out['v']) != len(case['ks']):
            return ['length changed']
        if r < 1:
            return []
        for k, bp in zip(case['ks'], out['v']):
            lo, hi = s + k * r, s + (k + 1) * r - 1          # the integer points of bin k
            if not (lo <= bp <= hi) or 2 * max(bp - lo, hi - bp) > r:
                return ['bin %d (resolution %d, start %d) maps to %d, not within half a resolution of every point of [%d,%d]' % (k, r, s, bp, lo, hi)]
        return []

    def classify(self, case, out):
        return ['resolution %s' % ('even' if case['res'] % 2 == 0 else 'odd'), 'start<0' if case['start'] < 0 else 'start>=0']

    def nontrivial(self, case, out):
        return repr(case) if case['ks'] and case['res'] >= 1 else None


# ------------------------------------------------------------------------------------------------ peaks
class _Corr:
    def __init__(self, peaks): self.peaks = peaks


def select_oracle(ls, count, o):
    """ls: list of lists of (id, score); o: dict(v=[ids]) in the order returned"""
    if 'err' in o:
        return ['selectPeaks raised %s' % o['err']]
    flat = [p for l in ls for p in l]
    score = dict(flat)
    order = {pid: i for i, (pid, _) in enumerate(flat)}
    got = o['v']
    errs = list(o.get('flags', []))
    if any(g not in score for g in got) or len(set(got)) != len(got):
        return errs + ['result is not a sub-multiset of the input peaks']
    if count < 0:
        return errs
    if len(got) != min(count, len(flat)):
        errs.append('%d seeds kept, expected min(count, total) = %d' % (len(got), min(count, len(flat))))
    sc = [score[g] for g in got]
    if any(a < b for a, b in zip(sc, sc[1:])):
        errs.append('seeds not in descending score order: %s' % sc)
    rest = [pid for pid, _ in flat if pid not in set(got)]
    if got and rest and max(score[x] for x in rest) > min(sc):
        errs.append('a peak left out scores higher than a seed kept')
    for a, b in zip(got, got[1:]):
        if score[a] == score[b] and order[a] > order[b]:
            errs.append('equal scores not in input order: %s before %s' % (a, b))
    for x in rest:
        if any(score[g] == score[x] and order[g] > order[x] for g in got):
            errs.append('tie at the cut not resolved by input order: %s left out but a later peak of equal score kept' % x)
            break
    return errs


class PeaksBase(Stream):
    shard = 200
    prelude = LIST_PRELUDE + '''Definition check (c : list (list (Z * Z)) * list (Z * option (list Z))) : Z :=
  let ls := map (map (fun p => mkPeak (fst p) (snd p + 3) (snd p))) (fst c) in
  if forallb (fun t => agree (Ok (map ppos (select_peaks_z (fst t) ls))) (snd t)) (snd c) then 0 else 1.'''

    def impl(self, case):
        from src.correlation.peaks_selector import PeaksSelector
        from src.correlation.peak import Peak
        outs = []
        for count in case['counts']:
            corrs = [_Corr([Peak(pid, float(s + 3), 0, 0, score=float(s)) for pid, s in l]) for l in case['ls']]
            owner = {id(p): c for c in corrs for p in c.peaks}
            try:
                sel = PeaksSelector(count).selectPeaks(iter(corrs))
                flags = []
                if not isinstance(sel, list): flags.append('result is not a list')
                if any(owner.get(id(sp.peak)) is not sp.primaryCorrelation for sp in sel): flags.append('seed attached to the wrong correlation')
                outs.append(dict(v=[int(sp.peak.position) for sp in sel], flags=flags))
            except Exception as e:
                outs.append(dict(err=type(e).__name__))
        return outs

    def term(self, case, out):
        return '(%s, %s)' % (clist(clist('(%s,%s)' % (z(a), z(b)) for a, b in l) for l in case['ls']),
                             clist('(%s,%s)' % (z(c), optl(o)) for c, o in zip(case['counts'], out)))

    def oracle(self, case, out):
        v = []
        for c, o in zip(case['counts'], out):
            for m in select_oracle(case['ls'], c, o):
                v.append('%s (correlations [(id, score)]=%s count=%s result=%s)' % (m, case['ls'], c, o))
        return v[:3]

    def classify(self, case, out):
        flat = [s for l in case['ls'] for _, s in l]
        return ['peaks=%s' % (len(flat) if len(flat) < 8 else '8+'), 'ties' if len(set(flat)) < len(flat) else 'no ties',
                'correlations=%d' % min(4, len(case['ls']))]

    def nontrivial(self, case, out):
        return repr(case) if any(o.get('v') for o in out) else None


def splits(items):
    n = len(items)
    return [[items], [items[:1], [], items[1:]], [items[:n // 2], items[n // 2:]]]


class PeaksExh(PeaksBase):
    name = 'peaks'
    exhaustive = True

    def gen(self, rng, tier):
        n = 5 if tier == 'quick' else 7
        out = []
        for m in range(0, n + 1):
            for sc in itertools.product([1, 2, 3], repeat=m):
                items = [[10 + i, s] for i, s in enumerate(sc)]
                for ls in splits(items):
                    out.append(dict(ls=ls, counts=list(range(0, m + 2)) + [-1, -2]))
        return out


class PeaksRandom(PeaksBase):
    name = 'peaks_random'
    shard = 100

    def gen(self, rng, tier):
        n = 600 if tier == 'quick' else 3000
        out = []
        for _ in range(n):
            hi = rng.choice([2, 4, 10, 10 ** 6])
            pid = itertools.count(1)
            ls = [[[next(pid), rng.randint(-hi // 2, hi)] for _ in range(rng.choice([0, 1, 2, 5, 12]))] for _ in range(rng.randint(0, 8))]
            tot = sum(len(l) for l in ls)
            out.append(dict(ls=ls, counts=[rng.randint(0, tot + 2), rng.choice([1, 3, 5, tot, 10 ** 6]), rng.randint(-tot - 2, -1)]))
        return out


# ------------------------------------------------------------------------------------------------ createPeaks
def run_create(found, res, start, noise, count):
    import numpy as np
    from src.correlation.optical_map import CorrelationResult
    pos = np.array([k for k, _ in found], dtype=np.int64)
    h = np.array([float(x) for _, x in found], dtype=np.float64)
    props = dict(peak_heights=h, left_ips=pos - 0.5, right_ips=pos + 0.5)
    peaks = CorrelationResult.createPeaks(pos, props, res, start, float(noise), count)
    out = []
    for p in peaks:
        if float(p.height) != int(p.height) or float(p.score) != int(p.score) or int(p.position) != p.position:
            raise ArithmeticError('non-integer peak %r %r %r' % (p.position, p.height, p.score))
        out.append([int(p.position), int(p.height), int(p.score)])
    return peaks, out


def create_oracle(found, res, start, noise, count, got):
    exp = [[k * res + (-(-res // 2) - 1 + start), hgt, hgt - noise] for k, hgt in found]
    if count >= len(found):
        return [] if got == exp else ['peaksCount >= number of peaks but the peaks are not all returned in order']
    errs = []
    if len(got) != count:
        errs.append('%d peaks kept, expected peaksCount = %d' % (len(got), count))
    pool = list(exp)
    for g in got:
        if g in pool: pool.remove(g)
        else:
            errs.append('returned peak %s is not one of the found peaks (or is duplicated)' % g)
            break
    else:
        if got and pool and max(p[1] for p in pool) > min(g[1] for g in got):
            errs.append('a peak left out is higher than a peak kept')
    return errs


class Create(Stream):
    name = 'create'
    shard = 150
    prelude = '''From Coq Require Import ZArith List Bool. Import ListNotations.
Require Import Py Vec Peaks. Open Scope Z_scope.
Definition eqp (a b : peak) := (ppos a =? ppos b) && (pheight a =? pheight b) && (pscore a =? pscore b).
Fixpoint eqpl (a b : list peak) := match a, b with [], [] => true | x :: s, y :: t => eqp x y && eqpl s t | _, _ => false end.
Fixpoint eql (a b : list Z) := match a, b with [], [] => true | x :: s, y :: t => (x =? y) && eql s t | _, _ => false end.
Fixpoint remove1 (x : peak) (l : list peak) : option (list peak) :=
  match l with [] => None | y :: t => if eqp x y then Some t else match remove1 x t with Some t' => Some (y :: t') | None => None end end.
Fixpoint submset (a l : list peak) : bool := match a with [] => true | x :: t => match remove1 x l with Some l' => submset t l' | None => false end end.
(* (resolution, start, noise, peaksCount, found, peaks returned by the code) *)
Definition check (c : Z * Z * Z * nat * list (Z * Z) * list (Z * Z * Z)) : Z :=
  match c with (r, s, noise, count, found, o) =>
    let out := map (fun t => match t with (a, b, c) => mkPeak a b c end) o in
    let all := create_peaks (fun _ l => l) r s noise (length found) found in
    if (count <? length found)%nat
    then (* the cut is numpy's: accept any sub-multiset of the right size with the scores of the top peaksCount *)
         if Nat.eqb (length out) count && submset out all && eql (map pscore (select_peaks count [out])) (map pscore (select_peaks count [all])) then 0 else 1
    else if eqpl (create_peaks (fun _ l => l) r s noise count found) out then 0 else 1
  end.'''

    def gen(self, rng, tier):
        out = []
        for m in range(0, 5):          # exhaustive small: heights over two values, every peaksCount
            for hs in itertools.product([4, 6], repeat=m):
                for count in range(0, m + 2):
                    out.append(dict(found=[[2 * i + 1, x] for i, x in enumerate(hs)], res=3, start=-5, noise=1, count=count))
        n = 600 if tier == 'quick' else 6000
        for _ in range(n):
            m = rng.choice([0, 1, 2, 3, 6, 12, 30])
            hi = rng.choice([2, 3, 8, 1000])
            ks = sorted(rng.sample(range(0, 4 * m + 5), m))
            out.append(dict(found=[[k, rng.randint(1, hi)] for k in ks], res=rng.choice([1, 2, 5, 100, 101]), start=rng.choice([0, -40, 2500]),
                            noise=rng.randint(0, 3), count=rng.choice([0, 1, 2, 3, 5, m, m + 1, max(0, m - 1), 10])))
        return out

    def impl(self, case):
        try:
            return dict(p=run_create(case['found'], case['res'], case['start'], case['noise'], case['count'])[1])
        except Exception as e:
            return dict(err=type(e).__name__ + ':' + str(e)[:80], p=[[0, 0, -999999]])

    def term(self, case, out):
        return '(%s, %s, %s, %d%%nat, %s, %s)' % (z(case['res']), z(case['start']), z(case['noise']), case['count'],
                                                  clist('(%s,%s)' % (z(a), z(b)) for a, b in case['found']),
                                                  clist('(%s,%s,%s)' % (z(a), z(b), z(c)) for a, b, c in out['p']))

    def oracle(self, case, out):
        if 'err' in out:
            return ['createPeaks raised %s (case %s)' % (out['err'], case)]
        return ['%s (found [(bin, height)]=%s resolution=%s start=%s noise=%s peaksCount=%s result=%s)' % (
            m, case['found'], case['res'], case['start'], case['noise'], case['count'], out['p'])
                for m in create_oracle(case['found'], case['res'], case['start'], case['noise'], case['count'], out['p'])][:3]

    def classify(self, case, out):
        m = len(case['found'])
        hs = [x for _, x in case['found']]
        return ['cut' if case['count'] < m else 'no cut', 'tied heights' if len(set(hs)) < len(hs) else 'distinct heights']

    def nontrivial(self, case, out):
        return repr(case) if out.get('p') and 'err' not in out else None


class Seeds(Stream):
    """createPeaks(peaksCount) per correlation, then PeaksSelector(peaksCount): the seeds' scores are the top peaksCount of ALL peaks found"""
    name = 'seeds'
    model = False

    def gen(self, rng, tier):
        n = 500 if tier == 'quick' else 5000
        out = []
        for _ in range(n):
            hi = rng.choice([2, 4, 9, 1000])
            cs = []
            for _ in range(rng.randint(1, 6)):
                m = rng.choice([0, 1, 3, 6, 15])
                ks = sorted(rng.sample(range(0, 3 * m + 4), m))
                cs.append(dict(noise=rng.randint(0, 4), found=[[k, rng.randint(1, hi)] for k in ks]))
            out.append(dict(cs=cs, count=rng.choice([1, 2, 3, 5, 8]), res=rng.choice([1, 4, 100]), start=rng.choice([0, -30])))
        return out

    def impl(self, case):
        from src.correlation.peaks_selector import PeaksSelector
        try:
            corrs = [_Corr(run_create(c['found'], case['res'], case['start'], c['noise'], case['count'])[0]) for c in case['cs']]
            sel = PeaksSelector(case['count']).selectPeaks(iter(corrs))
            return dict(scores=[int(sp.peak.score) for sp in sel], kept=[len(c.peaks) for c in corrs])
        except Exception as e:
            return dict(err=type(e).__name__ + ':' + str(e)[:80])

    def oracle(self, case, out):
        if 'err' in out:
            return ['seeding raised %s (case %s)' % (out['err'], case)]
        allsc = sorted((x - c['noise'] for c in case['cs'] for _, x in c['found']), reverse=True)
        exp = allsc[:case['count']]
        if out['scores'] != exp:
            return ['seed scores %s are not the %d highest of all peaks found %s (correlations=%s)' % (out['scores'], case['count'], exp, case['cs'])]
        return []

    def classify(self, case, out):
        return ['some correlation cut' if any(len(c['found']) > case['count'] for c in case['cs']) else 'no correlation cut']

    def nontrivial(self, case, out):
        return repr(case) if out.get('scores') else None


# ------------------------------------------------------------------------------------------------ cross-correlation (model/Correlate.v)
# scipy's FFT output is compared after np.rint: the true values are integers (see the header of model/Correlate.v).
XC_PRELUDE = """From Coq Require Import ZArith List Bool. Import ListNotations.
Require Import Py Vec Peaks Correlate. Open Scope Z_scope.
Fixpoint eql (a b : list Z) := match a, b with [], [] => true | x :: s, y :: t => (x =? y) && eql s t | _, _ => false end.
Definition agree (r : Py.res (list Z)) (o : option (list Z)) := match r, o with Ok v, Some w => eql v w | Err, None => true | _, _ => false end.
"""


def _get_correlation():
    from src.correlation.optical_map import OpticalMap
    return OpticalMap._OpticalMap__getCorrelation          # the code's own wrapper: correlate(reference, query, mode='valid', method='fft')


def canon_corr(f):
    import numpy as np
    try:
        v = np.asarray(f())
        rv = np.rint(v)
        if v.size and float(np.max(np.abs(v - rv))) > 1e-6:
            return dict(err='HARNESS:correlation value not within 1e-6 of an integer')
        return dict(v=[int(x) for x in rv])
    except Exception as e:
        return dict(err=type(e).__name__)


def xcorr_direct(a, b):
    """'valid' cross-correlation by its definition (independent of scipy and of the model); None where scipy raises"""
    if not a or not b:
        return None
    if len(b) > len(a):
        return xcorr_direct(b, a)[::-1]
    return [sum(a[k + i] * b[i] for i in range(len(b))) for k in range(len(a) - len(b) + 1)]


class XcorrBase(Stream):
    shard = 300
    case_type = '(list Z * list Z * option (list Z) * option (list Z))%type'
    # (in1, in2, correlate(in1, in2), correlate(in1, ones(len(in2))) + sum(in2))
    prelude = XC_PRELUDE + """Definition check (c : list Z * list Z * option (list Z) * option (list Z)) : Z :=
  match c with (a, b, o, n) =>
    if agree (correlate_valid a b) o
       && agree (match correlate_valid a (repeat 1 (length b)) with Ok w => Ok (map (fun x => x + vsum b) w) | Err => Err end) n
       && (if (length b <=? length a)%nat then match n with Some w => eql (norm2 a b) w | None => Nat.eqb (length b) 0 end else true)
    then 0 else 1 end."""

    def impl(self, case):
        import numpy as np
        corr = _get_correlation()
        a, b = np.array(case['a'], dtype=np.int64), np.array(case['b'], dtype=np.int64)
        return dict(c=canon_corr(lambda: corr(a, b)), n=canon_corr(lambda: corr(a, np.ones(len(b))) + np.sum(b)))

    def term(self, case, out):
        return '(%s, %s, %s, %s)' % (zl(case['a']), zl(case['b']), optl(out['c']), optl(out['n']))

    def oracle(self, case, out):
        a, b = case['a'], case['b']
        exp = xcorr_direct(a, b)
        o = out['c']
        if exp is None:
            return [] if o.get('err') == 'IndexError' else ['empty input: expected IndexError, got %s (in1=%s in2=%s)' % (o, a, b)]
        if 'err' in o:
            return ['correlate raised %s (in1=%s in2=%s)' % (o['err'], a, b)]
        if o['v'] != exp:
            return ['correlate(in1, in2, valid) = %s, by definition %s (in1=%s in2=%s)' % (o['v'], exp, a, b)]
        if all(x in (0, 1) for x in a + b) and len(b) <= len(a):
            ones = sum(b)
            for k, x in enumerate(exp):
                if not (0 <= x <= ones and x <= sum(a[k:k + len(b)])):
                    return ['entry %d = %d outside [0, min(ones of query, ones of window)] (in1=%s in2=%s)' % (k, x, a, b)]
        return []

    def classify(self, case, out):
        a, b = case['a'], case['b']
        return ['empty input' if not a or not b else 'swapped (in2 longer)' if len(b) > len(a) else 'equal lengths' if len(a) == len(b) else 'in1 longer',
                '0/1' if all(x in (0, 1) for x in a + b) else 'other integers']

    def nontrivial(self, case, out):
        return repr(case) if out['c'].get('v') and any(out['c']['v']) else None


class XcorrExh(XcorrBase):
    name = 'xcorr'
    exhaustive = True

    def gen(self, rng, tier):
        na, nb = (6, 4) if tier == 'quick' else (8, 5)
        A = [list(v) for k in range(0, na + 1) for v in itertools.product([0, 1], repeat=k)]
        B = [list(v) for k in range(0, nb + 1) for v in itertools.product([0, 1], repeat=k)]
        return [dict(a=a, b=b) for a in A for b in B]


class XcorrRandom(XcorrBase):
    name = 'xcorr_random'
    shard = 25

    def gen(self, rng, tier):
        n = 250 if tier == 'quick' else 1500
        out = []
        for _ in range(n):
            la = rng.choice([rng.randint(1, 30), rng.randint(1, 400), rng.randint(200, 1500 if tier != 'quick' else 700)])
            lb = rng.choice([rng.randint(1, la), rng.randint(1, la), max(1, la - rng.randint(0, 3)), la + rng.randint(1, 20)])
            da, db = rng.choice([0.03, 0.2, 0.6, 1.0]), rng.choice([0.05, 0.3, 0.9])
            vals = [1] if rng.random() < 0.85 else [1, 2, 3, -1]
            out.append(dict(a=[rng.choice(vals) if rng.random() < da else 0 for _ in range(la)],
                            b=[rng.choice(vals) if rng.random() < db else 0 for _ in range(lb)]))
        return out


# ------------------------------------------------------------------------------------------------ OpticalMap.getSequence, both strands
def mirror_positions(ps, length):
    return [length - 1 - p for p in reversed(ps)]


def gen_labels(rng, n, lo, hi, lattice=None):
    if lattice:
        return sorted(set(rng.randint(lo // lattice, hi // lattice) * lattice for _ in range(n)))
    return sorted(set(rng.randint(lo, hi) for _ in range(n)))


class Sequence(Stream):
    """real OpticalMap.getSequence(SequenceGenerator(resolution, blur), reverseStrand, start, end) vs get_sequence_py"""
    name = 'sequence'
    shard = 30
    case_type = '(list Z * list (Z * Z * bool * Z * option Z * option (list Z)))%type'
    prelude = XC_PRELUDE + """Definition check (c : list Z * list (Z * Z * bool * Z * option Z * option (list Z))) : Z :=
  if forallb (fun t => match t with (res, r, rv, s, e, o) => agree (get_sequence_py (fst c) res r rv s e) o end) (snd c) then 0 else 1."""

    def gen(self, rng, tier):
        n = 250 if tier == 'quick' else 1200
        out = [dict(ps=ps, cfg=[[res, r, rv, s, e] for res in (1, 2, 3) for r in (0, 1, 2) for rv in (False, True) for s, e in ((0, None), (-2, 7), (3, 0))])
               for k in range(0, 4) for ps in itertools.combinations(range(0, 9), k)]
        for _ in range(n):
            res = rng.choice([1, 2, 5, 10, 100, 140])
            top = res * rng.choice([5, 40, 300])
            lattice = res if rng.random() < 0.3 else None
            ps = gen_labels(rng, rng.randint(1, 50), 0, top, lattice)
            if rng.random() < 0.6:
                ps = [p - ps[0] for p in ps]                      # trimmed
            cfg = []
            for _ in range(4):
                s, e = rng.choice([(0, None), (0, None), (rng.randint(-top // 3, top), rng.choice([None, 0, rng.randint(-5, 2 * top)])),
                                   (ps[len(ps) // 2] - 3 * res, ps[len(ps) // 2] + rng.randint(0, 20) * res)])
                cfg.append([rng.choice([res, res, res + 1, max(1, res // 2)]), rng.choice([0, 1, 1, 2, 4, 9]), rng.random() < 0.5, s, e])
            if rng.random() < 0.08:
                cfg.append([rng.choice([0, -3]), 1, False, 0, None])
                cfg.append([res, rng.choice([-1, -2]), True, 0, None])
            out.append(dict(ps=ps, cfg=cfg))
        return out

    def impl(self, case):
        from src.correlation.optical_map import OpticalMap
        from src.correlation.sequence_generator import SequenceGenerator
        m = OpticalMap(1, (case['ps'][-1] + 1) if case['ps'] else 1, list(case['ps']))
        return [canon(lambda: m.getSequence(SequenceGenerator(res, r), rv, s, e)) for res, r, rv, s, e in case['cfg']]

    def term(self, case, out):
        return '(%s, %s)' % (zl(case['ps']), clist('(%s,%s,%s,%s,%s,%s)' % (z(res), z(r), 'true' if rv else 'false', z(s), opt(e), optl(o))
                                                   for (res, r, rv, s, e), o in zip(case['cfg'], out)))

    def oracle(self, case, out):
        """the reverse-strand sequence is the forward one reversed; the forward one is blur(vectorise) by the bit semantics"""
        errs = []
        by = {}
        for (res, r, rv, s, e), o in zip(case['cfg'], out):
            by[(res, r, rv, s, e)] = o
            if res >= 1 and r >= 0 and (case['ps'] or e) and 'err' in o:
                errs.append('getSequence raised %s (positions=%s resolution=%s blur=%s start=%s end=%s)' % (o['err'], case['ps'], res, r, s, e))
            if 'v' in o and not rv:
                bits = set()
                for p in case['ps']:
                    if p >= s: bits.add((p - s) // res)
                L = len(o['v'])
                exp = [1 if any(0 <= j < L and j in bits for j in range(i - r, i + r + 1)) else 0 for i in range(L)]
                if o['v'] != exp:
                    errs.append('forward sequence is not the dilation of the occupied bins (positions=%s resolution=%s blur=%s start=%s end=%s output=%s)' % (
                        case['ps'], res, r, s, e, o['v']))
        for (res, r, rv, s, e), o in by.items():
            f = by.get((res, r, not rv, s, e))
            if f is not None and 'v' in o and 'v' in f and o['v'] != f['v'][::-1]:
                errs.append('reverse-strand sequence is not the reversed forward sequence (positions=%s resolution=%s blur=%s)' % (case['ps'], res, r))
        return errs[:3]

    def classify(self, case, out):
        k = set()
        for (res, r, rv, s, e), o in zip(case['cfg'], out):
            k.add('raises ' + o['err'] if 'err' in o else ('reverse strand' if rv else 'forward strand'))
            if 'v' in o and (s != 0 or e): k.add('window start/end')
        return sorted(k)

    def nontrivial(self, case, out):
        return repr(case) if any(o.get('v') and 1 in o['v'] for o in out) else None


# ------------------------------------------------------------------------------------------------ getInitialAlignment / refine correlations
SCALE = 10 ** 12


def canon_float(v):
    import math
    return [int(round(float(x) * SCALE)) if math.isfinite(float(x)) else None for x in v]


def gen_seeding_case(rng, scale, realistic=False):
    """reference + query (noise-free or noisy copy on either strand, unrelated, too long, beyond the reference's last label, malformed)"""
    res1, r1, res2, r2, margin = (1400, 1, 100, 4, 8000) if realistic else rng.choice([(14 * scale, 1, scale, 4, 80 * scale), (10 * scale, 2, 2 * scale, 1, 30 * scale),
                                                                                        (7 * scale, 0, scale, 3, 50 * scale), (5 * scale, 1, 5 * scale, 1, 20 * scale)])
    gap = 90 * res2 if realistic else rng.choice([6, 20, 50]) * res2
    lattice = rng.choice([None, None, res1, res2])
    nr = rng.randint(20, 90)
    rps, p = [], rng.randint(0, gap)
    for _ in range(nr):
        rps.append(p)
        p += max(1, int(rng.expovariate(1.0 / gap)) + gap // 5)
    if lattice:
        rps = sorted(set(x // lattice * lattice for x in rps))
    tail = rng.choice([1, rng.randint(1, gap), 40 * gap])
    rlen = rps[-1] + tail
    kind = rng.choice(['copy', 'copy', 'copy', 'noisy', 'noisy', 'unrelated', 'too long', 'beyond last label', 'no labels', 'whole reference'])
    if kind == 'whole reference':                                 # query molecule exactly as long as the reference molecule
        rps = [x - rps[0] for x in rps[:rng.randint(3, 12)]]
        rlen = rps[-1] + 1
    rev = rng.random() < 0.5
    n = rng.randint(3, min(16 if realistic else 24, len(rps) - 2)) if kind != 'whole reference' else len(rps)
    a = rng.randint(0, len(rps) - n)
    if kind == 'copy' and rng.random() < 0.5:
        d = (-rps[a]) % res1                                      # the copy starts at a multiple of both resolutions
        rps = [x + d for x in rps]
        rlen += d
    qps = [x - rps[a] for x in rps[a:a + n]]
    diag, window = rps[a], rps[a:a + n]
    if kind == 'noisy':
        qps = sorted(set(max(0, x + rng.randint(-2 * res2, 2 * res2)) for x in qps if rng.random() < 0.85) | set(rng.randint(0, qps[-1]) for _ in range(rng.randint(0, 3))))
        qps = [x - qps[0] for x in qps] if qps else [0]
    elif kind == 'unrelated':
        qps = gen_labels(rng, n, 0, qps[-1] + 1)
        qps = [x - qps[0] for x in qps]
    elif kind == 'beyond last label':
        qps = [0, rps[-1] + rng.randint(1, max(2, tail - 1))] if tail > 2 else qps
    elif kind == 'no labels':
        qps = []
    qlen = (qps[-1] + 1) if qps else rng.randint(1, 1000)
    if kind == 'too long':
        qlen = rlen + rng.randint(1, 50)
    if rev and qps:
        qps = mirror_positions(qps, qlen) if kind != 'too long' else mirror_positions(qps, qps[-1] + 1)
    peaks = [diag, diag + rng.randint(-3 * res1, 3 * res1), rng.randint(-margin, rlen), rps[-1] - rng.randint(0, qlen), rps[-1] + margin + rng.randint(1, 1000)]
    if realistic:
        peaks = peaks[:2]
    if kind == 'unrelated' and rng.random() < 0.2:
        kind, rps = 'reference without labels', []
    return dict(kind=kind, diag=diag, window=window, qlen=qlen, qps=qps, rlen=rlen, rps=rps, res=res1, r=r1, rev=rev, res2=res2, r2=r2, margin=margin, peaks=peaks)


class Seeding(Stream):
    """real OpticalMap.getInitialAlignment(...).correlation (normalised; compared with the exact rational within 1e-9) and
    InitialAlignment.refine(...).correlation / correlationStart / correlationEnd (integers) vs initial_correlation / refine_correlation"""
    name = 'seeding_correlation'
    shard = 4
    case_type = '(Z * list Z * Z * list Z * (Z * Z * bool) * option (option (list (option Z))) * list (Z * Z * Z * Z * option (Z * Z * list Z)))%type'
    prelude = XC_PRELUDE + """Definition close (x n2 : Z) (f : option Z) : bool :=
  match f with None => n2 =? 0 | Some F => (0 <? n2) && (Z.abs (F * n2 - 2 * x * 1000000000000) <=? n2 * 1000) end.
Fixpoint close_all (xs ns : list Z) (fs : list (option Z)) : bool :=
  match xs, ns, fs with [], [], [] => true | x :: xs', n :: ns', f :: fs' => close x n f && close_all xs' ns' fs' | _, _, _ => false end.
(* qlen, qps, rlen, rps, (res, blur, reverse), initial: None = raised, Some None = EmptyInitialAlignment, Some (Some floats*10^12);
   refines: (peak, res2, blur2, margin, None = raised | Some (start, end, correlation)) *)
Definition check (c : Z * list Z * Z * list Z * (Z * Z * bool) * option (option (list (option Z))) * list (Z * Z * Z * Z * option (Z * Z * list Z))) : Z :=
  match c with (qlen, qps, rlen, rps, (res, r, rv), ini, refs) =>
    let a := match initial_correlation qlen qps rlen rps res r rv, ini with
             | Err, None => true
             | Ok None, Some None => true
             | Ok (Some (xs, ns)), Some (Some fs) => close_all xs ns fs
             | _, _ => false end in
    let b := forallb (fun t => match t with (peak, res2, r2, margin, o) =>
               match refine_correlation qlen qps rps rv peak res2 r2 margin, o with
               | Err, None => true
               | Ok (s, e, xs), Some (s', e', ys) => (s =? s') && (e =? e') && eql xs ys
               | _, _ => false end end) refs in
    if a && b then 0 else 1 end."""

    def gen(self, rng, tier):
        n, m = (60, 3) if tier == 'quick' else (300, 20)
        return [gen_seeding_case(rng, rng.choice([1, 1, 3, 10])) for _ in range(n)] + [gen_seeding_case(rng, 100, realistic=True) for _ in range(m)]

    def impl(self, case):
        import numpy as np
        from src.correlation.optical_map import OpticalMap, EmptyInitialAlignment, InitialAlignment
        from src.correlation.sequence_generator import SequenceGenerator
        q, ref = OpticalMap(7, case['qlen'], list(case['qps'])), OpticalMap(1, case['rlen'], list(case['rps']))
        out = dict(refine=[])
        try:
            ia = q.getInitialAlignment(ref, SequenceGenerator(case['res'], case['r']), 5 * case['res'], 5, case['rev'])
            out['initial'] = dict(empty=True) if isinstance(ia, EmptyInitialAlignment) else dict(f=canon_float(ia.correlation))
        except Exception as e:
            out['initial'] = dict(err=type(e).__name__)
        # refine is a method of the InitialAlignment object; it only reads query, reference and reverseStrand
        holder = InitialAlignment(np.array([]), q, ref, [], case['rev'], 0.)
        for pk in case['peaks']:
            try:
                rf = holder.refine(pk, SequenceGenerator(case['res2'], case['r2']), case['margin'], 15.)
                c = np.asarray(rf.correlation)
                if c.size and float(np.max(np.abs(c - np.rint(c)))) > 1e-6:
                    raise ArithmeticError('non-integer correlation')
                out['refine'].append(dict(s=int(rf.correlationStart), e=int(rf.correlationEnd), v=[int(x) for x in np.rint(c)]))
            except Exception as e:
                out['refine'].append(dict(err=type(e).__name__))
        return out

    def term(self, case, out):
        ini = out['initial']
        it = 'None' if 'err' in ini else '(Some None)' if ini.get('empty') else '(Some (Some %s))' % clist('None' if x is None else '(Some %s)' % z(x) for x in ini['f'])
        refs = clist('(%s,%s,%s,%s,%s)' % (z(pk), z(case['res2']), z(case['r2']), z(case['margin']),
                                          'None' if 'err' in o else '(Some (%s,%s,%s))' % (z(o['s']), z(o['e']), zl(o['v'])))
                     for pk, o in zip(case['peaks'], out['refine']))
        return '(%s, %s, %s, %s, (%s,%s,%s), %s, %s)' % (z(case['qlen']), zl(case['qps']), z(case['rlen']), zl(case['rps']), z(case['res']), z(case['r']),
                                                         'true' if case['rev'] else 'false', it, refs)

    @staticmethod
    def theorem_applies(case, res):
        """hypotheses of C06_true_lag_is_global_max / C06_true_lag_window_normalised for the resolution res (reference vector from 0)"""
        if case['kind'] not in ('copy', 'whole reference') or not case['qps'] or case['diag'] % res:
            return False
        return (not case['rev']) or all((x - case['diag']) % res == 0 for x in case['window'])

    def oracle(self, case, out):
        """theorems C16_normalised / C06_true_lag_*: no normalised entry exceeds 1; for a noise-free copy of consecutive labels at a lattice
        offset the normalised primary correlation at the true lag is 1, and the raw secondary correlation at the true lag equals the
        number of 1-bits of the query vector, its global maximum (the secondary window starts at peak - margin, a multiple of the
        secondary resolution away from the true diagonal in every generated case: the theorem shifted by the window start)"""
        errs = []
        ini = out['initial']
        if 'f' in ini and any(x is not None and x > SCALE + 1000 for x in ini['f']):
            errs.append('normalised correlation above 1 (case %s)' % {k: case[k] for k in ('qps', 'rps', 'res', 'r', 'rev')})
        if 'f' in ini and self.theorem_applies(case, case['res']):
            lag = case['diag'] // case['res']
            if not (lag < len(ini['f']) and ini['f'][lag] is not None and abs(ini['f'][lag] - SCALE) <= 1000):
                errs.append('noise-free copy at a lattice offset: normalised primary correlation at the true lag %d is not 1 (%s)' % (lag, ini['f'][:lag + 2]))
        if case['kind'] == 'copy' and case['qps'] and 'v' in out['refine'][0] and (not case['rev'] or self.theorem_applies(case, case['res2'])):
            o = out['refine'][0]
            from src.correlation.vectorise import vectorisePositions, blur
            fwd = [x - case['diag'] for x in case['window']]
            ones = int(sum(blur(list(vectorisePositions(fwd, case['res2'])), case['r2'])))
            lag = (case['peaks'][0] - o['s']) // case['res2']
            if o['v'] and (max(o['v']) > ones or not (0 <= lag < len(o['v']) and o['v'][lag] == ones)):
                errs.append('noise-free copy: secondary correlation at the true lag %d is not the maximum %d (correlation=%s)' % (lag, ones, o['v']))
        return errs

    def classify(self, case, out):
        k = [case['kind'], 'reverse strand' if case['rev'] else 'forward strand', 'default resolutions' if case['res'] == 1400 else 'scaled resolutions']
        if self.theorem_applies(case, case['res']): k.append('hypotheses of C06_true_lag_is_global_max hold (primary)')
        ini = out['initial']
        k.append('initial: raises ' + ini['err'] if 'err' in ini else 'initial: empty' if ini.get('empty') else 'initial: correlation')
        for o in out['refine']:
            k.append('refine: raises ' + o['err'] if 'err' in o else 'refine: empty window' if not o['v'] else 'refine: correlation')
        return sorted(set(k))

    def nontrivial(self, case, out):
        return repr(case) if out['initial'].get('f') or any(o.get('v') for o in out['refine']) else None


# the executable seeding stage (model/FindPeaks.v, model/Seeding.v): harness/seeding.py
from .. import seeding as _sd

STREAMS = [VecExh(), VecRandom(), VecMalformed(), BlurExh(), BlurRandom(), Centre(), PeaksExh(), PeaksRandom(), Create(), Seeds(),
           XcorrExh(), XcorrRandom(), Sequence(), Seeding(), _sd.FindPeaksUnit(), _sd.FloatBorders(), _sd.SeedingChain()]

"""C09 — Output does not depend on the number of worker processes or on the run.

PARTIAL for the proof technique: real process scheduling, pickling and OS behaviour are not in the Gallina model. The theorems
(coq/props/C09.v) cover the logic (the engine counter only reaches AlignedPair.source, which nothing downstream reads and the
writer never prints); the end-to-end oracle below exercises the rest on real runs.

Streams
  align_counter_pairs  Aligner.align on the same input with the engine counter preset to two different values: model correspondence
                       for both runs (pipeline.ALIGN_CORR) + outputs identical except the source column (Python oracle and, inside
                       Coq, the same comparison on the recorded outputs: code 2).
  e2e_schedules        real COMA runs of one data set: CLI (python -m src.program) and in-process runner, -c 1..16, repetitions,
                       seeded per-task sleeps inside the workers (perturbed completion order), plus single-process runs of the real
                       Program under prescribed counter/execution-order schedules (harness/c09_runner.py). Every output file must
                       equal the baseline byte for byte except the '# coma ' line."""
import os, sys, json, hashlib, subprocess, threading, time, shutil, random
from ..driver import Stream
from .. import common, pipeline as pl, e2e, e2e_streams as es
from .C15 import AlignStream

ID = 'C09'
RULE = ('(a) pairs of Aligner.align runs on generated candidates (generators of C15) that differ only in the preset engine counter '
        '(offsets 1, 2, 7, 1000, jump to 0 / negative / 10^9); non-trivial = distinct case whose two raw outputs contain pairs and differ in '
        'their source fields. (b) per generated data set (2 references x 200 labels, 20-30 mixed queries incl. indels/chimeras -> second pass, '
        'joins) and output mode: CLI and in-process runs with -c in {1,2,5} (quick) / {1,2,3,5,8,16} (thorough), fresh repetitions, seeded '
        'per-task sleeps in the workers, and simulated schedules (persistent counter, random counters + random execution order, N workers '
        'with private counters) of the real Program; non-trivial = data set/mode whose baseline files have records')
TRUSTED = ['adapter harness/pipeline.py (presets AlignerEngine.iteration)',
           'p_imap returns results in input order and workers share no state except what COMA code gives them: NOT modelled, exercised only by '
           'the end-to-end runs (finite sample of schedules; the OS decides the real interleavings)',
           'harness/c09_runner.py replaces the module attribute p_imap by an ordered map inside its own process to impose counter schedules '
           'the real pool never produces (today every task starts from a freshly unpickled engine, counter 1)',
           'the seeding stage (numpy/scipy FFT, find_peaks) is deterministic for fixed input on one machine (abstract `seeds` in the theorems)']
ASSUMPTIONS = ['coordinates are multiples of 0.5 and parameters lie on the exact grid (pipeline stream)',
               'same machine and same files for all runs of a data set: "# hostname=" and the two "From:" header lines are compared too; '
               'only the "# coma " line (argument echo incl. --numberOfCpus and the output path) is excluded']


# ------------------------------------------------------------------------------------------------ (a) pipeline pairs
PAIR_CHECK = pl.ALIGN_CORR + '''
Definition zero_src (s : cseg) : cseg :=
  match s with (p, x, l) => (p, x, List.map (fun c => match c with (k, r, q, sh, y, _) => (k, r, q, sh, y, 0) end) l) end.
Definition expected_of (c : acase) := match c with (_, _, _, _, _, _, _, _, _, e) => e end.
(* the two recorded outputs of the implementation agree on everything but the source column *)
Definition same_but_source (a b : acase) : bool :=
  match expected_of a, expected_of b with
  | (err, esegs, (a1, a2, a3, a4, a5), (cerr, ecig)), (err', esegs', (b1, b2, b3, b4, b5), (cerr', ecig')) =>
    Bool.eqb err err' && eqsegs (List.map zero_src esegs) (List.map zero_src esegs') &&
    (a1 =? b1) && (a2 =? b2) && (a3 =? b3) && (a4 =? b4) && (a5 =? b5) && Bool.eqb cerr cerr' && String.eqb ecig ecig'
  end.
Definition check (c : acase * acase) : Z :=
  let a := corr_code (fst c) in if negb (a =? 0) then a else
  let b := corr_code (snd c) in if negb (b =? 0) then b else
  if same_but_source (fst c) (snd c) then 0 else 2.
'''


def strip_sources(out):
    o = dict(out)
    for k in ('segs', 'inputs'):
        if k in o:
            o[k] = [[s[0], s[1], [p[:5] for p in s[2]]] for s in o[k]]
    if 'err' in o:
        o['err'] = o['err'].split(':')[0]
    if 'inputs_err' in o:
        o['inputs_err'] = o['inputs_err'].split(':')[0]
    return o


def sources(out):
    return [p[5] for s in out.get('segs', []) for p in s[2] if p[0] == 0]


class CounterPairs(AlignStream):
    name = 'align_counter_pairs'
    prelude = PAIR_CHECK
    case_type = '(acase * acase)%type'
    shard = 60
    weights = dict(realistic=3, blocks=4, dense=3, boundary=1, folding=2, fragment=2)
    quick_n, thorough_n = 1000, 4000

    def gen(self, rng, tier):
        self.shard = 63 if tier == 'quick' else 100
        cases = pl.gen_mix(rng, self.quick_n if tier == 'quick' else self.thorough_n, self.weights)
        for c in cases:
            it2 = rng.choice([c['it'] + 1, c['it'] + 2, c['it'] + 7, c['it'] + 1000, 0, -5, 10 ** 9])
            c['it2'] = it2 if it2 != c['it'] else it2 + 1
        return cases

    def impl(self, case):
        b = dict(case, it=case['it2'])
        return dict(a=pl.run_align(case), b=pl.run_align(b))

    def tolerated(self, case, out):
        return bool(out.get('a', {}).get('float_flip') or out.get('b', {}).get('float_flip'))

    def term(self, case, out):
        if 'a' not in out:      # adapter failure: render as an error/non-error pair so that the correspondence breaks visibly
            return '(%s, %s)' % (pl.align_term(case, dict(err='HARNESS')), pl.align_term(dict(case, it=case['it2']), dict(segs=[])))
        return '(%s, %s)' % (pl.align_term(case, out['a']), pl.align_term(dict(case, it=case['it2']), out['b']))

    def oracle(self, case, out):
        if 'a' not in out:
            return ['adapter failed: %s' % out.get('err')]
        a, b = out['a'], out['b']
        errs = []
        sa, sb = strip_sources(a), strip_sources(b)
        if sa != sb:
            ks = sorted(k for k in set(sa) | set(sb) if sa.get(k) != sb.get(k))
            errs.append('Aligner.align started from engine counter %d and from %d gives different results apart from the source fields: %s differ '
                        '(e.g. %s vs %s)' % (case['it'], case['it2'], ks, json.dumps(sa.get(ks[0]))[:160], json.dumps(sb.get(ks[0]))[:160]))
        return errs

    def classify(self, case, out):
        if 'a' not in out:
            return ['adapter-failure']
        k = [case['kind'], 'rev' if case['rev'] else 'fwd', 'counter_jump=%s' % ('small' if 0 < case['it2'] - case['it'] < 10 else 'large/zero/negative')]
        a, b = out['a'], out['b']
        if 'err' in a:
            return k + ['error']
        k.append('segments_out=%d' % min(5, len(pl.nonempty(a['segs']))))
        k.append('raw_sources_differ' if sources(a) != sources(b) else 'no_pairs')
        return k

    def nontrivial(self, case, out):
        if 'a' not in out or 'err' in out['a'] or not sources(out['a']) or sources(out['a']) == sources(out['b']):
            return None
        return repr((case['ref'], case['qry'], case['peaks'], case['rev'], sorted(case['P'].items())))


# ------------------------------------------------------------------------------------------------ (b) end to end
SIM = os.path.join(common.WORK, 'C09_sim')


def file_texts(files):
    """{file key: text without the '# coma ' line}"""
    out = {}
    for k, p in files.items():
        data = open(p, 'rb').read().decode('latin-1')
        out[k] = ''.join(l for l in data.splitlines(True) if not l.startswith('# coma '))
    return out


def run_sim(refpath, qpath, args, sched, seed, cpus=1, timeout=600):
    """one single-process run of the real Program under a prescribed schedule (harness/c09_runner.py)"""
    key = hashlib.sha256(json.dumps([refpath, qpath, list(args), sched, seed, cpus]).encode()).hexdigest()[:20]
    d = os.path.join(SIM, key)
    if os.path.exists(d):
        shutil.rmtree(d)
    os.makedirs(d)
    outp = os.path.join(d, 'o.xmap')
    env = dict(os.environ, PYTHONPATH=common.REPO + ':' + common.VERIF, PYTHONHASHSEED='0', COMA_VERIF='1')
    cfg = dict(argv=['-r', refpath, '-q', qpath, '-o', outp, '-pb', '-c', str(cpus)] + [str(a) for a in args], sched=sched, seed=seed,
               log=os.path.join(d, 'log.json'))
    try:
        p = subprocess.run(['/venv/bin/python', '-m', 'harness.c09_runner', json.dumps(cfg)], cwd=common.VERIF, env=env,
                           stdout=subprocess.PIPE, stderr=subprocess.PIPE, timeout=timeout)
        rc, err = p.returncode, p.stderr.decode('utf-8', 'replace')[-1500:]
    except subprocess.TimeoutExpired:
        rc, err = 124, 'timeout'
    files = {k: os.path.join(d, fn) for k, fn in (('main', 'o.xmap'), ('_1', 'o_1.xmap'), ('_2', 'o_2.xmap')) if os.path.exists(os.path.join(d, fn))}
    counters, orders = [], []
    try:
        lg = json.load(open(os.path.join(d, 'log.json')))
        counters, orders = lg['counters'], lg['orders']
    except Exception:
        pass
    res = dict(rc=rc, stderr=err if rc else '', files=file_texts(files) if rc == 0 else {}, counters=sorted(set(counters))[:12])
    if sched == 'pool':
        res['orders'] = orders
    shutil.rmtree(d, ignore_errors=True)
    return res


def run_real(refpath, qpath, args, cpus, cli, jitter, use_cache):
    r = e2e.run_coma(refpath, qpath, args, cpus=cpus, capture=False, jitter=jitter, timeout=600, use_cache=use_cache, cli=cli)
    return dict(rc=r.rc, stderr=r.stderr[-1500:] if r.rc else '', files=file_texts(r.files) if r.rc == 0 else {})


def run_weighted(jobs, budget):
    """jobs: list of (weight, thunk). Runs them in threads; the weights of the jobs running at any time sum to at most `budget`
    (a -c 16 run therefore never overlaps another -c 16 run)."""
    cond = threading.Condition()
    free = [budget]
    results = [None] * len(jobs)

    def worker(i, w, fn):
        w = min(w, budget)
        with cond:
            while free[0] < w:
                cond.wait()
            free[0] -= w
        try:
            results[i] = fn()
        except Exception as e:
            results[i] = dict(rc=-1, stderr='harness: %s: %s' % (type(e).__name__, e), files={})
        finally:
            with cond:
                free[0] += w
                cond.notify_all()
    ts = [threading.Thread(target=worker, args=(i, w, fn)) for i, (w, fn) in sorted(enumerate(jobs), key=lambda t: -t[1][0])]
    for t in ts:
        t.start()
    for t in ts:
        t.join()
    return results


def plan(tier, mode_index):
    """two phases of run configurations (kind, cpus or schedule, seed); phase 2 repeats configurations of phase 1 (same cache key =>
    must not run concurrently with them)"""
    if tier == 'quick':
        p1 = [('cli', 2, None), ('cli', 5, None), ('run', 5, 11), ('pool', 3, 12), ('sim', 'persistent', 1), ('sim', 'random', 2), ('sim', 'workers:3', 3)]
        p2 = [('cli', 5, None), ('pool', 3, 13)]
    elif mode_index % 2 == 0:
        p1 = [('cli', 2, None), ('cli', 3, None), ('cli', 5, None), ('run', 5, 22), ('pool', 2, 21), ('pool', 8, 23),
              ('sim', 'persistent', 1), ('sim', 'random', 2), ('sim', 'workers:7', 4), ('cli', 16, None) if mode_index == 0 else ('pool', 16, 24)]
        p2 = [('cli', 1, None), ('cli', 5, None), ('pool', 8, 26)]
    else:
        p1 = [('cli', 2, None), ('cli', 5, None), ('cli', 8, None), ('run', 3, 20), ('pool', 3, 27), ('pool', 5, 28),
              ('sim', 'persistent', 1), ('sim', 'fresh', 1), ('sim', 'random', 5), ('sim', 'workers:2', 3), ('pool', 16, 24) if mode_index == 1 else ('cli', 16, None)]
        p2 = [('cli', 1, None), ('cli', 8, None), ('run', 3, 25)]
    return p1, p2


def label(cfg, rep=False):
    kind, x, s = cfg
    if kind == 'cli':
        t = 'CLI -c %d' % x
    elif kind == 'run':
        t = 'in-process -c %d with per-task sleeps (seed %d)' % (x, s)
    elif kind == 'pool':
        t = 'in-process -c %d with per-task sleeps (seed %d), order of execute() recorded' % (x, s)
    else:
        t = 'single process, schedule %s (seed %d)' % (x, s)
    return t + (' [fresh repetition]' if rep else '')


class Schedules(Stream):
    name = 'e2e_schedules'
    model = False
    parallel = False

    def gen(self, rng, tier):
        base = common.seeded_rng(getattr(self, 'seed', 0), 'C09-e2e')
        if tier == 'quick':
            spec = [(0, 16, ['all']), (4, 16, ['best'])]
        else:
            spec = [(1, 20, list(es.MODES)), (4, 16, ['best', 'all'])]
        # twodel: molecules whose first pass leaves TWO fragments with the same id (both aligned in the second pass)
        return [dict(ds_seed=base.randint(1, 10 ** 9), nq=nq, extra=es.PARAM_SETS[k], modes=ms, tier=tier, twodel=4) for k, nq, ms in spec]

    def impl(self, case):
        ds = es.make_dataset(case['ds_seed'], case['nq'], twodel=case.get('twodel', 0))
        e2e.materialise(ds, 'c09_%d_%d_%d' % (case['ds_seed'], case['nq'], case.get('twodel', 0)))
        rp, qp = os.path.join(ds['dir'], 'r.cmap'), os.path.join(ds['dir'], 'q.cmap')

        def thunk(mode, cfg, use_cache):
            kind, x, s = cfg
            args = ['-oM', mode] + list(case['extra'])
            if kind == 'sim':
                return 1, (lambda: run_sim(rp, qp, args, x, s))
            if kind == 'pool':
                return x, (lambda: run_sim(rp, qp, args, 'pool', s, cpus=x))
            return x, (lambda: run_real(rp, qp, args, x, kind == 'cli', s, use_cache))
        t0 = time.time()
        plans = {m: plan(case['tier'], es.MODES.index(m)) for m in case['modes']}
        # baseline of a mode: the CLI with one worker (may come from the cache of an earlier check run on the same source, which makes
        # it a repetition across check runs); everything else is run afresh
        keys1 = [(m, None) for m in case['modes']] + [(m, c) for m in case['modes'] for c in plans[m][0]]
        r1 = run_weighted([thunk(m, c or ('cli', 1, None), c is None) for m, c in keys1], 20)
        keys2 = [(m, c) for m in case['modes'] for c in plans[m][1]]
        r2 = run_weighted([thunk(m, c, False) for m, c in keys2], 20)
        out = dict(modes={}, wall=0)
        for m in case['modes']:
            base = [r for (mm, c), r in zip(keys1, r1) if mm == m and c is None][0]
            runs = [dict(label=label(c), **r) for (mm, c), r in zip(keys1, r1) if mm == m and c is not None] + \
                   [dict(label=label(c, True), **r) for (mm, c), r in zip(keys2, r2) if mm == m]
            # keep the evidence small: a run that equals the baseline is recorded by digest only
            for r in runs:
                r['same'] = (r['rc'] == base['rc'] and r['files'] == base['files'])
                if r['same']:
                    r['files'] = {k: hashlib.sha256(v.encode('latin-1')).hexdigest()[:16] for k, v in r['files'].items()}
            out['modes'][m] = dict(base=dict(label='CLI -c 1', **base), runs=runs)
        e2e.clean_cache()
        out['wall'] = round(time.time() - t0, 1)
        return out

    def oracle(self, case, out):
        errs = []
        for m in case['modes']:
            errs.extend(self.oracle_mode(case, m, out['modes'][m]))
        return errs[:5]

    def oracle_mode(self, case, mode, out):
        base = out['base']
        errs = []
        tag = 'data set %d, -oM %s %s: ' % (case['ds_seed'], mode, ' '.join(case['extra']))
        for r in out['runs']:
            for o in r.get('orders', []):
                it = iter(o['given'])
                if not all(any(g == x for g in it) for x in o['returned']):
                    errs.append(tag + 'under [%s] _WorkflowCoordinator.execute was given the queries %s... and returned their rows in the order %s...: '
                                'not the input order' % (r['label'], o['given'][:10], o['returned'][:10]))
                    break
        for r in out['runs']:
            if r['same']:
                continue
            if r['rc'] != base['rc']:
                errs.append(tag + 'exit status %s under [%s] but %s under [%s]: %s' % (r['rc'], r['label'], base['rc'], base['label'], (r['stderr'] or base['stderr'])[-300:]))
                continue
            if set(r['files']) != set(base['files']):
                errs.append(tag + 'files written %s under [%s] but %s under [%s]' % (sorted(r['files']), r['label'], sorted(base['files']), base['label']))
                continue
            for fk in sorted(base['files']):
                a, b = base['files'][fk].split('\n'), r['files'][fk].split('\n')
                if a == b:
                    continue
                da = [l for l in a if not l.startswith('#')]; db = [l for l in b if not l.startswith('#')]
                body = lambda ls: sorted(l.split('\t', 1)[-1] for l in ls)
                if body(da) == body(db) and da != db:
                    qa = [l.split('\t')[1] for l in da if l]; qb = [l.split('\t')[1] for l in db if l]
                    what = 'same records in a different order (query ids %s... vs %s...)' % (qa[:8], qb[:8])
                else:
                    i = next((i for i, (x, y) in enumerate(zip(a, b)) if x != y), min(len(a), len(b)))
                    what = 'line %d differs: %r vs %r' % (i + 1, (a[i] if i < len(a) else '<end of file>')[:150], (b[i] if i < len(b) else '<end of file>')[:150])
                errs.append(tag + 'output file %s differs between [%s] and [%s]: %s' % (fk, base['label'], r['label'], what))
        return errs

    def classify(self, case, out):
        k = ['params=%s' % (' '.join(case['extra']) or 'default')]
        for m, mo in out['modes'].items():
            k += ['mode=' + m, 'runs_compared=%d' % len(mo['runs'])]
            for fk, t in mo['base']['files'].items():
                n = len([l for l in t.split('\n') if l and not l.startswith('#')])
                k.append('%s/%s records=%s' % (m, fk, '0' if n == 0 else '1-9' if n < 10 else '10+'))
            for r in mo['runs']:
                k.append('run:' + r['label'].split(' (seed')[0].replace(' [fresh repetition]', ''))
                if '[fresh repetition]' in r['label']:
                    k.append('fresh repetitions')
                if r.get('orders'):
                    k.append('execute() order recorded: %d calls' % len(r['orders']))
                if r.get('counters'):
                    k.append('simulated schedule with %s distinct starting counters' % ('>1' if len(r['counters']) > 1 else '1'))
        return k

    def nontrivial(self, case, out):
        recs = [l for mo in out['modes'].values() for t in mo['base']['files'].values() for l in t.split('\n') if l and not l.startswith('#')]
        return json.dumps([case['ds_seed'], case['modes'], case['extra']]) if recs else None


# ------------------------------------------------------------------------------------------------ (c) many (workload, worker count) pairs
class WorkerCounts(Stream):
    """many small data sets, each run once with one worker and once with a worker count drawn from 2..16: how the queries are handed to
    the pool may depend on both the number of workers and the size of the workload, so the pairs are sampled broadly rather than a few
    fixed counts on one data set"""
    name = 'e2e_worker_counts'
    model = False
    parallel = True
    mem_limit_gb = None
    quick_n, thorough_n = 128, 900

    def gen(self, rng, tier):
        n = self.quick_n if tier == 'quick' else self.thorough_n
        cases = []
        for k in range(n):
            cases.append(dict(ds_seed=rng.randint(1, 10 ** 9), nq=rng.randint(2, 26), nlab=rng.choice([60, 70, 90]), nref=rng.choice([1, 1, 2]),
                              cpus=2 + k % 15, mode=rng.choice(['best', 'best', 'separate', 'joined', 'all'])))
        return cases

    def impl(self, case):
        r = random.Random(case['ds_seed'])
        ds = e2e.gen_mixed(r, nref=case['nref'], nlab=case['nlab'], nq=case['nq'])
        ds['refs'] = [(i, es.half(l), [es.half(p) for p in ps]) for i, l, ps in ds['refs']]
        ds['queries'] = [(i, es.half(l), sorted(set(es.half(p) for p in ps))) for i, l, ps in ds['queries']]
        e2e.materialise(ds, 'c09w_%d' % case['ds_seed'])
        rp, qp = os.path.join(ds['dir'], 'r.cmap'), os.path.join(ds['dir'], 'q.cmap')
        args = ['-oM', case['mode']]
        base = run_real(rp, qp, args, 1, False, None, True)
        run = run_real(rp, qp, args, case['cpus'], False, None, False)
        shutil.rmtree(ds['dir'], ignore_errors=True)
        same = run['rc'] == base['rc'] and run['files'] == base['files']
        nrec = len([l for l in base['files'].get('main', '').split('\n') if l and not l.startswith('#')])
        out = dict(same=same, nrec=nrec, queries=len(ds['queries']), labels=sum(len(q[2]) for q in ds['queries']))
        if not same:
            out.update(base=dict(label='in-process -c 1', **base), run=dict(label='in-process -c %d' % case['cpus'], same=False, **run))
        return out

    def oracle(self, case, out):
        if out.get('same'):
            return []
        if 'base' not in out:
            return ['harness failure: %s' % str(out)[:300]]
        return Schedules().oracle_mode(dict(ds_seed=case['ds_seed'], extra=['(%d queries, %d query labels)' % (out['queries'], out['labels'])]),
                                       case['mode'], dict(base=out['base'], runs=[out['run']]))[:3]

    def classify(self, case, out):
        return ['cpus=%d' % case['cpus'], 'mode=' + case['mode'], 'queries=%s' % ('2-9' if out.get('queries', 0) < 10 else '10+'),
                'records=%s' % ('0' if not out.get('nrec') else '1+'), 'references=%d' % case['nref']]

    def nontrivial(self, case, out):
        return json.dumps([case['ds_seed'], case['cpus'], case['mode']]) if out.get('nrec') else None


STREAMS = [CounterPairs(), Schedules(), WorkerCounts()]

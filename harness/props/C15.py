"""C15 — Conflict resolution only trims inside the overlap and leaves no shared label."""
from ..driver import Stream
from .. import pipeline as pl

ID = 'C15'
RULE = ('Aligner.align on generated (reference, query, 1-6 seed peaks, strand, parameters): realistic ladders of nearby peaks on stretched molecules '
        'with indels/extra labels, dense small lattices (many conflicts, emptied chain members), window-boundary cases, conflict sub-runs with '
        'unpaired labels of the other sequence (score folding), fragments with label-number offsets. The segments of every peak before resolution '
        'are recorded too. non-trivial = distinct case with >= 2 non-empty segments before resolution')
TRUSTED = ['adapter harness/pipeline.py (builds OpticalMap/Peak/Aligner objects, canonicalises segments)']
ASSUMPTIONS = ['coordinates are multiples of 0.5 and parameters lie on the exact grid, so the float arithmetic of the implementation is exact',
               'the join score division is the only inexact float operation (covered by C14)']


class AlignStream(Stream):
    name = 'align'
    prelude = pl.ALIGN_CHECK_C15
    shard = 250
    weights = dict(realistic=2, blocks=4, dense=9, boundary=1, folding=3, fragment=1)
    quick_n, thorough_n = 5000, 90000

    def gen(self, rng, tier):
        return pl.gen_mix(rng, self.quick_n if tier == 'quick' else self.thorough_n, self.weights)

    def impl(self, case):
        return pl.run_align(case)

    def tolerated(self, case, out):
        return bool(out.get('float_flip'))

    def term(self, case, out):
        return pl.align_term(case, out)

    def oracle(self, case, out):
        return pl.oracle_resolution(case, out)

    def classify(self, case, out):
        k = [case['kind'], 'rev' if case['rev'] else 'fwd']
        if 'err' in out:
            return k + ['error']
        nin = len(pl.nonempty(out.get('inputs', []))); nout = len(pl.nonempty(out['segs']))
        k.append('segments_in=%d' % min(nin, 5)); k.append('segments_out=%d' % min(nout, 5))
        if any(not s[2] for s in out['segs'][:-1]) and nin >= 2: k.append('emptied_member')
        if any(s[2] and not pl.seg_pairs(s) for s in out['segs']): k.append('pairless_nonempty_segment')
        return k

    def nontrivial(self, case, out):
        if 'err' in out or len(pl.nonempty(out.get('inputs', []))) < 2:
            return None
        return repr((case['ref'], case['qry'], case['peaks'], case['rev'], sorted(case['P'].items())))


STREAMS = [AlignStream()]

"""C15 — Conflict resolution only trims inside the overlap and leaves no shared label."""
from ..driver import Stream
from .. import pipeline as pl

ID = 'C15'
RULE = ('Aligner.align on generated (reference, query, 1-6 seed peaks, strand, parameters): realistic ladders of nearby peaks on stretched molecules '
        'with indels/extra labels, dense small lattices (many conflicts, emptied chain members), window-boundary cases, conflict sub-runs with '
        'unpaired labels of the other sequence (score folding), fragments with label-number offsets. The segments of every peak before resolution '
        'are recorded too. non-trivial = distinct case with >= 2 non-empty segments before resolution')
TRUSTED = ['adapter harness/pipeline.py (builds OpticalMap/Peak/Aligner objects, canonicalises segments)']
ASSUMPTIONS = ['coordinates are multiples of 0.5 and parameters lie on the exact grid, so the float arithmetic of the implementation is exact',
               'the join score division is the only inexact float operation (covered by C14)']


class AlignStream(Stream):
    name = 'align'
    prelude = pl.ALIGN_CHECK_C15
    shard = 250
    weights = dict(realistic=2, blocks=4, dense=9, boundary=1, folding=3, fragment=1)
    quick_n, thorough_n = 5000, 90000

    def gen(self, rng, tier):
        return pl.gen_mix(rng, self.quick_n if tier == 'quick' else self.thorough_n, self.weights)

    def impl(self, case):
        return pl.run_align(case)

    def tolerated(self, case, out):
        return bool(out.get('float_flip'))

    def term(self, case, out):
        return pl.align_term(case, out)

    def oracle(self, case, out):
        return pl.oracle_resolution(case, out)

    def classify(self, case, out):
        k = [case['kind'], 'rev' if case['rev'] else 'fwd']
        if 'err' in out:
            return k + ['error']
        nin = len(pl.nonempty(out.get('inputs', []))); nout = len(pl.nonempty(out['segs']))
        k.append('segments_in=%d' % min(nin, 5)); k.append('segments_out=%d' % min(nout, 5))
        if any(not s[2] for s in out['segs'][:-1]) and nin >= 2: k.append('emptied_member')
        if any(s[2] and not pl.seg_pairs(s) for s in out['segs']): k.append('pairless_nonempty_segment')
        return k

    def nontrivial(self, case, out):
        if 'err' in out or len(pl.nonempty(out.get('inputs', []))) < 2:
            return None
        return repr((case['ref'], case['qry'], case['peaks'], case['rev'], sorted(case['P'].items())))




# ------------------------------------------------------------------------------------------------ the resolver called directly
# Lists of hand-built segments handed straight to AlignmentSegmentConflictResolver.resolveConflicts (an observation point of C15):
# chains of 2-6 segments on a label grid in which neighbours AND members two apart overlap, so that a middle member is emptied and the
# members around it still have to be resolved against each other (1 case in ~2 million of the Aligner.align stream).  Such lists need not be
# producible by the pairing engine, so the disjointness clause is NOT demanded of them on its own: the stream is a correspondence stream
# (model Core.resolve_conflicts = code), plus the clauses proved for ANY input (C15_subrun_any_input: sub-run, no re-scoring, score = sum).
# Where model and code differ AND the code's output shares a label or crosses while the model's output (the validated behaviour) passes the
# verified checker disjoint_dirb, the case is reported as a failing input (code 2).
DIRECT_PRELUDE = pl.PRELUDE.replace('Require Import Py Pairing Core Multi Cigar Checkers.', 'Require Import Py Pairing Core Multi Cigar Checkers ResolverProofs3.') + '''
Definition mkpos6 (t : Z*Z*Z*Z*Z*Z) : spos := match t with (k, rs, rp, qs, qp, s) =>
  if k =? 0 then mkS (Pair (mkLabel rs rp) (mkLabel qs qp) 0 0) s else if k =? 1 then mkS (URef (mkLabel rs rp)) s else mkS (UQry (mkLabel qs qp) 0) s end.
Fixpoint mksegs6 (i : Z) (l : list (list (Z*Z*Z*Z*Z*Z))) : list segment :=
  match l with [] => [] | ps :: t => seg_create (List.map mkpos6 ps) i :: mksegs6 (i + 10) t end.
Definition check (c : Z * Z * Z * bool * list (list (Z*Z*Z*Z*Z*Z)) * (bool * bool * list cseg)) : Z :=
  match c with (sjn, sjd, ss, rev_, sl, (ierr, ishared, esegs)) =>
  let P := mkP 0 0 0 0 0 0 (sjn # Z.to_pos sjd) ss in
  match resolve_conflicts P (mksegs6 0 sl) with
  | Err => if ierr then 0 else 1
  | Ok segs => if ierr then 1 else
      if eqsegs (List.map cseg_of segs) esegs then 0 else
      if ishared && disjoint_dirb (if rev_ then -1 else 1) segs then 2 else 1
  end end.
'''


def _build_direct(spec, idx):
    from src.alignment.segments import AlignmentSegment
    from src.alignment.alignment_position import (AlignedPair, ScoredAlignedPair, ScoredNotAlignedPosition,
                                                  NotAlignedReferencePosition, NotAlignedQueryPosition)
    from src.correlation.optical_map import PositionWithSiteId
    from src.correlation.peak import Peak
    pos = []
    for k, rs, rp, qs, qp, s in spec:
        if k == 0:
            pos.append(ScoredAlignedPair(AlignedPair(PositionWithSiteId(rs, rp), PositionWithSiteId(qs, qp), 0), float(s)))
        elif k == 1:
            pos.append(ScoredNotAlignedPosition(NotAlignedReferencePosition(PositionWithSiteId(rs, rp)), float(s)))
        else:
            pos.append(ScoredNotAlignedPosition(NotAlignedQueryPosition(PositionWithSiteId(qs, qp), 0), float(s)))
    return AlignmentSegment.create(pos, Peak(idx, 10.), pos)


def _shared_or_crossing(segs, rev):
    """segs: canonical segments [peak, score, positions]; True when two non-empty results share a label or are not in order on both sequences"""
    ne = [pl.seg_pairs(s) for s in segs if s[2] and pl.seg_pairs(s)]
    for i, a in enumerate(ne):
        for b in ne[i + 1:]:
            if {p[0] for p in a} & {p[0] for p in b} or {p[1] for p in a} & {p[1] for p in b}:
                return True
            if not a[-1][0] < b[0][0]:
                return True
            if (not a[-1][1] > b[0][1]) if rev else (not a[-1][1] < b[0][1]):
                return True
    return False


class DirectStream(Stream):
    name = 'resolver_direct'
    prelude = DIRECT_PRELUDE
    shard = 400
    quick_n, thorough_n = 3000, 40000
    NQ = 40

    def _case(self, rng):
        rev = rng.random() < 0.5
        k = rng.choice([2, 3, 3, 3, 4, 4, 5, 6])
        segs = []
        er, eq = rng.randint(1, 4), rng.randint(1, 4)          # grid coordinates just before the first segment
        ends = []
        for i in range(k):
            if i >= 2 and rng.random() < 0.5:                  # start against the member two back: the one in between may be emptied
                br, bq = ends[i - 2]
                r = br + rng.choice([-1, 0, 0, 1]); q = bq + rng.choice([-1, 0, 0, 1])
            else:
                r = er + rng.choice([-2, -1, -1, 0, 0, 1, 1, 2]); q = eq + rng.choice([-2, -1, -1, 0, 0, 1, 1, 2])
            r = max(1, r); q = max(1, q)
            n = rng.choice([1, 1, 2, 2, 3, 4])
            ps = []
            for j in range(n):
                if j:
                    step = rng.random()
                    if step < 0.15:
                        ps.append((1, r + 1, 0, rng.choice([-250, -250, -100]))); r += 2; q += 1
                    elif step < 0.3:
                        ps.append((2, 0, q + 1, rng.choice([-250, -250, -100]))); r += 1; q += 2
                    else:
                        r += 1; q += 1
                ps.append((0, r, q, rng.choice([1000, 1000, 950, 900, 800, 700, 400])))
            segs.append(ps)
            er, eq = r, q
            ends.append((r, q))
        nq = max(max(p[2] for s in segs for p in s), 2) + 1
        g = rng.choice([100, 1000, 1000, 2500])
        out = []
        for ps in segs:
            t = []
            for kind, r, q, s in ps:
                qs = (nq + 1 - q) if rev else q
                t.append([kind, r if kind != 2 else 0, g * r if kind != 2 else 0, qs if kind != 1 else 0, g * q if kind != 1 else 0, s])
            out.append(t)
        order = list(range(k))
        if rng.random() < 0.4:
            rng.shuffle(order)
        return dict(kind='grid', rev=rev, sj=rng.choice([1.0, 1.0, 0.5, 2.0, 0.0]), ss=rng.choice([0, 0, 1]), segs=[out[i] for i in order])

    def gen(self, rng, tier):
        P = lambda rs, rp, qs, qp, s: [0, rs, rp, qs, qp, s]
        A = [P(30, 3000, 30, 3000, 1000), P(40, 4000, 40, 4000, 1000), P(52, 5200, 55, 5500, 1000)]
        B = [P(50, 5000, 50, 5000, 900), P(60, 6000, 60, 6000, 900)]
        C = [P(58, 5800, 55, 5500, 1000), P(70, 7000, 70, 7000, 1000), P(80, 8000, 80, 8000, 1000)]
        A2 = [P(1, 100, 1, 100, 100), P(2, 200, 2, 200, 100), P(3, 300, 3, 300, 100)]
        B2 = [P(4, 400, 4, 400, 50)]
        C2 = [P(3, 300, 4, 400, 101), P(5, 500, 5, 500, 100)]
        fixed = [dict(kind='fixed', rev=False, sj=1.0, ss=0, segs=[C, A, B]), dict(kind='fixed', rev=False, sj=1.0, ss=0, segs=[A2, B2, C2]),
                 dict(kind='fixed', rev=False, sj=1.0, ss=1, segs=[A, B, C]), dict(kind='fixed', rev=False, sj=0.0, ss=0, segs=[A2, B2, C2])]
        n = self.quick_n if tier == 'quick' else self.thorough_n
        return fixed + [self._case(rng) for _ in range(n)]

    def impl(self, case):
        from src.alignment.segment_chainer import SegmentChainer, SequentialityScorer
        from src.alignment.segment_with_resolved_conflicts import AlignmentSegmentConflictResolver
        segs = [_build_direct(s, i) for i, s in enumerate(case['segs'])]
        out = dict(inputs=[pl.canon_seg(s) for s in segs])
        try:
            if pl.chain_trace(segs, case['sj'], case['ss'], False) != pl.chain_trace(segs, case['sj'], case['ss'], True):
                out['float_flip'] = True
        except Exception as e:
            out['float_flip_err'] = type(e).__name__
        try:
            res = AlignmentSegmentConflictResolver(SegmentChainer(SequentialityScorer(case['sj'], case['ss']))).resolveConflicts(list(segs))
            out['segs'] = [pl.canon_seg(s) for s in res.segments]
            out['shared'] = _shared_or_crossing(out['segs'], case['rev'])
        except Exception as e:
            out['err'] = type(e).__name__ + ':' + str(e)[:80]
        return out

    def tolerated(self, case, out):
        return bool(out.get('float_flip'))

    def term(self, case, out):
        from fractions import Fraction
        from ..common import z, cb, clist
        sj = Fraction(case['sj']) * 20
        sl = clist(clist('(%d,%s,%s,%s,%s,%s)' % (p[0], z(p[1]), z(10 * p[2]), z(p[3]), z(10 * p[4]), z(20 * p[5])) for p in s) for s in case['segs'])
        return '(%s,%s,%d,%s,%s,(%s,%s,%s))' % (z(sj.numerator), z(sj.denominator), case['ss'], cb(case['rev']), sl, cb('err' in out),
                                               cb(bool(out.get('shared'))), clist(pl.cseg_term(s) for s in out.get('segs', [])))

    def oracle(self, case, out):
        # only the clauses proved for ANY input list (C15_subrun_any_input)
        if 'err' in out:
            return []
        errs = []
        ins = pl.nonempty(out['inputs'])
        key = lambda p: tuple(p[:3])
        for s in pl.nonempty(out['segs']):
            ks = [key(p) for p in s[2]]
            found = None
            for t in ins:
                if t[0] != s[0]:
                    continue
                tk = [key(p) for p in t[2]]
                for a in range(len(tk) - len(ks) + 1):
                    if tk[a:a + len(ks)] == ks:
                        found = (t, a); break
                if found:
                    break
            if not found:
                errs.append('output segment (peak %s) is not a contiguous sub-run of an input segment' % (s[0] / 10.0)); continue
            t, a = found
            if [p[4] for p in t[2][a:a + len(ks)]] != [p[4] for p in s[2]]: errs.append('a position was re-scored')
            if sum(p[4] for p in s[2]) != s[1]: errs.append('segment score not recomputed as the sum of what is left')
        return sorted(set(errs))

    def classify(self, case, out):
        k = [case['kind'], 'rev' if case['rev'] else 'fwd', 'members=%d' % len(case['segs'])]
        if 'err' in out:
            return k + ['error:' + out['err'].split(':')[0]]
        nin = len(pl.nonempty(out['inputs'])); nout = len(pl.nonempty(out['segs']))
        k.append('segments_out=%d' % min(nout, 5))
        if nout < nin: k.append('emptied_member')
        if out['segs'] != out['inputs'] and sorted(map(repr, out['segs'])) != sorted(map(repr, out['inputs'])): k.append('trimmed')
        if out.get('shared'): k.append('result_shares_or_crosses(not demanded of hand-built lists)')
        if out.get('float_flip'): k.append('float_flip')
        return k

    def nontrivial(self, case, out):
        if 'err' in out or out['segs'] == out['inputs']:
            return None
        return repr((case['segs'], case['rev'], case['sj'], case['ss']))


STREAMS = [AlignStream(), DirectStream()]

"""C14 — The chain is a best-scoring admissible order-respecting selection of segments."""
import itertools, math
from fractions import Fraction as F
from ..driver import Stream
from ..common import z, zl, cb, clist

ID = 'C14'
RULE = ('join_grid (exhaustive): one fixed previous segment x every current segment start on a 15x15 100-bp lattice x 3 lengths x both strands x both '
        'sequentialityScore variants x multipliers (contains every exactly-half overlap, contiguous join and off-by-one-cell neighbour); '
        'join: random and boundary segment pairs incl. off-grid and 1e8-scale coordinates; '
        'chain_small (exhaustive): every ordered selection of up to 3 (quick) / 4 (thorough) segments from a 10-segment catalogue '
        '(half overlaps, more-than-half overlaps, contiguous, zero-length, duplicate, off-diagonal) x strands x variants x two score schemes; '
        'chain: random sets of 1-8 non-empty segments (+ empty ones) on a 100-bp grid, multipliers {0,0.5,1,2}, implementation chain compared '
        'with the model chain and with exhaustive enumeration of all order-respecting subsets in exact rationals; chain_large: 9-24 segments, '
        'compared with the model and an exact optimum. non-trivial = distinct case with at least two non-empty segments (chain) / an admissible join (join)')
TRUSTED = ['adapter: segments are real AlignmentSegment/EmptyAlignmentSegment objects built from ScoredAlignedPair/ScoredNotAlignedPosition; '
           'returned chain mapped back to input indexes by object identity',
           'strict/loose flag computed by the harness in exact rationals: strict = every admissible join value and score of the case is a small '
           'dyadic rational, so binary64 arithmetic is exact and the implementation must equal the model chain including tie-breaks; '
           'loose = a differing chain is accepted only if both exact totals agree within 1e-9 relative (float tie)']
ASSUMPTIONS = ['segment scores are multiples of 0.25 and coordinates are integers (exact in binary64)',
               'join score compared exactly when the quotient and the product are representable in binary64, otherwise within 2^-51 relative '
               '(two correctly rounded operations)']

SJS = [0.0, 0.5, 1.0, 2.0]


def _shards(st, cases, cap=700):
    """spread the Coq evaluation of a stream over all cores"""
    st.shard = min(cap, max(40, -(-len(cases) // 16)))
    return cases


# ------------------------------------------------------------------------------------------------ building real objects
def build_segment(spec, idx):
    from src.alignment.segments import AlignmentSegment, EmptyAlignmentSegment
    from src.alignment.alignment_position import (AlignedPair, ScoredAlignedPair, ScoredNotAlignedPosition,
                                                  NotAlignedReferencePosition, NotAlignedQueryPosition)
    from src.correlation.optical_map import PositionWithSiteId
    from src.correlation.peak import Peak
    peak = Peak(idx, 1.)
    if not spec['pos']:
        return EmptyAlignmentSegment(peak, []) if spec.get('cls', 'E') == 'E' else AlignmentSegment([], 0., peak, [])
    pos = []
    for k, rs, rp, qs, qp in spec['pos']:
        if k == 0:
            pos.append(ScoredAlignedPair(AlignedPair(PositionWithSiteId(rs, rp), PositionWithSiteId(qs, qp), 0), 0.))
        elif k == 1:
            pos.append(ScoredNotAlignedPosition(NotAlignedReferencePosition(PositionWithSiteId(rs, rp)), 0.))
        else:
            pos.append(ScoredNotAlignedPosition(NotAlignedQueryPosition(PositionWithSiteId(qs, qp), 0), 0.))
    return AlignmentSegment(pos, float(spec['score']), peak, pos)


def coords(spec):
    """(r0, q0, r1, q1) of the first / last aligned pair, or None"""
    ps = [p for p in spec['pos'] if p[0] == 0]
    if not ps:
        return None
    return (ps[0][2], ps[0][4], ps[-1][2], ps[-1][4])


def mkspec(i, r0, q0, r1, q1, score, rev, rng=None, single=False):
    """segment number i with start pair (r0,q0) and end pair (r1,q1); optional middle pairs and unaligned positions around"""
    pts = [(r0, q0)] if single else [(r0, q0), (r1, q1)]
    pre, post = [], []
    if rng is not None and not single:
        for _ in range(rng.choice([0, 0, 1, 2])):
            pts.insert(1, ((r0 + r1) // 2, (q0 + q1) // 2))
        if rng.random() < 0.25:
            pre.append('r')
        if rng.random() < 0.25:
            post.append('q')
    pos = []
    rs = 10 * i + 1
    qs = (5000 - 10 * i) if rev else (10 * i + 1)
    step = -1 if rev else 1
    if pre:
        pos.append([1, rs, r0 - 300, 0, 0]); rs += 1
    for (r, q) in pts:
        pos.append([0, rs, r, qs, q]); rs += 1; qs += step
    if post:
        pos.append([2, 0, 0, qs, q1 + 300])
    return dict(pos=pos, score=score)


# ------------------------------------------------------------------------------------------------ exact reference semantics
def exact_join(p, c, sj, ss):
    """None = minus infinity; coordinates (r0,q0,r1,q1) integers; sj Fraction"""
    ql = min(abs(c[3] - c[1]), abs(p[3] - p[1])); rd = c[0] - p[2]; rl = min(c[2] - c[0], p[2] - p[0]); qd = c[1] - p[3]
    if min(rl + 2 * rd, ql + 2 * qd) < 0:
        return None
    s = rd + qd; a = abs(rd) + abs(qd); d = rd - qd
    v = F(s * s + d * d, max(abs(s), abs(d), 1)) if ss == 0 else F(a * a + d * d, max(a + abs(d), 1))
    return -sj * v


def join_quotient(p, c, ss):
    rd = c[0] - p[2]; qd = c[1] - p[3]
    s = rd + qd; a = abs(rd) + abs(qd); d = rd - qd
    return F(s * s + d * d, max(abs(s), abs(d), 1)) if ss == 0 else F(a * a + d * d, max(a + abs(d), 1))


def representable(x):
    try:
        return F(float(x)) == x
    except OverflowError:
        return False


def small_dyadic(x):
    return (x.denominator & (x.denominator - 1)) == 0 and x.denominator <= 2 ** 16 and abs(x) < 2 ** 30


def preorder(case):
    """indexes of the non-empty segments, stable sort on the key"""
    ne = [i for i, s in enumerate(case['segs']) if s['pos']]
    return sorted(ne, key=lambda i: sum(coords(case['segs'][i])))


def total_exact(case, ids):
    sj = F(case['sj']); ss = case['ss']
    if not ids:
        return None
    t = F(case['segs'][ids[0]]['score'])
    for a, b in zip(ids, ids[1:]):
        j = exact_join(coords(case['segs'][a]), coords(case['segs'][b]), sj, ss)
        if j is None:
            return None
        t += j + F(case['segs'][b]['score'])
    return t


def exact_chain(case):
    """the algorithm of SegmentChainer.chain in exact rationals (first best on ties): indexes of the non-empty part"""
    order = preorder(case)
    if not order:
        return []
    sj = F(case['sj']); ss = case['ss']
    cs = [coords(case['segs'][i]) for i in order]
    cum, prev, best = [], [], 0
    for i in range(len(order)):
        c, pv = F(0), None
        for j in range(i):
            x = exact_join(cs[j], cs[i], sj, ss)
            if x is not None and cum[j] + x > c:
                c, pv = cum[j] + x, j
        cum.append(c + F(case['segs'][order[i]]['score'])); prev.append(pv)
        if cum[i] > cum[best]:
            best = i
    res = []
    k = best
    while k is not None:
        res.insert(0, order[k]); k = prev[k]
    return res


def strict_case(case):
    """binary64 arithmetic is exact on this case (all join values and scores small dyadic rationals)"""
    order = preorder(case)
    sj = F(case['sj']); ss = case['ss']
    for i in order:
        if not small_dyadic(F(case['segs'][i]['score'])):
            return False
    cs = [coords(case['segs'][i]) for i in order]
    for a in range(len(cs)):
        for b in range(a + 1, len(cs)):
            if exact_join(cs[a], cs[b], sj, ss) is None:
                continue
            q = join_quotient(cs[a], cs[b], ss)
            if not small_dyadic(q) or not small_dyadic(sj * q):
                return False
    return len(order) <= 32


def malformed(case):
    return any(s['pos'] and coords(s) is None for s in case['segs'])


# ------------------------------------------------------------------------------------------------ join streams
JOIN_PRELUDE = '''From Coq Require Import ZArith QArith Qabs List Bool. Import ListNotations.
Require Import Py Pairing Core. Open Scope Z_scope.
Definition mkpos (t : Z*Z*Z*Z*Z) : spos := match t with (k, rs, rp, qs, qp) =>
  if k =? 0 then mkS (Pair (mkLabel rs rp) (mkLabel qs qp) 0 0) 0 else if k =? 1 then mkS (URef (mkLabel rs rp)) 0 else mkS (UQry (mkLabel qs qp) 0) 0 end.
(* case: sj = sjn/sjd (already times 20), ss, previous, current, implementation result: kind 0 = -inf, 1 = value num/den (in score units), 2 = exception; exact flag *)
Definition check (c : Z * Z * Z * list (Z*Z*Z*Z*Z) * list (Z*Z*Z*Z*Z) * (Z * Z * Z * bool)) : Z :=
  match c with (sjn, sjd, ss, a, b, (kind, num, den, exact)) =>
  let P := mkP 0 0 0 0 0 0 (sjn # Z.to_pos sjd) ss in
  match join_score P (mkSeg (map mkpos a) 0 0) (mkSeg (map mkpos b) 0 1) with
  | Err => if kind =? 2 then 0 else 1
  | Ok None => if kind =? 0 then 0 else 1
  | Ok (Some x) =>
    if negb (kind =? 1) then 1 else
    if 0 <? num then 2 else
    let v := ((20 * num) # Z.to_pos den)%Q in
    if exact then (if Qeq_bool x v then 0 else 1)
    else (if Qle_bool (Qabs (x - v) * (2251799813685248 # 1)) (Qabs x) then 0 else 1)
  end end.'''


def tuple5(p):
    return '(%d,%s,%s,%s,%s)' % (p[0], z(p[1]), z(10 * p[2]), z(p[3]), z(10 * p[4]))


class JoinBase(Stream):
    shard = 1000
    prelude = JOIN_PRELUDE

    def impl(self, case):
        from src.alignment.segment_chainer import SequentialityScorer
        try:
            v = SequentialityScorer(case['sj'], case['ss']).getScore(build_segment(case['a'], 0), build_segment(case['b'], 1))
        except Exception as e:
            return dict(err=type(e).__name__)
        if isinstance(v, float) and math.isinf(v) and v < 0:
            return dict(inf=True)
        fr = F(v)
        return dict(num=str(fr.numerator), den=str(fr.denominator))

    def _exact(self, case):
        pa, pc = coords(case['a']), coords(case['b'])
        if pa is None or pc is None:
            return False
        q = join_quotient(pa, pc, case['ss'])
        return representable(q) and representable(F(case['sj']) * q)

    def term(self, case, out):
        sj = F(case['sj']) * 20
        if 'err' in out:
            o = '(2,0,1,false)'
        elif 'inf' in out:
            o = '(0,0,1,false)'
        else:
            o = '(1,(%s),%s,%s)' % (out['num'], out['den'], cb(self._exact(case)))
        return '(%s,%s,%d,%s,%s,%s)' % (z(sj.numerator), z(sj.denominator), case['ss'],
                                        clist(tuple5(p) for p in case['a']['pos']), clist(tuple5(p) for p in case['b']['pos']), o)

    def oracle(self, case, out):
        pa, pc = coords(case['a']), coords(case['b'])
        if pa is None or pc is None:
            return [] if out.get('err') == 'IndexError' else ['getScore on a segment without aligned pairs did not raise IndexError: %s' % out]
        if 'err' in out:
            return ['getScore raised %s' % out['err']]
        ex = exact_join(pa, pc, F(case['sj']), case['ss'])
        tag = '(prev=%s cur=%s sj=%s ss=%s)' % (pa, pc, case['sj'], case['ss'])
        if ex is None:
            return [] if 'inf' in out else ['join overlapping by more than half the shorter segment is not minus infinity %s' % tag]
        if 'inf' in out:
            return ['admissible join scored minus infinity %s' % tag]
        v = F(int(out['num']), int(out['den']))
        errs = []
        if v > 0:
            errs.append('positive join score %s %s' % (float(v), tag))
        if pc[0] == pa[2] and pc[1] == pa[3] and v != 0:
            errs.append('contiguous join has score %s, not 0 %s' % (float(v), tag))
        if abs(v - ex) * 2 ** 51 > abs(ex):
            errs.append('join score %s differs from the exact value %s %s' % (float(v), float(ex), tag))
        return errs

    def classify(self, case, out):
        k = ['ss=%d' % case['ss'], 'sj=%s' % case['sj'], 'strand=%s' % ('rev' if case['rev'] else 'fwd')]
        if 'err' in out:
            k.append('error:' + out['err'])
        elif 'inf' in out:
            k.append('minus-inf')
        else:
            k.append('value-exact' if self._exact(case) else 'value-rounded')
            pa, pc = coords(case['a']), coords(case['b'])
            rl = min(pc[2] - pc[0], pa[2] - pa[0]); rd = pc[0] - pa[2]
            ql = min(abs(pc[3] - pc[1]), abs(pa[3] - pa[1])); qd = pc[1] - pa[3]
            if rl + 2 * rd == 0 or ql + 2 * qd == 0:
                k.append('exactly-half-overlap')
            if rd == 0 and qd == 0:
                k.append('contiguous')
        return k

    def nontrivial(self, case, out):
        return repr((case['a']['pos'], case['b']['pos'], case['sj'], case['ss'])) if 'num' in out else None


class JoinGrid(JoinBase):
    name = 'join_grid'
    exhaustive = True

    def gen(self, rng, tier):
        out = []
        sjs = [1.0, 0.5] if tier == 'quick' else SJS
        for rev in (False, True):
            for ss in (0, 1):
                for sj in sjs:
                    for L in (0, 200, 400):
                        for r0 in range(900, 2400, 100):
                            for q0 in range(900, 2400, 100):
                                out.append(dict(sj=sj, ss=ss, rev=rev, a=mkspec(0, 1000, 1000, 1400, 1400, 0, rev),
                                                b=mkspec(1, r0, q0, r0 + L, q0 + L, 0, rev)))
        return _shards(self, out)


class JoinRandom(JoinBase):
    name = 'join'

    def gen(self, rng, tier):
        n = 4000 if tier == 'quick' else 32000
        out = []
        for _ in range(n):
            rev = rng.random() < 0.5; ss = rng.choice([0, 1, 1, 2]); sj = rng.choice(SJS + [0.25, 1.5, 3.0])
            mode = rng.random()
            if mode < 0.45:        # 100-bp grid
                g = 100; r0 = rng.randrange(0, 40) * g; q0 = r0 + rng.randrange(-5, 6) * g
                lr = rng.randrange(0, 10) * g; lq = max(0, lr + rng.randrange(-2, 3) * g)
            elif mode < 0.8:       # arbitrary integers
                r0 = rng.randrange(0, 50000); q0 = r0 + rng.randrange(-3000, 3000); lr = rng.randrange(0, 8000); lq = max(0, lr + rng.randrange(-500, 500))
            else:                  # chromosome-scale coordinates
                r0 = rng.randrange(10 ** 7, 2 * 10 ** 8); q0 = rng.randrange(0, 10 ** 6); lr = rng.randrange(0, 10 ** 5); lq = max(0, lr + rng.randrange(-2000, 2000))
            r1, q1 = r0 + lr, q0 + lq
            lr2 = rng.choice([lr, rng.randrange(0, 2 * lr + 101)]); lq2 = max(0, lr2 + rng.choice([0, 0, rng.randrange(-300, 300)]))
            if mode < 0.45:
                lr2 = lr2 // 100 * 100; lq2 = lq2 // 100 * 100
            b = rng.random()
            mr, mq = min(lr, lr2), min(lq, lq2)
            if b < 0.2:            # exactly half the shorter one on the reference, anything on the query
                rd = -(mr // 2) - rng.choice([0, 0, 1, -1]); qd = rng.choice([rd, 0, rng.randrange(-mq // 2 - 2, mq + 5)])
            elif b < 0.4:          # ... on the query
                qd = -(mq // 2) - rng.choice([0, 0, 1, -1]); rd = rng.choice([qd, 0, rng.randrange(-mr // 2 - 2, mr + 5)])
            elif b < 0.55:         # contiguous or same-gap joins
                rd = rng.choice([0, 0, rng.randrange(0, 5000)]); qd = rd
            else:
                rd = rng.randrange(-lr - 200, 6000); qd = rd + rng.choice([0, rng.randrange(-3000, 3000)])
            if mode < 0.45 and rng.random() < 0.7:
                rd = rd // 50 * 50 if mr % 200 else rd // 100 * 100; qd = qd // 50 * 50 if mq % 200 else qd // 100 * 100
            a = mkspec(0, r0, q0, r1, q1, 0, rev, rng)
            bb = mkspec(1, r1 + rd, q1 + qd, r1 + rd + lr2, q1 + qd + lq2, 0, rev, rng, single=(lr2 == 0 and lq2 == 0 and rng.random() < 0.5))
            if rng.random() < 0.01:
                bb = dict(pos=[[1, 5, r1 + rd, 0, 0]], score=0)
            out.append(dict(sj=sj, ss=ss, rev=rev, a=a, b=bb))
        return _shards(self, out)


# ------------------------------------------------------------------------------------------------ chain streams
CHAIN_PRELUDE = '''From Coq Require Import ZArith QArith Qabs List Bool. Import ListNotations.
Require Import Py Pairing Core DP ChainQ ChainCore. Open Scope Z_scope.
Definition mkpos (t : Z*Z*Z*Z*Z) : spos := match t with (k, rs, rp, qs, qp) =>
  if k =? 0 then mkS (Pair (mkLabel rs rp) (mkLabel qs qp) 0 0) 0 else if k =? 1 then mkS (URef (mkLabel rs rp)) 0 else mkS (UQry (mkLabel qs qp) 0) 0 end.
(* the segment's input index is carried in its peak field *)
Fixpoint mksegs (i : Z) (l : list (list (Z*Z*Z*Z*Z) * Z)) : list segment :=
  match l with [] => [] | (ps, s) :: t => mkSeg (map mkpos ps) s i :: mksegs (i + 1) t end.
Fixpoint eqlz (a b : list Z) : bool := match a, b with [], [] => true | x :: s, y :: t => (x =? y) && eqlz s t | _, _ => false end.
Fixpoint subb (c l : list Z) : bool :=
  match l with
  | [] => match c with [] => true | _ => false end
  | y :: l' => match c with [] => true | x :: c' => if x =? y then subb c' l' else subb c l' end
  end.
Definition qmax (a b : Q) : Q := if Qle_bool a b then b else a.
Definition close (a b : Q) : bool := Qle_bool (Qabs (a - b) * (1000000000 # 1)) (qmax 1 (qmax (Qabs a) (Qabs b))).
Definition nonempty (s : segment) : bool := negb (seg_empty s).
(* case: sj = sjn/sjd (times 20), ss, segments (positions in tenths of bp, score times 20), strict flag, implementation: (raised, chain as input indexes) *)
Definition check (c : Z * Z * Z * list (list (Z*Z*Z*Z*Z) * Z) * bool * (bool * list Z)) : Z :=
  match c with (sjn, sjd, ss, sl, strict, (ierr, ich)) =>
  let P := mkP 0 0 0 0 0 0 (sjn # Z.to_pos sjd) ss in
  let segs := mksegs 0 sl in
  match chain P segs with
  | Err => if ierr then 0 else 1
  | Ok mc =>
    if ierr then 1 else
    if eqlz (map speak mc) ich then 0 else
    let isegs := map (fun i => nth (Z.to_nat i) segs (mkSeg [] 0 (-1))) ich in
    let ne := filter nonempty isegs in let em := filter seg_empty isegs in
    if negb (eqlz (map speak (ne ++ em)) ich && eqlz (map speak em) (map speak (empties segs))
             && subb (map speak ne) (map speak (preordered segs))) then 2 else
    match chain_total P ne, chain_total P (filter nonempty mc) with
    | Some ti, Some tm => if Qle_bool tm ti && negb strict && close ti tm then 0
                          else if Qle_bool tm ti then 1 else if negb strict && close ti tm then 0 else 2
    | None, Some _ => 2
    | _, None => 1
    end
  end end.'''


_CHAINERS = {}


class ChainBase(Stream):
    shard = 400
    prelude = CHAIN_PRELUDE
    enumerate_max = 8

    def impl(self, case):
        from src.alignment.segment_chainer import SegmentChainer, SequentialityScorer
        segs = [build_segment(s, i) for i, s in enumerate(case['segs'])]
        index = {id(s): i for i, s in enumerate(segs)}
        # one chainer per (multiplier, variant) and worker process, re-used for every case that worker gets - as in COMA, where the chainer
        # lives as long as the aligner and chains the segments of every query a worker handles (state kept between calls would show)
        key = (case['sj'], case['ss'])
        if key not in _CHAINERS:
            _CHAINERS[key] = SegmentChainer(SequentialityScorer(case['sj'], case['ss']))
        chainer = _CHAINERS[key]
        scorer = chainer.sequentialityScorer
        try:
            ch = chainer.chain(segs)
        except Exception as e:
            _CHAINERS.pop(key, None)
            return dict(err=type(e).__name__)
        ids = [index.get(id(s), -1) for s in ch]
        joins = []
        ne = [s for s in ch if not s.empty]
        for a, b in zip(ne, ne[1:]):
            v = scorer.getScore(a, b)
            joins.append('-inf' if math.isinf(v) else repr(float(v)))
        return dict(chain=ids, joins=joins)

    def term(self, case, out):
        sj = F(case['sj']) * 20
        segs = clist('(%s,%s)' % (clist(tuple5(p) for p in s['pos']), z(F(s['score']) * 20)) for s in case['segs'])
        strict = (not malformed(case)) and strict_case(case)
        o = '(true,[])' if 'err' in out else '(false,%s)' % zl(out['chain'])
        return '(%s,%s,%d,%s,%s,%s)' % (z(sj.numerator), z(sj.denominator), case['ss'], segs, cb(strict), o)

    def optimum(self, case, order):
        """best total over all order-respecting subsets (exact); exhaustive for small sets, otherwise an independent recursion"""
        sj = F(case['sj']); ss = case['ss']
        cs = {i: coords(case['segs'][i]) for i in order}
        sc = {i: F(case['segs'][i]['score']) for i in order}
        js = {}
        for a in range(len(order)):
            for b in range(a + 1, len(order)):
                js[(order[a], order[b])] = exact_join(cs[order[a]], cs[order[b]], sj, ss)
        if len(order) <= self.enumerate_max:
            best = None
            for k in range(1, len(order) + 1):
                for sub in itertools.combinations(order, k):
                    t = sc[sub[0]]
                    for a, b in zip(sub, sub[1:]):
                        j = js[(a, b)]
                        if j is None:
                            t = None; break
                        t += j + sc[b]
                    if t is not None and (best is None or t > best):
                        best = t
            return best, js
        ending = {}          # best total of a chain ending at order[k]
        for k, i in enumerate(order):
            cands = [sc[i]] + [ending[order[m]] + js[(order[m], i)] + sc[i] for m in range(k) if js[(order[m], i)] is not None]
            ending[i] = max(cands)
        return max(ending.values()), js

    def oracle(self, case, out):
        if malformed(case):
            return [] if out.get('err') == 'IndexError' else ['chain on a non-empty segment without aligned pairs did not raise IndexError: %s' % out]
        if 'err' in out:
            return ['chain raised %s' % out['err']]
        ch = out['chain']; segs = case['segs']; errs = []
        if -1 in ch:
            return ['chain returned an object that is not one of the input segments']
        if len(set(ch)) != len(ch):
            errs.append('a segment occurs twice in the chain %s' % ch)
        ne = [i for i in ch if segs[i]['pos']]; em = [i for i in ch if not segs[i]['pos']]
        if ch != ne + em:
            errs.append('empty segments are not at the end of the chain %s' % ch)
        if em != [i for i, s in enumerate(segs) if not s['pos']]:
            errs.append('empty segments not passed through in input order: %s' % em)
        order = preorder(case)
        if not order:
            if ne: errs.append('non-empty member from nowhere')
            return errs
        if not ne:
            return errs + ['no non-empty segment chosen although %d are available' % len(order)]
        rank = {i: k for k, i in enumerate(order)}
        if any(rank[a] >= rank[b] for a, b in zip(ne, ne[1:])):
            errs.append('chain %s does not respect the diagonal order %s' % (ne, order))
            return errs
        best, js = self.optimum(case, order)
        sj = F(case['sj'])
        t = F(segs[ne[0]]['score'])
        for k, (a, b) in enumerate(zip(ne, ne[1:])):
            j = js[(a, b)]
            pa, pc = coords(segs[a]), coords(segs[b])
            if j is None:
                errs.append('consecutive members %s %s overlap by more than half the shorter one (join is minus infinity)' % (pa, pc))
                return errs
            rl = min(pc[2] - pc[0], pa[2] - pa[0]); ql = min(abs(pc[3] - pc[1]), abs(pa[3] - pa[1]))
            if rl + 2 * (pc[0] - pa[2]) < 0 or ql + 2 * (pc[1] - pa[3]) < 0:
                errs.append('half-overlap rule broken by %s %s' % (pa, pc))
            got = out['joins'][k] if k < len(out['joins']) else None
            if got == '-inf':
                errs.append('implementation join of consecutive members is minus infinity')
            elif got is not None:
                g = float(got)
                if g > 0: errs.append('positive join score %s between %s %s' % (g, pa, pc))
                if pc[0] == pa[2] and pc[1] == pa[3] and g != 0: errs.append('contiguous join scored %s' % g)
            t += j + F(segs[b]['score'])
        if best is None or t > best:
            errs.append('oracle inconsistency: chain total %s above enumerated optimum %s' % (t, best))
        elif (best - t) * 10 ** 9 > max(1, abs(best), abs(t)):
            errs.append('chain %s has total %s but an order-respecting admissible subset reaches %s (sj=%s ss=%s)' % (
                ne, float(t), float(best), case['sj'], case['ss']))
        return errs

    def classify(self, case, out):
        nn = len([s for s in case['segs'] if s['pos']])
        k = ['nonempty=%s' % (nn if nn <= 8 else '9+'), 'empties=%d' % min(2, len(case['segs']) - nn), 'ss=%d' % case['ss'], 'sj=%s' % case['sj'],
             'strand=%s' % ('rev' if case['rev'] else 'fwd')]
        if 'err' in out:
            k.append('error:' + out['err']); return k
        ne = [i for i in out['chain'] if case['segs'][i]['pos']]
        k.append('chainlen=%s' % (len(ne) if len(ne) < 5 else '5+'))
        if len(ne) < nn: k.append('skips-a-segment')
        if malformed(case): return k
        k.append('strict' if strict_case(case) else 'loose')
        if ne != exact_chain(case):
            k.append('float-tie(implementation chain differs from exact-arithmetic chain)')
        return k

    def nontrivial(self, case, out):
        nn = len([s for s in case['segs'] if s['pos']])
        return repr((case['segs'], case['sj'], case['ss'])) if nn >= 2 and 'chain' in out else None


CATALOGUE = [(0, 0, 4, 4), (2, 2, 6, 6), (1, 1, 5, 5), (4, 4, 8, 8), (5, 5, 9, 9), (4, 5, 8, 9), (6, 4, 10, 8), (3, 3, 5, 5), (8, 8, 8, 8), (0, 0, 4, 4)]


class ChainSmall(ChainBase):
    name = 'chain_small'
    exhaustive = True
    shard = 1500

    def gen(self, rng, tier):
        kmax = 3 if tier == 'quick' else 4
        out = []
        schemes = [lambda c: 300, lambda c: 100 * (c % 4) + 50]
        for k in range(1, kmax + 1):
            for sel in itertools.product(range(len(CATALOGUE)), repeat=k):
                for rev in (False, True):
                    for ss in (0, 1):
                        for sc in (schemes if k < 4 else schemes[:1]):
                            segs = [mkspec(i, 100 * CATALOGUE[c][0], 100 * CATALOGUE[c][1], 100 * CATALOGUE[c][2], 100 * CATALOGUE[c][3], sc(c), rev,
                                           single=(c == 8)) for i, c in enumerate(sel)]
                            out.append(dict(sj=1.0, ss=ss, rev=rev, segs=segs))
        return _shards(self, out, 1000)


def random_set(rng, nmin, nmax):
    rev = rng.random() < 0.5; ss = rng.choice([0, 1]); sj = rng.choice(SJS)
    n = rng.randint(nmin, nmax)
    mode = rng.random()
    cs = []
    if mode < 0.65:       # walk along a diagonal: collinear (all joins dyadic) or with jitter
        jitter = mode >= 0.25
        r = rng.randrange(0, 10) * 100; c0 = rng.randrange(-3, 4) * 100
        prevL = 0
        for _ in range(n):
            L = rng.choice([0, 200, 200, 400, 400, 600, 800, 1000, 300, 500])
            g = rng.choice([0, 0, 100, 200, 300, 500, 1000, -100, -200, -300, -min(L, prevL) // 2, -min(L, prevL) // 2 - 100, -prevL])
            if (min(L, prevL) // 2) % 100 and g < 0 and rng.random() < 0.5:
                g = g // 100 * 100
            r0 = r + g
            dq = rng.choice([0, 0, 0, 100, -100, 200, -200]) if jitter else 0
            dl = rng.choice([0, 0, 0, 100, -100]) if jitter else 0
            q0 = r0 + c0 + dq
            cs.append((r0, q0, r0 + L, q0 + max(0, L + dl)))
            r = max(r, r0 + L); prevL = L
    else:                 # scattered
        for _ in range(n):
            r0 = rng.randrange(0, 40) * 100; q0 = r0 + rng.randrange(-5, 6) * 100; L = rng.randrange(0, 10) * 100
            cs.append((r0, q0, r0 + L, q0 + L + rng.randrange(-2, 3) * 100))
    sm = rng.random()
    if sm < 0.2:
        scores = [rng.choice([300, 500, 1000])] * n
    elif sm < 0.85:
        scores = [rng.randrange(1, 40) * 100 for _ in range(n)]
    else:
        scores = [rng.choice([0, -100, 50, 12.25, 100.5, 1000, 2000.75]) for _ in range(n)]
    segs = [mkspec(i, c[0], c[1], c[2], c[3], s, rev, rng, single=(c[0] == c[2] and c[1] == c[3] and rng.random() < 0.5))
            for i, (c, s) in enumerate(zip(cs, scores))]
    if rng.random() < 0.3:
        for _ in range(rng.randint(1, 2)):
            segs.insert(rng.randrange(0, len(segs) + 1), dict(pos=[], score=0, cls=rng.choice(['E', 'E', 'N'])))
    if rng.random() < 0.1:
        del segs[rng.randrange(len(segs))]
    rng.shuffle(segs)
    if rng.random() < 0.02 and segs:
        segs[rng.randrange(len(segs))] = dict(pos=[[1, 7, 100, 0, 0], [2, 0, 0, 9, 300]], score=100)
    return dict(sj=sj, ss=ss, rev=rev, segs=segs)


class ChainRandom(ChainBase):
    name = 'chain'

    def gen(self, rng, tier):
        n = 3000 if tier == 'quick' else 24000
        return _shards(self, [random_set(rng, 1, 8) for _ in range(n)], 300)


class ChainLarge(ChainBase):
    name = 'chain_large'
    shard = 100

    def gen(self, rng, tier):
        n = 300 if tier == 'quick' else 2400
        return _shards(self, [random_set(rng, 9, 24) for _ in range(n)], 50)


STREAMS = [JoinGrid(), JoinRandom(), ChainSmall(), ChainRandom(), ChainLarge()]

"""Confirms a seeded change (from an independent sub-agent) and runs our checks against it.
python -m harness.seedtest <seed-id> <property> <deliver-dir> [patch-name demo-name note-name] [extra checks...]
Steps: fresh worktree of /repo HEAD; demo on the original (must pass); apply the patch; 165 tests (must pass); demo (must fail);
./check <property> (and extra checks) against the changed tree; record everything in /verif/seeded/<seed-id>/meta.json."""
import os, sys, json, shutil, subprocess, tempfile, time
VERIF = os.path.dirname(os.path.dirname(os.path.abspath(__file__)))


def sh(cmd, cwd=None, env=None, timeout=1800):
    p = subprocess.run(cmd, cwd=cwd, env=env, stdout=subprocess.PIPE, stderr=subprocess.STDOUT, timeout=timeout)
    return p.returncode, p.stdout.decode('utf-8', 'replace')


def main(argv):
    sid, prop, ddir = argv[0], argv[1], argv[2]
    patch, demo, note = (argv[3:6] + ['patch.diff', 'demo.py', 'NOTE.md'][len(argv[3:6]):])[:3]
    checks = [prop] + argv[6:]
    origin = os.path.dirname(os.path.abspath(ddir.rstrip('/')))
    tmp = tempfile.mkdtemp(prefix='seed_', dir='/tmp')
    repo = os.path.join(tmp, 'repo')
    meta = dict(seed=sid, property=prop, checks={}, source='independent sub-agent given only the property text and a scratch worktree')
    try:
        subprocess.run(['git', '-C', '/repo', 'worktree', 'add', '--detach', repo, 'HEAD', '-q'], check=True)
        dsrc = open(os.path.join(ddir, demo)).read().replace(origin, repo)
        os.makedirs(os.path.join(repo, '_deliver'))
        open(os.path.join(repo, '_deliver', demo), 'w').write(dsrc)
        env = dict(os.environ, PYTHONPATH=repo, PYTHONHASHSEED='0')
        rc0, out0 = sh(['/venv/bin/python', '_deliver/' + demo], cwd=repo, env=env, timeout=900)
        meta['demo_on_original'] = dict(rc=rc0, tail=out0[-300:])
        rca, outa = sh(['git', 'apply', os.path.abspath(os.path.join(ddir, patch))], cwd=repo)
        meta['patch_applies'] = rca == 0
        rct, outt = sh(['/venv/bin/python', '-m', 'pytest', '-q', '-p', 'no:cacheprovider', '--timeout=900'], cwd=repo, timeout=900)
        meta['tests_with_change'] = outt.strip().splitlines()[-1] if outt.strip() else ''
        rc1, out1 = sh(['/venv/bin/python', '_deliver/' + demo], cwd=repo, env=env, timeout=900)
        meta['demo_on_changed'] = dict(rc=rc1, tail=out1[-500:])
        meta['confirmed'] = bool(rc0 == 0 and rca == 0 and '165 passed' in meta['tests_with_change'] and rc1 != 0)
        shutil.rmtree(os.path.join(repo, '_deliver'))
        for c in checks:
            e2 = dict(os.environ, COMA_REPO=repo, COMA_WORK=os.path.join(tmp, 'work'), COMA_EVIDENCE=os.path.join(tmp, 'ev'), COMA_REPLAYS=os.path.join(tmp, 'rp'))
            t0 = time.time()
            rc, out = sh([os.path.join(VERIF, 'check'), c], env=e2, timeout=2400)
            lines = out.splitlines()
            meta['checks'][c] = dict(rc=rc, wall=round(time.time() - t0), caught=(rc == 1 and any(l.startswith('VIOLATION') for l in lines)),
                                     kinds=sorted(set(l.split(':')[0] for l in lines if l.startswith(('property-violated', 'correspondence-', 'proof-')))),
                                     first=[l[:300] for l in lines if l.startswith(('property-violated', 'correspondence-'))][:2],
                                     no_input=any('no-failing-input-found' in l for l in lines if l.startswith('VIOLATION')) and not any(l.startswith('VIOLATION') and 'no-failing-input-found' not in l for l in lines))
    finally:
        subprocess.run(['git', '-C', '/repo', 'worktree', 'remove', '--force', repo])
        shutil.rmtree(tmp, ignore_errors=True)
    out_dir = os.path.join(VERIF, 'seeded', sid)
    os.makedirs(out_dir, exist_ok=True)
    shutil.copy(os.path.join(ddir, patch), os.path.join(out_dir, 'patch.diff'))
    shutil.copy(os.path.join(ddir, demo), os.path.join(out_dir, 'demo.py'))
    if os.path.exists(os.path.join(ddir, note)):
        shutil.copy(os.path.join(ddir, note), os.path.join(out_dir, 'NOTE.md'))
        meta['needs_to_manifest'] = open(os.path.join(ddir, note)).read()[:1500]
    meta['what_was_run'] = ['demo on clean worktree of /repo HEAD', 'git apply patch.diff', 'pytest (165 tests)', 'demo on changed tree'] + ['COMA_REPO=<changed tree> ./check %s' % c for c in checks]
    json.dump(meta, open(os.path.join(out_dir, 'meta.json'), 'w'), indent=1)
    print(sid, 'confirmed' if meta['confirmed'] else 'NOT CONFIRMED', meta['tests_with_change'], {c: (v['caught'], v['kinds']) for c, v in meta['checks'].items()})


if __name__ == '__main__':
    main(sys.argv[1:])

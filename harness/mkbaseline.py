"""records the hashes of /repo's source files the model is currently validated against (python3 -m harness.mkbaseline)"""
import json, os
from . import common
json.dump(common.file_hashes(), open(os.path.join(common.VERIF, 'harness', 'baseline.json'), 'w'), indent=1, sort_keys=True)
print(len(common.file_hashes()), 'files')

"""Shared machinery for the candidate pipeline (Aligner.align): generators, adapter, canonicalisation, oracles, Coq prelude.
Units on the model side: positions/lengths in tenths of bp (x10), scores x20, DPU = 2*dp, SJ = 20*sj."""
import itertools
from .common import z, zl, cb, clist, cstr

DEFAULT = dict(sp=1000, dp=1.0, su=-250, ms=1000, bs=1200, d=1500, sj=1.0, ss=0)


def mk_aligner(P):
    from src.alignment.aligner import AlignerEngine, Aligner
    from src.alignment.alignment_position_scorer import AlignmentPositionScorer
    from src.alignment.segment_chainer import SegmentChainer, SequentialityScorer
    from src.alignment.segment_with_resolved_conflicts import AlignmentSegmentConflictResolver
    from src.alignment.segments_factory import AlignmentSegmentsFactory
    return Aligner(AlignmentPositionScorer(P['sp'], P['dp'], P['su']), AlignmentSegmentsFactory(P['ms'], P['bs']),
                   AlignerEngine(P['d']),
                   AlignmentSegmentConflictResolver(SegmentChainer(SequentialityScorer(P['sj'], P['ss']))))


def r10(x):
    v = x * 10
    r = round(v)
    if abs(v - r) > 1e-6:
        raise ValueError('coordinate %r is not a multiple of 0.1' % (x,))
    return int(r)


def r20(x):
    v = x * 20
    r = round(v)
    if abs(v - r) > 1e-6:
        raise ValueError('score %r is not a multiple of 0.05' % (x,))
    return int(r)


def canon_pos(p):
    from src.alignment.alignment_position import AlignedPair
    if isinstance(p, AlignedPair):
        return [0, int(p.reference.siteId), int(p.query.siteId), r10(p.queryShift), r20(p.score), int(p.source)]
    pp = p.position
    if hasattr(pp, 'reference'):
        return [1, int(pp.reference.siteId), 0, 0, r20(p.score), 0]
    return [2, 0, int(pp.query.siteId), 0, r20(p.score), 0]


def canon_seg(s):
    return [r10(s.peak.position), r20(s.segmentScore), [canon_pos(p) for p in s.positions]]


def chain_trace(segs, sj, ss, exact):
    """the decisions of SegmentChainer.chain (predecessor of every segment, index of the best end) recomputed with the code's own formula,
    in double arithmetic (exact=False: the very operations of the code) or in exact rational arithmetic (exact=True: what the Gallina model
    computes).  The join score divides by a data-dependent integer, so it is in general not a dyadic rational: where two alternatives tie
    or nearly tie, rounding can decide differently from exact arithmetic."""
    from fractions import Fraction
    F = (lambda x: Fraction(x)) if exact else (lambda x: float(x))
    ne = sorted((s for s in segs if not s.empty), key=lambda s: s.startPosition.reference.position + s.endPosition.reference.position
                + s.startPosition.query.position + s.endPosition.query.position)

    def score(prev, cur):
        ql = min(abs(F(cur.endPosition.query.position) - F(cur.startPosition.query.position)), abs(F(prev.endPosition.query.position) - F(prev.startPosition.query.position)))
        rd = F(cur.startPosition.reference.position) - F(prev.endPosition.reference.position)
        rl = min(F(cur.endPosition.reference.position) - F(cur.startPosition.reference.position), F(prev.endPosition.reference.position) - F(prev.startPosition.reference.position))
        qd = F(cur.startPosition.query.position) - F(prev.endPosition.query.position)
        if min(rl + 2 * rd, ql + 2 * qd) < 0:
            return None
        ds = rd + qd; ads = abs(rd) + abs(qd); dd = rd - qd
        v = (ds ** 2 + dd ** 2) / max(abs(ds), abs(dd), 1) if ss == 0 else (ads ** 2 + dd ** 2) / max(ads + abs(dd), 1)
        return -F(sj) * v
    cum = [None] * len(ne); prev = [None] * len(ne); best = 0
    for i, c in enumerate(ne):
        cum[i] = F(0)
        for j in range(i):
            if cum[j] is None:
                continue
            sc = score(ne[j], c)
            if sc is None:
                continue
            cur = cum[j] + sc
            if cur > cum[i]:
                cum[i] = cur; prev[i] = j
        cum[i] += F(c.segmentScore)
        if cum[i] > cum[best]:
            best = i
    return prev, best


def run_align(case):
    """runs the real Aligner.align; also records the segments each peak produced before conflict resolution"""
    from src.correlation.optical_map import OpticalMap
    from src.correlation.peak import Peak
    P = case['P']
    ref = OpticalMap(1, int(case['rlen']), [float(x) for x in case['ref']])
    qm = OpticalMap(7, case['qlen'], [float(x) for x in case['qry']], case.get('shift', 0))
    peaks = [Peak(p, 10.) for p in case['peaks']]
    out = {}
    try:
        al = mk_aligner(P)
        al.alignmentEngine.iteration = case['it']
        ins, raw = [], []
        for p in peaks:
            ss_ = list(al.getSegments(case['rev'], p, qm, ref))
            raw.extend(ss_)
            ins.extend(canon_seg(s) for s in ss_)
        out['inputs'] = ins
        try:
            if len([s for s in raw if not s.empty]) >= 2 and chain_trace(raw, P['sj'], P['ss'], False) != chain_trace(raw, P['sj'], P['ss'], True):
                out['float_flip'] = True      # double rounding decides a (near-)tie of the chainer differently from exact arithmetic
        except Exception as e:
            out['float_flip_err'] = type(e).__name__
    except Exception as e:
        out['inputs_err'] = type(e).__name__
    try:
        al = mk_aligner(P)
        al.alignmentEngine.iteration = case['it']
        row = al.align(ref, qm, peaks, case['rev'])
        out['segs'] = [canon_seg(s) for s in row.segments]
        out['hdr'] = [r10(row.queryStartPosition), r10(row.queryEndPosition), r10(row.referenceStartPosition),
                      r10(row.referenceEndPosition), r20(row.confidence)]
        out['pairs'] = [[int(p.reference.siteId), int(p.query.siteId)] for p in row.alignedPairs]
        try:
            out['cigar'] = row.cigarString
        except Exception as e:
            out['cigar_err'] = type(e).__name__
    except Exception as e:
        out['err'] = type(e).__name__ + ':' + str(e)[:80]
    return out


# ------------------------------------------------------------------------------------------------ Coq side
PRELUDE = '''From Coq Require Import ZArith QArith List Bool String. Import ListNotations.
Require Import Py Pairing Core Multi Cigar Checkers. Open Scope Z_scope.
Notation cpos := (Z * Z * Z * Z * Z * Z)%type.
Definition canon (p : spos) : cpos := match ap p with Pair r q s src => (0, site r, site q, s, sc p, src) | URef r => (1, site r, 0, 0, sc p, 0) | UQry q _ => (2, 0, site q, 0, sc p, 0) end.
Definition eq6 (a b : cpos) := match a, b with (a1,a2,a3,a4,a5,a6),(b1,b2,b3,b4,b5,b6) => (a1=?b1)&&(a2=?b2)&&(a3=?b3)&&(a4=?b4)&&(a5=?b5)&&(a6=?b6) end.
Fixpoint eql (a b : list cpos) := match a, b with [], [] => true | x::xs, y::ys => eq6 x y && eql xs ys | _, _ => false end.
Notation cseg := (Z * Z * list cpos)%type.
Definition eqseg (a b : cseg) := match a, b with (p,s,l),(p',s',l') => (p=?p')&&(s=?s')&&eql l l' end.
Fixpoint eqsegs (a b : list cseg) := match a, b with [], [] => true | x::xs, y::ys => eqseg x y && eqsegs xs ys | _, _ => false end.
Definition cseg_of (s : segment) : cseg := (speak s, sscore s, List.map canon (positions s)).
Definition mkparams (p : Z*Z*Z*Z*Z*Z*Z*Z) : params := match p with (sp,dpu,su,ms,bs,d,sj,ss) => mkP sp dpu su ms bs d (inject_Z sj) ss end.
Definition site_pairs (segs : list segment) : list (Z * Z) := List.map (fun p => let v := pv_of p in (site (pr v), site (pq v))) (row_pairs segs).
'''

ALIGN_CORR = PRELUDE + '''
(* case: params, iteration, ref positions, ref length, query positions, query length, query shift, peaks, reverse;
   expected: error flag, segments, header (qs, qe, rs, re, confidence), HitEnum text (or error flag) *)
Notation acase := ((Z*Z*Z*Z*Z*Z*Z*Z) * Z * list Z * Z * list Z * Z * Z * list Z * bool * (bool * list cseg * (Z*Z*Z*Z*Z) * (bool * string)))%type.
Definition corr_code (c : acase) : Z :=
  match c with (p, it, refp, rlen_, qp, qlen_, qshift, peaks, rev_, (err, esegs, (eqs, eqe, ers, ere, econf), (cerr, ecig))) =>
    match aligner_align (mkparams p) it (mkMap 1 rlen_ refp 0) (mkMap 7 qlen_ qp qshift) peaks rev_ with
    | Err => if err then 0 else 1
    | Ok segs =>
      if err then 1 else
      if negb (eqsegs (List.map cseg_of segs) esegs) then 1 else
      let w := row_create segs 7 1 qlen_ rlen_ rev_ in
      if negb ((qs w =? eqs) && (qe w =? eqe) && (rs w =? ers) && (re w =? ere) && (conf w =? econf)) then 3 else
      match cigar_string (site_pairs segs) with
      | Ok s => if cerr then 4 else if String.eqb s ecig then 0 else 4
      | Err => if cerr then 0 else 4
      end
    end end.
'''
ALIGN_CHECK = ALIGN_CORR + "Definition check (c : acase) : Z := corr_code c.\n"
# C15: additionally the verified checker disjoint_dirb (props/C15.v: C15_checker_dir_spec) on the resolver output; it is evaluated on the model's
# segments only when they coincide with the implementation's (code 0), so it decides the implementation's output
ALIGN_CHECK_C15 = ALIGN_CORR.replace('Require Import Py Pairing Core Multi Cigar Checkers.', 'Require Import Py Pairing Core Multi Cigar Checkers ResolverProofs3.') + '''
Definition check (c : acase) : Z :=
  let k := corr_code c in if negb (k =? 0) then k else
  match c with (p, it, refp, rlen_, qp, qlen_, qshift, peaks, rev_, _) =>
    match aligner_align (mkparams p) it (mkMap 1 rlen_ refp 0) (mkMap 7 qlen_ qp qshift) peaks rev_ with
    | Ok segs => if disjoint_dirb (if rev_ then -1 else 1) segs then 0 else 2
    | Err => 0
    end end.
'''
# C01: additionally the verified checker valid_rowb (proofs/CheckersProofs.v: valid_rowb_spec) on the pairs the IMPLEMENTATION returned
ALIGN_CHECK_C01 = ALIGN_CORR + '''
Definition epairs (esegs : list cseg) : list (Z * Z) :=
  flat_map (fun s => match s with (_, _, l) => flat_map (fun p => match p with (k, r, q, _, _, _) => if k =? 0 then [(r, q)] else [] end) l end) esegs.
Definition check (c : acase) : Z :=
  let k := corr_code c in if negb (k =? 0) then k else
  match c with (p, it, refp, rlen_, qp, qlen_, qshift, peaks, rev_, (err, esegs, _, _)) =>
    match epairs esegs with
    | [] => 0
    | ps => if valid_rowb (Z.of_nat (List.length refp)) (1 + qshift) (Z.of_nat (List.length qp) + qshift) rev_ ps then 0 else 2
    end end.
'''


def params_term(P):
    sj20 = P['sj'] * 20
    if abs(sj20 - round(sj20)) > 1e-9 or abs(P['dp'] * 2 - round(P['dp'] * 2)) > 1e-9:
        raise ValueError('parameters outside the exact grid')
    return '(%s,%s,%s,%s,%s,%s,%s,%s)' % (z(P['sp'] * 20), z(round(P['dp'] * 2)), z(P['su'] * 20), z(P['ms'] * 20), z(P['bs'] * 20),
                                         z(P['d'] * 10), z(round(sj20)), z(P['ss']))


def cpos_term(p):
    return '(%s,%s,%s,%s,%s,%s)' % tuple(z(v) for v in p)


def cseg_term(s):
    return '(%s,%s,%s)' % (z(s[0]), z(s[1]), clist(cpos_term(p) for p in s[2]))


def align_term(case, out):
    err = 'err' in out
    segs = out.get('segs', [])
    hdr = out.get('hdr', [0, 0, 0, 0, 0])
    cerr = 'cigar_err' in out
    return '(%s, %s, %s, %s, %s, %s, %s, %s, %s, (%s, %s, (%s,%s,%s,%s,%s), (%s, %s)))' % (
        params_term(case['P']), z(case['it']), zl(r10(x) for x in case['ref']), z(case['rlen'] * 10), zl(r10(x) for x in case['qry']),
        z(r10(case['qlen'])), z(case.get('shift', 0)), zl(p * 10 for p in case['peaks']), cb(case['rev']),
        cb(err), clist(cseg_term(s) for s in segs), z(hdr[0]), z(hdr[1]), z(hdr[2]), z(hdr[3]), z(hdr[4]), cb(cerr), cstr(out.get('cigar', '')))


# ------------------------------------------------------------------------------------------------ generators
def gen_realistic(rng):
    """ladders of 2-6 nearby peaks on stretched molecules with indels and extra labels"""
    n = rng.randint(8, 40)
    pos = [0]
    for _ in range(n):
        pos.append(pos[-1] + rng.choice([300, 500, 700, 1000, 1500, 2000, 3000, 5000]))
    a = rng.randint(0, n - 6); b = rng.randint(a + 5, n)
    q = []; off = 0
    for p in pos[a:b + 1]:
        if rng.random() < 0.08: off += rng.choice([-3000, -2000, -1000, 1000, 2000, 3000, 600, -600])
        if rng.random() < 0.1: continue
        q.append((p - pos[a]) + off + rng.choice([0, 0, 100, -100, 300, -300]))
        if rng.random() < 0.1: q.append(q[-1] + rng.choice([200, 900, 1600]))
    q = sorted(set(q))
    if len(q) < 2:
        return None
    q0 = q[0]; q = [x - q0 for x in q]
    base = pos[a] + q0
    peaks = [base + rng.choice([0, 300, -300, 600, -600, 1000, -1000, 2000, -2000, 3000, -3000]) for _ in range(rng.randint(1, 6))]
    P = dict(DEFAULT, d=rng.choice([1500, 800, 2500]), ss=rng.choice([0, 0, 1]), sj=rng.choice([1.0, 1.0, 0.5, 2.0]))
    if rng.random() < 0.25:
        P.update(sp=rng.choice([1000, 800, 1500]), dp=rng.choice([1.0, 0.5, 2.0]), su=rng.choice([-250, -100, -500, 0]),
                 ms=rng.choice([1000, 500, 2500]), bs=rng.choice([1200, 400, 3000]))
    half = rng.random() < 0.3
    f = (lambda x: x + 0.5) if half else (lambda x: x)
    return dict(P=P, it=rng.randint(1, 5), ref=[f(x) for x in pos], rlen=pos[-1] + 1, qry=[float(x) for x in q], qlen=q[-1] + 1,
                peaks=peaks, rev=rng.random() < 0.5, kind='realistic')


def gen_dense(rng):
    """dense small lattices: many conflicts, ties and emptied chain members"""
    n = rng.randint(3, 10); pos = [0]
    for _ in range(n): pos.append(pos[-1] + rng.choice([1, 2, 3, 4, 6]))
    m = rng.randint(2, 8); q = [0]
    for _ in range(m): q.append(q[-1] + rng.choice([1, 2, 3, 4, 6]))
    P = dict(sp=10, dp=1.0, su=rng.choice([-2, -3, -1]), ms=rng.choice([10, 18, 8]), bs=rng.choice([12, 6, 20]), d=rng.choice([1, 2, 3]),
             sj=rng.choice([1.0, 0.5, 0.25]), ss=rng.choice([0, 0, 1]))
    peaks = [rng.randint(-3, pos[-1]) for _ in range(rng.randint(2, 4))]
    return dict(P=P, it=1, ref=[float(p) for p in pos], rlen=pos[-1] + 1, qry=[float(x) for x in q], qlen=q[-1] + 1, peaks=peaks,
                rev=rng.random() < 0.5, kind='dense')


def gen_boundary(rng):
    """reference labels exactly at peak-d, peak+qlen+d and one unit beyond (window boundary); labels exactly at distance d / d+1"""
    d = rng.choice([3, 5, 20])
    m = rng.randint(2, 6); q = [0]
    for _ in range(m): q.append(q[-1] + rng.choice([d, d + 1, 2 * d + 1, 2 * d + 2, 3 * d]))
    qlen = q[-1] + 1
    peak = rng.randint(5 * d, 8 * d)
    ref = set()
    for x in q:
        ref.add(peak + x + rng.choice([0, d, -d, d + 1, -d - 1, 1, -1]))
    for e in (peak - d, peak - d - 1, peak - d + 1, peak + qlen + d, peak + qlen + d + 1, peak + qlen + d - 1, peak + qlen - 1 + d):
        if rng.random() < 0.6: ref.add(e)
    ref = sorted(x for x in ref if x >= 0)
    P = dict(sp=10 * d, dp=1.0, su=rng.choice([-d, -2 * d]), ms=rng.choice([10 * d, 5 * d]), bs=12 * d, d=d, sj=1.0, ss=0)
    return dict(P=P, it=1, ref=[float(x) for x in ref], rlen=ref[-1] + 1, qry=[float(x) for x in q], qlen=qlen,
                peaks=[peak] + ([peak + rng.choice([-1, 1, d])] if rng.random() < 0.3 else []), rev=rng.random() < 0.5, kind='boundary')


def gen_folding(rng):
    """two overlapping peaks whose conflicting sub-runs contain unpaired labels of the other sequence and equal label counts,
    so that the prefix/suffix score folding of getReferenceLabels/getQueryLabels decides the merge index"""
    d = 2
    n = rng.randint(6, 12); pos = [0]
    for _ in range(n): pos.append(pos[-1] + rng.choice([3, 4, 5, 6]))
    q = []
    for p in pos[1:-1]:
        r = rng.random()
        if r < 0.15: continue
        q.append(p - pos[1] + rng.choice([0, 0, 1, -1, 2, -2]))
        if rng.random() < 0.25: q.append(q[-1] + rng.choice([1, 2]))
    q = sorted(set(q))
    if len(q) < 3:
        return None
    q0 = q[0]; q = [x - q0 for x in q]
    base = pos[1] + q0
    P = dict(sp=10, dp=rng.choice([1.0, 2.0]), su=rng.choice([-1, -2, -3]), ms=rng.choice([8, 10, 15]), bs=rng.choice([6, 12, 30]), d=d,
             sj=rng.choice([1.0, 0.5]), ss=rng.choice([0, 1]))
    peaks = [base + k for k in rng.sample([-3, -2, -1, 0, 1, 2, 3], rng.randint(2, 3))]
    return dict(P=P, it=1, ref=[float(p) for p in pos], rlen=pos[-1] + 1, qry=[float(x) for x in q], qlen=q[-1] + 1, peaks=peaks,
                rev=rng.random() < 0.5, kind='folding')


def gen_fragment(rng):
    """second-pass style fragments: label-number offset (shift > 0) and a length larger than the fragment's own extent"""
    c = gen_realistic(rng)
    if c is None:
        return None
    k = rng.randint(0, 9)
    c['shift'] = k
    c['qlen'] = c['qlen'] + rng.choice([0, 0, 500, 12000])
    c['kind'] = 'fragment'
    return c


def gen_blocks(rng):
    """query = 2-4 blocks of the reference joined with diagonal jumps larger than maxPairDistance (indels), one seed peak per block
    diagonal (plus noise peaks): chains of several surviving segments that conflict around the junctions"""
    d = rng.choice([1500, 800, 2500])
    n = rng.randint(24, 48)
    step = rng.choice([[300, 500, 700, 1000, 1500, 2000, 3000, 5000], [400, 600, 800], [1000, 1200, 2500], [2000, 3000, 5000, 9000]])
    pos = [0]
    for _ in range(n): pos.append(pos[-1] + rng.choice(step))
    nb = rng.randint(2, 4)
    for _ in range(50):
        cuts = sorted(rng.sample(range(5, n - 4), nb - 1))
        if all(b_ - a_ >= 4 for a_, b_ in zip(cuts, cuts[1:])): break
    else:
        return None
    a = rng.randint(0, max(0, cuts[0] - 5)); b = rng.randint(min(n, cuts[-1] + 5), n)
    bounds = [a] + cuts + [b + 1]
    q = []; diag = []; off = 0
    for k in range(nb):
        if k > 0:
            off += rng.choice([1, 1, 1, -1]) * rng.choice([d + 100, d + 600, 2 * d, 3 * d, d + 1])
        blk = pos[bounds[k]:bounds[k + 1]]
        ov = rng.choice([0, 0, 1, 2])               # repeat the last labels of the previous block on the new diagonal (tandem-like overlap)
        if k > 0 and ov:
            blk = pos[max(0, bounds[k] - ov):bounds[k + 1]]
        for p_ in blk:
            if rng.random() < 0.05: continue
            q.append(p_ - pos[a] + off + rng.choice([0, 0, 0, 100, -100, 200, -200]))
            if rng.random() < 0.05: q.append(q[-1] + rng.choice([300, 900]))
        diag.append(off)
    q = sorted(set(q))
    if len(q) < 4:
        return None
    q0 = q[0]; q = [x - q0 for x in q]
    peaks = [pos[a] + q0 - o + rng.choice([0, 0, 100, -100, 300, -300]) for o in diag]
    for _ in range(rng.randint(0, 2)):
        peaks.append(pos[a] + q0 - rng.choice(diag) + rng.choice([500, -500, 900, -900, 1500, -1500]))
    rng.shuffle(peaks)
    P = dict(DEFAULT, d=d, ss=rng.choice([0, 0, 1]), sj=rng.choice([1.0, 0.5, 0.5, 0.25, 2.0, 0.0]),
             ms=rng.choice([1000, 1000, 500, 2000]), bs=rng.choice([1200, 1200, 600, 2500]))
    return dict(P=P, it=rng.randint(1, 3), ref=[float(x) for x in pos], rlen=pos[-1] + 1, qry=[float(x) for x in q], qlen=q[-1] + 1,
                peaks=peaks, rev=rng.random() < 0.5, kind='blocks')


GENS = dict(blocks=gen_blocks, realistic=gen_realistic, dense=gen_dense, boundary=gen_boundary, folding=gen_folding, fragment=gen_fragment)


def finalize(c, rng):
    """a query meant for the '-' strand is given as its mirror image (the aligner mirrors it back); a fraction is left
    unmirrored on purpose (poorly matching candidates exist in real runs too)"""
    if c['rev'] and rng.random() < 0.85:
        L = c['qlen']
        c['qry'] = [float(L - 1 - x) for x in reversed(c['qry'])]
        if min(c['qry']) < 0:
            return None
    return c


def gen_mix(rng, n, weights):
    out = []
    names = list(weights)
    while len(out) < n:
        k = rng.choices(names, [weights[x] for x in names])[0]
        c = GENS[k](rng)
        if c is not None:
            c = finalize(c, rng)
        if c is not None:
            out.append(c)
    return out


# ------------------------------------------------------------------------------------------------ oracles
def nonempty(segs):
    return [s for s in segs if s[2]]


def seg_pairs(s):
    return [(p[1], p[2]) for p in s[2] if p[0] == 0]


def oracle_valid_row(case, out):
    """C01 on a candidate row: labels exist, one-to-one, strictly ascending reference, strictly monotone query per strand."""
    if 'err' in out:
        return []
    ps = out['pairs']
    errs = []
    nref = len(case['ref']); sh = case.get('shift', 0); nq = len(case['qry'])
    for r, q in ps:
        if not (1 <= r <= nref): errs.append('reference label %d does not exist (map has %d labels)' % (r, nref))
        if not (1 + sh <= q <= nq + sh): errs.append('query label %d does not exist (labels %d..%d)' % (q, 1 + sh, nq + sh))
    for (r1, q1), (r2, q2) in zip(ps, ps[1:]):
        if not r1 < r2: errs.append('reference labels not strictly ascending: %s then %s' % ((r1, q1), (r2, q2)))
        if case['rev'] and not q1 > q2: errs.append("query labels not strictly decreasing on '-': %s then %s" % ((r1, q1), (r2, q2)))
        if not case['rev'] and not q1 < q2: errs.append("query labels not strictly increasing on '+': %s then %s" % ((r1, q1), (r2, q2)))
    return errs[:3]


def oracle_confidence(case, out):
    """C04: confidence and every position score recomputed from the raw maps, the segment's peak and the parameters."""
    if 'err' in out:
        return []
    P = case['P']; errs = []
    ref = case['ref']; qry = case['qry']; sh = case.get('shift', 0); qlen = case['qlen']
    nq = len(qry)

    def qpos(site):      # coordinate as the pairing saw it
        i = site - sh
        return (qlen - 1 - qry[i - 1]) if case['rev'] else qry[i - 1]
    total = 0
    for s in out['segs']:
        peak = s[0] / 10.0
        ssum = 0
        seen_r, seen_q = [], []
        for p in s[2]:
            if p[0] == 0:
                shift = qpos(p[2]) - (ref[p[1] - 1] - peak)
                exp = P['sp'] - P['dp'] * abs(shift)
                if abs(shift) > P['d']: errs.append('pair (%d,%d) is %.1f from the diagonal of peak %s, beyond maxPairDistance %s' % (p[1], p[2], shift, peak, P['d']))
                if r10(shift) != p[3]: errs.append('pair (%d,%d): reported offset %s, recomputed %s' % (p[1], p[2], p[3] / 10.0, shift))
                if r20(exp) != p[4]: errs.append('pair (%d,%d): score %s, expected %s' % (p[1], p[2], p[4] / 20.0, exp))
                seen_r.append(p[1]); seen_q.append(p[2])
            else:
                if p[4] != r20(P['su']): errs.append('unpaired label scored %s, expected %s' % (p[4] / 20.0, P['su']))
                (seen_r if p[0] == 1 else seen_q).append(p[1] if p[0] == 1 else p[2])
            ssum += p[4]
        if ssum != s[1]: errs.append('segment score %s is not the sum %s of its positions' % (s[1] / 20.0, ssum / 20.0))
        total += s[1]
        # no label inside the span unaccounted for, none twice
        if s[2]:
            if len(set(seen_r)) != len(seen_r) or len(set(seen_q)) != len(seen_q): errs.append('a label is counted twice inside a segment')
            if seen_r and sorted(seen_r) != list(range(min(seen_r), max(seen_r) + 1)): errs.append('reference labels inside a segment are not a contiguous range: %s' % sorted(seen_r))
            if seen_q and sorted(seen_q) != list(range(min(seen_q), max(seen_q) + 1)): errs.append('query labels inside a segment are not a contiguous range: %s' % sorted(seen_q))
    if total != out['hdr'][4]: errs.append('confidence %s is not the sum of segment scores %s' % (out['hdr'][4] / 20.0, total / 20.0))
    return errs[:3]


def oracle_resolution(case, out):
    """C15: sub-run / score recomputed / no shared label or crossing / pairs outside the overlap kept."""
    if 'err' in out or 'inputs' not in out:
        return []
    errs = []
    ins = nonempty(out['inputs'])
    outs = nonempty(out['segs'])
    key = lambda p: tuple(p[:3])
    matched = []
    for s in outs:
        ks = [key(p) for p in s[2]]
        found = None
        for i, t in enumerate(ins):
            if t[0] != s[0]: continue
            tk = [key(p) for p in t[2]]
            for a in range(len(tk) - len(ks) + 1):
                if tk[a:a + len(ks)] == ks:
                    found = (i, a); break
            if found: break
        if not found:
            errs.append('output segment (peak %s) is not a contiguous sub-run of an input segment' % (s[0] / 10.0)); continue
        i, a = found
        if [p[4] for p in ins[i][2][a:a + len(ks)]] != [p[4] for p in s[2]]: errs.append('a position was re-scored')
        if sum(p[4] for p in s[2]) != s[1]: errs.append('segment score not recomputed as the sum of what is left')
        matched.append((s, ins[i]))
    # pairs outside every possible overlap are kept: a removed pair of chain member A must lie inside the span conflict with
    # another input segment B that can stand on that side of A in the chain pre-order (key = sum of the four end coordinates)
    ref = case['ref']; qry = case['qry']; sh = case.get('shift', 0); qlen = case['qlen']
    rp = lambda site: ref[site - 1]
    qp = lambda site: (qlen - 1 - qry[site - sh - 1]) if case['rev'] else qry[site - sh - 1]

    def ends(t):
        ps = seg_pairs(t)
        return ps[0], ps[-1]

    def okey(t):
        a, e = ends(t)
        return rp(a[0]) + rp(e[0]) + qp(a[1]) + qp(e[1])
    for s, t in matched:
        kept = set(seg_pairs(s))
        if not seg_pairs(t):
            continue
        for pr_ in seg_pairs(t):
            if pr_ in kept:
                continue
            justified = False
            for b in ins:
                if b is t or not seg_pairs(b):
                    continue
                bs, be = ends(b)
                before_first = rp(pr_[0]) < rp(bs[0]) and qp(pr_[1]) < qp(bs[1])
                after_last = rp(be[0]) < rp(pr_[0]) and qp(be[1]) < qp(pr_[1])
                if (okey(b) >= okey(t) and not before_first) or (okey(b) <= okey(t) and not after_last):
                    justified = True; break
            if not justified:
                errs.append('pair %s of the segment at peak %s was removed although it lies outside every overlap' % (pr_, t[0] / 10.0))
    wp = [s for s in outs if seg_pairs(s)]
    for s1, s2 in itertools.combinations(wp, 2):
        p1, p2 = seg_pairs(s1), seg_pairs(s2)
        if set(a for a, _ in p1) & set(a for a, _ in p2): errs.append('two segments share a reference label')
        if set(b for _, b in p1) & set(b for _, b in p2): errs.append('two segments share a query label')
        if not max(a for a, _ in p1) < min(a for a, _ in p2): errs.append('segments overlap or cross on the reference')
        if case['rev']:
            if not min(b for _, b in p1) > max(b for _, b in p2): errs.append('segments overlap or cross on the query')
        elif not max(b for _, b in p1) < min(b for _, b in p2): errs.append('segments overlap or cross on the query')
    return sorted(set(errs))[:3]

"""Mutation campaign: applies one-token/one-line mutants to a scratch copy of /repo and runs the quick checks of the named properties
against it (COMA_REPO), each with private work/evidence/replay directories.  python -m harness.mutate [name ...]
Results: seeded/campaign.json (which check caught which mutant)."""
import os, sys, json, shutil, subprocess, tempfile, time
VERIF = os.path.dirname(os.path.dirname(os.path.abspath(__file__)))
M = [
    # name, file, old, new, checks expected to notice
    ('pair_bound_lt', 'src/alignment/aligner.py', 'lambda x: x.position <= referencePositionAdjustedToQuery + self.maxDistance', 'lambda x: x.position < referencePositionAdjustedToQuery + self.maxDistance', ['C12', 'C01', 'C04']),
    ('break_lt', 'src/alignment/segments_factory.py', 'self.extendedSegmentScore <= max(0.', 'self.extendedSegmentScore < max(0.', ['C13', 'C15']),
    ('dp_update_ge', 'src/alignment/segment_chainer.py', 'if currentScore > cumulatedScore[i]:', 'if currentScore >= cumulatedScore[i]:', ['C14', 'C15']),
    ('merge_last_max', 'src/alignment/segments.py', 'optimalMergeIndex = np.argmax(totalCumulatedScores)', 'optimalMergeIndex = len(totalCumulatedScores) - 1 - np.argmax(totalCumulatedScores[::-1])', ['C15', 'C01']),
    ('dedupe_order', 'src/alignment/alignment_position.py', 'AlignedPair.__deduplicateByKey(pairs, AlignedPair.querySiteIdSelector),\n            AlignedPair.referenceSiteIdSelector)', 'AlignedPair.__deduplicateByKey(pairs, AlignedPair.referenceSiteIdSelector),\n            AlignedPair.querySiteIdSelector)', ['C12', 'C15']),
    ('drop_worse_ge', 'src/alignment/segments.py', 'if self.leftConflictingSubsegment.segmentScore > self.rightConflictingSubsegment.segmentScore:', 'if self.leftConflictingSubsegment.segmentScore >= self.rightConflictingSubsegment.segmentScore:', ['C15']),
    ('label_choice_inverted', 'src/alignment/segments.py', 'if self.leftConflictingSubsegment.peak.position > self.rightConflictingSubsegment.peak.position:', 'if self.leftConflictingSubsegment.peak.position < self.rightConflictingSubsegment.peak.position:', ['C15']),
    ('accept_ge', 'src/alignment/segments_factory.py', 'if self.extendedSegmentScore > self.currentSegment.segmentScore:', 'if self.extendedSegmentScore >= self.currentSegment.segmentScore:', ['C13']),
    ('half_overlap_le', 'src/alignment/segment_chainer.py', 'queryLength + 2 * queryDistance) < 0:', 'queryLength + 2 * queryDistance) <= 0:', ['C14']),
    ('first_min_last', 'src/alignment/alignment_position.py', 'yield min(ambiguousPairs, key=AlignedPair.distanceSelector)', 'yield min(reversed(list(ambiguousPairs)), key=AlignedPair.distanceSelector)', ['C12']),
    ('minscore_gt', 'src/alignment/segments_factory.py', 'if self.currentSegment.segmentScore >= self.minScore:', 'if self.currentSegment.segmentScore > self.minScore:', ['C13']),
    ('best_end_ge', 'src/alignment/segment_chainer.py', 'if cumulatedScore[i] > cumulatedScore[bestPreviousSegmentIndex]:', 'if cumulatedScore[i] >= cumulatedScore[bestPreviousSegmentIndex]:', ['C14']),
    ('mirror_length', 'src/correlation/optical_map.py', 'moleculeEndPosition = self.length - 1', 'moleculeEndPosition = self.length', ['C12', 'C02', 'C11']),
    ('window_end_minus1', 'src/alignment/aligner.py', 'referenceEndPosition = peak.position + query.length', 'referenceEndPosition = peak.position + query.length - 1', ['C01', 'C04', 'C15']),
    ('sumscore_not_reset', 'src/alignment/segments.py', "                referenceScores.append(position.score + sumScore)\n                sumScore = 0\n            elif isinstance(position, ScoredNotAlignedPosition) \\\n                    and isinstance(position.position, NotAlignedReferencePosition):", "                referenceScores.append(position.score + sumScore)\n            elif isinstance(position, ScoredNotAlignedPosition) \\\n                    and isinstance(position.position, NotAlignedReferencePosition):", ['C15']),
    ('revert_F1', 'src/alignment/alignment_results.py', '        yield AlignmentResultRow.__hitToString(count, previousHit)\n\n    @staticmethod\n    def __hitToString', '        if hit:\n            yield AlignmentResultRow.__hitToString(count, hit)\n\n    @staticmethod\n    def __hitToString', ['C03', 'C01']),
    ('revert_F5', 'src/alignment/segment_chainer.py', 'queryDistance = currentSegment.startPosition.query.position - previousSegment.endPosition.query.position', 'queryDistance = previousSegment.endPosition.query.position - currentSegment.startPosition.query.position \\\n            if currentSegment.reverse \\\n            else currentSegment.startPosition.query.position - previousSegment.endPosition.query.position', ['C14', 'C01', 'C15']),
    # ---- coordinator / multi-pass / files
    ('best_alignment_min', 'src/workflow_coordinator.py', 'key=lambda a: a.confidence, reverse=True)', 'key=lambda a: a.confidence)', ['C05']),
    ('execute_keeps_pairless', 'src/workflow_coordinator.py', 'if a is not None and a.alignedPairs]', 'if a is not None]', ['C01', 'C05', 'C07']),
    ('peaks_count_plus1', 'src/correlation/peaks_selector.py', '[0:self.count]', '[0:self.count + 1]', ['C05', 'C16']),
    ('overlap_lt', 'src/alignment/alignment_results.py', 'if diff <= maxDifference:', 'if diff < maxDifference:', ['C08']),
    ('overlap_no_strand', 'src/alignment/alignment_results.py', 'if self.orientation == alignedRest.orientation and self.referenceId == alignedRest.referenceId:', 'if self.referenceId == alignedRest.referenceId:', ['C08']),
    ('fragment_margin', 'src/alignment/alignment_results.py', 'positions1 = query.positions[: query.positions.index(self.queryStartPosition) + 3]', 'positions1 = query.positions[: query.positions.index(self.queryStartPosition) + 2]', ['C02', 'C08', 'C05']),
    ('fragment_min_labels', 'src/alignment/alignment_results.py', 'if len(positions1) >= 7 and len(positions2) >= 7:', 'if len(positions1) > 7 and len(positions2) > 7:', ['C08', 'C05', 'C02']),
    ('coverage_test_09', 'src/alignment/alignment_results.py', '> 0.8 * self.queryLength', '> 0.9 * self.queryLength', ['C08', 'C05']),
    ('fragment_shift_zero', 'src/alignment/alignment_results.py', "shift=len(query.positions) - len(positions2))]\n                else:", "shift=0)]\n                else:", ['C02', 'C01']),
    ('all_mode_files_swapped', 'src/multi_pass_workflow_coordinator.py', "            self.saveAdditionalOutput(filteredFirstPassRows, 1)\n            self.saveAdditionalOutput(filteredSecondPassRows, 2)", "            self.saveAdditionalOutput(filteredSecondPassRows, 1)\n            self.saveAdditionalOutput(filteredFirstPassRows, 2)", ['C08']),
    ('rest_flag_dropped', 'src/multi_pass_workflow_coordinator.py', 'alignmentResultRowRest.setAlignedRest(True)', 'alignmentResultRowRest', ['C08']),
    ('row_create_first_last_swapped', 'src/alignment/alignment_results.py', 'queryStartPosition = (firstPair if not reverseStrand else lastPair).query.position', 'queryStartPosition = (firstPair if reverseStrand else lastPair).query.position', ['C02', 'C11']),
    ('confidence_max', 'src/alignment/alignment_results.py', 'confidence = sum(s.segmentScore for s in segments)', 'confidence = max([s.segmentScore for s in segments] + [0])', ['C04']),
    ('writer_one_decimal_conf', 'src/parsers/xmap_reader.py', '"Confidence": "{:.2f}".format(row.confidence),', '"Confidence": "{:.1f}".format(row.confidence),', ['C18', 'C04']),
    ('writer_pairs_swapped', 'src/parsers/xmap_reader.py', 'f"({pair.reference.siteId},{pair.query.siteId})"', 'f"({pair.query.siteId},{pair.reference.siteId})"', ['C18', 'C01', 'C02']),
    ('cmap_no_sort', 'src/parsers/cmap_reader.py', 'positions = labelSites["Position"].sort_values().tolist()', 'positions = labelSites["Position"].tolist()', ['C17', 'C10']),
    ('trim_plus1_dropped', 'src/correlation/optical_map.py', 'self.positions[-1] - self.positions[0] + 1,', 'self.positions[-1] - self.positions[0],', ['C17', 'C02']),
    ('vectorise_ge', 'src/correlation/vectorise.py', 'while position >= window_end:', 'while position > window_end:', ['C16']),
    ('bin_centre_floor', 'src/correlation/optical_map.py', 'resolutionAdjustment = ceil(resolution / 2) - 1', 'resolutionAdjustment = resolution // 2', ['C16']),
    ('wiring_ms_bs', 'src/workflow_coordinator_factory.py', 'AlignmentSegmentsFactory(self.args.minScore, self.args.breakSegmentThreshold)', 'AlignmentSegmentsFactory(self.args.breakSegmentThreshold, self.args.minScore)', ['C04']),
    ('unordered_map', 'src/workflow_coordinator.py', 'from p_tqdm import p_imap', 'from p_tqdm import p_uimap as p_imap', ['C09']),
    ('indel_blur_lt', 'sv/write_indel_files.py', 'if abs(line[3] - new_list[-1][3]) <= blur:', 'if abs(line[3] - new_list[-1][3]) < blur:', ['C20']),
    ('comparer_overlap_ge', 'src/diagnostic/alignment_comparer.py', 'return self.identity > 0.', 'return self.identity >= 0.', ['C19']),
]


def run(names):
    res_path = os.path.join(VERIF, 'seeded', 'campaign.json')
    os.makedirs(os.path.dirname(res_path), exist_ok=True)
    results = json.load(open(res_path)) if os.path.exists(res_path) else {}
    for name, fn, old, new, checks in M:
        if names and name not in names:
            continue
        tmp = tempfile.mkdtemp(prefix='mut_', dir='/tmp')
        try:
            repo = os.path.join(tmp, 'repo')
            subprocess.run(['git', '-C', '/repo', 'worktree', 'add', '--detach', repo, 'HEAD', '-q'], check=True)
            p = os.path.join(repo, fn)
            s = open(p).read()
            assert s.count(old) >= 1, (name, 'pattern not found')
            open(p, 'w').write(s.replace(old, new, 1))
            t = subprocess.run(['/venv/bin/python', '-m', 'pytest', '-q', '-p', 'no:cacheprovider', '--timeout=900'], cwd=repo, stdout=subprocess.PIPE, stderr=subprocess.STDOUT, timeout=600)
            tests = t.stdout.decode().strip().splitlines()[-1]
            r = dict(tests=tests, checks={})
            for c in checks:
                if not os.path.exists(os.path.join(VERIF, 'harness', 'props', c + '.py')) or not os.path.exists(os.path.join(VERIF, 'coq', 'props', c + '.v')):
                    r['checks'][c] = 'check not available'; continue
                env = dict(os.environ, COMA_REPO=repo, COMA_WORK=os.path.join(tmp, 'work'), COMA_EVIDENCE=os.path.join(tmp, 'ev'), COMA_REPLAYS=os.path.join(tmp, 'rp'))
                t0 = time.time()
                q = subprocess.run([os.path.join(VERIF, 'check'), c], env=env, stdout=subprocess.PIPE, stderr=subprocess.STDOUT, timeout=1500)
                out = q.stdout.decode()
                kinds = sorted(set(l.split(':')[0] for l in out.splitlines() if l.startswith(('property-violated', 'correspondence-', 'proof-'))))
                r['checks'][c] = dict(rc=q.returncode, kinds=kinds, wall=round(time.time() - t0), first=[l[:200] for l in out.splitlines() if l.startswith('property-violated')][:1])
            results[name] = r
            print(name, '|', tests, '|', {c: (v if isinstance(v, str) else (v['rc'], v['kinds'])) for c, v in r['checks'].items()}, flush=True)
            json.dump(results, open(res_path, 'w'), indent=1)
        finally:
            subprocess.run(['git', '-C', '/repo', 'worktree', 'remove', '--force', os.path.join(tmp, 'repo')])
            shutil.rmtree(tmp, ignore_errors=True)


if __name__ == '__main__':
    run(sys.argv[1:])

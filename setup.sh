#!/bin/bash
# builds the Coq development (full .vo build) from files on disk; offline
set -e
cd "$(dirname "$0")"
export PYTHONPATH="${COMA_REPO:-/repo}:$(pwd)" PYTHONHASHSEED=0 PYTHONDONTWRITEBYTECODE=1
timeout 3000 /venv/bin/python -c "
from harness import common
ok, log = common.coq_build()
print(log[-3000:])
raise SystemExit(0 if ok else 1)"

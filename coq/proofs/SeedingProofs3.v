(* Seeding.mean_square is exactly the mean of the squares of the non-zero samples (the grouping by denominators and the addition over
   the least common denominator are only an evaluation strategy); the same-correlation shortcut of score_leb agrees with le_sqrt. *)
From Coq Require Import ZArith QArith List Bool Lia Lqa.
Import ListNotations.
Require Import Py Seeding FindPeaks FindPeaksProofs4.
Open Scope Z_scope.

(* the plain sum of squares *)
Definition sum_sq (c : list Q) : Q := fold_right (fun v a => (v * v + a)%Q) 0%Q c.
(* the value of a list of groups (denominator d, sum of squared numerators n): sum of n / d^2 *)
Definition groups_val (g : list (positive * Z)) : Q := fold_right (fun e a => (Qmake (snd e) (fst e * fst e) + a)%Q) 0%Q g.

Lemma group_add_val d n : forall g, (groups_val (group_add d n g) == Qmake n (d * d) + groups_val g)%Q.
Proof. induction g as [|[d' n'] t IH]; cbn [group_add groups_val fold_right fst snd]; [reflexivity|]. destruct (Pos.eqb d d') eqn:E.
  - apply Pos.eqb_eq in E. subst d'. cbn [groups_val fold_right fst snd]. fold (groups_val t).
    assert (H : (Qmake (n' + n) (d * d) == Qmake n (d * d) + Qmake n' (d * d))%Q) by (unfold Qeq, Qplus; cbn [Qnum Qden]; nia).
    rewrite H. ring.
  - cbn [groups_val fold_right fst snd]. fold (groups_val t) (groups_val (group_add d n t)). rewrite IH. ring. Qed.

Lemma square_as_group (v : Q) : (v * v == Qmake (Qnum v * Qnum v) (Qden v * Qden v))%Q.
Proof. destruct v as [a b]. unfold Qeq, Qmult. cbn [Qnum Qden]. reflexivity. Qed.

Lemma groups_of_val : forall c g, (groups_val (fold_left (fun g v => group_add (Qden v) (Qnum v * Qnum v) g) c g) == sum_sq c + groups_val g)%Q.
Proof. induction c as [|v c IH]; intros g; cbn [fold_left sum_sq fold_right]; [ring|]. rewrite IH, group_add_val. fold (sum_sq c). rewrite (square_as_group v). ring. Qed.

Lemma add_lcm_val acc g : (add_lcm acc g == acc + Qmake (snd g) (fst g * fst g))%Q.
Proof. destruct acc as [a b], g as [d n]. unfold add_lcm. cbn [Qnum Qden fst snd]. set (d2 := Zpos (d * d)). set (k := Z.gcd (Zpos b mod d2) d2).
  assert (Hk : k = Z.gcd d2 (Zpos b)) by (unfold k; apply Z.gcd_mod; unfold d2; discriminate).
  assert (Hkpos : 0 < k). { rewrite Hk. assert (H := Z.gcd_nonneg d2 (Zpos b)). assert (Z.gcd d2 (Zpos b) <> 0); [|lia]. intros E. apply Z.gcd_eq_0_l in E. unfold d2 in E. discriminate. }
  destruct (Z.gcd_divide_l d2 (Zpos b)) as (d2' & Hd). destruct (Z.gcd_divide_r d2 (Zpos b)) as (b' & Hb). rewrite <- Hk in Hd, Hb.
  assert (Ed : d2 / k = d2') by (rewrite Hd; apply Z.div_mul; lia). assert (Eb : Zpos b / k = b') by (rewrite Hb; apply Z.div_mul; lia).
  rewrite Ed, Eb. assert (Hd2' : 0 < d2') by (unfold d2 in Hd; nia). 
  unfold Qeq, Qplus. cbn [Qnum Qden]. rewrite Z2Pos.id by nia. fold d2. rewrite Pos2Z.inj_mul. fold d2. rewrite Hd, Hb. ring. Qed.

Lemma fold_add_lcm_val : forall g acc, (fold_left add_lcm g acc == acc + groups_val g)%Q.
Proof. induction g as [|e t IH]; intros acc; cbn [fold_left groups_val fold_right]; [ring|]. rewrite IH, add_lcm_val. fold (groups_val t). ring. Qed.

Theorem sum_squares_spec c : (sum_squares c == sum_sq c)%Q.
Proof. unfold sum_squares. rewrite fold_add_lcm_val, groups_of_val. cbn [groups_val fold_right]. ring. Qed.

(* np.mean(array[array != 0] ** 2) *)
Theorem mean_square_spec c : let nz := filter (fun v => negb (Qeq_bool v 0)) c in
  (mean_square c == sum_sq nz / inject_Z (Z.of_nat (length nz)))%Q.
Proof. cbv zeta. unfold mean_square. rewrite Qred_correct, sum_squares_spec. reflexivity. Qed.

(* ---- peaks of one correlation (equal mean squares) are ordered by height: the first shortcut of score_leb is the plain test ---- *)
Lemma qle_bool_false x y : Qle_bool x y = false <-> (y < x)%Q.
Proof. split; intros H.
  - apply Qnot_le_lt. intros H'. apply Qle_bool_iff in H'. congruence.
  - destruct (Qle_bool x y) eqn:E; [|reflexivity]. apply Qle_bool_iff in E. exfalso. apply (Qlt_not_le _ _ H E). Qed.

Theorem le_sqrt_same d B : (0 <= B)%Q -> le_sqrt d B B = Qle_bool d 0.
Proof. intros HB. unfold le_sqrt. destruct (Qle_bool d 0) eqn:Ed.
  - apply Qle_bool_iff in Ed. cbn [andb]. destruct (Qle_bool B (d * d)) eqn:E1; [reflexivity|]. apply qle_bool_false in E1.
    destruct (Qle_bool 0 d) eqn:E2.
    + apply Qle_bool_iff in E2. assert (Hd : (d == 0)%Q) by (apply Qle_antisym; assumption).
      apply andb_true_iff. split; apply Qle_bool_iff; rewrite Hd; [ring_simplify; apply Qle_refl | ring_simplify; apply Qle_refl].
    + apply orb_true_iff. right. apply Qle_bool_iff. nra.
  - apply qle_bool_false in Ed. cbn [andb]. destruct (Qle_bool 0 d) eqn:E2; [|apply qle_bool_false in E2; lra].
    apply andb_false_iff. left. apply qle_bool_false. nra. Qed.

Theorem score_leb_same_correlation a b : (0 <= pp_noise2 a)%Q -> pp_noise2 a = pp_noise2 b ->
  score_leb a b = score_leb_spec a b /\ score_leb a b = Qle_bool (pp_height a) (pp_height b).
Proof. intros Hn E. unfold score_leb, score_leb_spec. rewrite <- E, Z.eqb_refl, Pos.eqb_refl. cbn [andb].
  rewrite (le_sqrt_same _ _ Hn), qleb_spec. split; [|reflexivity].
  destruct (Qle_bool (pp_height a) (pp_height b)) eqn:E1; symmetry.
  - apply Qle_bool_iff in E1. apply Qle_bool_iff. lra.
  - apply qle_bool_false in E1. apply qle_bool_false. lra. Qed.

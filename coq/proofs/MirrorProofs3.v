(* C11, part 3: Aligner.align of the mirror image, the result row, the HitEnum string. *)
From Coq Require Import ZArith QArith List Bool Lia.
Import ListNotations.
Require Import Py PyProofs Pairing Core Multi Cigar MirrorProofs1 MirrorProofs2.
Open Scope Z_scope.

(* the no-tie hypothesis for every seed peak (window = [peak, peak + query length], aligner.py getSegments) *)
Definition peaks_no_ties (P : params) (reference q : omap) (peaks : list Z) (reverse : bool) : Prop :=
  forall p, In p peaks -> no_ties (DMAX P) reference q p (p + mlen q) reverse.

(* query labels of a scored position carry a label number of q *)
Definition qsite_ok (q : omap) (p : spos) : Prop :=
  match ap p with Pair _ x _ _ => in_range q (site x) | UQry x _ => in_range q (site x) | URef _ => True end.

Lemma ren_seg_ext_in (f g : Z -> Z) s :
  (forall p, In p (positions s) -> match ap p with Pair _ x _ _ => f (site x) = g (site x) | UQry x _ => f (site x) = g (site x) | URef _ => True end) ->
  ren_seg f s = ren_seg g s.
Proof. intros H. unfold ren_seg. f_equal. apply map_ext_in. intros p Hp. specialize (H p Hp). unfold ren_spos. f_equal.
  destruct (ap p); cbn; unfold ren_label; try rewrite H; reflexivity. Qed.

Section Align.
Variables (P : params) (reference q : omap).
Hypothesis Hs : 0 <= mshift q.
Notation M := (msum q).

Lemma map_score_ren f l : map (score_pos P) (map (ren_apos f) l) = map (ren_spos f) (map (score_pos P) l).
Proof. rewrite !map_map. apply map_ext. intros a. apply score_pos_ren. Qed.

Lemma peak_segments_mirror it peak b : no_ties (DMAX P) reference q peak (peak + mlen q) b ->
  get_segments_for_peak P it reference (mirror_map q) peak (negb b)
  = map (ren_seg (renum M)) (get_segments_for_peak P it reference q peak b).
Proof. intros H. unfold get_segments_for_peak. change (mlen (mirror_map q)) with (mlen q).
  rewrite (engine_mirror_renum _ _ _ _ _ _ Hs b H), map_score_ren. apply get_segments_ren. Qed.

Lemma segs_for_peaks_mirror b peaks : forall it, peaks_no_ties P reference q peaks b ->
  segs_for_peaks P it reference (mirror_map q) peaks (negb b)
  = map (ren_seg (renum M)) (segs_for_peaks P it reference q peaks b).
Proof. induction peaks as [|p t IH]; intros it H; [reflexivity|]. cbn [segs_for_peaks]. rewrite map_app.
  rewrite (peak_segments_mirror it p b (H p (or_introl eq_refl))), IH; [reflexivity|]. intros p' Hp'. apply H. right. exact Hp'. Qed.

Theorem align_mirror_renum it peaks b : peaks_no_ties P reference q peaks b ->
  aligner_align P it reference (mirror_map q) peaks (negb b)
  = map_res (map (ren_seg (renum M))) (aligner_align P it reference q peaks b).
Proof. intros H. unfold aligner_align. rewrite (segs_for_peaks_mirror b peaks it H).
  apply (resolve_conflicts_ren (renum M) (renum_inj M) (renum_0 M)). Qed.

(* every query label in the segments is a label of q *)
Lemma engine_qsite_ok d it start stop b a : In a (align_engine d it reference q start stop b) -> qsite_ok q (score_pos P a).
Proof. rewrite align_engine_core. intros Ha. apply engine_core_qlabels in Ha. unfold qsite_ok.
  destruct a as [r x s src|r|x st]; cbn [score_pos ap]; [| exact Logic.I |]; apply (positions_sites q b x Ha). Qed.
Lemma segs_for_peaks_ok b peaks : forall it, segsQ (qsite_ok q) (segs_for_peaks P it reference q peaks b).
Proof. induction peaks as [|p t IH]; intros it s Hs'; [destruct Hs'|]. cbn [segs_for_peaks] in Hs'. apply in_app_iff in Hs'.
  destruct Hs' as [H|H]; [|apply (IH _ _ H)]. unfold get_segments_for_peak in H.
  apply (get_segments_Q (qsite_ok q) P _ p) in H; [exact H|]. intros x Hx. apply in_map_iff in Hx. destruct Hx as (a & <- & Ha).
  apply (engine_qsite_ok _ _ _ _ _ _ Ha). Qed.
Theorem align_sites_ok it peaks b segs : aligner_align P it reference q peaks b = Ok segs -> segsQ (qsite_ok q) segs.
Proof. unfold aligner_align. intros H. apply (resolve_conflicts_Q (qsite_ok q) P _ _ H). apply segs_for_peaks_ok. Qed.

Lemma ren_seg_renum_flip s : segQ (qsite_ok q) s -> ren_seg (renum M) s = ren_seg (flip M) s.
Proof. intros H. apply ren_seg_ext_in. intros p Hp. specialize (H p Hp). unfold qsite_ok in H.
  destruct (ap p); try exact Logic.I; apply renum_in_range; assumption. Qed.

(* Aligner.align of the mirror image on the opposite strand = the same segments (same positions in the same order, same
   scores, same peaks) with query label k renumbered to msum q - k (= N + 1 - k for a whole molecule) *)
Theorem align_mirror_gen it peaks b : peaks_no_ties P reference q peaks b ->
  aligner_align P it reference (mirror_map q) peaks (negb b)
  = map_res (map (ren_seg (flip M))) (aligner_align P it reference q peaks b).
Proof. intros H. rewrite (align_mirror_renum it peaks b H). apply map_res_ext. intros segs E.
  apply map_ext_in. intros s Hs'. apply ren_seg_renum_flip. apply (align_sites_ok it peaks b segs E s Hs'). Qed.
End Align.

(* ---------- AlignmentResultRow.create ---------- *)
Section Row.
Variable f : Z -> Z.
Lemma pair_rpos_ren p : pair_rpos (ren_spos f p) = pair_rpos p.
Proof. destruct p as [[r x s src|r|x st] c]; reflexivity. Qed.
Lemma row_pairs_ren segs : row_pairs (map (ren_seg f) segs) = map (ren_spos f) (row_pairs segs).
Proof. unfold row_pairs. induction segs as [|s t IH]; [reflexivity|]. cbn [map flat_map]. rewrite map_app, IH. f_equal.
  unfold aligned, ren_seg. cbn [positions]. rewrite filter_map'. f_equal. apply filter_ext. intros p. apply is_pair_ren. Qed.
Lemma pv_of_ren_coords p : lpos (pq (pv_of (ren_spos f p))) = lpos (pq (pv_of p)) /\ pr (pv_of (ren_spos f p)) = pr (pv_of p).
Proof. destruct p as [[r x s src|r|x st] c]; split; reflexivity. Qed.
Lemma conf_ren segs : forall a, fold_left (fun a s => a + sscore s) (map (ren_seg f) segs) a = fold_left (fun a s => a + sscore s) segs a.
Proof. induction segs as [|s t IH]; intros a; [reflexivity|]. cbn. apply IH. Qed.

(* the row built from renumbered segments: only the segments differ; all header fields (coordinates, confidence) are equal *)
Theorem row_create_ren segs qi ri ql rl b :
  let w := row_create segs qi ri ql rl b in
  row_create (map (ren_seg f) segs) qi ri ql rl b
  = mkRow (map (ren_seg f) segs) (qid w) (rid w) (qlen w) (rlen w) (qs w) (qe w) (rs w) (re w) (rrev w) (conf w) (rest w).
Proof. cbn zeta. unfold row_create. cbn [qid rid qlen rlen qs qe rs re rrev conf rest].
  rewrite row_pairs_ren, (sort_by_mapk (ren_spos f) pair_rpos pair_rpos pair_rpos_ren), <- map_rev, conf_ren.
  set (srt := sort_by pair_rpos (row_pairs segs)).
  assert (E1 : forall l : list spos, lpos (pq (match map (ren_spos f) l with [] => null_pv | p :: _ => pv_of p end)) = lpos (pq (match l with [] => null_pv | p :: _ => pv_of p end))
                                     /\ pr (match map (ren_spos f) l with [] => null_pv | p :: _ => pv_of p end) = pr (match l with [] => null_pv | p :: _ => pv_of p end)).
  { intros [|p t]; [split; reflexivity | apply pv_of_ren_coords]. }
  destruct (E1 srt) as (A1 & A2), (E1 (rev srt)) as (B1 & B2).
  destruct b; rewrite ?A1, ?A2, ?B1, ?B2; reflexivity. Qed.
End Row.

(* the same segments read as a '-' row instead of a '+' row: QryStartPos and QryEndPos exchange, everything else is kept *)
Lemma row_create_strand segs qi ri ql rl :
  let w := row_create segs qi ri ql rl false in let w' := row_create segs qi ri ql rl true in
  qs w' = qe w /\ qe w' = qs w /\ rs w' = rs w /\ re w' = re w /\ conf w' = conf w /\ rsegs w' = rsegs w.
Proof. cbn. repeat split; reflexivity. Qed.

(* ---------- HitEnum ---------- *)
Definition row_site_pairs (segs : list segment) : list (Z * Z) :=
  map (fun p => let v := pv_of p in (site (pr v), site (pq v))) (row_pairs segs).
Definition flipq (M : Z) (rq : Z * Z) : Z * Z := (fst rq, flip M (snd rq)).

Lemma row_pairs_are_pairs segs p : In p (row_pairs segs) -> is_pair p = true.
Proof. unfold row_pairs. rewrite in_flat_map. intros (s & _ & H). unfold aligned in H. apply filter_In in H. tauto. Qed.
Lemma row_site_pairs_ren f segs :
  row_site_pairs (map (ren_seg f) segs) = map (fun rq => (fst rq, f (snd rq))) (row_site_pairs segs).
Proof. unfold row_site_pairs. rewrite row_pairs_ren, !map_map. apply map_ext_in. intros p Hp. apply row_pairs_are_pairs in Hp.
  destruct p as [[r x s src|r|x st] c]; try discriminate. reflexivity. Qed.

Section Cig.
Variable M : Z.
Notation g := (flipq M).
Lemma dedup_last_flip ps : dedup_last (map g ps) = map g (dedup_last ps).
Proof. induction ps as [|p t IH]; [reflexivity|]. cbn [map dedup_last]. destruct t as [|p' t']; [reflexivity|].
  cbn [map] in *. unfold flipq at 1 2. cbn [snd]. unfold flip at 1 2.
  replace (M - snd p =? M - snd p') with (snd p =? snd p') by (destruct (Z.eqb_spec (snd p) (snd p')), (Z.eqb_spec (M - snd p) (M - snd p')); lia).
  destruct (snd p =? snd p'); [exact IH|]. cbn [map]. f_equal. exact IH. Qed.
Lemma loop_flip fuel : forall idx cur rest prevq,
  loop fuel idx (option_map g cur) (map g rest) (flip M prevq) = loop fuel idx cur rest prevq.
Proof. induction fuel as [|n IH]; intros idx cur rest prevq; [reflexivity|]. cbn [loop]. destruct cur as [[cr cq]|]; cbn [option_map]; [|reflexivity].
  unfold flipq at 1. cbn [fst snd].
  assert (Habs : Z.abs (flip M cq - flip M prevq) = Z.abs (cq - prevq)) by (unfold flip; lia). rewrite !Habs.
  assert (E : (if 1 <? Z.abs (cq - prevq) then flip M cq else flip M prevq) = flip M (if 1 <? Z.abs (cq - prevq) then cq else prevq)) by (destruct (1 <? Z.abs (cq - prevq)); reflexivity).
  rewrite !E.
  assert (E1 : match map g rest with [] => None | p :: _ => Some p end = option_map g (match rest with [] => None | p :: _ => Some p end)) by (destruct rest; reflexivity).
  assert (E2 : tl (map g rest) = map g (tl rest)) by (destruct rest; reflexivity).
  rewrite E1, E2. change (Some (g (cr, cq))) with (option_map g (Some (cr, cq))). rewrite !IH. reflexivity. Qed.
Lemma last_map_flip ps d : last (map g ps) (g d) = g (last ps d).
Proof. induction ps as [|p t IH]; [reflexivity|]. cbn [map last]. destruct t; [reflexivity|]. exact IH. Qed.
Lemma hit_enums_flip ps : hit_enums (map g ps) = hit_enums ps.
Proof. destruct ps as [|[r0 q0] rest]; [reflexivity|]. unfold hit_enums. cbn [map].
  change (g (r0, q0)) with (r0, flip M q0). cbv iota beta.
  change ((r0, flip M q0) :: map g rest) with (map g ((r0, q0) :: rest)). change (r0, flip M q0) with (g (r0, q0)).
  rewrite last_map_flip. cbn [flipq fst].
  apply (loop_flip _ r0 (Some (r0, q0)) rest q0). Qed.
(* the HitEnum string only sees reference label numbers and |query increment| *)
Theorem cigar_runs_flip ps : cigar_runs (map g ps) = cigar_runs ps.
Proof. unfold cigar_runs. destruct ps as [|p t]; [reflexivity|]. cbn [map]. change (g p :: map g t) with (map g (p :: t)).
  rewrite dedup_last_flip, hit_enums_flip. reflexivity. Qed.
Theorem cigar_string_flip ps : cigar_string (map g ps) = cigar_string ps.
Proof. unfold cigar_string. rewrite cigar_runs_flip. reflexivity. Qed.
End Cig.

Theorem cigar_ren_seg M segs : cigar_string (row_site_pairs (map (ren_seg (flip M)) segs)) = cigar_string (row_site_pairs segs).
Proof. rewrite row_site_pairs_ren. apply (cigar_string_flip M). Qed.

(* ---------- assembled statements ---------- *)
Theorem lattice_peaks_no_ties step P reference q peaks b :
  0 <= DMAX P -> 2 * DMAX P < step ->
  Sorted.StronglySorted Z.lt (mpositions reference) -> Sorted.StronglySorted Z.lt (mpositions q) ->
  on_lattice step (mpositions reference) -> on_lattice step (mpositions q) -> (b = true -> (step | mlen q - K)) ->
  peaks_no_ties P reference q peaks b.
Proof. intros Hd Hst Hr Hq Lr Lq Ll p _. apply (lattice_no_ties step); assumption. Qed.

Theorem mirror_row P it reference q peaks segs qi qi' ri ql rl :
  0 <= mshift q -> peaks_no_ties P reference q peaks false ->
  aligner_align P it reference q peaks false = Ok segs ->
  let segs' := map (ren_seg (flip (msum q))) segs in
  aligner_align P it reference (mirror_map q) peaks true = Ok segs' /\
  let w := row_create segs qi ri ql rl false in
  let w' := row_create segs' qi' ri ql rl true in
  rs w' = rs w /\ re w' = re w /\ conf w' = conf w /\ qs w' = qe w /\ qe w' = qs w /\ rrev w = false /\ rrev w' = true /\
  cigar_string (row_site_pairs segs') = cigar_string (row_site_pairs segs) /\
  row_site_pairs segs' = map (flipq (msum q)) (row_site_pairs segs).
Proof. intros Hs Hn E. cbn zeta. split.
  - change true with (negb false). rewrite (align_mirror_gen P reference q Hs it peaks false Hn), E. reflexivity.
  - rewrite (row_create_ren (flip (msum q)) segs qi' ri ql rl true). cbn [rs re conf qs qe rrev].
    repeat split; try reflexivity; [apply cigar_ren_seg | apply row_site_pairs_ren]. Qed.

Theorem mirror_align_error P it reference q peaks :
  0 <= mshift q -> peaks_no_ties P reference q peaks false ->
  aligner_align P it reference q peaks false = Err -> aligner_align P it reference (mirror_map q) peaks true = Err.
Proof. intros Hs Hn E. change true with (negb false). rewrite (align_mirror_gen P reference q Hs it peaks false Hn), E. reflexivity. Qed.

Theorem align_mirror_lattice step P it reference q peaks :
  0 <= mshift q -> 0 <= DMAX P -> 2 * DMAX P < step ->
  Sorted.StronglySorted Z.lt (mpositions reference) -> Sorted.StronglySorted Z.lt (mpositions q) ->
  on_lattice step (mpositions reference) -> on_lattice step (mpositions q) ->
  aligner_align P it reference (mirror_map q) peaks true
  = map_res (map (ren_seg (flip (msum q)))) (aligner_align P it reference q peaks false).
Proof. intros Hs Hd Hst Hr Hq Lr Lq. apply (align_mirror_gen P reference q Hs it peaks false).
  apply (lattice_peaks_no_ties step); try assumption. discriminate. Qed.

(* The planted grid-aligned copy yields a primary peak (C06_true_lag_yields_seed): COMA's primary find_peaks call on the exact normalised
   correlation of a planted copy returns a peak of height exactly 1 (the maximum) that is the midpoint of the plateau containing the true
   lag, or closer than the peak distance to it; wherever the normalised correlation is 1 — on that plateau and at every such peak — the
   reference window is bit for bit the query vector. *)
From Coq Require Import ZArith QArith List Bool Lia Sorting.Sorted.
Import ListNotations.
Require Import Py Vec Peaks Correlate Pairing FindPeaks DPProofs ResolverProofs1 FindPeaksProofs1 FindPeaksProofs2 FindPeaksProofs3 FindPeaksProofs4
  CorrelateProofs1 CorrelateProofs3 CorrelateProofs4 PlantedProofs2.
Open Scope nat_scope.

Lemma zipq_length xs : forall fs, length (zipq xs fs) = Nat.min (length xs) (length fs).
Proof. induction xs as [|x xs IH]; intros [|f fs]; cbn [zipq length Nat.min]; try reflexivity. rewrite IH. reflexivity. Qed.
Lemma normalised_length ref q : length (normalised ref q) = length ref - length q + 1.
Proof. unfold normalised, norm_factor. rewrite zipq_length, map_length, norm2_length, xcorr_length. lia. Qed.

(* a normalised sample equal to 1 sits on an identical window *)
Lemma normalised_1_window ref q k : is01 ref -> is01 q -> length q <= length ref -> k <= length ref - length q -> (0 < vsum q)%Z ->
  (nth k (normalised ref q) 0 == 1)%Q -> window ref k (length q) = q.
Proof. intros Hr Hq Hl Hk Hp E. destruct (list_eq_dec Z.eq_dec (window ref k (length q)) q) as [H|H]; [exact H|]. exfalso.
  assert (Hn : (0 < nth k (norm2 ref q) 0)%Z). { rewrite norm2_nth by exact Hk. pose proof (vsum_nonneg _ (is01_firstn (length q) _ (is01_skipn k _ Hr))). unfold window. lia. }
  pose proof (normalised_lt_1 ref q k Hr Hq Hl Hk Hn H) as Hlt. rewrite E in Hlt. apply (Qlt_irrefl _ Hlt). Qed.

Theorem planted_yields_peak R a n res r k0 (rev_ : bool) q d :
  (1 <= res)%Z -> StronglySorted Z.le R -> 1 <= n -> a + n <= length R ->
  planted R a n rev_ q -> nth a R 0%Z = (Z.of_nat k0 * res)%Z ->
  (rev_ = true -> Forall (fun x => (res | x - nth a R 0)%Z) (win R a n)) ->
  let vr := get_sequence R res r false 0 None in
  let vq := get_sequence (mpositions q) res r rev_ 0 None in
  let c := normalised vr vq in
  (exists a', a' < k0 /\ (nth a' c 0 < 1)%Q) ->
  (exists b', k0 < b' <= length vr - length vq /\ (nth b' c 0 < 1)%Q) ->
  exists l r', l <= k0 <= r' /\ is_peak qleb 0%Q c l r' /\
    (forall k, l <= k <= r' -> (nth k c 0 == 1)%Q /\ window vr k (length vq) = vq) /\
    (forall p, In p (find_peaks_initial c d) -> (snd p <= 1)%Q) /\
    exists m' h', In (m', h') (find_peaks_initial c d) /\ (h' == 1)%Q /\ window vr m' (length vq) = vq /\
      (m' = Nat.div2 (l + r') \/ (m' - Nat.div2 (l + r') < d /\ Nat.div2 (l + r') - m' < d)).
Proof. intros Hres HsR Hn Han Hp Hoff Hl vr vq c Hleft Hright.
  destruct (planted_seed_true_lag R a n res r k0 rev_ q Hres HsR Hn Han Hp Hoff Hl) as (L2 & L1 & _ & Hpos & _). fold vr vq in L1, L2, Hpos.
  destruct (planted_seed_normalised R a n res r k0 rev_ q Hres HsR Hn Han Hp Hoff Hl) as (_ & E1 & Hmax). fold vr vq c in E1, Hmax.
  assert (Hvr : is01 vr) by apply get_sequence_is01. assert (Hvq : is01 vq) by apply get_sequence_is01.
  assert (Hlen : length c = length vr - length vq + 1) by apply normalised_length.
  assert (Hle1 : forall k, k < length c -> (nth k c 0 <= 1)%Q). { intros k Hk. rewrite <- E1. apply Hmax. lia. }
  destruct (find_peaks_initial_global_max c d k0 ltac:(lia)) as (l & r' & Hlr & Hpk & Hplat & _ & m' & h' & Hin & Hv & Eh & Hnear).
  { intros k Hk. apply Hmax. lia. }
  { rewrite E1. discriminate. }
  { destruct Hleft as (a' & H1 & H2). exists a'. split; [exact H1 | rewrite E1; exact H2]. }
  { destruct Hright as (b' & H1 & H2). exists b'. split; [lia | rewrite E1; exact H2]. }
  assert (Hfound : forall p, In p (find_peaks_initial c d) -> fst p < length c /\ snd p = nth (fst p) c 0%Q).
  { intros [mp hp] Hp'. pose proof (Sub_in _ _ _ (find_peaks_ord_sub qleb _ _ _ c) Hp') as Hlm.
    destruct (local_maxima_inside qleb qleb_total qleb_trans 0%Q c mp hp Hlm) as (_ & H2 & H3 & _). cbn [fst snd]. split; [lia | exact H3]. }
  exists l, r'. split; [exact Hlr|]. split; [exact Hpk|]. split.
  { intros k Hk. destruct Hpk as (_ & _ & Hr & _). assert (E : (nth k c 0 == 1)%Q) by (rewrite (Hplat k Hk); exact E1).
    split; [exact E|]. apply (normalised_1_window vr vq k Hvr Hvq L2 ltac:(lia) Hpos E). }
  split.
  { intros p Hp'. destruct (Hfound p Hp') as (H1 & ->). apply Hle1, H1. }
  exists m', h'. destruct (Hfound _ Hin) as (Hm' & _). cbn [fst] in Hm'.
  assert (E : (h' == 1)%Q) by (rewrite Eh; exact E1).
  split; [exact Hin|]. split; [exact E|]. split; [|exact Hnear].
  apply (normalised_1_window vr vq m' Hvr Hvq L2 ltac:(lia) Hpos). change (nth m' c 0 == 1)%Q. rewrite <- Hv. exact E. Qed.

(* ---- when the query vector contains a 0, two neighbouring lags cannot both see an identical window: the plateau of the true lag is
        the single bin k0, and the peak is at k0 or closer than the distance to it ---- *)
Lemma window_nth vr k L i : i < L -> k + L <= length vr -> nth i (window vr k L) 0%Z = nth (k + i) vr 0%Z.
Proof. intros Hi Hl. unfold window. rewrite BlurProofs.nth_firstn_lt by exact Hi. apply BlurProofs.nth_skipn'. Qed.
Lemma two_windows_constant vr vq k : window vr k (length vq) = vq -> window vr (k + 1) (length vq) = vq -> k + 1 + length vq <= length vr ->
  forall i, i + 1 < length vq -> nth i vq 0%Z = nth (i + 1) vq 0%Z.
Proof. intros H1 H2 Hl i Hi. rewrite <- H2 at 1. rewrite <- H1 at 2. rewrite !window_nth by lia. f_equal. lia. Qed.
Lemma constant_all_zero (vq : list Z) : (forall i, i + 1 < length vq -> nth i vq 0%Z = nth (i + 1) vq 0%Z) ->
  (exists i, i < length vq /\ nth i vq 0%Z = 0%Z) -> vsum vq = 0%Z.
Proof. intros Hc (i0 & Hi0 & Ez).
  assert (H0 : forall i, i < length vq -> nth i vq 0%Z = nth 0 vq 0%Z).
  { induction i as [|i IH]; intros Hi; [reflexivity|]. rewrite <- IH by lia. replace (S i) with (i + 1) by lia. symmetry. apply Hc. lia. }
  assert (Hall : forall i, i < length vq -> nth i vq 0%Z = 0%Z) by (intros i Hi; rewrite (H0 i Hi), <- (H0 i0 Hi0); exact Ez).
  clear - Hall. induction vq as [|x t IH]; [reflexivity|]. rewrite vsum_cons. rewrite (Hall 0 ltac:(cbn; lia) : x = 0%Z).
  rewrite IH; [reflexivity|]. intros i Hi. apply (Hall (S i)). cbn [length]. lia. Qed.

Theorem planted_yields_peak_at_lag R a n res r k0 (rev_ : bool) q d :
  (1 <= res)%Z -> StronglySorted Z.le R -> 1 <= n -> a + n <= length R ->
  planted R a n rev_ q -> nth a R 0%Z = (Z.of_nat k0 * res)%Z ->
  (rev_ = true -> Forall (fun x => (res | x - nth a R 0)%Z) (win R a n)) ->
  let vr := get_sequence R res r false 0 None in
  let vq := get_sequence (mpositions q) res r rev_ 0 None in
  let c := normalised vr vq in
  (exists i, i < length vq /\ nth i vq 0%Z = 0%Z) ->
  (exists a', a' < k0 /\ (nth a' c 0 < 1)%Q) ->
  (exists b', k0 < b' <= length vr - length vq /\ (nth b' c 0 < 1)%Q) ->
  is_peak qleb 0%Q c k0 k0 /\ In (k0, nth k0 c 0%Q) (local_maxima qleb c) /\
  exists m' h', In (m', h') (find_peaks_initial c d) /\ (h' == 1)%Q /\ window vr m' (length vq) = vq /\
    (m' = k0 \/ (m' - k0 < d /\ k0 - m' < d)).
Proof. intros Hres HsR Hn Han Hp Hoff Hl vr vq c Hzero Hleft Hright.
  destruct (planted_seed_true_lag R a n res r k0 rev_ q Hres HsR Hn Han Hp Hoff Hl) as (L2 & L1 & _ & Hpos & _). fold vr vq in L1, L2, Hpos.
  destruct (planted_yields_peak R a n res r k0 rev_ q d Hres HsR Hn Han Hp Hoff Hl Hleft Hright) as (l & r' & Hlr & Hpk & Hplat & _ & m' & h' & Hin & Eh & Hw & Hnear).
  fold vr vq c in Hpk, Hplat, Hin, Hw.
  assert (Hlen : length c = length vr - length vq + 1) by apply normalised_length.
  assert (Hno : forall k, l <= k -> k + 1 <= r' -> False).
  { intros k H1 H2. destruct Hpk as (_ & _ & Hr & _). destruct (Hplat k ltac:(lia)) as (_ & W1). destruct (Hplat (k + 1) ltac:(lia)) as (_ & W2).
    pose proof (constant_all_zero vq (two_windows_constant vr vq k W1 W2 ltac:(lia)) Hzero). lia. }
  assert (l = k0) by (destruct (Nat.eq_dec l k0) as [E|E]; [exact E | exfalso; apply (Hno l); lia]).
  assert (r' = k0) by (destruct (Nat.eq_dec r' k0) as [E|E]; [exact E | exfalso; apply (Hno k0); lia]). subst l r'.
  assert (Ed : Nat.div2 (k0 + k0) = k0) by (replace (k0 + k0) with (k0 + (k0 + 0)) by lia; rewrite div2_mid; cbn; lia). rewrite Ed in Hnear.
  split; [exact Hpk|]. split.
  - apply (local_maxima_spec qleb qleb_total qleb_trans 0%Q). exists k0, k0. split; [exact Hpk|]. rewrite Ed. split; reflexivity.
  - exists m', h'. repeat split; assumption. Qed.

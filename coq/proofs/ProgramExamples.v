(* A small run of the whole program for the non-vacuity examples of the program-level theorems (props/C01, C02, C04, C05, C07, C10).
   Reference file: molecule 1 with 24 labels (its rows in DESCENDING order of position, the end marker first) and molecule 4 that has only an
   end marker (no label: the reader skips it).  Query file: molecule 7 = reference labels 3..12 followed by reference labels 13..20 moved
   30 kb to the LEFT (a deletion; the two parts interleave, so the rows are not in order of position), read at an offset of 1234.5 bp;
   molecule 9 with only an end marker; molecule 3 = reference labels 14..22 mirrored (reverse strand), its rows in reverse order.
   Default command line, executable seeding stage: the first pass aligns the first part of molecule 7, the second pass its second part,
   modes best / joined / all join them (HitEnum 8M1I1M2D1M1I6M); molecule 3 aligns on the '-' strand. *)
From Coq Require Import ZArith QArith List Bool String.
Import ListNotations.
Require Import Py Pairing Core Multi Coordinator Cmap Xmap Record Wiring Seeding Program ModesExamples CmapProofs ProgramProofs1.
Open Scope Z_scope.

Definition px_rows_of (m : Pairing.omap) : list cmap_row := map (fun p => (mid m, 1, p)) (mpositions m) ++ [(mid m, 0, mlen m)].
Definition px_refpos := ex_cum 0 [100000; 70000; 120000; 90000; 150000; 80000; 110000; 60000; 130000; 95000; 140000; 75000; 105000; 125000; 85000; 160000;
                                  70000; 95000; 120000; 65000; 100000; 135000; 90000; 115000].
Definition px_ref := mkMap 1 30000007 px_refpos 0.
Definition px_rr : list cmap_row := rev (px_rows_of px_ref) ++ [(4, 0, 5000000)].
Definition px_part (a n : nat) (off : Z) := map (fun p => p + off) (firstn n (skipn a px_refpos)).
Definition px_q7 := mkMap 7 14800000 (px_part 2 10 12345 ++ px_part 12 8 (12345 - 300000)) 0.
Definition px_q3 := mkMap 3 9000000 (map (fun p => 25000000 - p) (rev (px_part 13 9 0))) 0.
Definition px_qr : list cmap_row := px_rows_of px_q7 ++ [(9, 0, 700000)] ++ rev (px_rows_of px_q3).
(* the default command line with another output mode / id selections *)
Definition px_cl (m : mode) : cmdline := mkCmd (cl_args default_cmdline) default_sparams m 100000 [] [].

Lemma px_cl_ok m : cmdline_ok (px_cl m).
Proof. split; [discriminate | reflexivity]. Qed.
Lemma px_rr_ok ids : cmap_ok_b ids px_rr = true -> cmap_ok ids px_rr.
Proof. apply cmap_ok_b_sound. Qed.
Lemma px_files_ok : cmap_ok [] px_rr /\ cmap_ok [] px_qr.
Proof. split; apply cmap_ok_b_sound; vm_compute; reflexivity. Qed.
Lemma px_markers : (forall i, (List.length (markers_of px_rr i) <= 1)%nat) /\ (forall i, (List.length (markers_of px_qr i) <= 1)%nat).
Proof. split; apply markers_le1_b_sound; vm_compute; reflexivity. Qed.

Local Open Scope string_scope.
(* the records (data lines) of the example *)
Definition px_line3 (i : string) := i ++ "	3	1	83000.0	0.0	145000.0	228000.0	-	8568.00	9M	83001.0	3000000.0	False	1	(14,9)(15,8)(16,7)(17,6)(18,5)(19,4)(20,3)(21,2)(22,1)".
Definition px_line7_first (i : string) := i ++ "	7	1	0.0	93000.0	29000.0	122000.0	+	9020.00	8M1I1M1I1M	145501.0	3000000.0	False	1	(3,1)(4,2)(5,3)(6,4)(7,5)(8,6)(9,7)(10,8)(11,10)(12,12)".
Definition px_line7_second (i : string) := i ++ "	7	1	86000.0	145500.0	145000.0	204500.0	+	6414.00	1M1I6M	145501.0	3000000.0	True	1	(14,11)(15,13)(16,14)(17,15)(18,16)(19,17)(20,18)".
Definition px_line7_joined (i : string) := i ++ "	7	1	0.0	145500.0	29000.0	204500.0	+	14732.00	8M1I1M2D1M1I6M	145501.0	3000000.0	False	1	(3,1)(4,2)(5,3)(6,4)(7,5)(8,6)(9,7)(10,8)(11,10)(14,11)(15,13)(16,14)(17,15)(18,16)(19,17)(20,18)".

Lemma px_files :
  program_files (px_cl Separate) px_rr px_qr = Ok [("", [px_line3 "1"; px_line7_first "2"]); ("_1", [px_line7_second "1"])] /\
  program_files (px_cl All_) px_rr px_qr = Ok [("", [px_line7_joined "1"]); ("_1", [px_line3 "1"; px_line7_first "2"]); ("_2", [px_line7_second "1"])] /\
  program_files (px_cl Joined) px_rr px_qr = Ok [("", [px_line7_joined "1"]); ("_1", [px_line3 "1"])] /\
  program_files (px_cl Best) px_rr px_qr = Ok [("", [px_line3 "1"; px_line7_joined "2"])].
Proof. vm_compute. repeat split; reflexivity. Qed.

(* a labelled molecule without end marker is appended to the query file: the reader raises; -qId 3 hides it *)
Definition px_with_qids (m : mode) (qids : list Z) : cmdline := mkCmd (cl_args default_cmdline) default_sparams m 100000 [] qids.
Lemma px_missing_marker :
  program_files (px_cl Best) px_rr (px_qr ++ [(12, 1, 5000)]) = Err /\
  program_files (px_with_qids Best [3]) px_rr (px_qr ++ [(12, 1, 5000)]) = Ok [("", [px_line3 "1"])].
Proof. vm_compute. split; reflexivity. Qed.
Lemma px_qid_filter : program_files (px_with_qids Best [3; 12]) px_rr px_qr = Ok [("", [px_line3 "1"])].
Proof. vm_compute. reflexivity. Qed.

(* the seeds the executable seeding stage returns for molecule 3 (trimmed) against the reference: the '-' strand candidate comes first *)
Lemma px_seeds : match seeds_res default_sparams [px_ref] (trim px_q3) return Prop with
  | Ok l => map (fun s => (mid (sd_ref s), sd_rev s, sd_peaks s)) l = [(1, true, [1450480]); (1, false, []); (1, false, [])] | Err => False end.
Proof. vm_compute. reflexivity. Qed.

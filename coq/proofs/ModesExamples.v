(* C08: concrete inputs for the non-vacuity examples of props/C08.v *)
From Coq Require Import ZArith QArith List Bool.
Import ListNotations.
Require Import Py Pairing Core Multi Coordinator ModesProofs3.
Open Scope Z_scope.

(* default parameters (scores x20, positions x10) *)
Definition ex_P := mkP 20000 2 (-5000) 20000 24000 15000 (inject_Z 20) 0.
Fixpoint ex_cum (a : Z) (l : list Z) := match l with [] => [] | x :: t => (a + x) :: ex_cum (a + x) t end.
Definition ex_refpos := ex_cum 0 [100000; 70000; 120000; 90000; 150000; 80000; 110000; 60000; 130000; 95000; 140000; 75000; 105000; 125000; 85000; 160000].
Definition ex_ref := mkMap 1 20000000 ex_refpos 0.
(* an indel-containing query: reference labels 1-6, an insertion of 30 kb, reference labels 7-12 *)
Definition ex_qpos := map (fun p => p - 100000) (firstn 6 ex_refpos) ++ map (fun p => p - 100000 + 300000) (firstn 6 (skipn 6 ex_refpos)).
Definition ex_query := mkMap 7 (nth 11 ex_qpos 0 + 10) ex_qpos 0.
(* a seeding function: one seed per map; the whole query is seeded at its true offset, its second-pass fragment 30 kb further left *)
Definition ex_seeds : seeding := fun refs q =>
  match refs with r :: _ => if mshift q =? 0 then [mkSeed r false [100000]] else [mkSeed r false [100000 - 300000]] | [] => [] end.
Definition ex_view (o : outputs) :=
  (map site_pairs_of (o_main o), option_map (map site_pairs_of) (o_1 o), option_map (map site_pairs_of) (o_2 o)).
Definition ex_run (m : mode) (maxdiff : Z) := match program_run ex_P ex_seeds m maxdiff [ex_ref] [ex_query] with Ok o => Some (ex_view o) | Err => None end.
Definition ex_p16 := [(1,1);(2,2);(3,3);(4,4);(5,5);(6,6)].
Definition ex_p712 := [(7,7);(8,8);(9,9);(10,10);(11,11);(12,12)].

(* a third row of the same query on the same reference (cannot occur after filter_subsequent: see groups_shape) *)
Definition ex_third : row := set_rest (row_create [mk_seg [11; 12] 0] 7 1 100000 1000000 false).
Definition ex_joined_f7 : row := row_create [mk_seg [1; 2; 3] 0; mk_seg [5; 6] 0] 7 1 100000 1000000 false.

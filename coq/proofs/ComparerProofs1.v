(* C19 — lemmas on the pieces of model/Comparer.v: key dictionaries, set difference, coverage, exact means *)
From Coq Require Import ZArith QArith List Bool Lia Permutation.
Import ListNotations.
Require Import Py PyProofs Comparer.
Open Scope Z_scope.

(* ------------------------------------------------------------------ equalities *)
Lemma pair_eqb_eq (a b : bpair) : pair_eqb a b = true <-> a = b.
Proof.
  destruct a as [[[a1 a2] a3] a4], b as [[[b1 b2] b3] b4]. cbn [pair_eqb].
  rewrite !andb_true_iff, !Z.eqb_eq. split.
  - intros [[[-> ->] ->] ->]. reflexivity.
  - intros H. inversion H. auto.
Qed.
Lemma pmem_In x l : pmem x l = true <-> In x l.
Proof.
  unfold pmem. rewrite existsb_exists. split.
  - intros [y [Hy E]]. apply pair_eqb_eq in E. subst. exact Hy.
  - intros H. exists x. split; [exact H | apply pair_eqb_eq; reflexivity].
Qed.
Lemma pmem_false x l : pmem x l = false <-> ~ In x l.
Proof. rewrite <- pmem_In. destruct (pmem x l); intuition congruence. Qed.

Lemma key_eqb_eq (a b : kpair) : key_eqb a b = true <-> a = b.
Proof.
  destruct a as [a1 a2], b as [b1 b2]. unfold key_eqb. cbn [fst snd]. rewrite andb_true_iff, !Z.eqb_eq. split.
  - intros [-> ->]. reflexivity.
  - intros H. inversion H. auto.
Qed.
Lemma key_eqb_refl a : key_eqb a a = true.
Proof. apply key_eqb_eq. reflexivity. Qed.
Lemma key_eqb_neq (a b : kpair) : key_eqb a b = false <-> a <> b.
Proof. rewrite <- key_eqb_eq. destruct (key_eqb a b); intuition congruence. Qed.
Definition key_eq_dec (a b : kpair) : {a = b} + {a <> b}.
Proof. decide equality; apply Z.eq_dec. Defined.
Definition kmem (k : kpair) (l : list kpair) : bool := existsb (key_eqb k) l.
Lemma kmem_In k l : kmem k l = true <-> In k l.
Proof.
  unfold kmem. rewrite existsb_exists. split.
  - intros [y [Hy E]]. apply key_eqb_eq in E. subst. exact Hy.
  - intros H. exists k. split; [exact H | apply key_eqb_refl].
Qed.
Lemma kmem_false k l : kmem k l = false <-> ~ In k l.
Proof. rewrite <- kmem_In. destruct (kmem k l); intuition congruence. Qed.

(* ------------------------------------------------------------------ generic list facts *)
Lemma filter_map_comm {A B} (f : A -> B) (p : B -> bool) l : filter p (map f l) = map f (filter (fun x => p (f x)) l).
Proof. induction l as [|x t IH]; cbn; [reflexivity|]. destruct (p (f x)); cbn; rewrite IH; reflexivity. Qed.
Lemma filter_true {A} (p : A -> bool) l : (forall x, In x l -> p x = true) -> filter p l = l.
Proof. induction l as [|x t IH]; cbn; intros H; [reflexivity|]. rewrite (H x (or_introl eq_refl)), IH; auto. Qed.
Lemma filter_false {A} (p : A -> bool) l : (forall x, In x l -> p x = false) -> filter p l = [].
Proof. induction l as [|x t IH]; cbn; intros H; [reflexivity|]. rewrite (H x (or_introl eq_refl)), IH; auto. Qed.
Lemma filter_length_split {A} (p : A -> bool) l : (length (filter p l) + length (filter (fun x => negb (p x)) l) = length l)%nat.
Proof. induction l as [|x t IH]; cbn; [reflexivity|]. destruct (p x); cbn; lia. Qed.
Lemma filter_length_le' {A} (p : A -> bool) l : (length (filter p l) <= length l)%nat.
Proof. induction l as [|x t IH]; cbn; [lia|]. destruct (p x); cbn; lia. Qed.
Lemma filter_perm_split {A} (p : A -> bool) l : Permutation (filter p l ++ filter (fun x => negb (p x)) l) l.
Proof.
  induction l as [|x t IH]; cbn; [constructor|]. destruct (p x); cbn.
  - constructor. exact IH.
  - apply Permutation_sym. apply Permutation_cons_app. apply Permutation_sym. exact IH.
Qed.
Lemma NoDup_length_eq {A} (l l' : list A) : NoDup l -> NoDup l' -> (forall x, In x l <-> In x l') -> length l = length l'.
Proof. intros H H' E. apply Permutation_length. apply NoDup_Permutation; assumption. Qed.
Lemma filter_ext_in' {A} (p q : A -> bool) l : (forall x, In x l -> p x = q x) -> filter p l = filter q l.
Proof. induction l as [|x t IH]; cbn; intros H; [reflexivity|]. rewrite (H x (or_introl eq_refl)), IH; auto. Qed.

(* ------------------------------------------------------------------ sort_lex *)
Lemma insert_lex_perm {A} (k : A -> Z * Z) x l : Permutation (insert_lex k x l) (x :: l).
Proof.
  induction l as [|y t IH]; cbn; [constructor; constructor|]. destruct (lex_le (k x) (k y)); [apply Permutation_refl|].
  eapply perm_trans; [apply perm_skip; exact IH | apply perm_swap].
Qed.
Lemma sort_lex_perm {A} (k : A -> Z * Z) l : Permutation (sort_lex k l) l.
Proof.
  induction l as [|x t IH]; cbn; [constructor|]. eapply perm_trans; [apply insert_lex_perm | constructor; exact IH].
Qed.

(* ------------------------------------------------------------------ dictionaries *)
Notation dict := (list (kpair * alignment)).
Definition dkeys (d : dict) : list kpair := map fst d.

Lemma dict_get_none d k : dict_get d k = None <-> ~ In k (dkeys d).
Proof.
  induction d as [|[k' v'] t IH]; cbn; [intuition|]. destruct (key_eqb k k') eqn:E.
  - apply key_eqb_eq in E. subst. split; [discriminate | intros H; exfalso; apply H; left; reflexivity].
  - apply key_eqb_neq in E. rewrite IH. intuition congruence.
Qed.
Lemma dict_mem_In d k : dict_mem d k = true <-> In k (dkeys d).
Proof.
  unfold dict_mem. destruct (dict_get d k) eqn:E.
  - split; [intros _|reflexivity]. destruct (in_dec key_eq_dec k (dkeys d)) as [H|H]; [exact H|].
    apply dict_get_none in H. congruence.
  - apply dict_get_none in E. split; [discriminate | contradiction].
Qed.
Lemma dict_mem_false d k : dict_mem d k = false <-> ~ In k (dkeys d).
Proof. rewrite <- dict_mem_In. destruct (dict_mem d k); intuition congruence. Qed.
Lemma dict_get_in d k v : dict_get d k = Some v -> In (k, v) d.
Proof.
  induction d as [|[k' v'] t IH]; cbn; [discriminate|]. destruct (key_eqb k k') eqn:E.
  - apply key_eqb_eq in E. subst. intros [= ->]. left. reflexivity.
  - intros H. right. auto.
Qed.
Lemma dict_get_nodup d k v : NoDup (dkeys d) -> In (k, v) d -> dict_get d k = Some v.
Proof.
  induction d as [|[k' v'] t IH]; cbn; [contradiction|]. intros ND [H|H].
  - inversion H; subst. rewrite key_eqb_refl. reflexivity.
  - inversion ND as [|? ? Hn ND']; subst. destruct (key_eqb k k') eqn:E.
    + apply key_eqb_eq in E. subst. exfalso. apply Hn. change k' with (fst (k', v)). apply in_map. exact H.
    + auto.
Qed.

Lemma dict_set_keys_in d k v k0 : In k0 (dkeys (dict_set d k v)) <-> k0 = k \/ In k0 (dkeys d).
Proof.
  induction d as [|[k' v'] t IH]; cbn; [intuition|]. destruct (key_eqb k k') eqn:E; cbn.
  - apply key_eqb_eq in E. subst. intuition.
  - rewrite IH. intuition.
Qed.
Lemma dict_set_nodup d k v : NoDup (dkeys d) -> NoDup (dkeys (dict_set d k v)).
Proof.
  induction d as [|[k' v'] t IH]; cbn; intros ND.
  - constructor; [intros []|constructor].
  - inversion ND as [|? ? Hn ND']; subst. destruct (key_eqb k k') eqn:E; cbn.
    + constructor; assumption.
    + constructor; [|auto]. rewrite dict_set_keys_in. apply key_eqb_neq in E. intros [->|H]; [congruence|contradiction].
Qed.
Lemma dict_set_vals (P : kpair -> alignment -> Prop) d k v : P k v -> (forall e, In e d -> P (fst e) (snd e)) ->
  forall e, In e (dict_set d k v) -> P (fst e) (snd e).
Proof.
  intros Hv. induction d as [|[k' v'] t IH]; cbn; intros Hd e He.
  - destruct He as [<-|[]]. exact Hv.
  - destruct (key_eqb k k') eqn:E.
    + apply key_eqb_eq in E. subst. destruct He as [<-|He]; [exact Hv | apply Hd; right; exact He].
    + destruct He as [<-|He]; [apply (Hd (k', v')); left; reflexivity|]. apply IH; [|exact He]. intros e' He'. apply Hd. right. exact He'.
Qed.

Lemma fold_dict_set l : forall d, NoDup (dkeys d) ->
  let d' := fold_left (fun d a => dict_set d (akey a) a) l d in
  NoDup (dkeys d') /\ (forall k, In k (dkeys d') <-> In k (dkeys d) \/ In k (map akey l)) /\
  ((forall e, In e d -> akey (snd e) = fst e) -> forall e, In e d' -> akey (snd e) = fst e) /\
  (forall e, In e d' -> In e d \/ In (snd e) l).
Proof.
  induction l as [|a t IH]; cbn; intros d ND.
  - repeat split; auto; intuition.
  - destruct (IH (dict_set d (akey a) a) (dict_set_nodup d (akey a) a ND)) as (H1 & H2 & H3 & H4).
    split; [exact H1|]. split; [|split].
    + intros k. rewrite H2, dict_set_keys_in. intuition.
    + intros Hd. apply H3. apply (dict_set_vals (fun k v => akey v = k)); [reflexivity | exact Hd].
    + intros e He. destruct (H4 e He) as [H|H]; [|right; right; exact H].
      assert (G : (fun k v => In (k, v) d \/ v = a) (fst e) (snd e)).
      { apply (dict_set_vals (fun k v => In (k, v) d \/ v = a) d (akey a) a); [right; reflexivity | | exact H].
        intros [k' v'] He'. left. exact He'. }
      cbn in G. destruct e as [k' v']. cbn in *. destruct G as [G|G]; [left; exact G | right; left; symmetry; exact G].
Qed.

Lemma to_dict_nodup als : NoDup (dkeys (to_dict als)).
Proof. apply (fold_dict_set _ []). constructor. Qed.
Lemma to_dict_keys als k : In k (dkeys (to_dict als)) <-> In k (map akey als).
Proof.
  unfold to_dict. destruct (fold_dict_set (sort_lex (fun a => (ar a, aq a)) als) [] (NoDup_nil _)) as (_ & H & _). rewrite H. cbn.
  split; [intros [[]|H1] | intros H1; right].
  - eapply Permutation_in; [apply Permutation_map; apply sort_lex_perm | exact H1].
  - eapply Permutation_in; [apply Permutation_map; apply Permutation_sym; apply sort_lex_perm | exact H1].
Qed.
Lemma to_dict_vals als e : In e (to_dict als) -> akey (snd e) = fst e /\ In (snd e) als.
Proof.
  unfold to_dict. destruct (fold_dict_set (sort_lex (fun a => (ar a, aq a)) als) [] (NoDup_nil _)) as (_ & _ & H3 & H4).
  intros He. split; [apply H3; [intros ? []|exact He]|]. destruct (H4 e He) as [[]|H].
  eapply Permutation_in; [apply sort_lex_perm | exact H].
Qed.

(* ------------------------------------------------------------------ set difference and coverage *)
Lemma dedup_In x l : In x (dedup l) <-> In x l.
Proof.
  induction l as [|y t IH]; cbn; [tauto|]. destruct (pmem y t) eqn:E; cbn; rewrite IH.
  - apply pmem_In in E. intuition. subst. exact E.
  - tauto.
Qed.
Lemma dedup_NoDup l : NoDup (dedup l).
Proof.
  induction l as [|y t IH]; cbn; [constructor|]. destruct (pmem y t) eqn:E; [exact IH|].
  constructor; [|exact IH]. rewrite dedup_In. apply pmem_false. exact E.
Qed.
Lemma dedup_length l : (length (dedup l) <= length l)%nat.
Proof. induction l as [|y t IH]; cbn; [lia|]. destruct (pmem y t); cbn; lia. Qed.

Lemma difference_In x p o : In x (difference p o) <-> In x p /\ ~ In x o.
Proof.
  unfold difference. rewrite sort_by_in, dedup_In, filter_In, negb_true_iff, pmem_false. tauto.
Qed.
Lemma difference_NoDup p o : NoDup (difference p o).
Proof.
  unfold difference. eapply Permutation_NoDup; [apply Permutation_sym; apply sort_by_perm | apply dedup_NoDup].
Qed.
Lemma difference_sorted p o : ksorted rsite (difference p o).
Proof. apply sort_by_sorted. Qed.
Lemma difference_length p o : (length (difference p o) <= length p)%nat.
Proof.
  unfold difference. rewrite (Permutation_length (sort_by_perm rsite _)).
  eapply Nat.le_trans; [apply dedup_length | apply filter_length_le'].
Qed.
Lemma difference_self p : difference p p = [].
Proof.
  unfold difference. rewrite filter_false; [reflexivity|]. intros x Hx. apply negb_false_iff. apply pmem_In. exact Hx.
Qed.

Lemma coverage_bounds p d : (length d <= length p)%nat -> (0 <= coverage p d <= 1)%Q.
Proof.
  intros H. unfold coverage. cbv zeta. destruct (0 <? Z.of_nat (length p)) eqn:E.
  - apply Z.ltb_lt in E. unfold Qle. cbn [Qnum Qden]. rewrite Z2Pos.id by exact E. split; lia.
  - split; unfold Qle; cbn; lia.
Qed.
Lemma coverage_nil p : (coverage p [] == 1)%Q.
Proof.
  unfold coverage. cbv zeta. destruct (0 <? Z.of_nat (length p)) eqn:E; [|reflexivity].
  apply Z.ltb_lt in E. unfold Qeq. cbn [Qnum Qden length]. rewrite Z2Pos.id by exact E. lia.
Qed.

(* ------------------------------------------------------------------ Qltb, sums and means *)
Lemma Qltb_lt a b : Qltb a b = true <-> (a < b)%Q.
Proof.
  unfold Qltb. rewrite negb_true_iff. split.
  - intros H. apply Qnot_le_lt. intros L. apply Qle_bool_iff in L. congruence.
  - intros H. destruct (Qle_bool b a) eqn:E; [|reflexivity]. apply Qle_bool_iff in E. exfalso. exact (Qlt_not_le _ _ H E).
Qed.
Lemma Qltb_00 : Qltb 0 0 = false.
Proof. reflexivity. Qed.

Lemma qsum_bounds l : Forall (fun q => 0 <= q <= 1)%Q l -> (0 <= qsum l <= inject_Z (Z.of_nat (length l)))%Q.
Proof.
  induction 1 as [|q t [H0 H1] _ [IH0 IH1]]; cbn [qsum fold_right length].
  - split; apply Qle_refl.
  - fold (qsum t). split.
    + replace 0%Q with (0 + 0)%Q by reflexivity. apply Qplus_le_compat; assumption.
    + rewrite Nat2Z.inj_succ, <- Z.add_1_l, inject_Z_plus. apply Qplus_le_compat; assumption.
Qed.
Lemma qsum_ones l : Forall (fun q => q == 1)%Q l -> (qsum l == inject_Z (Z.of_nat (length l)))%Q.
Proof.
  induction 1 as [|q t H _ IH]; cbn [qsum fold_right length]; [reflexivity|].
  fold (qsum t). rewrite Nat2Z.inj_succ, <- Z.add_1_l, inject_Z_plus, H, IH. reflexivity.
Qed.
Lemma len_pos {A} (l : list A) : l <> [] -> (0 < inject_Z (Z.of_nat (length l)))%Q.
Proof. destruct l; [congruence|]. intros _. unfold Qlt. cbn [Qnum Qden inject_Z length]. lia. Qed.
Lemma qmean_bounds l : l <> [] -> Forall (fun q => 0 <= q <= 1)%Q l -> (0 <= qmean l <= 1)%Q.
Proof.
  intros Hn H. destruct (qsum_bounds l H) as [H0 H1]. pose proof (len_pos l Hn) as Hp. unfold qmean. split.
  - apply Qle_shift_div_l; [exact Hp|]. rewrite Qmult_0_l. exact H0.
  - apply Qle_shift_div_r; [exact Hp|]. rewrite Qmult_1_l. exact H1.
Qed.
Lemma qmean_ones l : l <> [] -> Forall (fun q => q == 1)%Q l -> (qmean l == 1)%Q.
Proof.
  intros Hn H. unfold qmean. rewrite (qsum_ones l H). apply Qmult_inv_r.
  intros E. pose proof (len_pos l Hn) as Hp. rewrite E in Hp. exact (Qlt_irrefl _ Hp).
Qed.
Lemma qsum_perm l l' : Permutation l l' -> (qsum l == qsum l')%Q.
Proof.
  induction 1; cbn [qsum fold_right]; try reflexivity.
  - fold (qsum l) (qsum l'). rewrite IHPermutation. reflexivity.
  - fold (qsum l). rewrite !Qplus_assoc, (Qplus_comm y x). reflexivity.
  - etransitivity; eassumption.
Qed.
Lemma qmean_perm l l' : Permutation l l' -> (qmean l == qmean l')%Q.
Proof. intros H. unfold qmean. rewrite (qsum_perm _ _ H), (Permutation_length H). reflexivity. Qed.

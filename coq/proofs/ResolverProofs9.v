(* C15/C01, part 9: the segments the factory cuts from AlignerEngine.align outputs are well-formed chain inputs. *)
From Coq Require Import ZArith QArith List Bool Lia Sorting.Sorted Sorting.Permutation.
Import ListNotations.
Require Import Py Pairing Core Psum PyProofs PairingProofs1 PairingProofs2 PairingProofs3 FacProofs FacSegs ConflictProofs DPProofs
  ResolverProofs1 ResolverProofs2 ResolverProofs3 ResolverProofs4 ResolverProofs5 ResolverProofs8.
Open Scope Z_scope.

(* ---------- label lists of a map with strictly ascending positions ---------- *)
Lemma number_up_in x j l : In x (number_up j l) -> j <= site x /\ In (lpos x) l.
Proof. revert j; induction l as [|q l IH]; intros j Hin; [destruct Hin|]. cbn in Hin. destruct Hin as [<-|Hin]; cbn; [split; [lia | left; reflexivity]|].
  destruct (IH (j + 1) Hin) as (G1 & G2). split; [lia | right; exact G2]. Qed.
Lemma number_up_strict i l : StronglySorted Z.lt l ->
  StronglySorted (fun a b => site a < site b /\ lpos a < lpos b) (number_up i l).
Proof. revert i; induction l as [|p t IH]; intros i H; cbn; [constructor|]. inversion H as [|? ? Ht Hp]; subst.
  constructor; [apply IH; exact Ht|]. rewrite Forall_forall in *. intros x Hx. destruct (number_up_in _ _ _ Hx) as (G1 & G2). cbn. split; [lia | apply Hp; exact G2]. Qed.
Lemma number_down_strict i e l : StronglySorted Z.gt l ->
  StronglySorted (fun a b => 0 < (-1) * (site b - site a) /\ lpos a < lpos b) (number_down i e l).
Proof. revert i; induction l as [|p t IH]; intros i H; cbn [number_down]; [constructor|]. inversion H as [|? ? Ht Hp]; subst.
  constructor; [apply IH; exact Ht|]. rewrite Forall_forall in *. intros x Hx.
  destruct (number_down_in _ _ _ _ Hx) as (G1 & q & G2 & G3). cbn [site lpos]. specialize (Hp q G2). split; lia. Qed.
Lemma SS_rev_gt l : StronglySorted Z.lt l -> StronglySorted Z.gt (rev l).
Proof. induction 1 as [|x t Ht IH Hx]; cbn; [constructor|]. apply FacProofs.SS_snoc; [exact IH|]. rewrite Forall_forall in *. intros y Hy. apply in_rev in Hy. specialize (Hx y Hy). lia. Qed.

Definition strand (reverse : bool) : Z := if reverse then -1 else 1.
Definition ref_labels (reference : omap) : list label := positions_with_ids reference false.
Definition qry_labels (query : omap) (reverse : bool) : list label := positions_with_ids query reverse.

Lemma ref_labels_strict m : StronglySorted Z.lt (mpositions m) -> StronglySorted (fun a b => site a < site b /\ lpos a < lpos b) (ref_labels m).
Proof. intros H. unfold ref_labels, positions_with_ids. apply number_up_strict. exact H. Qed.
Lemma qry_labels_strict m reverse : StronglySorted Z.lt (mpositions m) ->
  StronglySorted (fun a b => 0 < strand reverse * (site b - site a) /\ lpos a < lpos b) (qry_labels m reverse).
Proof. intros H. unfold qry_labels, positions_with_ids, strand. destruct reverse.
  - apply number_down_strict. apply SS_rev_gt. exact H.
  - apply (SS_weaken (fun a b => site a < site b /\ lpos a < lpos b)); [intros a b (H1 & H2); split; lia|]. apply number_up_strict. exact H. Qed.

(* ---------- AlignerEngine.align ---------- *)
Definition eng_refs (d : Z) (reference : omap) (start stop : Z) : list label :=
  takewhile (fun x => lpos x <=? stop + d) (dropwhile (fun x => lpos x <? start - d) (ref_labels reference)).
Lemma eng_refs_Sub d reference start stop : Sub (eng_refs d reference start stop) (ref_labels reference).
Proof. unfold eng_refs. destruct (dropwhile_skipn (fun x => lpos x <? start - d) (ref_labels reference)) as (n & -> & _).
  destruct (takewhile_firstn (fun x => lpos x <=? stop + d) (skipn n (ref_labels reference))) as (m & -> & _).
  apply (Sub_trans _ (skipn n (ref_labels reference))); [apply Sub_firstn_self | apply Sub_skipn_self]. Qed.

Lemma align_engine_unfold d it reference query start stop reverse :
  align_engine d it reference query start stop reverse = sort_by abs_pos (ML d start it (eng_refs d reference start stop) (qry_labels query reverse)).
Proof. reflexivity. Qed.

Theorem align_engine_ordered d it reference query start stop reverse : 0 <= d ->
  StronglySorted Z.lt (mpositions reference) -> StronglySorted Z.lt (mpositions query) ->
  StronglySorted (before_ap (strand reverse)) (align_engine d it reference query start stop reverse).
Proof. intros Hd HR HQ. rewrite align_engine_unfold. apply engine_list_ordered; [exact Hd | | apply qry_labels_strict; exact HQ].
  apply (SS_Sub _ _ _ (eng_refs_Sub d reference start stop)). apply ref_labels_strict. exact HR. Qed.

(* every label in the output is a label of the maps *)
Definition labels_from (R0 Q0 : list label) (x : spos) : Prop :=
  (forall r, rlab x = Some r -> In r R0) /\ (forall q, qlab x = Some q -> In q Q0).
Theorem align_engine_labels P d it reference query start stop reverse : 0 <= d -> StronglySorted Z.lt (mpositions query) ->
  forall x, In x (map (score_pos P) (align_engine d it reference query start stop reverse)) ->
  labels_from (ref_labels reference) (qry_labels query reverse) x.
Proof.
  intros Hd HQ x Hx. apply in_map_iff in Hx. destruct Hx as (y & <- & Hy). rewrite align_engine_unfold in Hy.
  apply (Permutation_in _ (sort_by_perm abs_pos _)) in Hy. apply in_ML in Hy.
  pose proof (qry_labels_strict query reverse HQ) as HQs.
  assert (HQw : StronglySorted (fun a b => 0 < strand reverse * (site b - site a) /\ lpos a <= lpos b) (qry_labels query reverse))
    by (apply (SS_weaken _ _ _ (fun a b H => conj (proj1 H) (Z.lt_le_incl _ _ (proj2 H))) HQs)).
  assert (Hsub := eng_refs_Sub d reference start stop).
  unfold labels_from, rlab, qlab. destruct y as [r q s i|r|q s]; cbn [score_pos ap inML] in *.
  - destruct Hy as (c & Hc & -> & -> & _). destruct (P_facts d start (strand reverse) _ _ HQs c Hc) as (_ & _ & Hr & Hq & _).
    split; intros ? E; injection E as <-; [apply (Sub_in _ _ _ Hsub Hr) | exact Hq].
  - destruct Hy as (Hr & _). split; intros ? E; [injection E as <-; apply (Sub_in _ _ _ Hsub Hr) | discriminate].
  - destruct Hy as (Hq & _). split; intros ? E; [discriminate | injection E as <-; exact Hq].
Qed.

(* ---------- scored positions and factory segments ---------- *)
Lemma score_pos_ap P p : ap (score_pos P p) = p.
Proof. destruct p; reflexivity. Qed.
Lemma scored_ordered P dir L : StronglySorted (before_ap dir) L -> StronglySorted (before dir) (map (score_pos P) L).
Proof. intros H. apply SS_map. apply (SS_weaken (before_ap dir)); [|exact H]. intros a b (Hr & Hq). unfold before, rlab, qlab. rewrite !score_pos_ap.
  split; [intros r r' E1 E2; apply Hr; [destruct a | destruct b]; cbn in *; congruence | intros q q' E1 E2; apply Hq; [destruct a | destruct b]; cbn in *; congruence]. Qed.

Lemma positive_is_pair P p : SU P <= 0 -> 0 < sc (score_pos P p) -> is_pair (score_pos P p) = true.
Proof. intros Hsu. destruct p; cbn; [reflexivity | lia | lia]. Qed.

Lemma nth_map_sc (ps : list spos) i x : nth_error ps i = Some x -> nth i (map sc ps) 0 = sc x.
Proof. revert i; induction ps as [|y t IH]; intros [|i] H; try discriminate; cbn in *; [injection H as ->; reflexivity | apply IH; exact H]. Qed.
Lemma nth_error_skipn {A} (l : list A) a k : nth_error (skipn a l) k = nth_error l (a + k).
Proof. revert l; induction a as [|a IH]; intros l; [reflexivity|]. destruct l; [destruct k; reflexivity | apply IH]. Qed.

Theorem get_segments_wf P dir L peak : 0 < MS P -> SU P <= 0 -> StronglySorted (before_ap dir) L ->
  forall s, In s (get_segments P (map (score_pos P) L) peak) ->
    cwf dir s /\ Sub (positions s) (map (score_pos P) L) /\ speak s = peak.
Proof.
  intros Hms Hsu HL s Hs. set (ps := map (score_pos P) L) in *. pose proof (scored_ordered P dir L HL) as Hord. fold ps in Hord.
  rewrite get_segments_ranges in Hs. destruct (factory_ranges (MS P) (BS P) (map sc ps)) as [|r0 rs] eqn:Er.
  - destruct Hs as [<-|[]]. cbn. split; [|split; [constructor | reflexivity]]. split; [constructor|]. split; [reflexivity | intros H; discriminate].
  - rewrite <- Er in Hs. apply in_map_iff in Hs. destruct Hs as (r & <- & Hr).
    destruct (factory_spec (MS P) (BS P) Hms (map sc ps)) as (Hok & _ & _). rewrite Forall_forall in Hok. specialize (Hok r Hr).
    destruct (seg_ends_positive (MS P) (BS P) _ r Hok) as (Hfirst & Hlast). destruct Hok as (Hab & _). rewrite map_length in Hab.
    unfold seg_of_range, seg_create. cbn [positions sscore speak].
    assert (Hsub : Sub (firstn (rB r - rA r) (skipn (rA r) ps)) ps) by (apply (Sub_trans _ (skipn (rA r) ps)); [apply Sub_firstn_self | apply Sub_skipn_self]).
    split; [|split; [exact Hsub | reflexivity]]. split; [apply (SS_Sub _ _ _ Hsub Hord)|]. split; [reflexivity|]. intros _. cbn [positions].
    destruct (nth_error ps (rA r)) as [x|] eqn:Ex; [|apply nth_error_None in Ex; lia].
    destruct (nth_error ps (rB r - 1)) as [y|] eqn:Ey; [|apply nth_error_None in Ey; lia].
    rewrite (nth_map_sc ps _ x Ex) in Hfirst. rewrite (nth_map_sc ps _ y Ey) in Hlast.
    assert (Hxp : is_pair x = true). { apply nth_error_In in Ex. unfold ps in Ex. apply in_map_iff in Ex. destruct Ex as (p & <- & _). apply positive_is_pair; assumption. }
    assert (Hyp : is_pair y = true). { apply nth_error_In in Ey. unfold ps in Ey. apply in_map_iff in Ey. destruct Ey as (p & <- & _). apply positive_is_pair; assumption. }
    split.
    + unfold first_is_pair. destruct (skipn (rA r) ps) as [|z t] eqn:Esk; [apply (f_equal (@length _)) in Esk; rewrite skipn_length in Esk; cbn [length] in Esk; lia|].
      assert (Ez : nth_error (skipn (rA r) ps) 0 = Some x) by (rewrite nth_error_skipn, Nat.add_0_r; exact Ex). rewrite Esk in Ez. cbn in Ez. injection Ez as ->.
      destruct (rB r - rA r)%nat as [|n] eqn:En; [lia|]. cbn. exact Hxp.
    + unfold last_is_pair. replace (rB r - rA r)%nat with (S (rB r - 1 - rA r)) by lia.
      rewrite (firstn_S_nth (skipn (rA r) ps) (rB r - 1 - rA r) y) by (rewrite nth_error_skipn; replace (rA r + (rB r - 1 - rA r))%nat with (rB r - 1)%nat by lia; exact Ey).
      rewrite rev_app_distr. cbn. exact Hyp.
Qed.

(* ---------- all segments of all peaks ---------- *)
Theorem segs_for_peaks_wf P reference query reverse : 0 <= DMAX P -> 0 < MS P -> SU P <= 0 ->
  StronglySorted Z.lt (mpositions reference) -> StronglySorted Z.lt (mpositions query) ->
  forall peaks it s, In s (segs_for_peaks P it reference query peaks reverse) ->
    cwf (strand reverse) s /\ (forall x, In x (positions s) -> labels_from (ref_labels reference) (qry_labels query reverse) x) /\ In (speak s) peaks.
Proof.
  intros Hd Hms Hsu HR HQ peaks. induction peaks as [|pk peaks IH]; intros it s Hs; [destruct Hs|]. cbn [segs_for_peaks] in Hs. apply in_app_or in Hs. destruct Hs as [Hs|Hs].
  - unfold get_segments_for_peak in Hs.
    pose proof (align_engine_ordered (DMAX P) it reference query pk (pk + mlen query) reverse Hd HR HQ) as HL.
    destruct (get_segments_wf P (strand reverse) _ pk Hms Hsu HL s Hs) as (H1 & H2 & H3). split; [exact H1|]. split; [|left; symmetry; exact H3].
    intros x Hx. apply (align_engine_labels P (DMAX P) it reference query pk (pk + mlen query) reverse Hd HQ). apply (Sub_in _ _ _ H2 Hx).
  - destruct (IH (it + 1) s Hs) as (H1 & H2 & H3). split; [exact H1|]. split; [exact H2 | right; exact H3].
Qed.

Lemma labels_from_coherent reference query reverse l1 l2 :
  StronglySorted Z.lt (mpositions reference) -> StronglySorted Z.lt (mpositions query) ->
  (forall x, In x l1 -> labels_from (ref_labels reference) (qry_labels query reverse) x) ->
  (forall x, In x l2 -> labels_from (ref_labels reference) (qry_labels query reverse) x) ->
  coherent (strand reverse) l1 l2.
Proof.
  intros HR HQ H1 H2. pose proof (ref_labels_strict reference HR) as HRs. pose proof (qry_labels_strict query reverse HQ) as HQs.
  assert (G : forall x y, labels_from (ref_labels reference) (qry_labels query reverse) x -> labels_from (ref_labels reference) (qry_labels query reverse) y -> coh (strand reverse) x y).
  { intros x y (Xr & Xq) (Yr & Yq). split.
    - intros r r' Er Er'. destruct (SS_in_cases _ _ r r' HRs (Xr r Er) (Yr r' Er')) as [->|[X|X]]; split; intros; lia.
    - intros q q' Eq Eq'. destruct (SS_in_cases _ _ q q' HQs (Xq q Eq) (Yq q' Eq')) as [->|[X|X]]; split; intros; lia. }
  intros x y Hx Hy. split; apply G; auto. Qed.

Theorem segs_for_peaks_coherent P reference query reverse : 0 <= DMAX P -> 0 < MS P -> SU P <= 0 ->
  StronglySorted Z.lt (mpositions reference) -> StronglySorted Z.lt (mpositions query) ->
  forall peaks it s s', In s (segs_for_peaks P it reference query peaks reverse) -> In s' (segs_for_peaks P it reference query peaks reverse) ->
    coherent (strand reverse) (positions s) (positions s').
Proof. intros Hd Hms Hsu HR HQ peaks it s s' Hs Hs'. apply (labels_from_coherent reference query reverse _ _ HR HQ).
  - apply (segs_for_peaks_wf P reference query reverse Hd Hms Hsu HR HQ peaks it s Hs).
  - apply (segs_for_peaks_wf P reference query reverse Hd Hms Hsu HR HQ peaks it s' Hs'). Qed.
Print Assumptions segs_for_peaks_wf.
Print Assumptions segs_for_peaks_coherent.

(* Facts about vectorise / blur needed to place vectors against each other: blurred vectors are 0/1, blur commutes with reversal,
   blur is monotone in the radius, the vector never extends beyond the last label's bin, and a vector whose 1-bits sit (within a
   slack of s bins) on 1-bits of another vector stays covered after blurring when the radii differ by at least s. *)
From Coq Require Import ZArith List Bool Lia Sorting.Sorted.
Import ListNotations.
Require Import Py Vec Peaks Correlate VecProofs VecCovers BlurProofs CorrelateProofs1.
Open Scope Z_scope.

(* ---- blur ---- *)
Lemma blur_is01 v r : is01 (blur v r).
Proof. unfold blur. apply is01_firstn. unfold is01. rewrite Forall_forall. intros x Hx. apply in_map_iff in Hx. destruct Hx as (i & <- & _).
  destruct (any_set _); [right | left]; reflexivity. Qed.
Lemma blur_one_iff v r i : (i < length v)%nat ->
  (nth i (blur v r) 0 = 1 <-> exists j, (j < length v)%nat /\ (i <= j + r)%nat /\ (j <= i + r)%nat /\ nth j v 0 <> 0).
Proof. intros Hi. destruct (blur_bits v r i Hi) as [(H1 & Hex)|(H0 & Hall)].
  - split; [intros _; exact Hex | intros _; exact H1].
  - split; [intros H; lia|]. intros (j & Hj & A & B & Hn). exfalso. apply Hn, Hall; assumption. Qed.
Lemma eq01 a b : (a = 0 \/ a = 1) -> (b = 0 \/ b = 1) -> (a = 1 <-> b = 1) -> a = b.
Proof. intros [->| ->] [->| ->] (H1 & H2); try reflexivity; [specialize (H2 eq_refl); lia | specialize (H1 eq_refl); lia]. Qed.

Theorem blur_rev v r : blur (rev v) r = rev (blur v r).
Proof. apply (nth_ext _ _ 0 0); [rewrite rev_length, !blur_length, rev_length; reflexivity|].
  intros i Hi. rewrite blur_length, rev_length in Hi.
  rewrite (rev_nth (blur v r)) by (rewrite blur_length; exact Hi). rewrite blur_length.
  apply eq01; [apply is01_nth, blur_is01 | apply is01_nth, blur_is01|].
  rewrite (blur_one_iff (rev v) r i) by (rewrite rev_length; exact Hi). rewrite (blur_one_iff v r (length v - S i)) by lia. rewrite rev_length. split.
  - intros (j & Hj & A & B & Hn). rewrite rev_nth in Hn by exact Hj. exists (length v - S j)%nat. repeat split; first [lia | exact Hn].
  - intros (j & Hj & A & B & Hn). exists (length v - S j)%nat. split; [lia|]. split; [lia|]. split; [lia|]. rewrite rev_nth by lia.
    replace (length v - S (length v - S j))%nat with j by lia. exact Hn. Qed.

Lemma blur_mono_radius v r1 r2 i : (r1 <= r2)%nat -> nth i (blur v r1) 0 = 1 -> nth i (blur v r2) 0 = 1.
Proof. intros Hr H1. assert (Hi : (i < length v)%nat).
  { rewrite <- (blur_length v r1). apply nth_nonzero_lt. lia. }
  apply blur_one_iff in H1; [|exact Hi]. apply blur_one_iff; [exact Hi|]. destruct H1 as (j & Hj & A & B & Hn). exists j. split; [lia|]. split; [lia|]. split; [lia | exact Hn]. Qed.

(* v's set bits sit on set bits of w, at lag k0 and up to s bins later: blurred with radii r1 + s <= r2 the covering is exact *)
Theorem blur_cover v w k0 r1 r2 s : (r1 + s <= r2)%nat -> (k0 + length v <= length w)%nat ->
  (forall j, (j < length v)%nat -> nth j v 0 <> 0 -> exists j', (j' < length w)%nat /\ nth j' w 0 <> 0 /\ (k0 + j <= j' <= k0 + j + s)%nat) ->
  covers (blur w r2) (blur v r1) k0.
Proof. intros Hr Hl Hc i Hi H1. rewrite blur_length in Hi. apply blur_one_iff in H1; [|exact Hi]. destruct H1 as (j & Hj & A & B & Hn).
  destruct (Hc j Hj Hn) as (j' & Hj' & Hn' & C). apply blur_one_iff; [lia|]. exists j'. split; [lia|]. split; [lia|]. split; [lia | exact Hn']. Qed.

Lemma vsum_ge_nth v : is01 v -> forall i, nth i v 0 <= vsum v.
Proof. induction v as [|x v IH]; intros H i; [destruct i; cbn; lia|]. apply is01_cons in H. destruct H as (Hx & Hv). rewrite vsum_cons.
  pose proof (vsum_nonneg v Hv). destruct i as [|i]; cbn [nth]; [lia | specialize (IH Hv i); lia]. Qed.

(* ---- the vector never extends beyond the bin of a label: every emitted index i has start + i*res <= some label ---- *)
Section L.
Variables res stop start : Z.
Variable all : list Z.
Hypothesis Hres : 1 <= res.
Notation pos acc := (start + Z.of_nat (length acc) * res).
Definition lenb (acc : list Z) : Prop := forall i, (i < length acc)%nat -> exists p, In p all /\ start + Z.of_nat i * res <= p.

Lemma zeros_lenb fuel p : In p all -> forall ws acc, ws = pos acc -> ws <= p -> lenb acc ->
  let r := zeros fuel res stop p ws acc in
  lenb (fst r) /\ match snd r with Some ws' => ws' = pos (fst r) /\ ws' <= p | None => True end.
Proof. intros Hp. induction fuel as [|f IH]; intros ws acc Hws Hle Hb; cbn [zeros].
  - cbn [fst snd]. split; [exact Hb | split; [exact Hws | exact Hle]].
  - destruct (ws + res <=? p) eqn:E.
    + apply Z.leb_le in E.
      assert (Hb' : lenb (acc ++ [0])).
      { intros i Hi. rewrite app_length in Hi. cbn [length] in Hi. destruct (Nat.eq_dec i (length acc)) as [->|Hn]; [exists p; split; [exact Hp | lia] | apply Hb; lia]. }
      assert (Hlen : ws + res = pos (acc ++ [0])) by (rewrite app_length; cbn [length]; lia).
      destruct (stop <? ws + res); [cbn [fst snd]; split; [exact Hb' | exact I]|].
      apply IH; [exact Hlen | lia | exact Hb'].
    + cbn [fst snd]. split; [exact Hb | split; [exact Hws | exact Hle]].
Qed.

Lemma vec_loop_lenb ps : (forall p, In p ps -> In p all) -> forall ws acc, ws = pos acc -> lenb acc -> lenb (vec_loop res stop ps ws acc).
Proof. induction ps as [|p t IH]; intros Hin ws acc Hws Hb; cbn [vec_loop]; [exact Hb|].
  assert (Hin' : forall p, In p t -> In p all) by (intros x Hx; apply Hin; right; exact Hx).
  destruct (p <? ws) eqn:Ep; [apply IH; assumption|]. apply Z.ltb_ge in Ep.
  pose proof (zeros_lenb (Z.to_nat (p - ws)) p (Hin p (or_introl eq_refl)) ws acc Hws Ep Hb) as Hz. cbn zeta in Hz.
  destruct (zeros (Z.to_nat (p - ws)) res stop p ws acc) as [acc' [ws'|]]; cbn [fst snd] in Hz; destruct Hz as (Hb' & Hz); [|exact Hb'].
  destruct Hz as (Hws' & Hle'). apply IH; [exact Hin' | rewrite app_length; cbn [length]; lia|].
  intros i Hi. rewrite app_length in Hi. cbn [length] in Hi. destruct (Nat.eq_dec i (length acc')) as [->|Hn]; [|apply Hb'; lia].
  exists p. split; [apply Hin; left; reflexivity | lia]. Qed.
End L.

Theorem vectorise_len_bound ps res start stop : 1 <= res ->
  forall i, (i < length (vectorise ps res start stop))%nat -> exists p, In p ps /\ start + Z.of_nat i * res <= p.
Proof. intros Hres. unfold vectorise. apply (vec_loop_lenb res _ start ps Hres ps (fun p H => H) start []); [cbn; lia|]. intros i Hi. cbn in Hi. lia. Qed.

(* ---- small facts on ascending lists ---- *)
Lemma SS_le_last l : StronglySorted Z.le l -> forall x, In x l -> x <= last l 0.
Proof. induction l as [|y l IH]; intros Hs x Hx; [destruct Hx|]. inversion Hs as [|? ? Hs' Hall]; subst. destruct l as [|z l'].
  - destruct Hx as [<-|[]]. cbn. lia.
  - change (last (y :: z :: l') 0) with (last (z :: l') 0). destruct Hx as [<-|Hx]; [|apply IH; assumption].
    rewrite Forall_forall in Hall. specialize (Hall z (or_introl eq_refl)). specialize (IH Hs' z (or_introl eq_refl)). lia. Qed.
Lemma last_In (l : list Z) : l <> [] -> In (last l 0) l.
Proof. induction l as [|y l IH]; intros H; [congruence|]. destruct l as [|z l']; [left; reflexivity|]. right. apply IH. discriminate. Qed.
Lemma SS_skipn k : forall l, StronglySorted Z.le l -> StronglySorted Z.le (skipn k l).
Proof. induction k as [|k IH]; intros l Hs; [exact Hs|]. destruct l as [|x l]; [constructor|]. cbn [skipn]. apply IH. inversion Hs; assumption. Qed.
Lemma SS_firstn k : forall l, StronglySorted Z.le l -> StronglySorted Z.le (firstn k l).
Proof. induction k as [|k IH]; intros l Hs; [constructor|]. destruct l as [|x l]; [constructor|]. cbn [firstn]. inversion Hs as [|? ? Hs' Hall]; subst.
  constructor; [apply IH, Hs'|]. rewrite Forall_forall in *. intros y Hy. apply Hall. rewrite <- (firstn_skipn k l). apply in_or_app. left. exact Hy. Qed.
Lemma SS_map_sub c l : StronglySorted Z.le l -> StronglySorted Z.le (map (fun p => p - c) l).
Proof. induction 1 as [|x l Hs IH Hall]; [constructor|]. cbn [map]. constructor; [exact IH|]. rewrite Forall_forall in *. intros y Hy.
  apply in_map_iff in Hy. destruct Hy as (z & <- & Hz). specialize (Hall z Hz). lia. Qed.
Lemma SS_app_one l x : StronglySorted Z.le l -> (forall y, In y l -> y <= x) -> StronglySorted Z.le (l ++ [x]).
Proof. induction 1 as [|y l Hs IH Hall]; intros Hx; [repeat constructor|]. cbn [app]. constructor; [apply IH; intros z Hz; apply Hx; right; exact Hz|].
  rewrite Forall_forall in *. intros z Hz. apply in_app_or in Hz. destruct Hz as [Hz|[<-|[]]]; [apply Hall, Hz | apply Hx; left; reflexivity]. Qed.
(* the mirror image (D - p, read from the other end) of an ascending list is ascending *)
Lemma SS_mirror D l : StronglySorted Z.le l -> StronglySorted Z.le (map (fun p => D - p) (rev l)).
Proof. induction 1 as [|x l Hs IH Hall]; [constructor|]. cbn [rev]. rewrite map_app. cbn [map]. apply SS_app_one; [exact IH|].
  intros y Hy. apply in_map_iff in Hy. destruct Hy as (z & <- & Hz). apply in_rev in Hz. rewrite Forall_forall in Hall. specialize (Hall z Hz). lia. Qed.

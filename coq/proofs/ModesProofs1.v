(* C08, part 1: filterOutSubsequentAlignmentsForSingleQuery (Multi.filter_subsequent) — one row per query id, ascending ids,
   idempotent, a permutation when the ids are already distinct. *)
From Coq Require Import ZArith List Bool Lia Sorting.Permutation Sorting.Sorted.
Import ListNotations.
Require Import Py PyProofs Pairing Core Multi.
Open Scope Z_scope.

Section K.
Context {A : Type}.
Variable k : A -> Z.

Definition ssorted (l : list A) : Prop := StronglySorted (fun a b => k a < k b) l.
Definition heads (gs : list (list A)) : list A := flat_map (fun g => match g with [] => [] | x :: _ => [x] end) gs.

Lemma heads_keys gs : Forall (group_ok k) gs -> map k (heads gs) = map (fun g => gkey k g 0) gs.
Proof. induction gs as [|g gs IH]; intros H; [reflexivity|]. inversion H as [|? ? [Hne _] Hgs]; subst.
  destruct g as [|x g]; [congruence|]. cbn. f_equal. apply IH. exact Hgs. Qed.

Lemma heads_in x gs : In x (heads gs) -> In x (concat gs).
Proof. induction gs as [|g gs IH]; intros H; [destruct H|]. unfold heads in H. cbn [flat_map] in H. apply in_app_or in H. cbn [concat]. apply in_or_app.
  destruct H as [H|H]; [left | right; apply IH; exact H]. destruct g as [|y g]; [destruct H|]. destruct H as [<-|[]]. left. reflexivity. Qed.

Lemma ssorted_of_map l : StronglySorted Z.lt (map k l) -> ssorted l.
Proof. unfold ssorted. induction l as [|x t IH]; intros H; [constructor|]. cbn [map] in H. inversion H as [|? ? Ht Hx]; subst.
  constructor; [apply IH; exact Ht|]. rewrite Forall_forall in *. intros y Hy. apply Hx. apply in_map. exact Hy. Qed.

Lemma ssorted_nodup l : ssorted l -> NoDup (map k l).
Proof. unfold ssorted. induction l as [|x t IH]; intros H; [constructor|]. inversion H as [|? ? Ht Hx]; subst. cbn [map]. constructor; [|apply IH; exact Ht].
  intros Hin. apply in_map_iff in Hin. destruct Hin as (y & Ey & Hy). rewrite Forall_forall in Hx. specialize (Hx y Hy). lia. Qed.

Lemma ksorted_nodup_ssorted l : ksorted k l -> NoDup (map k l) -> ssorted l.
Proof. unfold ksorted, ssorted. induction l as [|x t IH]; intros H Hnd; [constructor|]. inversion H as [|? ? Ht Hx]; subst. cbn [map] in Hnd.
  inversion Hnd as [|? ? Hnin Hnd']; subst. constructor; [apply IH; assumption|]. rewrite Forall_forall in *. intros y Hy.
  specialize (Hx y Hy). assert (k x <> k y) by (intros E; apply Hnin; rewrite E; apply in_map; exact Hy). lia. Qed.

(* a strictly sorted list is the only key-sorted permutation of itself *)
Lemma sorted_perm_unique a : ssorted a -> forall b, ksorted k b -> Permutation a b -> a = b.
Proof. unfold ssorted, ksorted. induction a as [|x a IH]; intros Ha b Hb Hp.
  - apply Permutation_nil in Hp. symmetry. exact Hp.
  - destruct b as [|y b]; [apply Permutation_sym, Permutation_nil in Hp; discriminate|].
    inversion Ha as [|? ? Ha' Hx]; subst. inversion Hb as [|? ? Hb' Hy]; subst. rewrite Forall_forall in Hx, Hy.
    assert (Hxin : In x (y :: b)) by (apply (Permutation_in _ Hp); left; reflexivity).
    assert (Hyin : In y (x :: a)) by (apply (Permutation_in _ (Permutation_sym Hp)); left; reflexivity).
    assert (Exy : x = y).
    { destruct Hyin as [E|Hya]; [exact E|]. destruct Hxin as [E|Hxb]; [symmetry; exact E|].
      specialize (Hx y Hya). specialize (Hy x Hxb). lia. }
    subst y. f_equal. apply IH; [exact Ha' | exact Hb' | apply (Permutation_cons_inv Hp)]. Qed.

Lemma groupby_singletons l : ssorted l -> groupby k l = map (fun x => [x]) l.
Proof. unfold ssorted. induction l as [|x t IH]; intros H; [reflexivity|]. inversion H as [|? ? Ht Hx]; subst. cbn [groupby map]. rewrite (IH Ht).
  destruct t as [|y t']; [reflexivity|]. cbn [map]. rewrite Forall_forall in Hx. specialize (Hx y (or_introl eq_refl)).
  destruct (k x =? k y) eqn:E; [apply Z.eqb_eq in E; lia | reflexivity]. Qed.

Lemma heads_singletons l : heads (map (fun x => [x]) l) = l.
Proof. induction l as [|x t IH]; [reflexivity|]. unfold heads in *. cbn. rewrite IH. reflexivity. Qed.

Lemma nodup_filter_le1 c l : NoDup (map k l) -> (length (filter (fun x => (k x =? c)%Z) l) <= 1)%nat.
Proof. induction l as [|x t IH]; intros H; [cbn; lia|]. cbn [map] in H. inversion H as [|? ? Hnin Hnd]; subst. cbn [filter].
  destruct (k x =? c) eqn:E; [|apply IH; exact Hnd]. apply Z.eqb_eq in E.
  rewrite (filter_none (fun x0 => k x0 =? c) t); [cbn; lia|]. intros y Hy. apply Z.eqb_neq. intros Ey. apply Hnin. rewrite E, <- Ey. apply in_map. exact Hy. Qed.

Lemma le1_nodup l : (forall c, (length (filter (fun x => (k x =? c)%Z) l) <= 1)%nat) -> NoDup (map k l).
Proof. induction l as [|x t IH]; intros H; [constructor|]. cbn [map]. constructor.
  - intros Hin. apply in_map_iff in Hin. destruct Hin as (y & Ey & Hy). specialize (H (k x)). cbn [filter] in H. rewrite Z.eqb_refl in H. cbn [length] in H.
    assert (In y (filter (fun x0 => k x0 =? k x) t)) by (apply filter_In; split; [exact Hy | apply Z.eqb_eq; exact Ey]).
    destruct (filter (fun x0 => k x0 =? k x) t); [contradiction | cbn in H; lia].
  - apply IH. intros c. specialize (H c). cbn [filter] in H. destruct (k x =? c); cbn [length] in H; lia. Qed.
End K.

(* ---------- filter_subsequent ---------- *)
Notation negconf := (fun w : row => - conf w).

Lemma fs_unfold rows : filter_subsequent rows = heads (groupby qid (sort_by qid (sort_by negconf rows))).
Proof. reflexivity. Qed.

(* at most one row per query id, in ascending order of query ids *)
Theorem fs_sorted rows : ssorted qid (filter_subsequent rows).
Proof. apply ssorted_of_map. rewrite fs_unfold, heads_keys by apply groupby_groups. apply groupby_sort_by_keys. Qed.
Theorem fs_nodup rows : NoDup (map qid (filter_subsequent rows)).
Proof. apply ssorted_nodup, fs_sorted. Qed.

(* nothing is invented *)
Theorem fs_in x rows : In x (filter_subsequent rows) -> In x rows.
Proof. rewrite fs_unfold. intros H. apply heads_in in H. rewrite groupby_concat in H. apply sort_by_in in H. apply sort_by_in in H. exact H. Qed.

Lemma fs_perm_sort rows : Permutation rows (sort_by qid (sort_by negconf rows)).
Proof. symmetry. etransitivity; apply sort_by_perm. Qed.

(* rows whose ids are strictly ascending are left alone; hence idempotence *)
Theorem fs_fixed rows : ssorted qid rows -> filter_subsequent rows = rows.
Proof. intros H. rewrite fs_unfold.
  rewrite <- (sorted_perm_unique qid rows H (sort_by qid (sort_by negconf rows)) (sort_by_sorted qid _) (fs_perm_sort rows)).
  rewrite (groupby_singletons qid rows H). apply heads_singletons. Qed.
Theorem fs_idem rows : filter_subsequent (filter_subsequent rows) = filter_subsequent rows.
Proof. apply fs_fixed, fs_sorted. Qed.

(* rows with pairwise distinct ids are only re-ordered (ascending ids): nothing is dropped *)
Theorem fs_distinct rows : NoDup (map qid rows) -> filter_subsequent rows = sort_by qid (sort_by negconf rows).
Proof. intros H. rewrite fs_unfold. set (s := sort_by qid (sort_by negconf rows)).
  assert (Hs : ssorted qid s).
  { apply ksorted_nodup_ssorted; [apply sort_by_sorted|]. apply (Permutation_NoDup (l := map qid rows)); [|exact H].
    apply Permutation_map. apply fs_perm_sort. }
  rewrite (groupby_singletons qid s Hs). apply heads_singletons. Qed.
Theorem fs_distinct_perm rows : NoDup (map qid rows) -> Permutation (filter_subsequent rows) rows.
Proof. intros H. rewrite (fs_distinct rows H). symmetry. apply fs_perm_sort. Qed.

(* C06 / C11 seeding statements in the vocabulary of the pipeline model (planted, mirror_map), the isolated-window case in which
   the reference window at the true lag IS the query vector, and the reverse-strand copy on a lattice. *)
From Coq Require Import ZArith QArith List Bool Lia Sorting.Sorted.
Import ListNotations.
Require Import Py Vec Peaks Correlate VecProofs VecCovers BlurProofs CorrelateProofs1 CorrelateProofs2 CorrelateProofs3.
Require Import Pairing PlantedProofs2 MirrorProofs1.
Open Scope Z_scope.

Lemma SS_nth_mono l : StronglySorted Z.le l -> forall i j, (i <= j < length l)%nat -> nth i l 0 <= nth j l 0.
Proof. induction 1 as [|x l Hs IH Hall]; intros i j Hij; [cbn in Hij; lia|]. destruct j as [|j]; [assert (i = O) by lia; subst; lia|].
  destruct i as [|i]; cbn [nth]; [|apply IH; cbn in Hij; lia]. rewrite Forall_forall in Hall. apply Hall, nth_In. cbn in Hij. lia. Qed.
Lemma win_nth R a n t : (t < n)%nat -> nth t (win R a n) 0 = nth (a + t) R 0.
Proof. intros Ht. unfold win. rewrite (nth_firstn_lt n _ t 0 Ht). apply nth_skipn'. Qed.
Lemma win_length R a n : (a + n <= length R)%nat -> length (win R a n) = n.
Proof. intros H. unfold win. rewrite firstn_length, skipn_length. lia. Qed.
Lemma win_in R a n x : (a + n <= length R)%nat -> (In x (win R a n) <-> exists t, (t < n)%nat /\ x = nth (a + t) R 0).
Proof. intros Han. split.
  - intros Hx. destruct (In_nth _ _ 0 Hx) as (t & Ht & E). rewrite win_length in Ht by exact Han. exists t. split; [exact Ht|]. rewrite <- E. apply win_nth, Ht.
  - intros (t & Ht & ->). rewrite <- (win_nth R a n t Ht). apply nth_In. rewrite win_length by exact Han. exact Ht. Qed.

(* =============================================================================================================================
   a copy of CONSECUTIVE labels at a lattice offset: the reference window at the true lag IS the query vector.
   (Foreign reference labels lie in bins <= k0 or >= the last copied label's bin; whatever they blur into the window is already
   set by the blur of the first / last copied label.) *)
Section Window.
Variables (R : list Z) (a n : nat) (res : Z) (k0 r : nat).
Hypothesis Hres : 1 <= res.
Hypothesis HsR : StronglySorted Z.le R.
Hypothesis Hn : (1 <= n)%nat.
Hypothesis Han : (a + n <= length R)%nat.
Hypothesis Hoff : nth a R 0 = Z.of_nat k0 * res.

Let ra := nth a R 0.
Let rl := nth (a + n - 1) R 0.
Let qs := map (fun p => p - ra) (win R a n).
Let vq := vectorise qs res 0 None.
Let vr := vectorise R res 0 None.

Lemma iso_qs_sorted : StronglySorted Z.le qs.
Proof. apply SS_map_sub, SS_firstn, SS_skipn, HsR. Qed.
Lemma iso_win_bounds x : In x (win R a n) -> ra <= x <= rl.
Proof. intros Hx. apply (win_in R a n x Han) in Hx. destruct Hx as (t & Ht & ->). unfold ra, rl. split; (apply SS_nth_mono; [exact HsR | lia]). Qed.
Lemma iso_q_bit x : In x (win R a n) -> exists i2, (i2 < length vq)%nat /\ inbin res 0 i2 (x - ra) /\ nth i2 vq 0 = 1.
Proof. intros Hw. pose proof (iso_win_bounds _ Hw) as (W1 & W2).
  assert (Hq : In (x - ra) qs) by (unfold qs; apply in_map_iff; exists x; split; [reflexivity | exact Hw]).
  apply (vectorise_covers qs res 0 None Hres iso_qs_sorted _ Hq). split; [lia|]. cbn [eff_stop]. apply SS_le_last; [exact iso_qs_sorted | exact Hq]. Qed.

Lemma iso_window : window (blur vr r) k0 (length (blur vq r)) = blur vq r.
Proof.
  assert (Hoff0 : nth a R 0 = Z.of_nat k0 * res + 0) by lia.
  assert (L12 : (k0 <= length (blur vr r) - length (blur vq r))%nat /\ (length (blur vq r) <= length (blur vr r))%nat)
    by exact (pl_lag_ok R a n res k0 0 Hres HsR Hn Han ltac:(lia) Hoff0 r r).
  destruct L12 as (L1 & L2).
  assert (Hc : covers (blur vr r) (blur vq r) k0) by exact (pl_cover R a n res k0 0 Hres HsR Hn Han ltac:(lia) Hoff0 r r ltac:(cbn; lia)).
  assert (Hb0 : (0 < length vq)%nat /\ nth O vq 0 = 1) by exact (pl_vq_bit0 R a n res k0 0 Hres HsR Hn Han).
  destruct Hb0 as (Hpos & Hbit0).
  apply (nth_ext _ _ 0 0); [apply window_length; lia|]. intros i Hi. rewrite window_length in Hi by lia.
  unfold window. rewrite nth_firstn_lt by exact Hi. rewrite nth_skipn'.
  apply eq01; [apply is01_nth, blur_is01 | apply is01_nth, blur_is01|]. split; [|intros H1; exact (Hc i Hi H1)].
  rewrite blur_length in Hi. rewrite !blur_length in L1, L2.
  intros H1. apply blur_one_iff in H1; [|lia]. destruct H1 as (j' & Hj' & A & B & Hnz).
  destruct (vec_nonzero_label R res 0 None j' Hres HsR Hj' Hnz) as (x & Hx & (B1 & B2)).
  destruct (In_nth _ _ 0 Hx) as (m & Hm & <-).
  (* the last emitted bin of the query vector lies below the last copied label, and that label sets it *)
  assert (Hlast : (Z.of_nat (length vq) - 1) * res <= rl - ra).
  { destruct (vectorise_len_bound qs res 0 None Hres (length vq - 1) ltac:(fold vq; lia)) as (p & Hp & Hle).
    apply in_map_iff in Hp. destruct Hp as (y & <- & Hy). pose proof (iso_win_bounds y Hy). rewrite Nat2Z.inj_sub in Hle by lia. change (Z.of_nat 1) with 1 in Hle. lia. }
  assert (Hrl : In rl (win R a n)) by (apply (win_in R a n _ Han); exists (n - 1)%nat; split; [lia | unfold rl; f_equal; lia]).
  fold ra in Hoff.
  apply blur_one_iff; [exact Hi|].
  destruct (Nat.lt_ge_cases m a) as [Lm|Lm].
  - (* a label before the window: bin <= k0; the first copied label (query bin 0) is within the radius *)
    pose proof (SS_nth_mono R HsR m a ltac:(lia)) as Hle. fold ra in Hle.
    assert (Z.of_nat j' < Z.of_nat k0 + 1) by nia.
    exists O. split; [exact Hpos|]. split; [lia|]. split; [lia | lia].
  - destruct (Nat.lt_ge_cases m (a + n)) as [Lm2|Lm2].
    + (* a copied label: its query bit is j' - k0 *)
      assert (Hw : In (nth m R 0) (win R a n)) by (apply (win_in R a n _ Han); exists (m - a)%nat; split; [lia | f_equal; lia]).
      destruct (iso_q_bit _ Hw) as (i2 & Hi2 & (C1 & C2) & E2). assert (Z.of_nat j' = Z.of_nat k0 + Z.of_nat i2) by nia.
      exists i2. split; [exact Hi2|]. split; [lia|]. split; [lia | lia].
    + (* a label after the window: bin >= the last copied label's bin, which is the last query bin *)
      pose proof (SS_nth_mono R HsR (a + n - 1)%nat m ltac:(lia)) as Hle. fold rl in Hle.
      destruct (iso_q_bit _ Hrl) as (i2 & Hi2 & (C1 & C2) & E2).
      assert (i2 = (length vq - 1)%nat) by (assert (Z.of_nat (length vq) - 1 < Z.of_nat i2 + 1) by nia; lia). subst i2.
      assert (Z.of_nat k0 + (Z.of_nat (length vq) - 1) < Z.of_nat j' + 1) by nia.
      exists (length vq - 1)%nat. split; [lia|]. split; [lia|]. split; [lia | lia]. Qed.
End Window.

(* =============================================================================================================================
   the reverse-strand copy on a lattice equals the forward-strand copy as a vector *)
Lemma planted_reverse_positions R a n : (1 <= n)%nat -> (a + n <= length R)%nat ->
  map (fun p => nth (a + n - 1) R 0 - p) (rev (win R a n))
  = mirror_positions (nth (a + n - 1) R 0 - nth a R 0) (map (fun p => p - nth a R 0) (win R a n)).
Proof. intros Hn Han. unfold mirror_positions. rewrite <- map_rev, map_map. apply map_ext. intros p. lia. Qed.

Lemma planted_on_grid R a n res : 1 <= res -> StronglySorted Z.le R -> (1 <= n)%nat -> (a + n <= length R)%nat ->
  Forall (fun x => (res | x - nth a R 0)) (win R a n) ->
  on_grid res (nth (a + n - 1) R 0 - nth a R 0) (map (fun p => p - nth a R 0) (win R a n)).
Proof. intros Hres HsR Hn Han Hl. unfold on_grid. split; [apply SS_map_sub, SS_firstn, SS_skipn, HsR|].
  split; [rewrite Forall_forall in *; intros p Hp; apply in_map_iff in Hp; destruct Hp as (x & <- & Hx); apply Hl, Hx|].
  split; [apply in_map_iff; exists (nth a R 0); split; [lia | apply (win_in R a n _ Han); exists O; split; [lia | f_equal; lia]]|].
  split; [apply in_map_iff; exists (nth (a + n - 1) R 0); split; [reflexivity | apply (win_in R a n _ Han); exists (n - 1)%nat; split; [lia | f_equal; lia]]|].
  intros p Hp. apply in_map_iff in Hp. destruct Hp as (x & <- & Hx). apply (win_in R a n x Han) in Hx. destruct Hx as (t & Ht & ->).
  pose proof (SS_nth_mono R HsR a (a + t)%nat ltac:(lia)). pose proof (SS_nth_mono R HsR (a + t)%nat (a + n - 1)%nat ltac:(lia)). lia. Qed.

(* the query vector of the planted copy, either strand ('-' needs the lattice), is the forward vector of the window moved to 0 *)
Lemma planted_sequence R a n res r (rev_ : bool) q : 1 <= res -> StronglySorted Z.le R -> (1 <= n)%nat -> (a + n <= length R)%nat ->
  planted R a n rev_ q -> (rev_ = true -> Forall (fun x => (res | x - nth a R 0)) (win R a n)) ->
  get_sequence (mpositions q) res r rev_ 0 None = get_sequence (map (fun p => p - nth a R 0) (win R a n)) res r false 0 None.
Proof. intros Hres HsR Hn Han (_ & _ & Hp) Hl. cbn zeta in Hp. rewrite Hp. destruct rev_; [|reflexivity].
  rewrite planted_reverse_positions by assumption. apply sequence_mirror; [exact Hres|]. apply planted_on_grid; try assumption. apply Hl. reflexivity. Qed.

(* ---- the C06 statements ---- *)
Theorem planted_seed_true_lag R a n res r k0 (rev_ : bool) q :
  1 <= res -> StronglySorted Z.le R -> (1 <= n)%nat -> (a + n <= length R)%nat ->
  planted R a n rev_ q -> nth a R 0 = Z.of_nat k0 * res ->
  (rev_ = true -> Forall (fun x => (res | x - nth a R 0)) (win R a n)) ->
  let vr := get_sequence R res r false 0 None in
  let vq := get_sequence (mpositions q) res r rev_ 0 None in
  (length vq <= length vr)%nat /\ (k0 <= length vr - length vq)%nat /\ covers vr vq k0 /\
  0 < vsum vq /\ nth k0 (xcorr vr vq) 0 = vsum vq /\
  forall k, (k <= length vr - length vq)%nat -> nth k (xcorr vr vq) 0 <= nth k0 (xcorr vr vq) 0.
Proof. intros Hres HsR Hn Han Hp Hoff Hl vr vq. unfold vq. rewrite (planted_sequence R a n res r rev_ q Hres HsR Hn Han Hp Hl).
  exact (planted_true_lag_max R a n res r k0 Hres HsR Hn Han Hoff). Qed.

Theorem planted_seed_any_offset R a n res r k0 o q :
  1 <= res -> StronglySorted Z.le R -> (1 <= n)%nat -> (a + n <= length R)%nat ->
  planted R a n false q -> 0 <= o < res -> nth a R 0 = Z.of_nat k0 * res + o -> (1 <= r)%nat ->
  let vr := get_sequence R res r false 0 None in
  let vq := get_sequence (mpositions q) res r false 0 None in
  (length vq <= length vr)%nat /\ (k0 <= length vr - length vq)%nat /\
  vsum (get_sequence (mpositions q) res (r - 1) false 0 None) <= nth k0 (xcorr vr vq) 0 /\
  forall k, (k <= length vr - length vq)%nat -> nth k (xcorr vr vq) 0 <= vsum vq.
Proof. intros Hres HsR Hn Han (_ & _ & Hp) Ho Hoff Hr. cbn zeta in Hp. rewrite Hp.
  exact (planted_true_lag_any_offset R a n res r k0 o Hres HsR Hn Han Ho Hoff Hr). Qed.

Theorem planted_seed_normalised R a n res r k0 (rev_ : bool) q :
  1 <= res -> StronglySorted Z.le R -> (1 <= n)%nat -> (a + n <= length R)%nat ->
  planted R a n rev_ q -> nth a R 0 = Z.of_nat k0 * res ->
  (rev_ = true -> Forall (fun x => (res | x - nth a R 0)) (win R a n)) ->
  let vr := get_sequence R res r false 0 None in
  let vq := get_sequence (mpositions q) res r rev_ 0 None in
  window vr k0 (length vq) = vq /\ (nth k0 (normalised vr vq) 0 == 1)%Q /\
  forall k, (k <= length vr - length vq)%nat -> (nth k (normalised vr vq) 0 <= nth k0 (normalised vr vq) 0)%Q.
Proof. intros Hres HsR Hn Han Hp Hoff Hl vr vq.
  destruct (planted_seed_true_lag R a n res r k0 rev_ q Hres HsR Hn Han Hp Hoff Hl) as (L2 & L1 & _ & Hpos & _). fold vr vq in L1, L2, Hpos.
  assert (Hw : window vr k0 (length vq) = vq).
  { unfold vq. rewrite (planted_sequence R a n res r rev_ q Hres HsR Hn Han Hp Hl). unfold vr. rewrite !get_sequence_fwd.
    exact (iso_window R a n res k0 r Hres HsR Hn Han Hoff). }
  split; [exact Hw|]. apply true_lag_normalised_max; try assumption; apply get_sequence_is01. Qed.

(* ---- the C11 statements ---- *)
Lemma mirror_map_positions q : mpositions (mirror_map q) = mirror_positions (mlen q - K) (mpositions q).
Proof. reflexivity. Qed.

Theorem mirror_sequence q res r : 1 <= res -> on_grid res (mlen q - K) (mpositions q) ->
  get_sequence (mpositions (mirror_map q)) res r true 0 None = get_sequence (mpositions q) res r false 0 None.
Proof. intros Hres Hg. rewrite mirror_map_positions. apply sequence_mirror; assumption. Qed.

Theorem mirror_seeding q res r : 1 <= res -> 0 <= r -> on_grid res (mlen q - K) (mpositions q) ->
  (forall refv, xcorr refv (get_sequence (mpositions (mirror_map q)) res (Z.to_nat r) true 0 None) = xcorr refv (get_sequence (mpositions q) res (Z.to_nat r) false 0 None) /\
                correlate_valid refv (get_sequence (mpositions (mirror_map q)) res (Z.to_nat r) true 0 None) = correlate_valid refv (get_sequence (mpositions q) res (Z.to_nat r) false 0 None) /\
                normalised refv (get_sequence (mpositions (mirror_map q)) res (Z.to_nat r) true 0 None) = normalised refv (get_sequence (mpositions q) res (Z.to_nat r) false 0 None)) /\
  (forall rlen rps, initial_correlation (mlen (mirror_map q)) (mpositions (mirror_map q)) rlen rps res r true = initial_correlation (mlen q) (mpositions q) rlen rps res r false) /\
  (forall rps peak res2 r2 margin, 1 <= res2 -> 0 <= r2 -> on_grid res2 (mlen q - K) (mpositions q) ->
     refine_correlation (mlen (mirror_map q)) (mpositions (mirror_map q)) rps true peak res2 r2 margin = refine_correlation (mlen q) (mpositions q) rps false peak res2 r2 margin).
Proof. intros Hres Hr Hg. rewrite mirror_map_positions. change (mlen (mirror_map q)) with (mlen q).
  destruct (seeding_mirror res (mlen q - K) (mpositions q) r Hres Hr Hg) as (A & B & C). split; [exact A|]. split; [intros; apply B | intros; apply C; assumption]. Qed.

(* the lattice hypothesis of C11 (strictly ascending lattice labels of a trimmed molecule) gives the grid hypothesis *)
Lemma SS_lt_le l : StronglySorted Z.lt l -> StronglySorted Z.le l.
Proof. induction 1 as [|x l Hs IH Hall]; constructor; [exact IH|]. rewrite Forall_forall in *. intros y Hy. specialize (Hall y Hy). lia. Qed.
Lemma SS_hd_le l : StronglySorted Z.le l -> forall x, In x l -> hd 0 l <= x.
Proof. intros Hs x Hx. destruct l as [|y l]; [destruct Hx|]. cbn [hd]. inversion Hs as [|? ? _ Hall]; subst. destruct Hx as [<-|Hx]; [lia|].
  rewrite Forall_forall in Hall. apply Hall, Hx. Qed.
Theorem lattice_on_grid step q : StronglySorted Z.lt (mpositions q) -> on_lattice step (mpositions q) ->
  hd 0 (mpositions q) = 0 -> last (mpositions q) 0 = mlen q - K -> mpositions q <> [] -> on_grid step (mlen q - K) (mpositions q).
Proof. intros Hs Hl Hh Hla Hne. pose proof (SS_lt_le _ Hs) as Hs'. unfold on_grid. split; [exact Hs'|]. split; [exact Hl|].
  split; [rewrite <- Hh; destruct (mpositions q); [congruence | left; reflexivity]|].
  split; [rewrite <- Hla; apply last_In, Hne|].
  intros p Hp. split; [rewrite <- Hh; apply SS_hd_le; assumption | rewrite <- Hla; apply SS_le_last; assumption]. Qed.

(* scipy's conditions on the peaks (model/FindPeaks.v): height / prominence conditions are filters; the distance condition
   (_select_by_peak_distance) keeps peaks that are pairwise at least the distance apart and removes a peak only because of a kept peak
   closer than the distance whose priority is at least its own — for EVERY argsort numpy may return (any permutation of the peak
   numbers along which the priorities do not decrease), in particular for the stable one. *)
From Coq Require Import ZArith QArith List Bool Lia Sorting.Sorted Sorting.Permutation.
Import ListNotations.
Require Import Py FindPeaks DPProofs ResolverProofs1 FacProofs FindPeaksProofs1.
Open Scope nat_scope.

Lemma nth_repeat_true n : forall k, k < n -> nth k (repeat true n) false = true.
Proof. induction n as [|n IH]; intros k H; [lia|]. destruct k; [reflexivity|]. cbn. apply IH. lia. Qed.

(* ------------------------------------------------------------------------------------------------ filters *)
Lemma Sub_mask {B} : forall (l : list B) ks, Sub (mask l ks) l.
Proof. induction l as [|x t IH]; intros ks; [destruct ks; constructor|]. destruct ks as [|k ks]; [constructor|]. cbn [mask].
  destruct k; [apply Sub_take | apply Sub_skip]; apply IH. Qed.
Lemma mask_in {B} (dflt : B) : forall (l : list B) ks p, In p (mask l ks) <-> exists k, k < length l /\ nth k l dflt = p /\ nth k ks false = true.
Proof. induction l as [|x t IH]; intros ks p; [destruct ks; cbn; (split; [intros [] | intros (k & H & _); lia])|].
  destruct ks as [|b ks]; [cbn [mask]; split; [intros [] | intros (k & _ & _ & H); destruct k; discriminate]|]. cbn [mask].
  assert (Ht : In p (mask t ks) <-> exists k, S k < length (x :: t) /\ nth (S k) (x :: t) dflt = p /\ nth (S k) (b :: ks) false = true).
  { rewrite IH. cbn [length nth]. split; intros (k & H1 & H2); exists k; (split; [lia | exact H2]). }
  destruct b.
  - cbn [In]. rewrite Ht. split.
    + intros [<-|(k & H)]; [exists 0; cbn; repeat split; lia | exists (S k); exact H].
    + intros ([|k] & H1 & H2 & H3); [left; exact H2 | right; exists k; repeat split; assumption].
  - rewrite Ht. split; [intros (k & H); exists (S k); exact H|]. intros ([|k] & H1 & H2 & H3); [discriminate | exists k; repeat split; assumption]. Qed.

Section Conditions.
Context {A : Type}.
Variable leb : A -> A -> bool.

Theorem select_height_sub hok (peaks : list (nat * A)) : Sub (select_height hok peaks) peaks.
Proof. apply Sub_filter. Qed.
Theorem select_height_in hok (peaks : list (nat * A)) p : In p (select_height hok peaks) <-> In p peaks /\ hok (snd p) = true.
Proof. apply filter_In. Qed.
Theorem select_prominence_sub pok x (peaks : list (nat * A)) : Sub (select_prominence leb pok x peaks) peaks.
Proof. apply Sub_filter. Qed.
Theorem select_prominence_in pok x (peaks : list (nat * A)) p :
  In p (select_prominence leb pok x peaks) <-> In p peaks /\ pok (snd p) (prom_base leb x (fst p) (snd p)) = true.
Proof. apply filter_In. Qed.
Theorem select_distance_ord_sub ord d (peaks : list (nat * A)) : Sub (select_distance_ord ord d peaks) peaks.
Proof. apply Sub_mask. Qed.
Theorem find_peaks_ord_sub hok d pok x : Sub (find_peaks_ord leb hok d pok x) (local_maxima leb x).
Proof. unfold find_peaks_ord.
  set (p0 := local_maxima leb x). set (p1 := match hok with Some f => select_height f p0 | None => p0 end).
  assert (S1 : Sub p1 p0) by (unfold p1; destruct hok; [apply Sub_filter | apply Sub_refl]).
  set (p2 := match d with Some (dd, Some ord) => select_distance_ord ord dd p1 | Some (dd, None) => select_distance leb dd p1 | None => p1 end).
  assert (S2 : Sub p2 p1) by (unfold p2; destruct d as [[dd [o|]]|]; [apply Sub_mask | apply Sub_mask | apply Sub_refl]).
  destruct pok; [apply (Sub_trans _ p2); [apply Sub_filter|] |]; apply (Sub_trans _ p1); assumption. Qed.

(* ------------------------------------------------------------------------------------------------ one visit of the distance loop *)
Lemma clear_while_nth df d : forall ps ks, length ps = length ks ->
  (forall a b, a <= b < length ps -> df (nth a ps 0) <= df (nth b ps 0)) ->
  length (clear_while df d ps ks) = length ks /\
  forall k, k < length ps -> nth k (clear_while df d ps ks) false = if df (nth k ps 0) <? d then false else nth k ks false.
Proof. induction ps as [|p ps IH]; intros ks Hl Hm; [destruct ks; [split; [reflexivity | intros; cbn in *; lia] | discriminate]|].
  destruct ks as [|k0 ks]; [discriminate|]. cbn [clear_while]. destruct (df p <? d) eqn:E.
  - destruct (IH ks ltac:(cbn in Hl; lia)) as (H1 & H2).
    { intros a b H. apply (Hm (S a) (S b)). cbn [length]. lia. }
    split; [cbn [length]; rewrite H1; reflexivity|]. intros [|k] Hk; [cbn [nth]; rewrite E; reflexivity|]. cbn [nth]. apply H2. cbn [length] in Hk. lia.
  - split; [reflexivity|]. intros k Hk. apply Nat.ltb_ge in E. pose proof (Hm 0 k ltac:(lia)) as H. change (nth 0 (p :: ps) 0) with p in H.
    destruct (df (nth k (p :: ps) 0) <? d) eqn:E2; [apply Nat.ltb_lt in E2; lia | reflexivity]. Qed.

Section Dist.
Variable d : nat.
Variable pos : list nat.
Hypothesis pos_asc : forall a b, a < b < length pos -> nth a pos 0 < nth b pos 0.
Let n := length pos.

(* closer than the distance *)
Definition near (j k : nat) : bool := if k <? j then nth j pos 0 - nth k pos 0 <? d else nth k pos 0 - nth j pos 0 <? d.
Lemma near_sym j k : j <> k -> near j k = near k j.
Proof. intros H. unfold near. destruct (k <? j) eqn:E1; destruct (j <? k) eqn:E2; try reflexivity;
  [apply Nat.ltb_lt in E1; apply Nat.ltb_lt in E2; lia | apply Nat.ltb_ge in E1; apply Nat.ltb_ge in E2; lia]. Qed.

Lemma dist_step_false keep j : nth j keep false = false -> dist_step d pos keep j = keep.
Proof. unfold dist_step. intros ->. reflexivity. Qed.

Lemma dist_step_nth keep j : length keep = n -> j < n -> nth j keep false = true ->
  length (dist_step d pos keep j) = n /\
  forall k, k < n -> nth k (dist_step d pos keep j) false = if k =? j then true else if near j k then false else nth k keep false.
Proof. intros Hl Hj Hk. unfold dist_step. rewrite Hk. cbv zeta. set (pj := nth j pos 0).
  destruct (clear_while_nth (fun p => pj - p) d (rev (firstn j pos)) (rev (firstn j keep))) as (L1 & L2).
  { rewrite !rev_length, !firstn_length. lia. }
  { intros a b H. rewrite rev_length, firstn_length in H. fold n in H.
    rewrite !rev_nth by (rewrite firstn_length; fold n; lia). rewrite firstn_length. fold n. replace (Nat.min j n) with j by lia.
    rewrite !BlurProofs.nth_firstn_lt by lia. destruct (Nat.eq_dec a b) as [->|]; [lia|]. pose proof (pos_asc (j - S b) (j - S a) ltac:(fold n; lia)). lia. }
  destruct (clear_while_nth (fun p => p - pj) d (skipn (S j) pos) (skipn (S j) keep)) as (R1 & R2).
  { rewrite !skipn_length. lia. }
  { intros a b H. rewrite skipn_length in H. fold n in H. rewrite !BlurProofs.nth_skipn'.
    destruct (Nat.eq_dec a b) as [->|]; [lia|]. pose proof (pos_asc (S j + a) (S j + b) ltac:(fold n; lia)). lia. }
  rewrite rev_length, firstn_length in L1, L2. rewrite skipn_length in R1, R2. fold n in L2, R2. rewrite Hl in L1, R1.
  replace (Nat.min j n) with j in * by lia.
  split; [rewrite app_length, rev_length, L1; cbn [length]; rewrite R1; lia|].
  intros k Hkn. destruct (Nat.lt_trichotomy k j) as [L|[->|L]].
  - rewrite app_nth1 by (rewrite rev_length, L1; lia). rewrite rev_nth by (rewrite L1; lia). rewrite L1, L2 by lia.
    rewrite !rev_nth by (rewrite firstn_length; lia). rewrite !firstn_length. fold n. rewrite Hl. replace (Nat.min j n) with j by lia.
    replace (j - S (j - S k)) with k by lia. rewrite !BlurProofs.nth_firstn_lt by lia.
    destruct (k =? j) eqn:E; [apply Nat.eqb_eq in E; lia|]. unfold near. destruct (k <? j) eqn:E2; [|apply Nat.ltb_ge in E2; lia]. reflexivity.
  - rewrite app_nth2 by (rewrite rev_length, L1; lia). rewrite rev_length, L1, Nat.sub_diag, Nat.eqb_refl. reflexivity.
  - rewrite app_nth2 by (rewrite rev_length, L1; lia). rewrite rev_length, L1. replace (k - j) with (S (k - S j)) by lia. cbn [nth].
    rewrite R2 by lia. rewrite !BlurProofs.nth_skipn'. replace (S j + (k - S j)) with k by lia.
    destruct (k =? j) eqn:E; [apply Nat.eqb_eq in E; lia|]. unfold near. destruct (k <? j) eqn:E2; [apply Nat.ltb_lt in E2; lia|]. reflexivity. Qed.

(* ------------------------------------------------------------------------------------------------ the whole loop *)
Variable prio : nat -> A.
Hypothesis leb_total : forall a b, leb a b = true \/ leb b a = true.

(* done = the peaks visited so far *)
Definition inv (keep : list bool) (done : list nat) : Prop :=
  length keep = n /\
  (forall j, In j done -> nth j keep false = true -> forall k, k < n -> k <> j -> near j k = true -> nth k keep false = false) /\
  (forall k, k < n -> nth k keep false = false ->
     exists j, In j done /\ j < n /\ j <> k /\ nth j keep false = true /\ near j k = true /\ leb (prio k) (prio j) = true).

Lemma inv_step done j todo keep : Permutation (done ++ j :: todo) (seq 0 n) ->
  (forall e, In e todo -> leb (prio e) (prio j) = true) ->
  inv keep done -> inv (dist_step d pos keep j) (done ++ [j]).
Proof. intros Hperm Hsort (Hl & I1 & I2).
  assert (Hjn : j < n). { assert (In j (seq 0 n)) by (apply (Permutation_in _ Hperm), in_or_app; right; left; reflexivity). apply in_seq in H. lia. }
  assert (Hnd : NoDup (done ++ j :: todo)) by (apply (Permutation_NoDup (Permutation_sym Hperm)), seq_NoDup).
  assert (Hjd : ~ In j done). { intros H. apply NoDup_remove_2 in Hnd. apply Hnd, in_or_app. left. exact H. }
  destruct (nth j keep false) eqn:Ej.
  2:{ rewrite (dist_step_false keep j Ej). split; [exact Hl|]. split.
      - intros e He. apply in_app_or in He. destruct He as [He|[<-|[]]]; [apply I1, He | congruence].
      - intros k Hk Hf. destruct (I2 k Hk Hf) as (e & He & H). exists e. split; [apply in_or_app; left; exact He | exact H]. }
  destruct (dist_step_nth keep j Hl Hjn Ej) as (Hl' & Hn). split; [exact Hl'|]. split.
  - intros e He He' k Hk Hne Hnear. rewrite Hn by exact Hk. apply in_app_or in He. destruct He as [He|[<-|[]]].
    + assert (Hen : e < n). { assert (In e (seq 0 n)) by (apply (Permutation_in _ Hperm), in_or_app; left; exact He). apply in_seq in H. lia. }
      assert (e <> j) by (intros ->; exact (Hjd He)).
      rewrite Hn in He' by exact Hen. destruct (e =? j) eqn:E; [apply Nat.eqb_eq in E; lia|]. destruct (near j e); [discriminate|].
      destruct (k =? j) eqn:E2.
      * apply Nat.eqb_eq in E2. subst k. rewrite (I1 e He He' j Hjn ltac:(lia) Hnear) in Ej. discriminate.
      * destruct (near j k); [reflexivity | apply (I1 e He He' k Hk Hne Hnear)].
    + destruct (k =? j) eqn:E2; [apply Nat.eqb_eq in E2; lia|]. rewrite Hnear. reflexivity.
  - intros k Hk Hf. rewrite Hn in Hf by exact Hk. destruct (k =? j) eqn:E; [discriminate|]. apply Nat.eqb_neq in E.
    destruct (nth k keep false) eqn:Ekk.
    + (* removed by this visit *)
      destruct (near j k) eqn:Hnear; [|discriminate]. exists j. rewrite Hn by exact Hjn. rewrite Nat.eqb_refl.
      repeat split; [apply in_or_app; right; left; reflexivity | exact Hjn | lia | exact Hnear|].
      apply Hsort. assert (Hin : In k (done ++ j :: todo)) by (apply (Permutation_in _ (Permutation_sym Hperm)), in_seq; lia).
      apply in_app_or in Hin. destruct Hin as [Hin|[->|Hin]]; [|lia | exact Hin]. exfalso.
      rewrite (I1 k Hin Ekk j Hjn ltac:(lia)) in Ej; [discriminate|]. rewrite <- near_sym by lia. exact Hnear.
    + (* removed earlier *)
      destruct (I2 k Hk Ekk) as (e & He & Hen & Hek & Hke & Hnear & Hp). exists e.
      assert (e <> j) by (intros ->; exact (Hjd He)).
      rewrite Hn by exact Hen. destruct (e =? j) eqn:E3; [apply Nat.eqb_eq in E3; lia|].
      destruct (near j e) eqn:Hje.
      * exfalso. rewrite (I1 e He Hke j Hjn ltac:(lia)) in Ej; [discriminate|]. rewrite <- near_sym by lia. exact Hje.
      * repeat split; [apply in_or_app; left; exact He | exact Hen | exact Hek | exact Hke | exact Hnear | exact Hp]. Qed.

Lemma inv_fold : forall todo done keep, Permutation (done ++ todo) (seq 0 n) ->
  StronglySorted (fun a b => leb (prio b) (prio a) = true) todo ->
  inv keep done -> inv (fold_left (dist_step d pos) todo keep) (done ++ todo).
Proof. induction todo as [|j todo IH]; intros done keep Hp Hs Hi; [rewrite app_nil_r; exact Hi|]. cbn [fold_left].
  replace (done ++ j :: todo) with ((done ++ [j]) ++ todo) in * by (rewrite <- app_assoc; reflexivity).
  inversion Hs as [|? ? Hs' Hfa]; subst. apply IH; [exact Hp | exact Hs'|].
  apply (inv_step done j todo keep); [rewrite <- app_assoc in Hp; exact Hp | intros e He; rewrite Forall_forall in Hfa; apply Hfa, He | exact Hi]. Qed.

(* ord is an argsort of the priorities: a permutation of the peak numbers along which the priorities do not decrease *)
Definition valid_argsort (ord : list nat) : Prop :=
  Permutation ord (seq 0 n) /\ StronglySorted (fun a b => leb (prio a) (prio b) = true) ord.

Lemma SS_rev {B} (R : B -> B -> Prop) l : StronglySorted R l -> StronglySorted (fun a b => R b a) (rev l).
Proof. induction 1 as [|a l Hs IH Hf]; [constructor|]. cbn [rev]. apply FacProofs.SS_snoc; [exact IH|].
  rewrite Forall_forall in *. intros y Hy. apply Hf. apply in_rev. exact Hy. Qed.

Theorem distance_loop_spec ord : valid_argsort ord ->
  let keep := fold_left (dist_step d pos) (rev ord) (repeat true n) in
  length keep = n /\
  (forall j k, j < n -> k < n -> j <> k -> nth j keep false = true -> nth k keep false = true -> near j k = false) /\
  (forall k, k < n -> nth k keep false = false ->
     exists j, j < n /\ j <> k /\ nth j keep false = true /\ near j k = true /\ leb (prio k) (prio j) = true).
Proof. intros (Hp & Hs) keep.
  assert (Hi : inv keep ([] ++ rev ord)).
  { apply inv_fold; [cbn [app]; apply (Permutation_trans (Permutation_sym (Permutation_rev ord)) Hp) | apply (SS_rev _ _ Hs)|].
    split; [apply repeat_length|]. split; [intros j []|]. intros k Hk Hf. rewrite nth_repeat_true in Hf by exact Hk. discriminate. }
  cbn [app] in Hi. destruct Hi as (Hl & I1 & I2). split; [exact Hl|]. split.
  - intros j k Hj Hk Hne Hkj Hkk. destruct (near j k) eqn:E; [|reflexivity].
    assert (Hin : In j (rev ord)) by (apply in_rev; rewrite rev_involutive; apply (Permutation_in _ (Permutation_sym Hp)), in_seq; lia).
    rewrite (I1 j Hin Hkj k Hk ltac:(lia) E) in Hkk. discriminate.
  - intros k Hk Hf. destruct (I2 k Hk Hf) as (j & _ & H). exists j. exact H. Qed.
End Dist.
End Conditions.

(* The capstone, part 4: the "exception in the seeding stage = no seed" escape of Seeding.seeds_model is not taken in a run of the program on
   well-formed inputs: for every map the run seeds that has a label — every (trimmed) query, and every second-pass fragment that has a label —
   Seeding.seeds_res returns normally and seeds_model is its result. *)
From Coq Require Import ZArith QArith List Bool Lia String Sorting.Sorted Sorting.Permutation.
Import ListNotations.
Require Import Py Pairing Core Multi Coordinator Cmap Wiring Seeding Program CmapProofs CmapProofs2 RecordProofs1
  RunProofs2 RunProofs3 RunProofs5 RunRecordProofs1 SeedingProofs1 SeedingProofs4 ProgramProofs1 ProgramProofs2.
Open Scope Z_scope.

(* the command line's seeding options: 1 <= -r1, 0 <= -b1, 1 <= -r2, 0 <= -b2, -r1 <= -md *)
Definition seeding_ok (cl : cmdline) : Prop :=
  let sp := cl_seed cl in 1 <= res1 sp /\ 0 <= blur1 sp /\ 1 <= res2 sp /\ 0 <= blur2 sp /\ res1 sp <= min_dist sp.
(* every selected labelled molecule of the reference file has a label at a non-negative position *)
Definition ref_positions_ok (ids : list Z) (rows : list cmap_row) : Prop :=
  forall i, sel ids i -> labels_of rows i <> [] -> exists p, In p (labels_of rows i) /\ 0 <= p.

(* sufficient, and decidable on a concrete file: no label row has a negative position *)
Lemma ref_positions_ok_b ids rows : forallb (fun r => (rch r =? 0) || (0 <=? rpos r)) rows = true -> ref_positions_ok ids rows.
Proof. intros H i _ Hl. apply label_row in Hl. destruct Hl as (r & Hr & Ei & Hc). exists (rpos r). split.
  - unfold labels_of. apply in_map. apply filter_In. split; [exact Hr|]. rewrite Ei, Z.eqb_refl. apply Z.eqb_neq in Hc. rewrite Hc. reflexivity.
  - rewrite forallb_forall in H. specialize (H r Hr). apply Z.eqb_neq in Hc. rewrite Hc in H. cbn in H. apply Z.leb_le, H. Qed.

Lemma sorted_lt_hd_min l : StronglySorted Z.lt l -> forall p, In p l -> hd 0 l <= p.
Proof. intros H p Hp. destruct l as [|a t]; [destruct Hp|]. cbn [hd]. inversion H as [|? ? _ Hf]; subst. destruct Hp as [->|Hp]; [lia|].
  rewrite Forall_forall in Hf. specialize (Hf p Hp). lia. Qed.

Lemma in_skipn' {A} (l : list A) : forall n x, In x (skipn n l) -> In x l.
Proof. induction l as [|a t IH]; intros [|n] x H; cbn [skipn] in H; try exact H; try (destruct H). right. apply (IH n x H). Qed.

Lemma in_firstn' {A} (l : list A) : forall n x, In x (firstn n l) -> In x l.
Proof. induction l as [|a t IH]; intros [|n] x H; cbn [firstn] in H; try (destruct H; fail). destruct H as [->|H]; [left; reflexivity | right; apply (IH n x H)]. Qed.

Theorem program_seeding_exact cl rr qr : seeding_ok cl -> cmap_ok (cl_rids cl) rr -> cmap_ok (cl_qids cl) qr -> ref_positions_ok (cl_rids cl) rr ->
  exists refs q0s, cmap_read rr (cl_rids cl) = Ok refs /\ cmap_read qr (cl_qids cl) = Ok q0s /\
    forall q', src_map (map trim q0s) q' -> mpositions q' <> [] ->
      seeds_res (cl_seed cl) refs q' = Ok (seeds_model (cl_seed cl) refs q').
Proof. intros (H1 & H2 & H3 & H4 & H5) Hrr Hqr Hpos. destruct (program_setup cl rr qr Hrr Hqr) as (refs & q0s & S). exists refs, q0s.
  split; [apply (su_rread _ _ _ _ _ S)|]. split; [apply (su_qread _ _ _ _ _ S)|]. intros q' Hsrc Hne.
  apply (seeds_model_exact (cl_seed cl) H1 H2 H3 H4 H5).
  - intros r Hr. unfold labelled, has_label_from. destruct (su_rlab _ _ _ _ _ S r Hr) as (Hsel & _).
    destruct (read_exact_only rr (cl_rids cl) refs (su_rread _ _ _ _ _ S)) as (_ & Hi & Hf). rewrite Forall_forall in Hf. destruct (Hf r Hr) as (_ & Hp & _).
    assert (Hl : labels_of rr (mid r) <> []) by (apply (Hi (mid r)), in_map, Hr).
    destruct (Hpos (mid r) Hsel Hl) as (p & Hin & Hge). exists p. split; [|exact Hge]. apply (Permutation_in p (Permutation_sym Hp) Hin).
  - (* the positions of a trimmed query start at 0 and ascend; a fragment's positions are among them *)
    assert (Hq : forall q, In q (map trim q0s) -> forall p, In p (mpositions q) -> 0 <= p).
    { intros q Hin p Hp. apply in_map_iff in Hin. destruct Hin as (q0 & <- & H0). destruct (trim_trimmed q0 (su_q0s _ _ _ _ _ S q0 H0)) as (_ & Ha & _ & Hh & _).
      rewrite <- Hh. apply sorted_lt_hd_min; assumption. }
    unfold labelled, has_label_from. destruct (mpositions q') as [|p t] eqn:E; [congruence|]. exists p. split; [left; reflexivity|].
    destruct Hsrc as [Hin|(q & Hin & Hf)]; [apply (Hq q' Hin); rewrite E; left; reflexivity|].
    assert (Hsub : In p (mpositions q)).
    { destruct Hf as [(n & ->)|(sh & _ & ->)]; unfold fragment_at in E; cbn [mpositions] in E.
      - assert (X : In p (firstn n (skipn 0 (mpositions q)))) by (rewrite E; left; reflexivity). apply in_firstn' in X. exact X.
      - assert (X : In p (firstn (List.length (mpositions q) - sh) (skipn sh (mpositions q)))) by (rewrite E; left; reflexivity).
        apply in_firstn' in X. apply (in_skipn' _ sh p X). }
    apply (Hq q Hin p Hsub). Qed.

(* The maps a run seeds are, by the definition of _MultiPassWorkflowCoordinator.execute (Coordinator.multi_execute), the queries (first pass) and
   the fragments getUnalignedFragments returns for the first-pass rows (second pass).  On every one of them the seeding stage returns normally. *)
Theorem program_seeding_full cl rr qr : cmdline_ok cl -> seeding_ok cl -> cmap_ok (cl_rids cl) rr -> cmap_ok (cl_qids cl) qr -> ref_positions_ok (cl_rids cl) rr ->
  let P := make_params (cl_args cl) in let seeds : seeding := seeds_model (cl_seed cl) in
  exists refs q0s rows1 it1 frags, cmap_read rr (cl_rids cl) = Ok refs /\ cmap_read qr (cl_qids cl) = Ok q0s /\
    execute P seeds refs (map trim q0s) 1 = Ok (rows1, it1) /\ all_fragments rows1 (map trim q0s) = Ok frags /\
    forall q', In q' (map trim q0s ++ frags) -> seeds_res (cl_seed cl) refs q' = Ok (seeds_model (cl_seed cl) refs q').
Proof. intros Hcl Hsd Hrr Hqr Hpos P seeds. destruct (program_seeding_exact cl rr qr Hsd Hrr Hqr Hpos) as (refs & q0s & E1 & E2 & Hex).
  destruct (program_setup cl rr qr Hrr Hqr) as (refs' & q0s' & S). pose proof (su_rread _ _ _ _ _ S) as E1'. pose proof (su_qread _ _ _ _ _ S) as E2'.
  rewrite E1 in E1'. rewrite E2 in E2'. injection E1' as <-. injection E2' as <-. exists refs, q0s.
  assert (Hqq : forall q, In q (map trim q0s) -> trimmed q).
  { intros q H. apply in_map_iff in H. destruct H as (q0 & <- & H0). apply trim_trimmed, (su_q0s _ _ _ _ _ S), H0. }
  assert (Hn : NoDup (map mid (map trim q0s))) by (rewrite map_mid_trim; apply (su_qid _ _ _ _ _ S)).
  pose proof (cl_Hsu cl Hcl) as Hsu. pose proof (cl_Hms cl Hcl) as Hms. fold P in Hsu, Hms.
  assert (Hr : forall r, In r refs -> ascending r) by (intros r H; apply (su_refs _ _ _ _ _ S r H)).
  destruct (execute_total P seeds refs Hsu Hms (map trim q0s) 1) as ([rows1 it1] & Ee). exists rows1, it1.
  destruct (first_pass_fragments P seeds refs Hsu Hms (seeds_model_ok (cl_seed cl) refs) Hr (map trim q0s) (fun q H => proj1 (proj2 (Hqq q H))) Hn rows1 it1 Ee)
    as (frags & Ef & Hfr). exists frags. split; [exact E1|]. split; [exact E2|]. split; [exact Ee|]. split; [exact Ef|].
  assert (Hne : Forall (fun f => mpositions f <> []) frags).
  { apply (first_pass_fragments_nonempty P seeds refs Hsu Hms (seeds_model_ok (cl_seed cl) refs) Hr (map trim q0s)) with (rows1 := rows1) (it1 := it1); [|exact Ee | exact Ef].
    intros q H. destruct (Hqq q H) as (Hs0 & Ha & Hn0 & _). split; [exact Ha|]. split; [exact Hn0 | lia]. }
  intros q' Hin. apply in_app_or in Hin. destruct Hin as [Hin|Hin].
  - apply Hex; [left; exact Hin|]. destruct (Hqq q' Hin) as (_ & _ & Hn0 & _). exact Hn0.
  - rewrite Forall_forall in Hfr, Hne. destruct (Hfr q' Hin) as (q & Hq & Hf). apply Hex; [right; exists q; split; assumption | apply Hne, Hin]. Qed.

Print Assumptions program_seeding_exact.
Print Assumptions program_seeding_full.

(* C08, part 3: AlignmentResultRow.resolve (Multi.join_rows) — what a joined row is made of. *)
From Coq Require Import ZArith List Bool Lia Sorting.Permutation.
Import ListNotations.
Require Import Py PyProofs Pairing Core Multi Coordinator Checkers ConflictProofs ModesProofs1 ModesProofs2.
Open Scope Z_scope.

(* ---------- one conflict-resolution step never adds or moves a position (no well-formedness needed) ---------- *)
Lemma filter_true {A} (l : list A) : filter (fun _ => true) l = l.
Proof. induction l as [|x t IH]; [reflexivity|]. cbn. rewrite IH. reflexivity. Qed.

Definition sub_positions (s s' : segment) : Prop := exists f, positions s' = filter f (positions s).
Lemma sub_positions_refl s : sub_positions s s.
Proof. exists (fun _ => true). rewrite filter_true. reflexivity. Qed.
Lemma sub_positions_seg_sub s o : sub_positions s (seg_sub s o).
Proof. eexists. reflexivity. Qed.

Theorem resolve_pair_sub a b a' b' : resolve_pair a b = Ok (a', b') -> sub_positions a a' /\ sub_positions b b'.
Proof.
  unfold resolve_pair. intros H.
  destruct (seg_empty a); [injection H as <- <-; split; apply sub_positions_refl|].
  destruct (end_overlaps a b) as [ov|]; [|discriminate]. cbn [bind] in H.
  destruct ov; cbn [negb] in H; [|injection H as <- <-; split; apply sub_positions_refl].
  destruct (start_position b) as [cs|]; [|discriminate]. cbn [bind] in H.
  destruct (end_position a) as [ce|]; [|discriminate]. cbn [bind] in H.
  destruct (slice a cs ce) as [lsub|]; [|discriminate]. cbn [bind] in H.
  destruct (slice b cs ce) as [rsub|]; [|discriminate]. cbn [bind] in H.
  destruct (Nat.eqb _ _).
  - destruct (Nat.eqb _ 0).
    + injection H as <- <-. split; [apply sub_positions_seg_sub | apply sub_positions_refl].
    + destruct (Nat.eqb _ _); injection H as <- <-; split;
        first [apply sub_positions_seg_sub | apply sub_positions_refl].
  - destruct (_ <? _); injection H as <- <-; split; first [apply sub_positions_seg_sub | apply sub_positions_refl].
Qed.

Lemma sub_positions_aligned s s' p : sub_positions s s' -> In p (aligned s') -> In p (aligned s).
Proof. intros (f & E) H. unfold aligned in *. rewrite E in H. apply filter_In in H. destruct H as (H & Hp).
  apply filter_In in H. destruct H as (H & _). apply filter_In. split; assumption. Qed.

(* no conflict region: the step returns both members unchanged *)
Lemma resolve_pair_no_overlap a b : end_overlaps a b = Ok false -> resolve_pair a b = Ok (a, b).
Proof. intros H. unfold resolve_pair. destruct (seg_empty a); [reflexivity|]. rewrite H. reflexivity. Qed.

(* ---------- join_rows ---------- *)
(* the two segments[0] in the order in which the code hands them to the resolver *)
Definition join_order (a b : row) (sa sb : segment) (pa pb : Z) : segment * segment := if pa <? pb then (sa, sb) else (sb, sa).

Theorem join_rows_inv a b j : join_rows a b = Ok j ->
  exists pa pb sa ta sb tb s1' s2',
    first_pair_rpos a = Ok pa /\ first_pair_rpos b = Ok pb /\ rsegs a = sa :: ta /\ rsegs b = sb :: tb /\
    resolve_pair (fst (join_order a b sa sb pa pb)) (snd (join_order a b sa sb pa pb)) = Ok (s1', s2') /\
    j = row_create [s1'; s2'] (qid a) (rid a) (qlen a) (rlen a) (rrev a).
Proof.
  unfold join_rows. intros H.
  destruct (first_pair_rpos a) as [pa|] eqn:Epa; [|discriminate]. cbn [bind] in H.
  destruct (first_pair_rpos b) as [pb|] eqn:Epb; [|discriminate]. cbn [bind] in H.
  unfold seg0 in H. destruct (rsegs a) as [|sa ta] eqn:Ea; [discriminate|]. cbn [bind] in H.
  destruct (rsegs b) as [|sb tb] eqn:Eb; [discriminate|]. cbn [bind] in H.
  exists pa, pb, sa, ta, sb, tb. unfold join_order.
  destruct (pa <? pb); cbn [fst snd].
  - destruct (resolve_pair sa sb) as [[s1' s2']|] eqn:Er; [|discriminate]. cbn [bind fst snd] in H. injection H as <-.
    exists s1', s2'. repeat split; reflexivity.
  - destruct (resolve_pair sb sa) as [[s1' s2']|] eqn:Er; [|discriminate]. cbn [bind fst snd] in H. injection H as <-.
    exists s1', s2'. repeat split; reflexivity.
Qed.

(* header of a joined row: ids, lengths and strand of the first part, AlignedRest False *)
Theorem join_rows_header a b j : join_rows a b = Ok j ->
  qid j = qid a /\ rid j = rid a /\ qlen j = qlen a /\ rlen j = rlen a /\ rrev j = rrev a /\ rest j = false.
Proof. intros H. destruct (join_rows_inv a b j H) as (pa & pb & sa & ta & sb & tb & s1' & s2' & _ & _ & _ & _ & _ & ->).
  repeat split; reflexivity. Qed.

Lemma row_pairs_two s1 s2 : row_pairs [s1; s2] = aligned s1 ++ aligned s2.
Proof. unfold row_pairs. cbn. rewrite app_nil_r. reflexivity. Qed.
Lemma row_pairs_one s : row_pairs [s] = aligned s.
Proof. unfold row_pairs. cbn. rewrite app_nil_r. reflexivity. Qed.
Lemma rsegs_row_create segs q r ql rl v : rsegs (row_create segs q r ql rl v) = segs.
Proof. reflexivity. Qed.

(* the pairs of a joined row are pairs of segments[0] of one of the two parts — hence pairs of one of the parts *)
Theorem join_rows_subset0 a b j : join_rows a b = Ok j ->
  exists sa ta sb tb, rsegs a = sa :: ta /\ rsegs b = sb :: tb /\
    forall p, In p (row_pairs (rsegs j)) -> In p (aligned sa) \/ In p (aligned sb).
Proof. intros H. destruct (join_rows_inv a b j H) as (pa & pb & sa & ta & sb & tb & s1' & s2' & _ & _ & Ea & Eb & Er & ->).
  exists sa, ta, sb, tb. repeat split; [exact Ea | exact Eb|]. intros p Hp. rewrite rsegs_row_create, row_pairs_two in Hp.
  apply resolve_pair_sub in Er. destruct Er as (S1 & S2). unfold join_order in S1, S2.
  apply in_app_or in Hp. destruct (pa <? pb); cbn [fst snd] in S1, S2; destruct Hp as [Hp|Hp].
  - left. exact (sub_positions_aligned _ _ p S1 Hp).
  - right. exact (sub_positions_aligned _ _ p S2 Hp).
  - right. exact (sub_positions_aligned _ _ p S1 Hp).
  - left. exact (sub_positions_aligned _ _ p S2 Hp). Qed.

Theorem join_rows_subset a b j : join_rows a b = Ok j ->
  forall p, In p (row_pairs (rsegs j)) -> In p (row_pairs (rsegs a)) \/ In p (row_pairs (rsegs b)).
Proof. intros H p Hp. destruct (join_rows_subset0 a b j H) as (sa & ta & sb & tb & Ea & Eb & Hs).
  rewrite Ea, Eb. unfold row_pairs. cbn [flat_map]. destruct (Hs p Hp) as [Hi|Hi]; [left | right]; apply in_or_app; left; exact Hi. Qed.

(* sharper, for well-formed segments[0] (ConflictProofs.resolve_pair_subrun): a leading run of the positions of the member that starts
   first on the reference followed by a trailing run of the positions of the other member *)
Theorem join_rows_subrun a b j : join_rows a b = Ok j ->
  exists pa pb sa ta sb tb s1' s2',
    first_pair_rpos a = Ok pa /\ first_pair_rpos b = Ok pb /\ rsegs a = sa :: ta /\ rsegs b = sb :: tb /\ rsegs j = [s1'; s2'] /\
    let s1 := fst (join_order a b sa sb pa pb) in let s2 := snd (join_order a b sa sb pa pb) in
    (wfL s1 -> wfR s2 -> trimmed_left s1 s1' /\ trimmed_right s2 s2').
Proof. intros H. destruct (join_rows_inv a b j H) as (pa & pb & sa & ta & sb & tb & s1' & s2' & Epa & Epb & Ea & Eb & Er & ->).
  exists pa, pb, sa, ta, sb, tb, s1', s2'. split; [exact Epa|]. split; [exact Epb|]. split; [exact Ea|]. split; [exact Eb|]. split; [reflexivity|].
  cbn zeta. intros HL HR. exact (resolve_pair_subrun _ _ _ _ HL HR Er). Qed.

(* positive half of "joined = union": parts of one segment each whose segments have no conflict region are concatenated unchanged,
   the part starting first on the reference first — every pair of both parts is kept, none is added *)
Theorem join_rows_single_no_overlap a b j sa sb pa pb :
  rsegs a = [sa] -> rsegs b = [sb] -> first_pair_rpos a = Ok pa -> first_pair_rpos b = Ok pb ->
  end_overlaps (fst (join_order a b sa sb pa pb)) (snd (join_order a b sa sb pa pb)) = Ok false ->
  join_rows a b = Ok j ->
  row_pairs (rsegs j) = (if pa <? pb then row_pairs (rsegs a) ++ row_pairs (rsegs b) else row_pairs (rsegs b) ++ row_pairs (rsegs a)) /\
  Permutation (row_pairs (rsegs j)) (row_pairs (rsegs a) ++ row_pairs (rsegs b)).
Proof. intros Ea Eb Epa Epb Ho H. unfold join_rows in H. rewrite Epa, Epb in H. cbn [bind] in H. unfold seg0 in H. rewrite Ea, Eb in H. cbn [bind] in H.
  unfold join_order in Ho. rewrite Ea, Eb, !row_pairs_one.
  destruct (pa <? pb); cbn [fst snd] in Ho; rewrite (resolve_pair_no_overlap _ _ Ho) in H; cbn [bind fst snd] in H; injection H as <-;
    rewrite rsegs_row_create, row_pairs_two; split; try reflexivity. apply Permutation_app_comm. Qed.

(* ---------- "joined = union whenever the union is a valid matching" is FALSE of the model (finding F7) ---------- *)
Definition site_pairs_of (w : row) : list (Z * Z) :=
  map (fun p => (site (pr (pv_of p)), site (pq (pv_of p)))) (row_pairs (rsegs w)).
Definition mk_pair_pos (i : Z) : spos := mkS (Pair (mkLabel i (i * 10000)) (mkLabel i (i * 10000)) 0 1) 1000.
Definition mk_seg (l : list Z) (peak : Z) : segment := seg_create (map mk_pair_pos l) peak.
(* first pass: one segment, labels 1-3; second pass: two segments, labels 5-6 and 8-9 (same query, reference, strand) *)
Definition f7_first : row := row_create [mk_seg [1; 2; 3] 0] 7 1 100000 1000000 false.
Definition f7_second : row := set_rest (row_create [mk_seg [5; 6] 0; mk_seg [8; 9] 0] 7 1 100000 1000000 false).

Theorem join_is_union_refuted :
  exists (a b j : row) (maxdiff : Z),
    rest a = false /\ rest b = true /\ qid a = qid b /\ check_overlap a b maxdiff = true /\ join_rows a b = Ok j /\
    let union := site_pairs_of a ++ site_pairs_of b in
    valid_rowb 9 1 9 false union = true /\          (* the union of the parts' pairs is a one-to-one collinear matching *)
    site_pairs_of j <> union /\ In (8, 8) union /\ ~ In (8, 8) (site_pairs_of j).
Proof. exists f7_first, f7_second, (row_create [mk_seg [1; 2; 3] 0; mk_seg [5; 6] 0] 7 1 100000 1000000 false), 100000.
  repeat split; try (vm_compute; reflexivity); vm_compute.
  - intros H; discriminate H.
  - right; right; right; right; right; left; reflexivity.
  - intros H. repeat (destruct H as [H|H]; [discriminate H|]). exact H. Qed.

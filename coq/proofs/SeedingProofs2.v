(* The primary stage of the executable seeding model on a planted grid-aligned copy: OpticalMap.getInitialAlignment (Seeding.primary_peaks)
   returns a peak of normalised height exactly 1 at a bin whose reference window is bit for bit the query vector; when the query vector
   contains a 0 the plateau of the true lag is the single bin k0 and the peak is at k0 or closer than the peak distance to it. *)
From Coq Require Import ZArith QArith List Bool Lia Sorting.Sorted.
Import ListNotations.
Require Import Py Vec Peaks Correlate SeqFast Pairing Core Multi Coordinator FindPeaks Seeding.
Require Import DPProofs ResolverProofs1 BlurProofs FindPeaksProofs1 FindPeaksProofs2 FindPeaksProofs3 FindPeaksProofs4 FindPeaksProofs5
  CorrelateProofs1 CorrelateProofs3 CorrelateProofs4 PlantedProofs2 SeqFastProofs SeedingProofs1.
Open Scope nat_scope.

(* ---- primary_peaks computes find_peaks / createPeaks on `normalised` (no exception, no EmptyInitialAlignment, scipy's unswapped branch) ---- *)
Lemma primary_peaks_normalised sp ref q rev_ : (1 <= res1 sp)%Z -> (0 <= blur1 sp)%Z -> mpositions q <> [] -> mpositions ref <> [] ->
  (mlen q <= mlen ref)%Z ->
  let vr := get_sequence (mpositions ref) (K * res1 sp) (Z.to_nat (blur1 sp)) false 0 None in
  let vq := get_sequence (mpositions q) (K * res1 sp) (Z.to_nat (blur1 sp)) rev_ 0 None in
  vq <> [] -> length vq <= length vr ->
  primary_peaks sp ref q rev_ = primary_from sp ref rev_ None (normalised vr vq).
Proof. intros Hres Hb Hq Hr Hlen vr vq Hne Hl. unfold primary_peaks. rewrite initial_correlation_f_eq. unfold initial_correlation.
  destruct (mlen ref <? mlen q)%Z eqn:E; [apply Z.ltb_lt in E; lia|].
  assert (HK : (1 <= K * res1 sp)%Z) by (unfold K; lia).
  rewrite (get_sequence_py_ok (mpositions q) _ _ rev_ 0 None HK Hb Hq), (get_sequence_py_ok (mpositions ref) _ _ false 0 None HK Hb Hr).
  cbn [bind]. fold vr vq. rewrite (correlate_valid_xcorr vr vq Hne Hl). cbn [bind].
  assert (H1 : repeat 1%Z (length vq) <> []) by (destruct vq; [congruence | discriminate]).
  assert (H2 : length (repeat 1%Z (length vq)) <= length vr) by (rewrite repeat_length; exact Hl).
  rewrite (correlate_valid_xcorr vr (repeat 1%Z (length vq)) H1 H2). cbn [bind]. reflexivity. Qed.

(* ---- createPeaks' cut keeps a peak of maximal height ---- *)
Lemma sort_hdesc_head (l : list (nat * Q)) : l <> [] ->
  exists p t, fold_right (ins_hdesc qleb) [] l = p :: t /\ In p l /\ forall x, In x l -> qleb (snd x) (snd p) = true.
Proof. induction l as [|x l IH]; [congruence|]. intros _. cbn [fold_right]. destruct l as [|y l'].
  - exists x, []. repeat split; [left; reflexivity|]. intros z [<-|[]]. apply (leb_refl qleb qleb_total).
  - destruct (IH ltac:(discriminate)) as (p & t & E & Hp & Hm). rewrite E. cbn [ins_hdesc]. destruct (qleb (snd p) (snd x)) eqn:Ex.
    + exists x, (p :: t). repeat split; [left; reflexivity|]. intros z [<-|Hz]; [apply (leb_refl qleb qleb_total)|].
      apply (qleb_trans _ (snd p)); [apply Hm, Hz | exact Ex].
    + exists p, (ins_hdesc qleb x t). repeat split; [right; exact Hp|]. intros z [<-|Hz]; [|apply Hm, Hz].
      destruct (qleb_total (snd x) (snd p)) as [H|H]; [exact H | congruence]. Qed.
Lemma ins_hdesc_in {B} (leb : B -> B -> bool) x : forall l p, In p (ins_hdesc leb x l) <-> p = x \/ In p l.
Proof. induction l as [|y t IH]; intros p; cbn [ins_hdesc]; [cbn; intuition|]. destruct (leb (snd y) (snd x)); cbn [In]; [intuition|]. rewrite IH. intuition. Qed.
Lemma cut_top_in {B} (leb : B -> B -> bool) count (l : list (nat * B)) p : In p (cut_top leb count l) -> In p l.
Proof. unfold cut_top. destruct (count <? length l); [|exact (fun H => H)]. intros H.
  assert (Hs : forall m q, In q (fold_right (ins_hdesc leb) [] m) -> In q m).
  { induction m as [|x m IH]; intros q Hq; [destruct Hq|]. cbn [fold_right] in Hq. apply ins_hdesc_in in Hq. destruct Hq as [->|Hq]; [left; reflexivity | right; apply IH, Hq]. }
  apply Hs. revert H. generalize (fold_right (ins_hdesc leb) [] l). intros m. revert m. induction count as [|c IH]; intros m H; [destruct H|].
  destruct m as [|y u]; [destruct H|]. destruct H as [->|H]; [left; reflexivity | right; apply IH, H]. Qed.
Lemma cut_top_max count (found : list (nat * Q)) p : 1 <= count -> In p found ->
  exists p', In p' (cut_top qleb count found) /\ In p' found /\ qleb (snd p) (snd p') = true.
Proof. intros Hc Hp. unfold cut_top. destruct (count <? length found) eqn:E.
  - destruct (sort_hdesc_head found ltac:(intros ->; destruct Hp)) as (p' & t & Es & Hp' & Hm). rewrite Es. exists p'.
    destruct count as [|c]; [lia|]. cbn [firstn]. repeat split; [left; reflexivity | exact Hp' | apply Hm, Hp].
  - exists p. repeat split; [exact Hp | exact Hp | apply (leb_refl qleb qleb_total)]. Qed.

(* ---- the planted copy ---- *)
Theorem planted_primary_peak sp ref q a n k0 (rev_ : bool) :
  (1 <= res1 sp)%Z -> (0 <= blur1 sp)%Z -> (res1 sp <= min_dist sp)%Z -> 1 <= pcount sp ->
  StronglySorted Z.le (mpositions ref) -> 1 <= n -> a + n <= length (mpositions ref) ->
  planted (mpositions ref) a n rev_ q -> (mlen q <= mlen ref)%Z ->
  nth a (mpositions ref) 0%Z = (Z.of_nat k0 * (K * res1 sp))%Z ->
  (rev_ = true -> Forall (fun x => (K * res1 sp | x - nth a (mpositions ref) 0)%Z) (win (mpositions ref) a n)) ->
  let vr := get_sequence (mpositions ref) (K * res1 sp) (Z.to_nat (blur1 sp)) false 0 None in
  let vq := get_sequence (mpositions q) (K * res1 sp) (Z.to_nat (blur1 sp)) rev_ 0 None in
  let c := normalised vr vq in
  (exists a', a' < k0 /\ (nth a' c 0 < 1)%Q) ->
  (exists b', k0 < b' <= length vr - length vq /\ (nth b' c 0 < 1)%Q) ->
  exists l p m, primary_peaks sp ref q rev_ = Ok l /\ In p l /\ pp_ref p = ref /\ pp_rev p = rev_ /\ (pp_height p == 1)%Q /\
    (forall p', In p' l -> (pp_height p' <= 1)%Q) /\
    pp_pos p = bin_to_bp (Z.of_nat m) (res1 sp) 0 /\ m <= length vr - length vq /\ window vr m (length vq) = vq.
Proof. intros Hres Hb Hd Hpc HsR Hn Han Hp Hlen Hoff Hl vr vq c Hleft Hright.
  assert (HK : (1 <= K * res1 sp)%Z) by (unfold K; lia).
  destruct (planted_seed_true_lag (mpositions ref) a n (K * res1 sp) (Z.to_nat (blur1 sp)) k0 rev_ q HK HsR Hn Han Hp Hoff Hl) as (L2 & L1 & _ & Hpos & _).
  fold vr vq in L1, L2, Hpos.
  assert (Hqne : mpositions q <> []).
  { destruct Hp as (_ & _ & Hp). cbn zeta in Hp. intros E. rewrite E in Hp. assert (Hw : length (win (mpositions ref) a n) = n).
    { unfold win. rewrite firstn_length, skipn_length. lia. }
    destruct rev_; symmetry in Hp; apply (f_equal (@length Z)) in Hp; rewrite ?map_length, ?rev_length in Hp; fold (win (mpositions ref) a n) in Hp;
      rewrite Hw in Hp; cbn in Hp; lia. }
  assert (Hrne : mpositions ref <> []) by (intros E; rewrite E in Han; cbn in Han; lia).
  assert (Hvne : vq <> []) by (intros E; rewrite E in Hpos; cbn in Hpos; lia).
  rewrite (primary_peaks_normalised sp ref q rev_ Hres Hb Hqne Hrne Hlen Hvne L2). fold vr vq c.
  destruct (planted_yields_peak (mpositions ref) a n (K * res1 sp) (Z.to_nat (blur1 sp)) k0 rev_ q
              (Z.to_nat ((min_dist sp + res1 sp - 1) / res1 sp)) HK HsR Hn Han Hp Hoff Hl Hleft Hright)
    as (l0 & r0 & _ & _ & _ & Hle & m' & h' & Hin & Eh & Hw & _). fold vr vq c in Hle, Hin, Hw.
  unfold primary_from, peak_distance. destruct (min_dist sp <? res1 sp)%Z eqn:E; [apply Z.ltb_lt in E; lia|]. cbn [bind].
  set (d := Z.to_nat ((min_dist sp + res1 sp - 1) / res1 sp)) in *. change (find_peaks_initial_gen c ((3 # 4) * qmax c) d None) with (find_peaks_initial c d).
  destruct (cut_top_max (pcount sp) (find_peaks_initial c d) (m', h') Hpc Hin) as ([m2 h2] & Hc & Hf & Hge). cbn [snd] in Hge.
  assert (Hfound : forall x, In x (find_peaks_initial c d) -> fst x < length c /\ snd x = nth (fst x) c 0%Q).
  { intros [mp hp] Hx. pose proof (Sub_in _ _ _ (find_peaks_ord_sub qleb _ _ _ c) Hx) as Hlm.
    destruct (local_maxima_inside qleb qleb_total qleb_trans 0%Q c mp hp Hlm) as (_ & H2 & H3 & _). cbn [fst snd]. split; [lia | exact H3]. }
  assert (Hlenc : length c = length vr - length vq + 1) by apply normalised_length.
  assert (E2 : (h2 == 1)%Q). { apply Qle_antisym; [apply (Hle _ Hf) | rewrite <- Eh; apply qleb_iff, Hge]. }
  destruct (Hfound _ Hf) as (Hm2 & Ev2). cbn [fst snd] in Hm2, Ev2.
  assert (Hvr : is01 vr) by apply get_sequence_is01. assert (Hvq : is01 vq) by apply get_sequence_is01.
  assert (Hw2 : window vr m2 (length vq) = vq).
  { apply (normalised_1_window vr vq m2 Hvr Hvq L2 ltac:(lia) Hpos). change (nth m2 c 0 == 1)%Q. rewrite <- Ev2. exact E2. }
  destruct (cut_top qleb (pcount sp) (find_peaks_initial c d)) as [|k t] eqn:Ec; [destruct Hc|]. rewrite <- Ec in *.
  eexists. exists (mkPP ref rev_ (bin_to_bp (Z.of_nat m2) (res1 sp) 0) h2 (mean_square c) (sqrt_lo (mean_square c))), m2.
  split; [rewrite Ec at 1; rewrite <- Ec; reflexivity|]. cbn [pp_ref pp_rev pp_height pp_pos].
  split; [apply in_map_iff; exists (m2, h2); split; [reflexivity | exact Hc]|].
  split; [reflexivity|]. split; [reflexivity|]. split; [exact E2|]. split; [|split; [reflexivity | split; [lia | exact Hw2]]].
  intros p' Hp'. apply in_map_iff in Hp'. destruct Hp' as (x & <- & Hx). cbn [pp_height]. apply (Hle x). apply (cut_top_in _ _ _ _ Hx). Qed.

(* C15/C01, part 8: the position list AlignerEngine.align returns is ordered (`before`), also between unaligned and aligned
   positions.  Needs strictly ascending label positions in both maps. *)
From Coq Require Import ZArith QArith List Bool Lia Sorting.Sorted Sorting.Permutation.
Import ListNotations.
Require Import Py Pairing Core PyProofs PairingProofs1 PairingProofs2 PairingProofs3 ConflictProofs DPProofs ResolverProofs1.
Open Scope Z_scope.

Definition rlab_ap (p : apos) : option label := match p with Pair r _ _ _ => Some r | URef r => Some r | UQry _ _ => None end.
Definition qlab_ap (p : apos) : option label := match p with Pair _ q _ _ => Some q | URef _ => None | UQry q _ => Some q end.
Definition before_ap (dir : Z) (x y : apos) : Prop :=
  (forall r r', rlab_ap x = Some r -> rlab_ap y = Some r' -> lpos r < lpos r' /\ site r < site r') /\
  (forall q q', qlab_ap x = Some q -> qlab_ap y = Some q' -> lpos q < lpos q' /\ 0 < dir * (site q' - site q)).

Lemma SS_NoDup {A} (R : A -> A -> Prop) l : (forall x, ~ R x x) -> StronglySorted R l -> NoDup l.
Proof. intros Hirr. induction 1 as [|x t Ht IH Hx]; constructor; [|exact IH]. intros Hin. rewrite Forall_forall in Hx. apply (Hirr x). apply Hx. exact Hin. Qed.
Lemma NoDup_map_in {A B} (f : A -> B) l : (forall x y, In x l -> In y l -> f x = f y -> x = y) -> NoDup l -> NoDup (map f l).
Proof. intros Hinj. induction 1 as [|x t Hx Ht IH]; cbn; constructor.
  - intros Hin. apply in_map_iff in Hin. destruct Hin as (y & E & Hy). apply Hx. rewrite (Hinj x y (or_introl eq_refl) (or_intror Hy) (eq_sym E)). exact Hy.
  - apply IH. intros a b Ha Hb. apply Hinj; right; assumption. Qed.
Lemma NoDup_app' {A} (l1 l2 : list A) : NoDup l1 -> NoDup l2 -> (forall x, In x l1 -> ~ In x l2) -> NoDup (l1 ++ l2).
Proof. induction 1 as [|x t Hx Ht IH]; intros H2 Hd; cbn; [exact H2|]. constructor.
  - intros Hin. apply in_app_or in Hin. destruct Hin as [Hin|Hin]; [contradiction | apply (Hd x (or_introl eq_refl) Hin)].
  - apply IH; [exact H2|]. intros y Hy. apply Hd. right. exact Hy. Qed.
Lemma SS_strengthen {A} (R : A -> A -> Prop) l : StronglySorted R l -> NoDup l -> StronglySorted (fun x y => R x y /\ x <> y) l.
Proof. induction 1 as [|x t Ht IH Hx]; intros Hnd; constructor.
  - apply IH. inversion Hnd; assumption.
  - rewrite Forall_forall in *. intros y Hy. split; [apply Hx; exact Hy|]. intros ->. inversion Hnd; contradiction. Qed.
Lemma SS_weaken_in {A} (R R' : A -> A -> Prop) l : (forall x y, In x l -> In y l -> R x y -> R' x y) -> StronglySorted R l -> StronglySorted R' l.
Proof. intros Himp. induction 1 as [|x t Ht IH Hx]; constructor.
  - apply IH. intros a b Ha Hb. apply Himp; right; assumption.
  - rewrite Forall_forall in *. intros y Hy. apply Himp; [left; reflexivity | right; exact Hy | apply Hx; exact Hy]. Qed.

Section Engine.
Variables (d start dir it : Z) (R Q : list label).
Hypothesis Hd : 0 <= d.
Hypothesis HRs : StronglySorted (fun a b => site a < site b /\ lpos a < lpos b) R.
Hypothesis HQs : StronglySorted (fun a b => 0 < dir * (site b - site a) /\ lpos a < lpos b) Q.

Lemma HRw : StronglySorted (fun a b => site a < site b /\ lpos a <= lpos b) R.
Proof. apply (SS_weaken _ _ R (fun a b H => conj (proj1 H) (Z.lt_le_incl _ _ (proj2 H))) HRs). Qed.
Lemma HQw : StronglySorted (fun a b => 0 < dir * (site b - site a) /\ lpos a <= lpos b) Q.
Proof. apply (SS_weaken _ _ Q (fun a b H => conj (proj1 H) (Z.lt_le_incl _ _ (proj2 H))) HQs). Qed.

Notation PP := (P d start R Q).
Notation PP1 := (P1 d start R Q).
Notation CC := (cands d start R Q).
Notation adj_ := (adj start).

Lemma R_cases a b : In a R -> In b R -> a = b \/ (site a < site b /\ lpos a < lpos b) \/ (site b < site a /\ lpos b < lpos a).
Proof. intros Ha Hb. apply (SS_in_cases _ R a b HRs Ha Hb). Qed.
Lemma Q_cases a b : In a Q -> In b Q -> a = b \/ (0 < dir * (site b - site a) /\ lpos a < lpos b) \/ (0 < dir * (site a - site b) /\ lpos b < lpos a).
Proof. intros Ha Hb. apply (SS_in_cases _ Q a b HQs Ha Hb). Qed.

Lemma P_facts c : In c PP -> In c PP1 /\ In c CC /\ In (cr c) R /\ In (cq c) Q /\ Z.abs (lpos (cq c) - adj_ (cr c)) <= d /\ cshift c = lpos (cq c) - adj_ (cr c).
Proof. intros H. pose proof (P_in_P1 d start R Q c H) as H1. pose proof (P1_in d start R Q c H1) as H2.
  pose proof H2 as H3. apply (cands_in d start dir R Q HQw) in H3. unfold within in H3. tauto. Qed.

(* an unaligned query label sits on the same side of an aligned pair in the list order (absolute position) as on the query *)
Lemma junk_q_consistent c q' : In c PP -> In q' Q -> (forall c', In c' PP -> site (cq c') <> site q') ->
  (lpos q' + start <= lpos (cr c) -> lpos q' < lpos (cq c)) /\ (lpos (cr c) <= lpos q' + start -> lpos (cq c) < lpos q').
Proof.
  intros Hc Hq' Hun. destruct (P_facts c Hc) as (Hc1 & Hcc & Hr & Hq & Hw & Hs).
  set (r := cr c) in *. set (q := cq c) in *. set (a := adj_ r) in *. unfold adj in a.
  assert (Hne : lpos q' <> lpos q).
  { destruct (Q_cases q' q Hq' Hq) as [E|[H|H]]; [|lia|lia]. exfalso. apply (Hun c Hc). rewrite E. reflexivity. }
  assert (Hkey : forall (Hcl : Z.abs (lpos q' - a) < Z.abs (lpos q - a)),
            (lpos q' <= a -> lpos q < lpos q' -> False) /\ (a <= lpos q' -> lpos q' < lpos q -> False)).
  { intros Hcl. set (c21 := mkCand r q' (lpos q' - a)).
    assert (Hc21 : In c21 CC) by (apply (cands_in d start dir R Q HQw); cbn; unfold within, adj; fold a; repeat split; try assumption; lia).
    destruct (dedup_cover qsite CC c21 Hc21) as (x & Hx & Hkx). pose proof (P1_in d start R Q x Hx) as Hxc. pose proof Hxc as Hxc'.
    apply (cands_in d start dir R Q HQw) in Hxc'. destruct Hxc' as (Hxr & Hxq & _ & Hxs). unfold qsite in Hkx. cbn in Hkx.
    pose proof (Q_site_inj dir Q HQw _ _ Hxq Hq' Hkx) as Eq.
    destruct (dedup_in qsite CC x Hx) as (_ & Hmin). specialize (Hmin c21 Hc21 (eq_sym Hkx)). unfold ashift in Hmin. cbn in Hmin. rewrite Hxs, Eq in Hmin. unfold adj in Hmin.
    destruct (label_eq_dec (cr x) r) as [Er|Nr].
    - (* q' chose r as well: then r would have chosen q' *)
      assert (Ex : x = c21) by (apply (cand_eq d start dir R Q HQw x c21 Hxc Hc21); [exact Er | exact Eq]).
      destruct (dedup_in rsite PP1 c Hc) as (_ & Hminr). rewrite Ex in Hx. specialize (Hminr c21 Hx eq_refl). unfold ashift in Hminr. cbn in Hminr. rewrite Hs in Hminr. fold a in Hminr. lia.
    - destruct (R_cases (cr x) r Hxr Hr) as [E|[(Hs1 & Hl1)|(Hs1 & Hl1)]]; [contradiction| |].
      + pose proof (P1_monotone d start dir R Q HRw HQw x c Hx Hc1 Hs1) as Hm. rewrite Eq in Hm. fold q in Hm. split; intros; lia.
      + pose proof (P1_monotone d start dir R Q HRw HQw c x Hc1 Hx Hs1) as Hm. rewrite Eq in Hm. fold q in Hm. fold r in Hl1. split; intros; lia. }
  split; intros Hside.
  - destruct (Z_lt_le_dec (lpos q') (lpos q)) as [Hlt|Hge]; [exact Hlt|exfalso]. assert (Hcl : Z.abs (lpos q' - a) < Z.abs (lpos q - a)) by (unfold a; lia).
    apply (proj1 (Hkey Hcl)); unfold a; lia.
  - destruct (Z_lt_le_dec (lpos q) (lpos q')) as [Hlt|Hge]; [exact Hlt|exfalso]. assert (Hcl : Z.abs (lpos q' - a) < Z.abs (lpos q - a)) by (unfold a; lia).
    apply (proj2 (Hkey Hcl)); unfold a; lia.
Qed.

(* ---------- the unsorted list of positions ---------- *)
Definition pairsL : list apos := map (fun c => Pair (cr c) (cq c) (cshift c) it) PP.
Definition rsL : list Z := map (fun c => site (cr c)) PP.
Definition qsL : list Z := map (fun c => site (cq c)) PP.
Definition unaL : list apos :=
  map URef (filter (fun r => negb (mem_site (site r) rsL)) R) ++ map (fun q => UQry q start) (filter (fun q => negb (mem_site (site q) qsL)) Q).
Definition ML : list apos := pairsL ++ unaL.

Lemma mem_site_false s l : mem_site s l = false -> forall z, In z l -> z <> s.
Proof. unfold mem_site. intros H z Hz E. subst z. assert (X : existsb (Z.eqb s) l = true) by (apply existsb_exists; exists s; split; [exact Hz | apply Z.eqb_refl]). congruence. Qed.

Definition inML (x : apos) : Prop :=
  match x with
  | Pair r q s i => exists c, In c PP /\ r = cr c /\ q = cq c /\ s = cshift c /\ i = it
  | URef r => In r R /\ forall c, In c PP -> site (cr c) <> site r
  | UQry q s => In q Q /\ s = start /\ forall c, In c PP -> site (cq c) <> site q
  end.
Lemma in_ML x : In x ML -> inML x.
Proof. unfold ML, pairsL, unaL. intros H. apply in_app_or in H. destruct H as [H|H].
  - apply in_map_iff in H. destruct H as (c & <- & Hc). exists c. auto.
  - apply in_app_or in H. destruct H as [H|H]; apply in_map_iff in H; destruct H as (l & <- & Hl); apply filter_In in Hl; destruct Hl as (Hl & Hm); apply negb_true_iff in Hm.
    + split; [exact Hl|]. intros c Hc. apply (mem_site_false _ _ Hm). unfold rsL. apply in_map_iff. exists c. auto.
    + split; [exact Hl|]. split; [reflexivity|]. intros c Hc. apply (mem_site_false _ _ Hm). unfold qsL. apply in_map_iff. exists c. auto. Qed.

Lemma P_rsite_inj c c' : In c PP -> In c' PP -> site (cr c) = site (cr c') -> c = c'.
Proof. intros H H' E. destruct (SS_in_cases _ PP c c' (P_rsorted d start R Q) H H') as [X|[X|X]]; [exact X | |]; unfold rsite in X; lia. Qed.

Lemma ML_pairwise x y : In x ML -> In y ML -> x <> y -> abs_pos x <= abs_pos y -> before_ap dir x y.
Proof.
  intros Hx Hy Hne Habs. apply in_ML in Hx, Hy. unfold before_ap.
  destruct x as [r q s i|r|q s], y as [r' q' s' i'|r'|q' s']; cbn [inML rlab_ap qlab_ap abs_pos] in *.
  - (* pair, pair *)
    destruct Hx as (c & Hc & -> & -> & -> & ->). destruct Hy as (c' & Hc' & -> & -> & -> & ->).
    destruct (P_facts c Hc) as (_ & _ & Hr & Hq & _). destruct (P_facts c' Hc') as (_ & _ & Hr' & Hq' & _).
    assert (Hsr : site (cr c) < site (cr c') /\ lpos (cr c) < lpos (cr c')).
    { destruct (R_cases (cr c) (cr c') Hr Hr') as [E|[X|X]]; [|exact X|lia]. exfalso. apply Hne. rewrite (P_rsite_inj c c' Hc Hc'); [reflexivity | rewrite E; reflexivity]. }
    split; intros ? ? E1 E2; injection E1 as <-; injection E2 as <-.
    + lia.
    + split; [apply (P_monotone_pos d start dir R Q HRw HQw c c' Hc Hc'); unfold rsite; lia | apply (P_monotone_site d start dir R Q HRw HQw c c' Hc Hc'); unfold rsite; lia].
  - (* pair, unaligned reference *)
    destruct Hx as (c & Hc & -> & -> & -> & ->). destruct Hy as (Hr' & Hun). destruct (P_facts c Hc) as (_ & _ & Hr & _).
    split; [|intros ? ? _ E2; discriminate]. intros ? ? E1 E2. injection E1 as <-. injection E2 as <-.
    destruct (R_cases (cr c) r' Hr Hr') as [E|[X|X]]; [|lia|lia]. exfalso. apply (Hun c Hc). rewrite E. reflexivity.
  - (* pair, unaligned query *)
    destruct Hx as (c & Hc & -> & -> & -> & ->). destruct Hy as (Hq' & -> & Hun). destruct (P_facts c Hc) as (_ & _ & _ & Hq & _).
    split; [intros ? ? _ E2; discriminate|]. intros ? ? E1 E2. injection E1 as <-. injection E2 as <-.
    pose proof (proj2 (junk_q_consistent c q' Hc Hq' Hun) Habs) as Hl. split; [exact Hl|].
    destruct (Q_cases (cq c) q' Hq Hq') as [E|[X|X]]; [rewrite E in Hl; lia | apply X | lia].
  - (* unaligned reference, pair *)
    destruct Hy as (c & Hc & -> & -> & -> & ->). destruct Hx as (Hr & Hun). destruct (P_facts c Hc) as (_ & _ & Hr' & _).
    split; [|intros ? ? E1 _; discriminate]. intros ? ? E1 E2. injection E1 as <-. injection E2 as <-.
    destruct (R_cases r (cr c) Hr Hr') as [E|[X|X]]; [|lia|lia]. exfalso. apply (Hun c Hc). rewrite E. reflexivity.
  - (* two unaligned references *)
    destruct Hx as (Hr & _). destruct Hy as (Hr' & _). split; [|intros ? ? E1 _; discriminate]. intros ? ? E1 E2. injection E1 as <-. injection E2 as <-.
    destruct (R_cases r r' Hr Hr') as [E|[X|X]]; [exfalso; apply Hne; rewrite E; reflexivity | lia | lia].
  - split; [intros ? ? _ E2; discriminate | intros ? ? E1 _; discriminate].
  - (* unaligned query, pair *)
    destruct Hy as (c & Hc & -> & -> & -> & ->). destruct Hx as (Hq & -> & Hun). destruct (P_facts c Hc) as (_ & _ & _ & Hq' & _).
    split; [intros ? ? E1 _; discriminate|]. intros ? ? E1 E2. injection E1 as <-. injection E2 as <-.
    pose proof (proj1 (junk_q_consistent c q Hc Hq Hun) Habs) as Hl. split; [exact Hl|].
    destruct (Q_cases q (cq c) Hq Hq') as [E|[X|X]]; [rewrite E in Hl; lia | apply X | lia].
  - split; [intros ? ? E1 _; discriminate | intros ? ? _ E2; discriminate].
  - (* two unaligned queries *)
    destruct Hx as (Hq & -> & _). destruct Hy as (Hq' & -> & _). split; [intros ? ? E1 _; discriminate|]. intros ? ? E1 E2. injection E1 as <-. injection E2 as <-.
    destruct (Q_cases q q' Hq Hq') as [E|[X|X]]; [exfalso; apply Hne; rewrite E; reflexivity | split; [lia | apply X] | lia].
Qed.

Lemma ML_NoDup : NoDup ML.
Proof.
  assert (HndP : NoDup PP) by (apply (SS_NoDup _ _ (fun x => Z.lt_irrefl (rsite x)) (P_rsorted d start R Q))).
  assert (HndR : NoDup R) by (apply (SS_NoDup _ R (fun x (H : site x < site x /\ lpos x < lpos x) => Z.lt_irrefl _ (proj1 H)) HRs)).
  assert (HndQ : NoDup Q) by (apply (SS_NoDup _ Q (fun x (H : 0 < dir * (site x - site x) /\ lpos x < lpos x) => Z.lt_irrefl _ (proj2 H)) HQs)).
  unfold ML. apply NoDup_app'.
  - unfold pairsL. apply NoDup_map_in; [|exact HndP]. intros c c' Hc Hc' E. injection E as E1 _ _. apply (P_rsite_inj c c' Hc Hc'). rewrite E1. reflexivity.
  - unfold unaL. apply NoDup_app'.
    + apply NoDup_map_in; [intros a b _ _ E; injection E as ->; reflexivity | apply NoDup_filter; exact HndR].
    + apply NoDup_map_in; [intros a b _ _ E; injection E as ->; reflexivity | apply NoDup_filter; exact HndQ].
    + intros x Hx Hx'. apply in_map_iff in Hx, Hx'. destruct Hx as (a & <- & _). destruct Hx' as (b & E & _). discriminate.
  - intros x Hx Hx'. unfold pairsL in Hx. apply in_map_iff in Hx. destruct Hx as (c & <- & _). unfold unaL in Hx'. apply in_app_or in Hx'.
    destruct Hx' as [H|H]; apply in_map_iff in H; destruct H as (b & E & _); discriminate.
Qed.

Theorem engine_list_ordered : StronglySorted (before_ap dir) (sort_by abs_pos ML).
Proof.
  pose proof (sort_by_sorted abs_pos ML) as Hs. unfold ksorted in Hs.
  pose proof (sort_by_perm abs_pos ML) as Hp.
  assert (Hnd : NoDup (sort_by abs_pos ML)) by (apply (Permutation_NoDup (Permutation_sym Hp) ML_NoDup)).
  refine (SS_weaken_in _ _ _ _ (SS_strengthen _ _ Hs Hnd)). intros x y Hx Hy (Hle & Hne).
  apply ML_pairwise; [apply (Permutation_in _ Hp Hx) | apply (Permutation_in _ Hp Hy) | exact Hne | exact Hle].
Qed.
End Engine.

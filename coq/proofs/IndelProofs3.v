From Coq Require Import ZArith QArith List Bool Lia Permutation Sorting.Sorted.
Import ListNotations.
Require Import Py Indels Indels2 IndelProofs IndelProofs2 PyProofs.
Open Scope Z_scope.
(* Where the sortedness of the clustered list matters: which calls end up in the same cluster. *)

(* ------------------------------------------------------------------ stable sort by k2, then stable sort by k1 = sort on the pair (k1, k2) *)
Section TwoKeys.
Context {A : Type}.
Variables k1 k2 : A -> Z.
Definition lex2 (a b : A) : Prop := k1 a < k1 b \/ (k1 a = k1 b /\ k2 a <= k2 b).
Lemma StronglySorted_filter (R : A -> A -> Prop) (p : A -> bool) l : StronglySorted R l -> StronglySorted R (filter p l).
Proof. induction 1 as [|a l Hs IH Hf]; cbn; [constructor|]. destruct (p a); [|exact IH]. constructor; [exact IH|].
  rewrite Forall_forall in *. intros x Hx. apply filter_In in Hx. apply Hf, Hx. Qed.
Lemma lex_of_filters r : ksorted k1 r -> (forall c, ksorted k2 (filter (fun y => k1 y =? c) r)) -> StronglySorted lex2 r.
Proof. unfold ksorted. induction r as [|a t IH]; intros H1 H2; [constructor|]. inversion H1 as [|? ? Ht Ha]; subst. constructor.
  - apply IH; [exact Ht|]. intro c. specialize (H2 c). cbn [filter] in H2. destruct (k1 a =? c); [inversion H2; assumption | exact H2].
  - rewrite Forall_forall in *. intros b Hb. specialize (Ha b Hb). destruct (Z.eq_dec (k1 a) (k1 b)) as [E|E]; [|left; lia]. right. split; [exact E|].
    specialize (H2 (k1 a)). cbn [filter] in H2. rewrite Z.eqb_refl in H2. inversion H2 as [|? ? _ Hf]; subst. rewrite Forall_forall in Hf. apply Hf.
    apply filter_In. split; [exact Hb | apply Z.eqb_eq; symmetry; exact E]. Qed.
Lemma two_key_sorted l : StronglySorted lex2 (sort_by k1 (sort_by k2 l)).
Proof. apply lex_of_filters; [apply sort_by_sorted|]. intro c. rewrite sort_by_filter. apply StronglySorted_filter. apply (sort_by_sorted k2). Qed.
End TwoKeys.

Definition lex_le (a b : call) : Prop := cchr a < cchr b \/ (cchr a = cchr b /\ cre a <= cre b).
Definition lex_sorted (l : list call) : Prop := StronglySorted lex_le l.
Lemma sort_calls_sorted l : lex_sorted (sort_calls l).
Proof. exact (two_key_sorted cchr cre l). Qed.
Lemma sort_clusters_sorted l : StronglySorted (fun a b => lchr a < lchr b \/ (lchr a = lchr b /\ lre a <= lre b)) (sort_clusters l).
Proof. exact (two_key_sorted lchr lre l). Qed.

(* ------------------------------------------------------------------ neighbouring clusters are separated *)
Fixpoint adjacent {A} (R : A -> A -> Prop) (l : list A) : Prop :=
  match l with
  | [] => True
  | x :: t => match t with y :: _ => R x y | [] => True end /\ adjacent R t
  end.
Lemma adjacent_snoc {A} (R : A -> A -> Prop) l x y : adjacent R (l ++ [x]) -> R x y -> adjacent R ((l ++ [x]) ++ [y]).
Proof. induction l as [|a l IH]; cbn; [intros _ H; repeat split; exact H|]. intros [H1 H2] Hxy. split; [|apply IH; assumption]. destruct l; cbn in *; exact H1. Qed.
Lemma adjacent_replace_last {A} (R : A -> A -> Prop) l x x' : adjacent R (l ++ [x]) -> (forall w, R w x -> R w x') -> adjacent R (l ++ [x']).
Proof. induction l as [|a l IH]; cbn; intros H Hw; [repeat split|]. destruct H as [H1 H2]. split; [|apply IH; assumption].
  destruct l; cbn in *; [apply Hw; exact H1 | exact H1]. Qed.

Definition sep (blur : Z) (k1 k2 : cluster) : Prop := lchr k1 < lchr k2 \/ (lchr k1 = lchr k2 /\ lre k1 + blur < lre k2).
(* the last cluster ends at the last processed call (true for sorted input only) *)
Definition SInv (blur ty : Z) (st : list cluster * cluster) (p : call) : Prop :=
  adjacent (sep blur) (fst st ++ [snd st]) /\ lchr (snd st) = cchr p /\ lre (snd st) = cre p /\ ltyp (snd st) = ty.

Lemma sep_step blur ty st p c : SInv blur ty st p -> lex_le p c -> ctyp c = ty -> SInv blur ty (step true blur st c) c.
Proof.
  destruct st as [done last]. unfold SInv. cbn [fst snd]. intros (Hadj & Hchr & Hre & Hty) Hle Hc. unfold step.
  destruct (Z.abs (cre c - lre last) <=? blur) eqn:E1; [destruct (same_kind last c) eqn:E2|]; cbn [fst snd].
  - unfold same_kind in E2. apply andb_true_iff in E2. destruct E2 as [E2 E3]. apply Z.eqb_eq in E2, E3.
    assert (Hmax : Z.max (lre last) (cre c) = cre c) by (destruct Hle as [Hle|[_ Hle]]; lia).
    split; [|unfold merge; cbn [lchr lre ltyp]; repeat split; [exact E3 | exact Hmax | exact Hty]].
    apply (adjacent_replace_last _ _ last); [exact Hadj|]. intros w Hw. unfold sep, merge in *. cbn [lchr lre]. lia.
  - split; [|cbn; repeat split; exact Hc]. apply adjacent_snoc; [exact Hadj|]. unfold sep. cbn [new_cluster lchr lre]. left.
    unfold same_kind in E2. apply andb_false_iff in E2. destruct E2 as [E2|E2]; [apply Z.eqb_neq in E2; congruence|]. apply Z.eqb_neq in E2.
    destruct Hle as [Hle|[Hle _]]; lia.
  - split; [|cbn; repeat split; exact Hc]. apply adjacent_snoc; [exact Hadj|]. unfold sep. cbn [new_cluster lchr lre]. apply Z.leb_gt in E1.
    destruct Hle as [Hle|[Hle Hle2]]; [left; lia | right; lia].
Qed.
Lemma sep_fold blur ty : forall t st p, StronglySorted lex_le (p :: t) -> (forall c, In c t -> ctyp c = ty) -> SInv blur ty st p ->
  adjacent (sep blur) (fst (fold_left (step true blur) t st) ++ [snd (fold_left (step true blur) t st)]).
Proof. induction t as [|c t IH]; intros st p Hs Ht Hi; cbn [fold_left]; [apply Hi|].
  inversion Hs as [|? ? Hs' Hf]; subst. apply (IH _ c); [exact Hs' | intros x Hx; apply Ht; right; exact Hx|].
  apply (sep_step _ _ _ p); [exact Hi | inversion Hf; assumption | apply Ht; left; reflexivity]. Qed.

Theorem sorted_separation blur l : lex_sorted l -> (forall a b, In a l -> In b l -> ctyp a = ctyp b) ->
  adjacent (fun k1 k2 => lchr k1 < lchr k2 \/ (lchr k1 = lchr k2 /\ lre k1 + blur < lre k2)) (cluster_indels true blur l).
Proof.
  intros Hs Ht. destruct l as [|c t]; [exact I|]. unfold cluster_indels.
  pose proof (sep_fold blur (ctyp c) t ([], new_cluster c) c Hs) as H.
  destruct (fold_left (step true blur) t ([], new_cluster c)) as [done last]. apply H.
  - intros x Hx. apply Ht; [right; exact Hx | left; reflexivity].
  - repeat split.
Qed.
Print Assumptions sorted_separation.

(* Whole-run lift, part 2: provenance of the rows of a run and totality of Coordinator.program_run.
   Everything is proved for an ARBITRARY seeding function `seeds` whose candidates name maps of `refs` (seeds_ok). *)
From Coq Require Import ZArith QArith List Bool Lia Sorting.Sorted Sorting.Permutation.
Import ListNotations.
Require Import Py PyProofs Pairing Core Multi Coordinator DPProofs ChainCore ConflictProofs
  ResolverProofs1 ResolverProofs3 ResolverProofs9 ResolverProofs10 TotalProofs1 TotalProofs2 TotalProofs3 RecordProofs1
  BestProofs2 ModesProofs1 ModesProofs2 RunProofs1.
Open Scope Z_scope.

(* ------------------------------------------------------------------------------------------------ hypotheses on the inputs *)
(* the seeding stage only proposes reference maps it was given *)
Definition seeds_ok (refs : list omap) (seeds : seeding) : Prop := forall q sd, In sd (seeds refs q) -> In (sd_ref sd) refs.
(* strictly ascending label positions *)
Definition ascending (m : omap) : Prop := StronglySorted Z.lt (mpositions m).
(* a query as OpticalMap.trim leaves it: label numbers from 1, at least one label, first label at 0, length = last label + 1 bp *)
Definition trimmed (q : omap) : Prop :=
  mshift q = 0 /\ ascending q /\ mpositions q <> [] /\ hd 0 (mpositions q) = 0 /\ mlen q = last (mpositions q) 0 + K.
(* a second-pass fragment of a query: labels sh+1 .. sh+n as a map of their own (RecordProofs1.fragment_at) *)
Definition fragment_of (q f : omap) : Prop := frag_prefix q f \/ frag_suffix q f.
(* the maps Aligner.align is called on during a run: the queries (first pass) and their fragments (second pass) *)
Definition src_map (qq : list omap) (q' : omap) : Prop := In q' qq \/ exists q, In q qq /\ fragment_of q q'.

Lemma fragment_positions q f : fragment_of q f -> exists sh n, f = fragment_at q sh n.
Proof. intros [(n & ->)|(sh & _ & ->)]; eauto. Qed.
Lemma fragment_ascending q f : ascending q -> fragment_of q f -> ascending f.
Proof. intros Ha Hf. destruct (fragment_positions q f Hf) as (sh & n & ->). unfold ascending, fragment_at. cbn [mpositions].
  apply (SS_Sub _ _ (mpositions q)); [|exact Ha]. apply (Sub_trans _ (skipn sh (mpositions q))); [apply Sub_firstn_self | apply Sub_skipn_self]. Qed.
Lemma src_map_ascending qq q' : (forall q, In q qq -> ascending q) -> src_map qq q' -> ascending q'.
Proof. intros H [Hq|(q & Hq & Hf)]; [apply H; exact Hq | apply (fragment_ascending q q' (H q Hq) Hf)]. Qed.

(* ------------------------------------------------------------------------------------------------ never raises: one pass *)
Section Total.
Variables (P : params) (seeds : seeding) (refs : list omap).
Hypothesis Hsu : SU P <= 0.
Hypothesis Hms : 0 < MS P.

Lemma candidate_rows_total q sds : forall it, exists r, candidate_rows P q sds it = Ok r.
Proof. induction sds as [|sd t IH]; intros it; [eexists; reflexivity|]. cbn [candidate_rows].
  destruct (aligner_total P it (sd_ref sd) q (sd_peaks sd) (sd_rev sd) Hsu Hms) as (segs & ->). cbn [bind].
  destruct (IH (it + Z.of_nat (length (sd_peaks sd)))) as (r & ->). cbn [bind]. eexists; reflexivity. Qed.
Lemma align_query_total q it : exists r, align_query P seeds refs q it = Ok r.
Proof. unfold align_query. destruct (seeds refs q) as [|sd t]; [eexists; reflexivity|].
  destruct (candidate_rows_total q (sd :: t) it) as (r & ->). cbn [bind]. eexists; reflexivity. Qed.
Lemma execute_total qq : forall it, exists r, execute P seeds refs qq it = Ok r.
Proof. induction qq as [|q t IH]; intros it; [eexists; reflexivity|]. cbn [execute].
  destruct (align_query_total q it) as (r & ->). cbn [bind]. destruct (IH (snd r)) as (r' & ->). cbn [bind]. eexists; reflexivity. Qed.
End Total.

(* ------------------------------------------------------------------------------------------------ provenance of the rows of one pass *)
Section Prov.
Variables (P : params) (seeds : seeding) (refs : list omap).

(* w is (up to the AlignedRest flag) the candidate row Aligner.align built for map q' from one of the seeds of q' *)
Definition from_cand (q' : omap) (w : row) : Prop :=
  exists sd it w0, In sd (seeds refs q') /\ cand_of P q' sd it w0 /\ (w = w0 \/ w = set_rest w0).

Lemma execute_prov qq it rows it' : execute P seeds refs qq it = Ok (rows, it') ->
  forall w, In w rows -> row_has_pairs w = true /\ exists q, In q qq /\ from_cand q w.
Proof.
  intros H w Hw. destruct (execute_results P seeds refs _ _ _ _ H) as (os & -> & HF). apply in_flat_map in Hw. destruct Hw as (o & Ho & Hw).
  apply keep_row in Hw. destruct Hw as (-> & Hp). split; [exact Hp|]. clear H.
  induction HF as [|q o' qq' os' (ia & ib & Ha) HF IH]; [destruct Ho|]. destruct Ho as [->|Ho].
  - exists q. split; [left; reflexivity|]. apply align_query_spec in Ha. destruct (seeds refs q) as [|sd t] eqn:Es; [destruct Ha; discriminate|].
    destruct Ha as (cands & _ & Hs & _ & w' & E & Hm). injection E as <-.
    destruct (cands_spec_all P _ _ _ _ Hs w (first_max_In _ _ Hm)) as (_ & _ & sd' & it0 & Hin & Hc).
    exists sd', it0, w. split; [rewrite Es; exact Hin|]. split; [exact Hc | left; reflexivity].
  - destruct (IH Ho) as (q0 & Hq0 & Hc). exists q0. split; [right; exact Hq0 | exact Hc].
Qed.
End Prov.

(* ------------------------------------------------------------------------------------------------ facts about one candidate row *)
Lemma row_has_pairs_spec w : row_has_pairs w = true <-> row_pairs (rsegs w) <> [].
Proof. unfold row_has_pairs. destruct (row_pairs (rsegs w)); split; congruence. Qed.
Lemma set_rest_fields w : rsegs (set_rest w) = rsegs w /\ qid (set_rest w) = qid w /\ rid (set_rest w) = rid w /\ qlen (set_rest w) = qlen w /\
  rlen (set_rest w) = rlen w /\ Multi.qs (set_rest w) = Multi.qs w /\ qe (set_rest w) = qe w /\ rs (set_rest w) = rs w /\ re (set_rest w) = re w /\
  rrev (set_rest w) = rrev w /\ conf (set_rest w) = conf w.
Proof. repeat split. Qed.
Lemma row_has_pairs_set_rest w : row_has_pairs (set_rest w) = row_has_pairs w. Proof. reflexivity. Qed.

Section Cand.
Variables (P : params) (seeds : seeding) (refs : list omap).
Hypothesis Hsu : SU P <= 0.
Hypothesis Hms : 0 < MS P.
Hypothesis Hseeds : seeds_ok refs seeds.
Hypothesis Hrefs : forall r, In r refs -> ascending r.

(* a candidate row that has a pair was built with a non-negative maxPairDistance on two strictly ascending maps *)
Lemma cand_engine_ok q' sd it w0 : ascending q' -> In sd (seeds refs q') -> cand_of P q' sd it w0 -> row_has_pairs w0 = true ->
  engine_ok P (sd_ref sd) q'.
Proof. intros Hq Hsd (segs & Ha & ->) Hp. apply row_has_pairs_spec in Hp. cbn [rsegs row_create] in Hp.
  split; [|split; [exact Hms|]; split; [exact Hsu|]; split; [apply Hrefs, (Hseeds q' sd Hsd) | exact Hq]].
  destruct (Z.lt_ge_cases (DMAX P) 0) as [Hneg|Hge]; [|exact Hge]. exfalso. apply Hp.
  apply (aligner_neg_no_pairs P it (sd_ref sd) q' (sd_peaks sd) (sd_rev sd) segs Hsu Hms Hneg Ha). Qed.

(* AlignmentResultRow.resolve can read startPosition / endPosition of segments[0] *)
Definition joinable (w : row) : Prop := row_pairs (rsegs w) <> [] /\ forall s, seg0 w = Ok s -> seg_defined s.

Lemma from_cand_joinable q' w : ascending q' -> from_cand P seeds refs q' w -> row_has_pairs w = true -> joinable w.
Proof. intros Hq (sd & it & w0 & Hsd & Hc & Hw) Hp.
  assert (Hp0 : row_has_pairs w0 = true) by (destruct Hw as [->| ->]; exact Hp).
  assert (Er : rsegs w = rsegs w0) by (destruct Hw as [->| ->]; reflexivity).
  pose proof (cand_engine_ok q' sd it w0 Hq Hsd Hc Hp0) as Hok. destruct Hc as (segs & Ha & E0).
  split; [rewrite Er; apply row_has_pairs_spec; exact Hp0|]. unfold seg0. rewrite Er, E0. cbn [rsegs row_create].
  destruct segs as [|s0 t] eqn:Es; [discriminate|]. intros s H. injection H as <-.
  apply (aligner_head_defined P it (sd_ref sd) q' (sd_peaks sd) (sd_rev sd) (s0 :: t) s0 t Hok Ha eq_refl). Qed.

(* the first and the last pair of a row in reference order *)
Lemma sorted_head_in (segs : list segment) p t : sort_by pair_rpos (row_pairs segs) = p :: t -> In p (row_pairs segs).
Proof. intros E. apply (sort_by_in pair_rpos). rewrite E. left. reflexivity. Qed.
Lemma sorted_last_in (segs : list segment) p t : rev (sort_by pair_rpos (row_pairs segs)) = p :: t -> In p (row_pairs segs).
Proof. intros E. apply (sort_by_in pair_rpos). apply in_rev. rewrite E. left. reflexivity. Qed.

(* on the '+' strand QryStartPos / QryEndPos of a candidate row with pairs are label positions of the map it was aligned on *)
Lemma cand_forward_coords q' sd it w0 : ascending q' -> In sd (seeds refs q') -> cand_of P q' sd it w0 -> row_has_pairs w0 = true ->
  rrev w0 = false -> In (Multi.qs w0) (mpositions q') /\ In (qe w0) (mpositions q').
Proof.
  intros Hq Hsd Hc Hp Hrev. pose proof (cand_engine_ok q' sd it w0 Hq Hsd Hc Hp) as Hok. destruct Hc as (segs & Ha & ->).
  cbn [rrev row_create] in Hrev. apply row_has_pairs_spec in Hp. cbn [rsegs row_create] in Hp.
  assert (Hlab : forall p, In p (row_pairs segs) -> In (lpos (pq (pv_of p))) (mpositions q')).
  { intros p Hin. destruct (aligner_pair_labels P it (sd_ref sd) q' (sd_peaks sd) (sd_rev sd) segs p Hok Ha Hin) as (r & ql & sh & src & Ep & _ & Hql).
    unfold pv_of. rewrite Ep. cbn [pq]. rewrite Hrev in Hql. unfold qry_labels, positions_with_ids in Hql. apply number_up_in in Hql. apply Hql. }
  assert (Hne : sort_by pair_rpos (row_pairs segs) <> []).
  { intros E. apply Hp. pose proof (sort_by_perm pair_rpos (row_pairs segs)) as Hperm. rewrite E in Hperm. apply Permutation_nil in Hperm. exact Hperm. }
  cbn [Multi.qs qe row_create]. rewrite Hrev.
  destruct (sort_by pair_rpos (row_pairs segs)) as [|p0 t0] eqn:E0; [congruence|].
  destruct (rev (p0 :: t0)) as [|pl tl] eqn:El; [apply (f_equal (@length _)) in El; rewrite rev_length in El; discriminate|].
  split; [apply Hlab, (sorted_head_in segs p0 t0 E0) | apply Hlab, (sorted_last_in segs pl tl)]. rewrite E0. exact El.
Qed.
End Cand.

(* ------------------------------------------------------------------------------------------------ getUnalignedFragments over a pass *)
Lemma find_query_in qq id q : find_query qq id = Ok q -> In q qq /\ mid q = id.
Proof. induction qq as [|x t IH]; [discriminate|]. cbn [find_query]. destruct (mid x =? id) eqn:E.
  - intros H. injection H as <-. split; [left; reflexivity | apply Z.eqb_eq; exact E].
  - intros H. destruct (IH H) as (A & B). split; [right; exact A | exact B]. Qed.
Lemma find_query_distinct qq q : NoDup (map mid qq) -> In q qq -> find_query qq (mid q) = Ok q.
Proof. induction qq as [|x t IH]; intros Hnd Hq; [destruct Hq|]. cbn [map] in Hnd. inversion Hnd as [|? ? Hnin Hnd']; subst. cbn [find_query].
  destruct Hq as [->|Hq]; [rewrite Z.eqb_refl; reflexivity|].
  destruct (mid x =? mid q) eqn:E; [|apply IH; assumption]. apply Z.eqb_eq in E. exfalso. apply Hnin. rewrite E. apply in_map. exact Hq. Qed.

Lemma all_fragments_total rows qq : NoDup (map mid qq) ->
  (forall w, In w rows -> exists q, In q qq /\ qid w = mid q /\ qlen w = mlen q /\
                                    (rrev w = false -> In (Multi.qs w) (mpositions q) /\ In (qe w) (mpositions q))) ->
  exists frags, all_fragments rows qq = Ok frags /\ Forall (fun f => exists q, In q qq /\ fragment_of q f) frags.
Proof.
  intros Hnd. induction rows as [|w t IH]; intros H; [exists []; split; [reflexivity | constructor]|]. cbn [all_fragments].
  destruct IH as (rest_ & Er & Hr); [intros w' Hw'; apply H; right; exact Hw'|].
  destruct (H w (or_introl eq_refl)) as (q & Hq & Eid & Elen & Hco).
  destruct (4 * qlen w <? 5 * Z.abs (Multi.qs w - qe w)).
  - cbn [bind]. rewrite Er. cbn [bind app]. exists rest_. split; [reflexivity | exact Hr].
  - rewrite Eid, (find_query_distinct qq q Hnd Hq). cbn [bind].
    destruct (unaligned_fragments_total w (mpositions q) Hco) as (fr & Ef). rewrite Ef. cbn [bind]. rewrite Er. cbn [bind].
    exists (fr ++ rest_). split; [reflexivity|]. apply Forall_app. split; [|exact Hr].
    pose proof (unaligned_fragments_shape w q fr Eid Elen Ef) as Hs. rewrite Forall_forall in *. intros f Hf. exists q. split; [exact Hq | apply Hs, Hf].
Qed.

(* ------------------------------------------------------------------------------------------------ AlignmentResults.resolve never raises *)
Lemma resolve_groups_total maxdiff groups : (forall g w, In g groups -> In w g -> joinable w) -> exists r, resolve_groups maxdiff groups = Ok r.
Proof. induction groups as [|g t IH]; intros H; [eexists; reflexivity|]. cbn [resolve_groups].
  destruct IH as (r & ->); [intros g' w Hg Hw; apply (H g' w (or_intror Hg) Hw)|]. cbn [bind].
  destruct g as [|x [|y u]]; [eexists; reflexivity | eexists; reflexivity|].
  destruct (check_overlap x y maxdiff); [|eexists; reflexivity].
  destruct (H _ x (or_introl eq_refl) (or_introl eq_refl)) as (Hx1 & Hx2).
  destruct (H _ y (or_introl eq_refl) (or_intror (or_introl eq_refl))) as (Hy1 & Hy2).
  destruct (join_rows_total x y Hx1 Hy1 Hx2 Hy2) as (j & ->). cbn [bind]. destruct (joined_ok j); eexists; reflexivity. Qed.

Lemma groups_members rows g w : In g (groups_of rows) -> In w g -> In w rows.
Proof. intros Hg Hw. apply (Permutation_in _ (groups_partition rows)). apply in_concat. exists g. split; assumption. Qed.

Theorem results_resolve_total rows maxdiff : (forall w, In w rows -> joinable w) -> exists r, results_resolve rows maxdiff = Ok r.
Proof. intros H. rewrite results_resolve_unfold. apply resolve_groups_total. intros g w Hg Hw. apply H. apply (groups_members rows g w Hg Hw). Qed.

(* AlignmentResultRow.resolve on two rows Aligner.align built (each with a pair) never raises: the FULL statement C07_join_total_partial
   was waiting for (segments[0] of such a row is empty or has a pair: RunProofs1.aligner_head_defined) *)
Theorem join_rows_aligner_total P it1 ref1 q1 peaks1 rev1 segs1 it2 ref2 q2 peaks2 rev2 segs2 a b :
  engine_ok P ref1 q1 -> engine_ok P ref2 q2 ->
  aligner_align P it1 ref1 q1 peaks1 rev1 = Ok segs1 -> aligner_align P it2 ref2 q2 peaks2 rev2 = Ok segs2 ->
  rsegs a = segs1 -> rsegs b = segs2 -> row_pairs (rsegs a) <> [] -> row_pairs (rsegs b) <> [] ->
  exists r, join_rows a b = Ok r.
Proof. intros Hok1 Hok2 H1 H2 Ea Eb Hpa Hpb. apply join_rows_total; [exact Hpa | exact Hpb | |]; unfold seg0.
  - rewrite Ea. destruct segs1 as [|s0 t] eqn:E; [discriminate|]. intros s H. injection H as <-.
    apply (aligner_head_defined P it1 ref1 q1 peaks1 rev1 (s0 :: t) s0 t Hok1 H1 eq_refl).
  - rewrite Eb. destruct segs2 as [|s0 t] eqn:E; [discriminate|]. intros s H. injection H as <-.
    apply (aligner_head_defined P it2 ref2 q2 peaks2 rev2 (s0 :: t) s0 t Hok2 H2 eq_refl).
Qed.

(* ------------------------------------------------------------------------------------------------ the two passes *)
Section Run.
Variables (P : params) (seeds : seeding) (refs : list omap).

(* the rows the two passes hand to the output stage: f1 = first-pass rows (plus, in mode `best`, the second-pass rows), f2 = second-pass
   rows, each filtered to one row per query.  Every output of every mode is made of these and of joined rows (multi_execute_passes). *)
Definition run_passes (m : mode) (qq : list omap) : res (list row * list row) :=
  do r1 <- execute P seeds refs qq 1;
  do frags <- all_fragments (fst r1) qq;
  do r2 <- execute P seeds refs frags (snd r1);
  let rows2 := map set_rest (fst r2) in
  Ok (filter_subsequent (match m with Best => fst r1 ++ rows2 | _ => fst r1 end), filter_subsequent rows2).

Definition finish (m : mode) (maxdiff : Z) (f : list row * list row) : res outputs :=
  match m with
  | Separate => Ok (mkOut (fst f) (Some (snd f)) None)
  | _ =>
    do js <- results_resolve (fst f ++ filter (fun w => negb (row_in w (fst f))) (snd f)) maxdiff;
    match m with
    | Best => Ok (mkOut (sort_by qid (fst js ++ filter (fun w => negb (mem_z (qid w) (map qid (fst js)))) (fst f))) None None)
    | Joined => Ok (mkOut (fst js) (Some (snd js)) None)
    | _ => Ok (mkOut (fst js) (Some (fst f)) (Some (snd f)))
    end
  end.

Lemma multi_execute_passes m maxdiff qq : multi_execute P seeds m maxdiff refs qq = do f <- run_passes m qq; finish m maxdiff f.
Proof. unfold multi_execute, run_passes. destruct (execute P seeds refs qq 1) as [r1|]; [|reflexivity]. cbn [bind].
  destruct (all_fragments (fst r1) qq) as [fr|]; [|reflexivity]. cbn [bind].
  destruct (execute P seeds refs fr (snd r1)) as [r2|]; [|reflexivity]. cbn [bind]. destruct m; reflexivity. Qed.

(* a row the output stage receives: it has a pair and is the candidate row of one Aligner.align call on a query or a fragment *)
Definition run_row (qq : list omap) (w : row) : Prop :=
  row_has_pairs w = true /\ exists q', src_map qq q' /\ from_cand P seeds refs q' w.

Hypothesis Hsu : SU P <= 0.
Hypothesis Hms : 0 < MS P.
Hypothesis Hseeds : seeds_ok refs seeds.
Hypothesis Hrefs : forall r, In r refs -> ascending r.

Section Queries.
Variable qq : list omap.
Hypothesis Hqq : forall q, In q qq -> ascending q.
Hypothesis Hids : NoDup (map mid qq).

(* first pass + fragments: never raise; the fragments are fragments of the queries *)
Lemma first_pass_fragments rows1 it1 : execute P seeds refs qq 1 = Ok (rows1, it1) ->
  exists frags, all_fragments rows1 qq = Ok frags /\ Forall (fun f => exists q, In q qq /\ fragment_of q f) frags.
Proof.
  intros E1. apply all_fragments_total; [exact Hids|]. intros w Hw.
  destruct (execute_prov P seeds refs qq 1 rows1 it1 E1 w Hw) as (Hp & q & Hq & sd & it & w0 & Hsd & Hc & Hw0). exists q. split; [exact Hq|].
  assert (w = w0) as ->.
  { destruct Hw0 as [E|E]; [exact E|]. exfalso. destruct (execute_rows P seeds refs qq 1 rows1 it1 E1 w Hw) as (_ & Hr & _). rewrite E in Hr. discriminate. }
  pose proof Hc as (segs & _ & E0). split; [rewrite E0; reflexivity|]. split; [rewrite E0; reflexivity|]. intros Hrev.
  apply (cand_forward_coords P seeds refs Hsu Hms Hseeds Hrefs q sd it w0 (Hqq q Hq) Hsd Hc Hp Hrev).
Qed.

Theorem run_passes_total m : exists f, run_passes m qq = Ok f.
Proof. unfold run_passes. destruct (execute_total P seeds refs Hsu Hms qq 1) as ([rows1 it1] & E1). rewrite E1. cbn [bind fst snd].
  destruct (first_pass_fragments rows1 it1 E1) as (frags & -> & _). cbn [bind].
  destruct (execute_total P seeds refs Hsu Hms frags it1) as (r2 & ->). cbn [bind]. eexists; reflexivity. Qed.

Theorem run_passes_rows m f1 f2 : run_passes m qq = Ok (f1, f2) -> forall w, In w (f1 ++ f2) -> run_row qq w.
Proof.
  unfold run_passes. destruct (execute P seeds refs qq 1) as [[rows1 it1]|] eqn:E1; [|discriminate]. cbn [bind fst snd].
  destruct (first_pass_fragments rows1 it1 E1) as (frags & Ef & Hfr). rewrite Ef. cbn [bind].
  destruct (execute P seeds refs frags it1) as [[rows2 it2]|] eqn:E2; [|discriminate]. cbn [bind fst snd]. intros H. injection H as <- <-.
  assert (H1 : forall w, In w rows1 -> run_row qq w).
  { intros w Hw. destruct (execute_prov P seeds refs qq 1 rows1 it1 E1 w Hw) as (Hp & q & Hq & Hc). split; [exact Hp|]. exists q. split; [left; exact Hq | exact Hc]. }
  assert (H2 : forall w, In w (map set_rest rows2) -> run_row qq w).
  { intros w Hw. apply in_map_iff in Hw. destruct Hw as (w2 & <- & Hw2).
    destruct (execute_prov P seeds refs frags it1 rows2 it2 E2 w2 Hw2) as (Hp & f & Hf & sd & it & w0 & Hsd & Hc & Hw0). split; [exact Hp|].
    rewrite Forall_forall in Hfr. destruct (Hfr f Hf) as (q & Hq & Hfq). exists f. split; [right; exists q; split; assumption|].
    assert (w2 = w0) as ->.
    { destruct Hw0 as [E|E]; [exact E|]. exfalso. destruct (execute_rows P seeds refs frags it1 rows2 it2 E2 w2 Hw2) as (_ & Hr & _). rewrite E in Hr. discriminate. }
    exists sd, it, w0. split; [exact Hsd|]. split; [exact Hc | right; reflexivity]. }
  intros w Hw. apply in_app_or in Hw. destruct Hw as [Hw|Hw]; apply ModesProofs1.fs_in in Hw; [|apply H2; exact Hw].
  destruct m; try (apply H1; exact Hw). apply in_app_or in Hw. destruct Hw as [Hw|Hw]; [apply H1 | apply H2]; exact Hw.
Qed.

Lemma run_row_joinable w : run_row qq w -> joinable w.
Proof. intros (Hp & q' & Hsrc & Hc). apply (from_cand_joinable P seeds refs Hsu Hms Hseeds Hrefs q' w); [|exact Hc | exact Hp].
  apply (src_map_ascending qq q' Hqq Hsrc). Qed.

(* _MultiPassWorkflowCoordinator.execute and Program.run never raise *)
Theorem multi_execute_total m maxdiff : exists o, multi_execute P seeds m maxdiff refs qq = Ok o.
Proof. rewrite multi_execute_passes. destruct (run_passes_total m) as ([f1 f2] & E). rewrite E. cbn [bind]. unfold finish. cbn [fst snd].
  destruct (results_resolve_total (f1 ++ filter (fun w => negb (row_in w f1)) f2) maxdiff) as (js & Ejs).
  { intros w Hw. apply run_row_joinable. apply (run_passes_rows m f1 f2 E w). apply in_app_or in Hw. apply in_or_app.
    destruct Hw as [Hw|Hw]; [left; exact Hw | right; apply filter_In in Hw; apply Hw]. }
  destruct m; [| eexists; reflexivity | |]; rewrite Ejs; cbn [bind]; eexists; reflexivity. Qed.

Theorem program_run_total m maxdiff : exists o, program_run P seeds m maxdiff refs qq = Ok o.
Proof. unfold program_run. destruct (multi_execute_total m maxdiff) as (o & ->). cbn [bind]. eexists; reflexivity. Qed.
End Queries.
End Run.

(* packaged with the hypotheses as the property states them *)
Theorem run_total P (seeds : seeding) m maxdiff refs qq : SU P <= 0 -> 0 < MS P -> seeds_ok refs seeds ->
  (forall r, In r refs -> ascending r) -> (forall q, In q qq -> trimmed q) -> NoDup (map mid qq) ->
  exists o, program_run P seeds m maxdiff refs qq = Ok o.
Proof. intros Hsu Hms Hs Hr Hq Hn. apply (program_run_total P seeds refs Hsu Hms Hs Hr qq); [|exact Hn]. intros q H. apply (Hq q H). Qed.
Print Assumptions run_total.
Print Assumptions join_rows_aligner_total.

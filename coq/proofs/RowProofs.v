(* C01: from "the resolver's output is disjoint" to "the row is a valid one-to-one collinear matching". *)
From Coq Require Import ZArith QArith List Bool Lia Sorting.Sorted Sorting.Permutation.
Import ListNotations.
Require Import Py Pairing Core Cigar Multi PyProofs PairingProofs3 ConflictProofs DPProofs ResolverProofs1 ResolverProofs3.
Open Scope Z_scope.

Lemma row_pairs_all_pairs segs : row_pairs segs = all_pairs segs. Proof. reflexivity. Qed.

(* a list that is already sorted on the key is left alone by the stable sort *)
Lemma sort_by_sorted_id {A} (k : A -> Z) l : ksorted k l -> sort_by k l = l.
Proof. intros H. pose proof (sort_by_filter_sorted k (fun _ => true) l) as F.
  assert (E : forall m : list A, filter (fun _ => true) m = m) by (induction m as [|x m IH]; cbn; [reflexivity | rewrite IH; reflexivity]).
  rewrite !E in F. apply F. exact H. Qed.

Lemma pair_rpos_rpos_of p : pair_rpos p = rpos_of p. Proof. reflexivity. Qed.

(* the row lists its pairs already in ascending reference order: Row.create's sort is the identity *)
Theorem row_pairs_sorted dir segs : segments_disjoint dir segs -> sort_by pair_rpos (row_pairs segs) = row_pairs segs.
Proof. intros H. apply sort_by_sorted_id. apply disjoint_dirb_spec in H. unfold disjoint_dirb in H.
  apply (adjb_SS (pair_ltb dir) (pair_lt dir) _ (pair_ltb_spec dir) (pair_lt_trans dir)) in H. unfold ksorted.
  apply (PairingProofs2.SS_weaken (pair_lt dir)); [|exact H]. intros a b (_ & Hp & _). unfold pair_rpos. fold (rpos_of a) (rpos_of b). lia. Qed.

(* C01_from_disjoint: a disjoint resolver output with at least one pair and labels in range is a valid row *)
Theorem C01_from_disjoint nref nqry rev_ segs :
  segments_disjoint (strand_dir rev_) segs ->
  (forall p, In p (row_pairs segs) -> 1 <= rsite_of p <= nref /\ 1 <= qsite_of p <= nqry) ->
  row_pairs segs <> [] ->
  valid_rowb nref nqry rev_ (row_sites (row_pairs segs)) = true.
Proof.
  intros H Hr Hne. apply valid_rowb_spec. split; [|split].
  - intros p Hp. unfold row_sites in Hp. apply in_map_iff in Hp. destruct Hp as (x & <- & Hx). cbn [fst snd]. apply Hr. exact Hx.
  - apply SS_pair_lt_valid. apply disjoint_dirb_spec in H. unfold disjoint_dirb in H.
    apply (adjb_SS (pair_ltb (strand_dir rev_)) (pair_lt (strand_dir rev_)) _ (pair_ltb_spec _) (pair_lt_trans _)) in H. exact H.
  - unfold row_sites. intros E. apply map_eq_nil in E. contradiction. Qed.

(* the same from the two ingredients separately: segments that are ordered inside (sub-runs of a pairing output are)
   and pairwise ordered across segments *)
Theorem segments_disjoint_intro dir segs :
  (forall s, In s segs -> seg_ord dir (positions s)) ->
  (forall i j si sj p p', (i < j)%nat -> nth_error segs i = Some si -> nth_error segs j = Some sj ->
     In p (aligned si) -> In p' (aligned sj) -> pair_lt dir p p') ->
  segments_disjoint dir segs.
Proof. intros H1 H2. split; [|exact H2]. intros s Hs. apply seg_ord_aligned. apply H1. exact Hs. Qed.

(* a row with a single non-empty segment *)
Theorem C01_single_segment dir s : seg_ord dir (positions s) -> segments_disjoint dir [s].
Proof. intros H. apply segments_disjoint_intro; [intros s' [<-|[]]; exact H|].
  intros [|i] [|j] si sj p p' Hij Hi Hj; try lia; destruct j; discriminate. Qed.
Print Assumptions C01_from_disjoint.
Print Assumptions row_pairs_sorted.

From Coq Require Import ZArith List Bool Lia.
Import ListNotations.
Require Import Py Cigar.
Open Scope Z_scope.

Lemma rep_app {A} (x : A) n m : rep n x ++ rep m x = rep (n + m) x.
Proof. induction n; simpl; congruence. Qed.

Lemma rep_S_to_nat {A} (x : A) z : 0 < z -> rep (Z.to_nat z) x = x :: rep (Z.to_nat (z - 1)) x.
Proof. intros H. replace (Z.to_nat z) with (S (Z.to_nat (z - 1))) by lia. reflexivity. Qed.

Fixpoint lastref (p : pair) (ps : list pair) : Z :=
  match ps with [] => fst p | p' :: r => lastref p' r end.

Lemma last_lastref p ps d : fst (last (p :: ps) d) = lastref p ps.
Proof. revert p; induction ps as [|p' r IH]; intros p; [reflexivity|]. 
  change (last (p :: p' :: r) d) with (last (p' :: r) d). apply IH. Qed.

Lemma lastref_ge dir p ps : valid_from dir p ps -> fst p <= lastref p ps.
Proof. revert p; induction ps as [|p' r IH]; intros p H; simpl in *; [lia|].
  destruct H as (H1 & _ & H3). specialize (IH _ H3). lia. Qed.

Section Dir.
Variable dir : Z.

Lemma loop_run : forall fuel idx cr cq rest prevq,
  valid_from dir (cr, cq) rest -> idx <= cr ->
  Z.of_nat fuel = lastref (cr, cq) rest + 1 - idx ->
  loop fuel idx (Some (cr, cq)) rest prevq =
  Ok (rep (Z.to_nat (Z.abs (cq - prevq) - 1)) I ++ rep (Z.to_nat (cr - idx)) D ++ M :: ops_from (cr, cq) rest).
Proof.
  induction fuel as [|f IH]; intros idx cr cq rest prevq Hv Hle Hf.
  - pose proof (lastref_ge _ _ _ Hv) as Hg. simpl in Hg. lia.
  - cbn [loop].
    set (inc := Z.abs (cq - prevq)).
    assert (Hins : (if 1 <? inc then rep (Z.to_nat (inc - 1)) I else []) = rep (Z.to_nat (inc - 1)) I).
    { destruct (1 <? inc) eqn:E; [reflexivity|]. apply Z.ltb_ge in E.
      replace (Z.to_nat (inc - 1)) with O by lia. reflexivity. }
    rewrite Hins.
    destruct (cr =? idx) eqn:Eeq.
    + apply Z.eqb_eq in Eeq. subst idx.
      replace (Z.to_nat (cr - cr)) with O by lia. cbn [rep app].
      destruct rest as [|[r' q'] r].
      * simpl in Hf. assert (f = O) by lia. subst f. reflexivity.
      * cbn [tl]. simpl in Hv. destruct Hv as (H1 & H2 & H3). simpl in H1, H2.
        rewrite (IH (cr + 1) r' q' r cq H3); [| lia | simpl lastref in *; lia].
        cbn [ops_from]. unfold gap. cbn [fst snd].
        replace (r' - (cr + 1)) with (r' - cr - 1) by lia.
        rewrite <- !app_assoc. reflexivity.
    + apply Z.eqb_neq in Eeq. assert (Hlt : idx < cr) by lia.
      destruct (idx <? cr) eqn:E2; [| apply Z.ltb_ge in E2; lia].
      rewrite (IH (idx + 1) cr cq rest _ Hv); [| lia | lia].
      assert (Hz : rep (Z.to_nat (Z.abs (cq - (if 1 <? inc then cq else prevq)) - 1)) I = []).
      { destruct (1 <? inc) eqn:E.
        - replace (cq - cq) with 0 by lia. reflexivity.
        - apply Z.ltb_ge in E. fold inc. replace (Z.to_nat (inc - 1)) with O by lia. reflexivity. }
      rewrite Hz. cbn [app].
      rewrite (rep_S_to_nat D (cr - idx)) by lia.
      replace (cr - (idx + 1)) with (cr - idx - 1) by lia. reflexivity.
Qed.

Theorem hit_enums_spec ps : valid dir ps -> ps <> [] -> hit_enums ps = Ok (ops ps).
Proof.
  destruct ps as [|[r0 q0] rest]; [congruence|]. intros Hv _. unfold hit_enums.
  rewrite last_lastref. 
  rewrite (loop_run _ r0 r0 q0 rest q0 Hv); [| lia |].
  - replace (q0 - q0) with 0 by lia. replace (r0 - r0) with 0 by lia. reflexivity.
  - pose proof (lastref_ge _ _ _ Hv). simpl in H. lia.
Qed.

Hypothesis Hdir : dir = 1 \/ dir = -1.

Lemma decode_rep_I r q n l : decode dir r q (rep n I ++ l) = decode dir r (q + dir * Z.of_nat n) l.
Proof. revert q; induction n; intros q; cbn [rep app decode]; [f_equal; lia|]. rewrite IHn. f_equal; lia. Qed.
Lemma decode_rep_D r q n l : decode dir r q (rep n D ++ l) = decode dir (r + Z.of_nat n) q l.
Proof. revert r; induction n; intros r; cbn [rep app decode]; [f_equal; lia|]. rewrite IHn. f_equal; lia. Qed.

Lemma decode_ops_from p ps : valid_from dir p ps -> decode dir (fst p) (snd p) (ops_from p ps) = ps.
Proof.
  revert p; induction ps as [|p' r IH]; intros p Hv; [reflexivity|].
  destruct Hv as (H1 & H2 & H3). cbn [ops_from]. unfold gap. rewrite <- !app_assoc.
  rewrite decode_rep_I, decode_rep_D. cbn [app decode].
  assert (E1 : fst p + Z.of_nat (Z.to_nat (fst p' - fst p - 1)) + 1 = fst p') by lia.
  assert (E2 : snd p + dir * Z.of_nat (Z.to_nat (Z.abs (snd p' - snd p) - 1)) + dir = snd p') by (destruct Hdir; subst dir; lia).
  rewrite E1, E2. rewrite (IH p' H3). destruct p'; reflexivity.
Qed.

Theorem replay ps r0 q0 rest : ps = (r0, q0) :: rest -> valid dir ps ->
  decode dir (r0 - 1) (q0 - dir) (ops ps) = ps.
Proof.
  intros -> Hv. cbn [ops decode]. replace (r0 - 1 + 1) with r0 by lia. replace (q0 - dir + dir) with q0 by lia.
  f_equal. apply (decode_ops_from (r0, q0) rest Hv).
Qed.
End Dir.
Print Assumptions hit_enums_spec.
Print Assumptions replay.

From Coq Require Import ZArith QArith List Bool Lia.
Import ListNotations.
Require Import Py Pairing Core.
Open Scope Z_scope.

(* ---------- generic: takewhile / dropwhile are firstn / skipn ---------- *)
Lemma dropwhile_skipn {A} (f : A -> bool) l : exists n, dropwhile f l = skipn n l /\ (n <= length l)%nat.
Proof. induction l as [|x t (n & E & Hn)]; [exists 0%nat; split; [reflexivity | cbn; lia]|]. cbn [dropwhile].
  destruct (f x); [exists (S n); cbn; split; [exact E | lia] | exists 0%nat; split; [reflexivity | cbn; lia]]. Qed.
Lemma takewhile_firstn {A} (f : A -> bool) l : exists n, takewhile f l = firstn n l /\ (n <= length l)%nat.
Proof. induction l as [|x t (n & E & Hn)]; [exists 0%nat; split; [reflexivity | cbn; lia]|]. cbn [takewhile].
  destruct (f x); [exists (S n); cbn; split; [rewrite E; reflexivity | lia] | exists 0%nat; split; [reflexivity | cbn; lia]]. Qed.
Lemma takewhile_all {A} (f : A -> bool) l : (forall x, In x l -> f x = true) -> takewhile f l = l.
Proof. induction l as [|x t IH]; intros H; [reflexivity|]. cbn. rewrite (H x (or_introl eq_refl)). f_equal. apply IH. intros; apply H; right; assumption. Qed.
Lemma skipn_skipn' {A} (x y : nat) (l : list A) : skipn x (skipn y l) = skipn (x + y) l.
Proof. revert l; induction y as [|y IH]; intros l; [rewrite Nat.add_0_r; reflexivity|].
  rewrite Nat.add_succ_r. destruct l; [rewrite !skipn_nil; reflexivity|]. cbn [skipn]. apply IH. Qed.

(* ---------- removing a suffix / a prefix by the code's equality ---------- *)
Lemma label_eqb_refl a : label_eqb a a = true.
Proof. unfold label_eqb. rewrite !Z.eqb_refl. reflexivity. Qed.
Lemma pos_eqb_refl p : pos_eqb p p = true.
Proof. unfold pos_eqb. destruct (ap p); rewrite ?label_eqb_refl, ?Z.eqb_refl; reflexivity. Qed.

(* no two different entries of the list are equal for the code's __eq__ *)
Definition nodupkey (l : list spos) : Prop :=
  forall i j x y, nth_error l i = Some x -> nth_error l j = Some y -> pos_eqb x y = true -> i = j.

Lemma nodupkey_tl x l : nodupkey (x :: l) -> nodupkey l.
Proof. intros H i j a b Ha Hb E. assert (S i = S j) by (apply (H (S i) (S j) a b); assumption). lia. Qed.
Lemma nodupkey_hd x l y : nodupkey (x :: l) -> In y l -> pos_eqb x y = false.
Proof. intros H Hy. destruct (pos_eqb x y) eqn:E; [|reflexivity]. apply In_nth_error in Hy. destruct Hy as (j & Hj).
  assert (0%nat = S j) by (apply (H 0%nat (S j) x y); [reflexivity | exact Hj | exact E]). lia. Qed.

Lemma existsb_false_in (x : spos) l : (forall y, In y l -> pos_eqb x y = false) -> existsb (pos_eqb x) l = false.
Proof. induction l as [|y t IH]; intros H; [reflexivity|]. cbn. rewrite (H y (or_introl eq_refl)). apply IH. intros; apply H; right; assumption. Qed.

Lemma label_eqb_sym a b : label_eqb a b = label_eqb b a.
Proof. unfold label_eqb. rewrite (Z.eqb_sym (site a) (site b)), (Z.eqb_sym (lpos a) (lpos b)). reflexivity. Qed.
Lemma pos_eqb_sym a b : pos_eqb a b = pos_eqb b a.
Proof. unfold pos_eqb. destruct (ap a), (ap b); try reflexivity.
  - rewrite (label_eqb_sym r r0), (label_eqb_sym q q0). reflexivity.
  - apply Z.eqb_sym.
  - apply Z.eqb_sym. Qed.

Lemma filter_nil_all {A} (f : A -> bool) l : (forall x, In x l -> f x = false) -> filter f l = [].
Proof. induction l as [|x t IH]; intros H; [reflexivity|]. cbn. rewrite (H x (or_introl eq_refl)). apply IH. intros; apply H; right; assumption. Qed.
Lemma filter_id_all {A} (f : A -> bool) l : (forall x, In x l -> f x = true) -> filter f l = l.
Proof. induction l as [|x t IH]; intros H; [reflexivity|]. cbn. rewrite (H x (or_introl eq_refl)). f_equal. apply IH. intros; apply H; right; assumption. Qed.
Lemma existsb_self x l : In x l -> existsb (pos_eqb x) l = true.
Proof. intros H. apply existsb_exists. exists x. split; [exact H | apply pos_eqb_refl]. Qed.

(* filtering out everything that occurs in a sub-block keeps exactly the rest, for key-distinct lists *)
Lemma filter_notin_app l1 l2 other :
  (forall x, In x l1 -> existsb (pos_eqb x) other = false) -> (forall x, In x l2 -> existsb (pos_eqb x) other = true) ->
  filter (fun p => negb (existsb (pos_eqb p) other)) (l1 ++ l2) = l1.
Proof. intros H1 H2. rewrite filter_app, filter_id_all, filter_nil_all, app_nil_r; [reflexivity | |].
  - intros x Hx. rewrite (H2 x Hx). reflexivity.
  - intros x Hx. rewrite (H1 x Hx). reflexivity. Qed.
Lemma filter_notin_app_r l1 l2 other :
  (forall x, In x l1 -> existsb (pos_eqb x) other = true) -> (forall x, In x l2 -> existsb (pos_eqb x) other = false) ->
  filter (fun p => negb (existsb (pos_eqb p) other)) (l1 ++ l2) = l2.
Proof. intros H1 H2. rewrite filter_app, filter_nil_all, filter_id_all; [reflexivity | |].
  - intros x Hx. rewrite (H2 x Hx). reflexivity.
  - intros x Hx. rewrite (H1 x Hx). reflexivity. Qed.

Lemma nodupkey_cross l n x y : nodupkey l -> In x (firstn n l) -> In y (skipn n l) -> pos_eqb x y = false.
Proof. intros H Hx Hy. destruct (pos_eqb x y) eqn:E; [|reflexivity]. exfalso.
  apply In_nth_error in Hx, Hy. destruct Hx as (i & Hi), Hy as (j & Hj).
  assert (Hil : (i < n)%nat). { assert (i < length (firstn n l))%nat by (apply nth_error_Some; congruence). rewrite firstn_length in H0. lia. }
  assert (Hi' : nth_error l i = Some x). { rewrite <- (firstn_skipn n l). rewrite nth_error_app1; [exact Hi | apply nth_error_Some; congruence]. }
  assert (Hj' : nth_error l (n + j) = Some y).
  { rewrite <- (firstn_skipn n l) at 1. assert (n <= length l)%nat. { destruct (Nat.le_gt_cases n (length l)); [assumption|]. rewrite skipn_all2 in Hj by lia. destruct j; discriminate. }
    rewrite nth_error_app2; rewrite firstn_length; [|lia]. replace (n + j - Nat.min n (length l))%nat with j by lia. exact Hj. }
  pose proof (H i (n + j)%nat x y Hi' Hj' E). lia. Qed.

Theorem remove_suffix l n : nodupkey l -> filter (fun p => negb (existsb (pos_eqb p) (skipn n l))) l = firstn n l.
Proof. intros H. transitivity (filter (fun p => negb (existsb (pos_eqb p) (skipn n l))) (firstn n l ++ skipn n l)); [rewrite firstn_skipn; reflexivity|].
  apply filter_notin_app.
  - intros x Hx. apply existsb_false_in. intros y Hy. apply (nodupkey_cross l n x y H Hx Hy).
  - intros x Hx. apply existsb_self. exact Hx. Qed.
Theorem remove_prefix l n : nodupkey l -> filter (fun p => negb (existsb (pos_eqb p) (firstn n l))) l = skipn n l.
Proof. intros H. transitivity (filter (fun p => negb (existsb (pos_eqb p) (firstn n l))) (firstn n l ++ skipn n l)); [rewrite firstn_skipn; reflexivity|].
  apply filter_notin_app_r.
  - intros x Hx. apply existsb_self. exact Hx.
  - intros x Hx. apply existsb_false_in. intros y Hy. rewrite pos_eqb_sym. apply (nodupkey_cross l n y x H Hy Hx). Qed.

(* ---------- slice of the left member is a suffix, of the right member a prefix ---------- *)
Definition last_is_pair (l : list spos) : Prop := match rev l with [] => True | p :: _ => is_pair p = true end.
Definition first_is_pair (l : list spos) : Prop := match l with [] => True | p :: _ => is_pair p = true end.

Record wfL (a : segment) : Prop := {
  wl_nodup : nodupkey (positions a);
  wl_score : sscore a = sum_scores (positions a);
  wl_last : last_is_pair (positions a);
  wl_le : forall ce, end_position a = Ok ce -> forall p, In p (positions a) -> is_pair p = true -> le_any p ce = true }.
Record wfR (b : segment) : Prop := {
  wr_nodup : nodupkey (positions b);
  wr_score : sscore b = sum_scores (positions b);
  wr_first : first_is_pair (positions b) }.

Lemma last_is_pair_skipn l n : last_is_pair l -> last_is_pair (skipn n l).
Proof. unfold last_is_pair. intros H. destruct (Nat.le_gt_cases (length l) n) as [Hge|Hlt]; [rewrite skipn_all2 by lia; exact I|].
  rewrite <- (firstn_skipn n l) in H. rewrite rev_app_distr in H. destruct (rev (skipn n l)) as [|p t] eqn:E; [exact I|]. cbn in H. exact H. Qed.

Lemma trim_rev_pair p t e : is_pair p = true -> trim_rev (p :: t) e = Ok (p :: t).
Proof. intros H. cbn. rewrite H. reflexivity. Qed.

Lemma slice_left a cs ce : wfL a -> end_position a = Ok ce ->
  exists n, slice a cs ce = Ok (seg_create (skipn n (positions a)) (speak a)).
Proof.
  intros [Hnd Hsc Hlast Hle] Hce. unfold slice.
  destruct (dropwhile_skipn (fun p => less_both p cs) (positions a)) as (n & -> & Hn). exists n.
  rewrite takewhile_all.
  - destruct (skipn n (positions a)) as [|x t] eqn:E; [reflexivity|].
    pose proof (last_is_pair_skipn (positions a) n Hlast) as Hl. rewrite E in Hl. unfold last_is_pair in Hl.
    destruct (rev (x :: t)) as [|p r] eqn:Er; [apply (f_equal (@length _)) in Er; rewrite rev_length in Er; discriminate|].
    rewrite (trim_rev_pair p r ce Hl). cbn [bind]. rewrite <- Er, rev_involutive. reflexivity.
  - intros x Hx. destruct (is_pair x) eqn:Ep; [|reflexivity]. cbn. apply (Hle ce Hce x); [|exact Ep].
    rewrite <- (firstn_skipn n (positions a)). apply in_or_app. right. exact Hx.
Qed.

Lemma trim_rev_suffix rl e out : trim_rev rl e = Ok out -> exists k, out = skipn k rl.
Proof. revert out; induction rl as [|p t IH]; intros out H; [injection H as <-; exists 0%nat; reflexivity|]. cbn in H.
  destruct (negb (is_pair p) && negb (le_any p e)).
  - destruct (IH out H) as (k & ->). exists (S k). reflexivity.
  - injection H as <-. exists 0%nat. reflexivity. Qed.


Lemma pv_less_both_irrefl x : pv_less_both x x = false.
Proof. unfold pv_less_both. destruct (isnull x); [reflexivity|]. rewrite Z.ltb_irrefl. reflexivity. Qed.

Lemma slice_right b cs ce s : wfR b -> start_position b = Ok cs -> slice b cs ce = Ok s ->
  exists m, positions s = firstn m (positions b) /\ speak s = speak b /\ sscore s = sum_scores (positions s).
Proof.
  intros [Hnd Hsc Hfirst] Hcs Hs. unfold slice in Hs.
  assert (Hdw : dropwhile (fun p => less_both p cs) (positions b) = positions b).
  { unfold start_position, seg_empty in Hcs. unfold first_is_pair in Hfirst.
    destruct (positions b) as [|p0 t] eqn:E; [reflexivity|]. cbn [dropwhile].
    unfold aligned in Hcs. rewrite E in Hcs. cbn [filter] in Hcs. rewrite Hfirst in Hcs. injection Hcs as <-.
    unfold less_both, pv_of. unfold is_pair in Hfirst. destruct (ap p0) as [r q sft src| |]; try discriminate.
    rewrite pv_less_both_irrefl. reflexivity. }
  rewrite Hdw in Hs.
  destruct (takewhile_firstn (fun p => negb (is_pair p) || le_any p ce) (positions b)) as (m & Em & Hm). rewrite Em in Hs.
  destruct (firstn m (positions b)) as [|x t] eqn:E.
  - injection Hs as <-. exists 0%nat. cbn. repeat split; reflexivity.
  - cbn [bind] in Hs. destruct (trim_rev (rev (x :: t)) ce) as [rl|] eqn:Et; [|discriminate]. cbn in Hs. injection Hs as <-.
    destruct (trim_rev_suffix _ _ _ Et) as (k & ->). rewrite <- E. rewrite skipn_rev, rev_involutive, firstn_firstn.
    eexists. cbn. repeat split; reflexivity.
Qed.

(* ---------- one resolution step only trims the end of the left and the start of the right member ---------- *)
Lemma seg_sub_suffix a n : nodupkey (positions a) ->
  positions (seg_sub a (skipn n (positions a))) = firstn n (positions a).
Proof. intros H. unfold seg_sub, seg_create. cbn [positions]. apply remove_suffix. exact H. Qed.
Lemma seg_sub_prefix b m : nodupkey (positions b) ->
  positions (seg_sub b (firstn m (positions b))) = skipn m (positions b).
Proof. intros H. unfold seg_sub, seg_create. cbn [positions]. apply remove_prefix. exact H. Qed.

Definition trimmed_left (a a' : segment) : Prop :=
  (exists n, positions a' = firstn n (positions a)) /\ speak a' = speak a /\ sscore a' = sum_scores (positions a').
Definition trimmed_right (b b' : segment) : Prop :=
  (exists m, positions b' = skipn m (positions b)) /\ speak b' = speak b /\ sscore b' = sum_scores (positions b').

Lemma trimmed_left_refl a : sscore a = sum_scores (positions a) -> trimmed_left a a.
Proof. intros H. split; [exists (length (positions a)); rewrite firstn_all; reflexivity | split; [reflexivity | exact H]]. Qed.
Lemma trimmed_right_refl b : sscore b = sum_scores (positions b) -> trimmed_right b b.
Proof. intros H. split; [exists 0%nat; reflexivity | split; [reflexivity | exact H]]. Qed.

Theorem resolve_pair_subrun a b a' b' : wfL a -> wfR b -> resolve_pair a b = Ok (a', b') ->
  trimmed_left a a' /\ trimmed_right b b'.
Proof.
  intros HL HR H. pose proof (wl_score a HL) as HsA. pose proof (wr_score b HR) as HsB.
  unfold resolve_pair in H.
  destruct (seg_empty a) eqn:Ea; [injection H as <- <-; split; [apply trimmed_left_refl | apply trimmed_right_refl]; assumption|].
  destruct (end_overlaps a b) as [ov|] eqn:Eov; [|discriminate]. cbn [bind] in H.
  destruct ov; cbn [negb] in H; [|injection H as <- <-; split; [apply trimmed_left_refl | apply trimmed_right_refl]; assumption].
  destruct (start_position b) as [cs|] eqn:Ecs; [|discriminate]. cbn [bind] in H.
  destruct (end_position a) as [ce|] eqn:Ece; [|discriminate]. cbn [bind] in H.
  destruct (slice_left a cs ce HL Ece) as (n & Esl). rewrite Esl in H. cbn [bind] in H.
  destruct (slice b cs ce) as [rsub|] eqn:Esr; [|discriminate]. cbn [bind] in H.
  destruct (slice_right b cs ce rsub HR Ecs Esr) as (m & Em & Hpk & Hrs).
  set (lsub := seg_create (skipn n (positions a)) (speak a)) in *.
  assert (HsubL : forall k, trimmed_left a (seg_sub a (skipn k (positions lsub)))).
  { intros k. unfold lsub. cbn [positions seg_create]. rewrite skipn_skipn'. split; [exists (k + n)%nat; apply seg_sub_suffix; apply HL|]. split; reflexivity. }
  assert (HsubR : forall k, trimmed_right b (seg_sub b (firstn k (positions rsub)))).
  { intros k. rewrite Em, firstn_firstn. split; [exists (Nat.min k m); apply seg_sub_prefix; apply HR|]. split; reflexivity. }
  assert (HsubL0 : trimmed_left a (seg_sub a (positions lsub))) by (apply (HsubL 0%nat)).
  assert (HsubR0 : trimmed_right b (seg_sub b (positions rsub))).
  { rewrite <- (firstn_all (positions rsub)). apply HsubR. }
  destruct (Nat.eqb (length (seg_labels (speak rsub <? speak lsub) lsub)) (length (seg_labels (speak rsub <? speak lsub) rsub))).
  - destruct (Nat.eqb (optimal_merge_index _ _) 0).
    + injection H as <- <-. split; [exact HsubL0 | apply trimmed_right_refl; exact HsB].
    + destruct (Nat.eqb (optimal_merge_index _ _) _).
      * injection H as <- <-. split; [apply trimmed_left_refl; exact HsA | exact HsubR0].
      * injection H as <- <-. split; [apply HsubL | apply HsubR].
  - destruct (sscore rsub <? sscore lsub).
    + injection H as <- <-. split; [apply trimmed_left_refl; exact HsA | exact HsubR0].
    + injection H as <- <-. split; [exact HsubL0 | apply trimmed_right_refl; exact HsB].
Qed.
Print Assumptions resolve_pair_subrun.
